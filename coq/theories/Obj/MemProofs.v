(** C18 — the in-memory and mapped stores: every stored slice hashes to its
    key whatever the clients do with the slices they hold, provided [Put]
    stores a copy and [Get] hands out a copy. *)
From Coq Require Import List NArith ZArith Bool Lia.
From Verif Require Import Lib.Bytes Obj.Base Obj.Mem.
Import ListNotations.

Section Proofs.
Variable D : bytes -> bytes.
Notation HK := (HkM D).
Notation mstep := (mem_step D true true).
Notation mrun := (mem_run D true true).

Record mem_ok (st : memst) : Prop := mkMemOk {
  ok_blobs : forall k id, lookup_key k (blobs st) = Some id ->
      (exists c, lookup_nat id (heap st) = Some c /\ HK c = k) /\ holds id st = false;
  ok_heap : forall id c, lookup_nat id (heap st) = Some c -> id < mnext st;
  ok_reach : forall id, holds id st = true -> id < mnext st
}.

Lemma mem_empty_ok : mem_ok mem_empty.
Proof. constructor; cbn; intros; discriminate. Qed.

Lemma holds_cons id x st h b n :
  holds id (mkMem h b n (x :: reach st)) = Nat.eqb id x || holds id st.
Proof. reflexivity. Qed.

(** A new cell does not disturb what the store keeps. *)
Lemma alloc_ok st c client :
  mem_ok st -> mem_ok (fst (alloc st c client)).
Proof.
  intros [Hb Hh Hr]. unfold alloc. cbn [fst].
  constructor; cbn [heap blobs mnext reach].
  - intros k id Hl. destruct (Hb k id Hl) as [(c0 & Hc & Hk) Hnh].
    assert (Hlt : id < mnext st) by eauto.
    split.
    + exists c0. split; [|assumption]. rewrite lookup_set_nat_other by lia. assumption.
    + destruct client; [|exact Hnh].
      unfold holds in *. cbn [reach existsb].
      replace (Nat.eqb id (mnext st)) with false by (symmetry; apply Nat.eqb_neq; lia).
      exact Hnh.
  - intros id c0 Hl. destruct (Nat.eq_dec id (mnext st)) as [->|Hne]; [lia|].
    rewrite lookup_set_nat_other in Hl by assumption. apply Hh in Hl. lia.
  - intros id Hi. destruct client.
    + unfold holds in *. cbn [reach existsb] in Hi. apply orb_true_iff in Hi.
      destruct Hi as [Hi|Hi]; [apply Nat.eqb_eq in Hi; lia|]. apply Hr in Hi. lia.
    + apply Hr in Hi. lia.
Qed.

Lemma alloc_facts st c client :
  let st1 := fst (alloc st c client) in
  lookup_nat (mnext st) (heap st1) = Some c /\
  snd (alloc st c client) = mnext st /\
  blobs st1 = blobs st /\
  (client = false -> reach st1 = reach st).
Proof.
  unfold alloc. cbn. rewrite Nat.eqb_refl. repeat split; auto. now intros ->.
Qed.

(** Storing an unheld cell whose content is [c] under [HK c]. *)
Lemma do_put_ok st id c :
  mem_ok st -> lookup_nat id (heap st) = Some c -> holds id st = false ->
  mem_ok (do_put D st id c).
Proof.
  intros [Hb Hh Hr] Hl Hn. unfold do_put.
  constructor; cbn [heap blobs mnext reach]; auto.
  intros k id' Hk. cbn in Hk. destruct (bytes_eqb k (HK c)) eqn:E.
  - apply bytes_eqb_eq in E. injection Hk as <-. split; [|exact Hn]. eauto.
  - now apply Hb.
Qed.

Lemma fresh_not_held st : mem_ok st -> holds (mnext st) st = false.
Proof.
  intros [_ _ Hr]. destruct (holds (mnext st) st) eqn:E; [|reflexivity].
  apply Hr in E. lia.
Qed.

Lemma put_fresh_ok st c :
  mem_ok st ->
  mem_ok (do_put D (fst (alloc st c false)) (snd (alloc st c false)) c).
Proof.
  intros Hok. pose proof (alloc_facts st c false) as (F1 & F2 & F3 & F4).
  apply do_put_ok.
  - now apply alloc_ok.
  - rewrite F2. exact F1.
  - rewrite F2. unfold holds. rewrite (F4 eq_refl). now apply fresh_not_held.
Qed.

Theorem mem_step_ok st op : mem_ok st -> mem_ok (fst (mstep st op)).
Proof.
  intros Hok. destruct op as [bs|id bs|id|s|k|k|k|s|k|k]; cbn [mem_step].
  - (* alloc *)
    pose proof (alloc_ok st bs true Hok). destruct (alloc st bs true). exact H.
  - (* a client overwrites a slice it holds: never one of the store's *)
    destruct (holds id st) eqn:Eh; [|exact Hok]. cbn [fst].
    destruct Hok as [Hb Hh Hr]. constructor; cbn [heap blobs mnext reach]; auto.
    + intros k id' Hl. destruct (Hb k id' Hl) as [(c0 & Hc & Hk) Hnh].
      split; [|exact Hnh]. exists c0. split; [|assumption].
      rewrite lookup_set_nat_other; [assumption|]. intros ->. congruence.
    + intros id' c0 Hl. destruct (Nat.eq_dec id' id) as [->|Hne]; [now apply Hr|].
      rewrite lookup_set_nat_other in Hl by assumption. eauto.
  - (* Put: a copy is stored *)
    destruct (holds id st); [|exact Hok].
    destruct (lookup_nat id (heap st)) as [c|]; [|exact Hok].
    pose proof (put_fresh_ok st c Hok). destruct (alloc st c false). exact H.
  - (* Create *)
    destruct (drain s) as [c [| |e]]; try exact Hok.
    pose proof (put_fresh_ok st c Hok). destruct (alloc st c false). exact H.
  - (* Get: a copy is handed out *)
    destruct (get_slice st k) as [[id c]|]; [|exact Hok].
    pose proof (alloc_ok st c true Hok). destruct (alloc st c true). exact H.
  - destruct (get_slice st k) as [[id c]|]; exact Hok.
  - exact Hok.
  - (* mapped Create *)
    destruct (drain s) as [c [| |e]]; try exact Hok.
    pose proof (alloc_ok st c false Hok) as H1.
    destruct (alloc st c false) as [st1 idb]. cbn [fst] in H1.
    pose proof (put_fresh_ok st1 c H1). destruct (alloc st1 c false). exact H.
  - (* mapped Open *)
    destruct (get_slice st k) as [[id c]|]; [|exact Hok].
    pose proof (alloc_ok st c false Hok). destruct (alloc st c false). exact H.
  - exact Hok.
Qed.

Lemma get_slice_sound st k id c :
  mem_ok st -> get_slice st k = Some (id, c) -> HK c = k.
Proof.
  intros [Hb _ _]. unfold get_slice.
  destruct (lookup_key k (blobs st)) as [id'|] eqn:El; [|discriminate].
  destruct (Hb k id' El) as [(c0 & Hc & Hk) _]. rewrite Hc. now intros [= <- <-].
Qed.

(** What a result means for the operation that produced it. *)
Definition res_sound (op : mop) (r : mres) : Prop :=
  match op, r with
  | MOpen k, MRBytes c | MpOpen k, MRBytes c | MGet k, MRSlice _ c => HK c = k
  | MCreate s, MRKey k | MpCreate s, MRKey k => drain s = (fst (drain s), REof) /\ k = HK (fst (drain s))
  | MCreate s, MRErr e | MpCreate s, MRErr e => snd (drain s) = RFail e
  | _, _ => True
  end.

Theorem mem_step_sound st op : mem_ok st -> res_sound op (snd (mstep st op)).
Proof.
  intros Hok. destruct op as [bs|id bs|id|s|k|k|k|s|k|k]; cbn [mem_step res_sound].
  - destruct (alloc st bs true). exact I.
  - destruct (holds id st); exact I.
  - destruct (holds id st); [|exact I]. destruct (lookup_nat id (heap st)); [|exact I].
    destruct (alloc st b false). exact I.
  - destruct (drain s) as [c [| |e]] eqn:Ed; cbn [snd fst]; auto.
    destruct (alloc st c false). cbn. auto.
  - destruct (get_slice st k) as [[id c]|] eqn:Eg; [|exact I].
    pose proof (get_slice_sound _ _ _ _ Hok Eg). destruct (alloc st c true). exact H.
  - destruct (get_slice st k) as [[id c]|] eqn:Eg; [|exact I].
    exact (get_slice_sound _ _ _ _ Hok Eg).
  - exact I.
  - destruct (drain s) as [c [| |e]] eqn:Ed; cbn [snd fst]; auto.
    destruct (alloc st c false) as [st1 idb]. destruct (alloc st1 c false). cbn. auto.
  - destruct (get_slice st k) as [[id c]|] eqn:Eg; [|exact I].
    pose proof (get_slice_sound _ _ _ _ Hok Eg). destruct (alloc st c false). exact H.
  - exact I.
Qed.

(** A failing input changes nothing. *)
Theorem mem_failed_create_noop st s e :
  snd (drain s) = RFail e ->
  mstep st (MCreate s) = (st, MRErr e) /\ mstep st (MpCreate s) = (st, MRErr e).
Proof.
  intros Hd. cbn [mem_step]. destruct (drain s) as [c stt]. cbn in Hd. subst stt. auto.
Qed.

(** After a successful Create the key is present. *)
Theorem mem_create_then_has st s c :
  drain s = (c, REof) ->
  let st1 := fst (mstep st (MCreate s)) in
  snd (mstep st (MCreate s)) = MRKey (HK c) /\
  snd (mstep st1 (MHas (HK c))) = MRBool true /\
  snd (mstep st1 (MOpen (HK c))) = MRBytes c.
Proof.
  intros Hd. cbn [mem_step]. rewrite Hd.
  unfold alloc, do_put, get_slice. cbn [fst snd blobs heap].
  rewrite lookup_key_cons_same. cbn. rewrite Nat.eqb_refl.
  split; [reflexivity|split; reflexivity].
Qed.

(** CreateJSON then ReadJSON gives the value back, and whatever ReadJSON
    decodes was decoded from bytes that hash to the key. *)
Theorem mem_json_roundtrip {V} (enc : V -> option bytes) (dec : bytes -> option V) st v bs :
  enc v = Some bs -> dec bs = Some v ->
  snd (create_json D true true V enc st v) = MRKey (HK bs) /\
  read_json D true true V dec (fst (create_json D true true V enc st v)) (HK bs) = JVal V v.
Proof.
  intros He Hd. unfold create_json, read_json. rewrite He.
  destruct (mem_create_then_has st [(bs, REof)] bs eq_refl) as (H1 & _ & H3).
  split; [exact H1|]. rewrite H3, Hd. reflexivity.
Qed.

Theorem mem_read_json_from_matching_bytes {V} (dec : bytes -> option V) st k v :
  mem_ok st ->
  read_json D true true V dec st k = JVal V v ->
  exists c, HK c = k /\ dec c = Some v.
Proof.
  intros Hok. unfold read_json. pose proof (mem_step_sound st (MOpen k) Hok) as Hs.
  destruct (snd (mstep st (MOpen k))) as [| | |c| | |]; try discriminate.
  cbn [res_sound] in Hs. destruct (dec c) as [v'|] eqn:Ed; [|discriminate].
  intros [= <-]. eauto.
Qed.

(** Any sequence of operations (any interleaving of any number of clients,
    since every method is one critical section). *)
Theorem mem_run_ok : forall ops st,
  mem_ok st -> mem_ok (fst (mrun st ops)) /\ Forall2 res_sound ops (snd (mrun st ops)).
Proof.
  induction ops as [|op r IH]; intros st Hok; cbn [mem_run].
  - split; [exact Hok|constructor].
  - pose proof (mem_step_ok st op Hok) as H1. pose proof (mem_step_sound st op Hok) as H2.
    destruct (mstep st op) as [st1 x]. cbn [fst snd] in *.
    destruct (IH st1 H1) as [H3 H4]. destruct (mrun st1 r) as [st2 xs]. cbn [fst snd] in *.
    split; [exact H3|]. now constructor.
Qed.

(** ** The mapped store over a user-supplied Store ([mem_ustep]): whatever
    the Store returns TOGETHER with an error — bytes, a key, [true] — the
    mapped store hands on the error alone; a result reaches the caller only
    from a call in which the Store reported no error, and is then sound. *)
Notation ustep := (mem_ustep D true true).

Theorem mem_ustep_ok st sh op : mem_ok st -> mem_ok (fst (ustep st sh op)).
Proof.
  intros Hok. destruct sh as [|e|e]; cbn [mem_ustep]; [now apply mem_step_ok| |].
  - destruct op; try (now apply mem_step_ok); try exact Hok.
    destruct (drain s) as [c [| |x]]; exact Hok.
  - destruct op; try (now apply mem_step_ok); try exact Hok.
    destruct (drain s) as [c [| |x]] eqn:E; try exact Hok. cbn [fst]. now apply mem_step_ok.
Qed.

Definition ures_sound (sh : ushape) (op : mop) (r : mres) : Prop :=
  match op, r with
  | MpOpen k, MRBytes c => sh = UPlain /\ HK c = k
  | MpCreate s, MRKey k => sh = UPlain /\ drain s = (fst (drain s), REof) /\ k = HK (fst (drain s))
  | MpHas _, MRBool _ => sh = UPlain
  | _, _ => True
  end.

Theorem mem_ustep_sound st sh op : mem_ok st -> ures_sound sh op (snd (ustep st sh op)).
Proof.
  intros Hok. destruct sh as [|e|e]; cbn [mem_ustep].
  - pose proof (mem_step_sound st op Hok) as H. unfold ures_sound.
    destruct op; try exact I; destruct (snd (mstep st _)); try exact I; cbn [res_sound] in H; auto.
  - destruct op; unfold ures_sound; try exact I; cbn [snd]; try exact I;
      try (destruct (snd (mstep st _)); exact I).
    destruct (drain s) as [c [| |x]]; exact I.
  - destruct op; unfold ures_sound; try exact I; cbn [snd]; try exact I;
      try (destruct (snd (mstep st _)); exact I).
    destruct (drain s) as [c [| |x]]; exact I.
Qed.

Theorem mem_ustep_error_alone st k e :
  ustep st (UErr e) (MpOpen k) = (st, MRErr e) /\ ustep st (UBoth e) (MpOpen k) = (st, MRErr e) /\
  ustep st (UErr e) (MpHas k) = (st, MRErr e) /\ ustep st (UBoth e) (MpHas k) = (st, MRErr e).
Proof. repeat split. Qed.

Theorem mem_ustep_create_error st s c e :
  drain s = (c, REof) ->
  ustep st (UErr e) (MpCreate s) = (st, MRErr e) /\
  snd (ustep st (UBoth e) (MpCreate s)) = MRErr e.
Proof. intros Hd. cbn [mem_ustep]. rewrite Hd. split; reflexivity. Qed.

End Proofs.

Local Open Scope N_scope.

(** The code before the repair ([Get] returned the stored slice itself): a
    client that writes into the slice it got changes the stored object. *)
Example mem_legacy_get_refuted :
  let D := fun c : bytes => c in
  let k := hex_encode [1; 2; 3] in
  snd (mem_run D true false mem_empty
         [MCreate [([1; 2; 3], REof)]; MGet k; MMutate 0%nat [9; 2; 3]; MOpen k])
  = [MRKey k; MRSlice 0%nat [1; 2; 3]; MRSlice 0%nat [9; 2; 3]; MRBytes [9; 2; 3]].
Proof. vm_compute. reflexivity. Qed.

Example mem_repaired_get :
  let D := fun c : bytes => c in
  let k := hex_encode [1; 2; 3] in
  snd (mem_run D true true mem_empty
         [MCreate [([1; 2; 3], REof)]; MGet k; MMutate 1%nat [9; 2; 3]; MOpen k])
  = [MRKey k; MRSlice 1%nat [1; 2; 3]; MRSlice 1%nat [9; 2; 3]; MRBytes [1; 2; 3]].
Proof. vm_compute. reflexivity. Qed.
