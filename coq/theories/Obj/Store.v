(** C18 — model of the file-system object store (objects/fs.go).
    Definitions only.

    [fsObjects.Create] and [fsObjects.commit] are not written here by hand:
    they are lists of skeleton statements [sk] which the translator
    (gen/obj.go) extracts from the source, in source order, and which the
    interpreter [tstep] below executes one statement per step (one reader
    chunk per step inside the tee/hash loop).  Any number of threads run
    [Create] against one shared directory state; the scheduler picks the
    thread for every step and may make the system call of that step fail.

    State of the directory: [objs] = the regular files <dir>/<key>, [tmp] =
    the files of <dir>/tmp.  A temp file is named after the thread that
    created it (rand.HexBytes(32) names are assumed not to collide).  *)
From Coq Require Import List NArith ZArith Bool String.
From Verif Require Import Lib.Bytes Obj.Base.
Import ListNotations.
Local Open Scope N_scope.

(** Skeleton statements.  Create: *)
Inductive sk :=
| SkCreateTemp       (* f, err := createTemp(b.tmpDir); if err != nil { return "", err } *)
| SkDeferCleanup     (* defer func() { if f != nil { f.Close(); os.Remove(f.Name()) } }() *)
| SkTeeHash          (* tee := io.TeeReader(r, f); k, err := hashutil.HashReader(tee); if err != nil { return "", err } *)
| SkCloseTemp        (* if err := f.Close(); err != nil { return "", err } *)
| SkCheckKey         (* if !isValidKey(k) { panic(...) } *)
| SkCommit           (* if err := b.commit(k, f); err != nil { return "", err } *)
| SkDisarm           (* f = nil *)
| SkReturnKey        (* return k, nil *)
(** commit: *)
| CkLock             (* b.mu.Lock() *)
| CkDeferUnlock      (* defer b.mu.Unlock() *)
| CkStat             (* has, err := hasFile(target); if err != nil { return err } *)
| CkRemoveOrRename   (* if has { return os.Remove(f.Name()) }; return os.Rename(f.Name(), target) *)
| CkEnd              (* commit returns nil (inserted by the interpreter at the call) *)
(** a commit that copies instead of renaming (NOT the deployed code; used to
    show what the atomic rename is relied upon for): *)
| CkRemoveOrCopyHalf (* if has { remove temp }; else create the target and write the first half *)
| CkCopyRest         (* write the rest of the target, remove the temp file *)
| SkUnknown (text : string).

Definition sk_eqb (a b : sk) : bool :=
  match a, b with
  | SkCreateTemp, SkCreateTemp | SkDeferCleanup, SkDeferCleanup | SkTeeHash, SkTeeHash
  | SkCloseTemp, SkCloseTemp | SkCheckKey, SkCheckKey | SkCommit, SkCommit
  | SkDisarm, SkDisarm | SkReturnKey, SkReturnKey | CkLock, CkLock
  | CkDeferUnlock, CkDeferUnlock | CkStat, CkStat | CkRemoveOrRename, CkRemoveOrRename
  | CkEnd, CkEnd | CkRemoveOrCopyHalf, CkRemoveOrCopyHalf | CkCopyRest, CkCopyRest => true
  | SkUnknown x, SkUnknown y => String.eqb x y
  | _, _ => false
  end.

Fixpoint sks_eqb (a b : list sk) : bool :=
  match a, b with
  | [], [] => true
  | x :: a', y :: b' => sk_eqb x y && sks_eqb a' b'
  | _, _ => false
  end.

(** The statement order of the deployed code. *)
Definition fs_create_skel : list sk :=
  [SkCreateTemp; SkDeferCleanup; SkTeeHash; SkCloseTemp; SkCheckKey; SkCommit; SkDisarm; SkReturnKey].
Definition fs_commit_skel : list sk :=
  [CkLock; CkDeferUnlock; CkStat; CkRemoveOrRename].
(** the copying variant *)
Definition fs_commit_copy_skel : list sk :=
  [CkLock; CkDeferUnlock; CkStat; CkRemoveOrCopyHalf; CkCopyRest].

Inductive cerr :=
| ECreateTemp | EInput (e : N) | EWrite | EClose | EStat | ERemove | ERename.

Inductive cres := ROk (k : key) | RErr (e : cerr) | RPanic.

Record fsst := mkFs {
  objs : list (key * bytes);     (* <dir>/<key> *)
  tmp : list (nat * bytes);      (* <dir>/tmp/<name> *)
  lock : option nat              (* writer holding b.mu *)
}.

Record thr := mkThr {
  cont : list sk;          (* statements still to run *)
  tf : option nat;         (* the variable f: open temp file (its name), or nil *)
  armed : bool;            (* the deferred cleanup is registered *)
  udefer : bool;           (* commit's deferred Unlock is registered *)
  inp : script;            (* what the input reader will still return *)
  acc : bytes;             (* bytes written to the hash so far *)
  tk : option key;         (* k *)
  thas : option bool;      (* has *)
  res : option cres;       (* result, once returned *)
  committed : bool         (* ghost: this call renamed its temp file into place *)
}.

Definition new_thr (prog : list sk) (input : script) : thr :=
  mkThr prog None false false input [] None None None false.

Definition set_cont (t : thr) (c : list sk) : thr :=
  mkThr c (tf t) (armed t) (udefer t) (inp t) (acc t) (tk t) (thas t) (res t) (committed t).

Definition rm_tmp (n : nat) (st : fsst) : fsst :=
  mkFs (objs st) (remove_nat n (tmp st)) (lock st).

Definition set_lock (st : fsst) (l : option nat) : fsst :=
  mkFs (objs st) (tmp st) l.

Definition has_key (k : key) (st : fsst) : bool :=
  match lookup_key k (objs st) with Some _ => true | None => false end.

Section FS.
Variable D : bytes -> bytes.               (* SHA-256 *)
Variable excl : bool.                      (* true: one store object, b.mu excludes other committers;
                                              false: Lock never waits and excludes nobody - an upper bound
                                              for any number of store objects (each with its own mutex)
                                              opened on the same directory *)
Variable commit_prog : list sk.            (* body of commit *)
Variable klen : N.                         (* isValidKey *)
Variable kranges : list (N * N).

Definition Hk (c : bytes) : key := hex_encode (D c).

(** Leaving Create (return or panic): commit's deferred Unlock runs first if
    the call is inside commit, then Create's deferred cleanup. *)
Definition finish (st : fsst) (t : thr) (r : cres) : fsst * thr :=
  let st1 := if udefer t then set_lock st None else st in
  let st2 := if armed t
             then match tf t with Some n => rm_tmp n st1 | None => st1 end
             else st1 in
  (st2, mkThr [] (tf t) (armed t) false (inp t) (acc t) (tk t) (thas t) (Some r) (committed t)).

(** One step of thread [tid].  [fault]: the system call made by this step
    (if any) fails.  [None]: the thread cannot move (finished, or waiting for
    the lock). *)
Definition tstep (fault : bool) (st : fsst) (tid : nat) (t : thr) : option (fsst * thr) :=
  match cont t with
  | [] => None
  | s :: rest =>
    match s with
    | SkCreateTemp =>
        if fault then Some (finish st t (RErr ECreateTemp))
        else Some (mkFs (objs st) (set_nat tid [] (tmp st)) (lock st),
                   mkThr rest (Some tid) (armed t) (udefer t) (inp t) (acc t) (tk t) (thas t)
                         (res t) (committed t))
    | SkDeferCleanup =>
        Some (st, mkThr rest (tf t) true (udefer t) (inp t) (acc t) (tk t) (thas t)
                        (res t) (committed t))
    | SkTeeHash =>
        match tf t with
        | None => Some (finish st t RPanic)          (* write through a nil *os.File *)
        | Some n =>
          match inp t with
          | [] =>                                     (* (0, io.EOF) *)
              Some (st, mkThr rest (tf t) (armed t) (udefer t) [] (acc t)
                              (Some (Hk (acc t))) (thas t) (res t) (committed t))
          | (chunk, stt) :: more =>
              let wfail := match chunk with [] => false | _ => fault end in
              if wfail then Some (finish st t (RErr EWrite))
              else
                let cur := match lookup_nat n (tmp st) with Some c => c | None => [] end in
                let st' := match chunk with
                           | [] => st
                           | _ => mkFs (objs st) (set_nat n (cur ++ chunk) (tmp st)) (lock st)
                           end in
                let acc' := acc t ++ chunk in
                match stt with
                | RNil =>
                    Some (st', mkThr (s :: rest) (tf t) (armed t) (udefer t) more acc'
                                    (tk t) (thas t) (res t) (committed t))
                | REof =>
                    Some (st', mkThr rest (tf t) (armed t) (udefer t) more acc'
                                    (Some (Hk acc')) (thas t) (res t) (committed t))
                | RFail e =>
                    Some (finish st'
                            (mkThr (s :: rest) (tf t) (armed t) (udefer t) more acc'
                                   (tk t) (thas t) (res t) (committed t))
                            (RErr (EInput e)))
                end
          end
        end
    | SkCloseTemp =>
        if fault then Some (finish st t (RErr EClose)) else Some (st, set_cont t rest)
    | SkCheckKey =>
        match tk t with
        | Some k => if valid_key klen kranges k then Some (st, set_cont t rest)
                    else Some (finish st t RPanic)
        | None => Some (finish st t RPanic)
        end
    | SkCommit => Some (st, set_cont t (commit_prog ++ CkEnd :: rest))
    | CkLock =>
        if excl then
          match lock st with
          | None => Some (set_lock st (Some tid), set_cont t rest)
          | Some _ => None
          end
        else Some (st, set_cont t rest)
    | CkDeferUnlock =>
        Some (st, mkThr rest (tf t) (armed t) true (inp t) (acc t) (tk t) (thas t)
                        (res t) (committed t))
    | CkStat =>
        match tk t with
        | None => Some (finish st t RPanic)
        | Some k =>
            if fault then Some (finish st t (RErr EStat))
            else Some (st, mkThr rest (tf t) (armed t) (udefer t) (inp t) (acc t) (tk t)
                                 (Some (has_key k st)) (res t) (committed t))
        end
    | CkRemoveOrRename =>
        match thas t, tf t, tk t with
        | Some true, Some n, Some _ =>
            if fault then Some (finish st t (RErr ERemove))
            else Some (rm_tmp n st, set_cont t rest)
        | Some false, Some n, Some k =>
            if fault then Some (finish st t (RErr ERename))
            else
              match lookup_nat n (tmp st) with
              | None => Some (finish st t (RErr ERename))      (* no such file *)
              | Some c =>
                  Some (mkFs ((k, c) :: objs st) (remove_nat n (tmp st)) (lock st),
                        mkThr rest (tf t) (armed t) (udefer t) (inp t) (acc t) (tk t) (thas t)
                              (res t) true)
              end
        | _, _, _ => Some (finish st t RPanic)
        end
    | CkRemoveOrCopyHalf =>
        match thas t, tf t, tk t with
        | Some true, Some n, Some _ => Some (rm_tmp n st, set_cont t rest)
        | Some false, Some n, Some k =>
            match lookup_nat n (tmp st) with
            | None => Some (finish st t (RErr ERename))
            | Some c =>
                Some (mkFs ((k, firstn (List.length c / 2) c) :: objs st) (tmp st) (lock st),
                      set_cont t rest)
            end
        | _, _, _ => Some (finish st t RPanic)
        end
    | CkCopyRest =>
        match thas t, tf t, tk t with
        | Some true, _, _ => Some (st, set_cont t rest)       (* nothing to copy *)
        | _, Some n, Some k =>
            match lookup_nat n (tmp st) with
            | None => Some (finish st t (RErr ERename))
            | Some c =>
                Some (mkFs ((k, c) :: objs st) (remove_nat n (tmp st)) (lock st),
                      mkThr rest (tf t) (armed t) (udefer t) (inp t) (acc t) (tk t) (thas t)
                            (res t) true)
            end
        | _, _, _ => Some (finish st t RPanic)
        end
    | CkEnd =>
        Some (if udefer t then set_lock st None else st,
              mkThr rest (tf t) (armed t) false (inp t) (acc t) (tk t) (thas t)
                    (res t) (committed t))
    | SkDisarm =>
        Some (st, mkThr rest None (armed t) (udefer t) (inp t) (acc t) (tk t) (thas t)
                        (res t) (committed t))
    | SkReturnKey =>
        match tk t with
        | Some k => Some (finish st t (ROk k))
        | None => Some (finish st t RPanic)
        end
    | SkUnknown _ => None
    end
  end.

(** ** The whole system *)

Record sys := mkSys { sfs : fsst; sthr : list thr }.

Fixpoint upd_nth {A} (n : nat) (a : A) (l : list A) : list A :=
  match l, n with
  | [], _ => []
  | _ :: r, O => a :: r
  | x :: r, S n' => x :: upd_nth n' a r
  end.

(** A schedule entry: which thread moves, and whether its system call fails.
    Entries naming a thread that cannot move are skipped. *)
Definition sys_step (s : sys) (e : nat * bool) : sys :=
  match nth_error (sthr s) (fst e) with
  | None => s
  | Some t =>
      match tstep (snd e) (sfs s) (fst e) t with
      | None => s
      | Some (st', t') => mkSys st' (upd_nth (fst e) t' (sthr s))
      end
  end.

Definition run (s : sys) (sched : list (nat * bool)) : sys := fold_left sys_step sched s.

Definition init_sys (prog : list sk) (objs0 : list (key * bytes)) (inputs : list script) : sys :=
  mkSys (mkFs objs0 [] None) (map (new_thr prog) inputs).

(** the same with files already lying in tmp/ (left by an earlier crash, or put
    there by somebody else) *)
Definition init_sys_tmp (prog : list sk) (objs0 : list (key * bytes)) (tmp0 : list (nat * bytes))
           (inputs : list script) : sys :=
  mkSys (mkFs objs0 tmp0 None) (map (new_thr prog) inputs).

Definition all_done (s : sys) : Prop := forall t, In t (sthr s) -> res t <> None.

(** ** Open / Has (one atomic file-system action each, under RLock) *)

Inductive ores := OFound (c : bytes) | ONotFound.

Definition fs_open (st : fsst) (k : key) : ores :=
  if valid_key klen kranges k
  then match lookup_key k (objs st) with Some c => OFound c | None => ONotFound end
  else ONotFound.

Definition fs_has (st : fsst) (k : key) : bool :=
  valid_key klen kranges k && has_key k st.

(** ** Sequential use: run one Create to completion without interference *)

Fixpoint run_thread (fuel : nat) (st : fsst) (tid : nat) (t : thr) : fsst * thr :=
  match fuel with
  | O => (st, t)
  | S f =>
      match tstep false st tid t with
      | Some (st', t') => run_thread f st' tid t'
      | None => (st, t)
      end
  end.

Definition create_fuel (input : script) : nat := List.length input + 20.

Definition seq_create (prog : list sk) (st : fsst) (input : script) : fsst * option cres :=
  let '(st', t') := run_thread (create_fuel input) st 0%nat (new_thr prog input) in
  (st', res t').

(** ** Guarded schedules: any discipline that only makes threads wait *)

Definition guard := sys -> nat * bool -> bool.

Definition gstep (g : guard) (s : sys) (e : nat * bool) : sys :=
  if g s e then sys_step s e else s.

Definition grun (g : guard) (s : sys) (sched : list (nat * bool)) : sys :=
  fold_left (gstep g) sched s.


(** ** Threads that call Open and Has: an observer performs its file-system
    action at some moment of the schedule and records the result *)

Inductive obsv := OOpen (k : key) | OHas (k : key).
Inductive oresv := ORes (r : ores) | OBool (b : bool).

Definition observe (st : fsst) (o : obsv) : oresv :=
  match o with
  | OOpen k => ORes (fs_open st k)
  | OHas k => OBool (fs_has st k)
  end.

Record msys := mkMsys { ms : sys; mo : list (obsv * option oresv) }.

Inductive mentry := ECreate (e : nat * bool) | EObserve (j : nat).

Definition mstep (g : guard) (og : sys -> nat -> bool) (s : msys) (e : mentry) : msys :=
  match e with
  | ECreate c => mkMsys (gstep g (ms s) c) (mo s)
  | EObserve j =>
      match nth_error (mo s) j with
      | Some (o, None) =>
          if og (ms s) j then mkMsys (ms s) (upd_nth j (o, Some (observe (sfs (ms s)) o)) (mo s))
          else s
      | _ => s
      end
  end.

Definition mrun (g : guard) (og : sys -> nat -> bool) (s : msys) (sched : list mentry) : msys :=
  fold_left (mstep g og) sched s.

Definition minit (prog : list sk) objs0 tmp0 inputs (obs : list obsv) : msys :=
  mkMsys (init_sys_tmp prog objs0 tmp0 inputs) (map (fun o => (o, None)) obs).


End FS.
