(** C18 — model of the in-memory store (objects/mem.go) and of the mapped
    store on top of it (objects/mapped.go).  Definitions only.

    Every method of [mem] is one critical section of [m.mu], so concurrent
    use is a sequence of whole operations.  What has to be modelled is
    ownership of byte slices: the store keeps slices, clients keep slices,
    and a client may overwrite any slice it can reach, at any time.  Slices
    are numbered cells of a heap; [reach] is the set of cells some client
    holds.  Whether [Put] stores a copy and whether [Get] returns a copy is
    read from the source by the translator ([put_copies], [get_copies]). *)
From Coq Require Import List NArith ZArith Bool.
From Verif Require Import Lib.Bytes Obj.Base.
Import ListNotations.

Record memst := mkMem {
  heap : list (nat * bytes);     (* backing arrays *)
  blobs : list (key * nat);      (* m.blobs: key -> slice *)
  mnext : nat;                   (* next fresh cell *)
  reach : list nat               (* cells held by clients *)
}.

Definition mem_empty : memst := mkMem [] [] 0 [].

Inductive mop :=
| MAlloc (bs : bytes)              (* a client makes a slice *)
| MMutate (id : nat) (bs : bytes)  (* a client overwrites a slice it holds *)
| MPut (id : nat)                  (* mem.Put(slice) *)
| MCreate (s : script)             (* mem.Create(reader) *)
| MGet (k : key)                   (* mem.Get: the client keeps the result *)
| MOpen (k : key)                  (* mem.Open, then read everything *)
| MHas (k : key)
| MpCreate (s : script)            (* mappedStore.Create over this store *)
| MpOpen (k : key)                 (* mappedStore.Open, then read everything *)
| MpHas (k : key).

Inductive mres :=
| MRKey (k : key)
| MRErr (e : N)
| MRSlice (id : nat) (c : bytes)
| MRBytes (c : bytes)
| MRNotFound
| MRBool (b : bool)
| MRBad.                            (* the client used a slice it does not hold *)

Definition holds (id : nat) (st : memst) : bool := existsb (Nat.eqb id) (reach st).

Section Mem.
Variable D : bytes -> bytes.
Variables put_copies get_copies : bool.

Definition HkM (c : bytes) : key := hex_encode (D c).

(** mem.put: m.blobs[Hash(bs)] = bs *)
Definition do_put (st : memst) (id : nat) (c : bytes) : memst :=
  mkMem (heap st) ((HkM c, id) :: blobs st) (mnext st) (reach st).

(** a new cell holding [c]; [client]: whether a client holds it *)
Definition alloc (st : memst) (c : bytes) (client : bool) : memst * nat :=
  (mkMem (set_nat (mnext st) c (heap st)) (blobs st) (S (mnext st))
         (if client then mnext st :: reach st else reach st),
   mnext st).

Definition get_slice (st : memst) (k : key) : option (nat * bytes) :=
  match lookup_key k (blobs st) with
  | None => None
  | Some id => match lookup_nat id (heap st) with
               | Some c => Some (id, c)
               | None => None
               end
  end.

Definition mem_step (st : memst) (op : mop) : memst * mres :=
  match op with
  | MAlloc bs => let '(st', id) := alloc st bs true in (st', MRSlice id bs)
  | MMutate id bs =>
      if holds id st
      then (mkMem (set_nat id bs (heap st)) (blobs st) (mnext st) (reach st), MRSlice id bs)
      else (st, MRBad)
  | MPut id =>
      if holds id st then
        match lookup_nat id (heap st) with
        | None => (st, MRBad)
        | Some c =>
            if put_copies
            then let '(st1, id') := alloc st c false in (do_put st1 id' c, MRKey (HkM c))
            else (do_put st id c, MRKey (HkM c))
        end
      else (st, MRBad)
  | MCreate s =>                                     (* io.ReadAll, then put *)
      match drain s with
      | (c, REof) => let '(st1, id') := alloc st c false in (do_put st1 id' c, MRKey (HkM c))
      | (_, RFail e) => (st, MRErr e)
      | (_, RNil) => (st, MRBad)
      end
  | MGet k =>
      match get_slice st k with
      | None => (st, MRNotFound)
      | Some (id, c) =>
          if get_copies
          then let '(st1, id') := alloc st c true in (st1, MRSlice id' c)
          else (mkMem (heap st) (blobs st) (mnext st) (id :: reach st), MRSlice id c)
      end
  | MOpen k =>
      match get_slice st k with
      | None => (st, MRNotFound)
      | Some (_, c) => (st, MRBytes c)
      end
  | MHas k =>
      (st, MRBool (match lookup_key k (blobs st) with Some _ => true | None => false end))
  | MpCreate s =>                                    (* io.Copy into a buffer, then s.Put *)
      match drain s with
      | (c, REof) =>
          let '(st1, idb) := alloc st c false in
          if put_copies
          then let '(st2, id') := alloc st1 c false in (do_put st2 id' c, MRKey (HkM c))
          else (do_put st1 idb c, MRKey (HkM c))
      | (_, RFail e) => (st, MRErr e)
      | (_, RNil) => (st, MRBad)
      end
  | MpOpen k =>                                      (* s.Get, bytes.NewReader *)
      match get_slice st k with
      | None => (st, MRNotFound)
      | Some (_, c) =>
          if get_copies
          then let '(st1, _) := alloc st c false in (st1, MRBytes c)
          else (st, MRBytes c)
      end
  | MpHas k =>
      (st, MRBool (match lookup_key k (blobs st) with Some _ => true | None => false end))
  end.

(** ** mappedStore over a user-supplied Store (objects/mapped.go takes any
    [Store]).  Such a Store may fail, and the interface lets it return the zero
    result with its error ([UErr]) or a non-zero result TOGETHER with an error
    ([UBoth]: the bytes it has, the key after storing, [true]).  mappedStore
    hands a result on only when the error is nil; otherwise the error alone.
    The Store answering here is this memory store, disturbed for one call. *)
Inductive ushape := UPlain | UErr (e : N) | UBoth (e : N).

Definition mem_ustep (st : memst) (sh : ushape) (op : mop) : memst * mres :=
  match sh with
  | UPlain => mem_step st op
  | UErr e =>
      match op with
      | MpOpen _ | MpHas _ => (st, MRErr e)
      | MpCreate s =>                       (* the input is read first; Put fails and stores nothing *)
          match drain s with
          | (_, REof) => (st, MRErr e)
          | (_, RFail x) => (st, MRErr x)
          | (_, RNil) => (st, MRBad)
          end
      | _ => mem_step st op
      end
  | UBoth e =>
      match op with
      | MpOpen _ | MpHas _ => (st, MRErr e)
      | MpCreate s =>                       (* Put stores, and reports an error with the key *)
          match drain s with
          | (_, REof) => (fst (mem_step st op), MRErr e)
          | (_, RFail x) => (st, MRErr x)
          | (_, RNil) => (st, MRBad)
          end
      | _ => mem_step st op
      end
  end.

Fixpoint mem_run (st : memst) (ops : list mop) : memst * list mres :=
  match ops with
  | [] => (st, [])
  | op :: r =>
      let '(st1, x) := mem_step st op in
      let '(st2, xs) := mem_run st1 r in (st2, x :: xs)
  end.

(** ** The JSON helpers of objects/json.go over this store.

    [CreateJSON] marshals and creates; [ReadJSON] opens and decodes the first
    JSON value of the stream.  encoding/json is not modelled: [enc] and [dec]
    are its marshaller and decoder as functions. *)
Section Json.
Variable V : Type.
Variable enc : V -> option bytes.          (* json.Marshal *)
Variable dec : bytes -> option V.          (* json.NewDecoder(r).Decode *)

Definition create_json (st : memst) (v : V) : memst * mres :=
  match enc v with
  | Some bs => mem_step st (MCreate [(bs, REof)])     (* b.Create(bytes.NewBuffer(bs)) *)
  | None => (st, MRBad)
  end.

Inductive jres := JVal (v : V) | JNotFound | JBadJson.

Definition read_json (st : memst) (k : key) : jres :=
  match snd (mem_step st (MOpen k)) with
  | MRBytes c => match dec c with Some v => JVal v | None => JBadJson end
  | _ => JNotFound
  end.
End Json.

End Mem.
