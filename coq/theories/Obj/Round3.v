(** C18 — round 3: statements about usage patterns that the harness now
    exercises: a store opened again on a directory that already holds objects
    (a restarted process), strings that are not keys, the staging file's name.
    Proofs only; the definitions are those of Obj/Base.v and Obj/Store.v. *)
From Coq Require Import List NArith ZArith Bool Lia.
From Verif Require Import Lib.Bytes Obj.Base Obj.Store Obj.StoreProofs Obj.StoreLive.
Import ListNotations.
Local Open Scope N_scope.

(** Whatever a generation of calls leaves in the directory is a well-formed
    initial directory for the next one: every theorem about [runs D objs0 ...]
    applies again to a store object opened later on the same directory, any
    number of times. *)
Theorem fs_restart_wf : forall D objs0 inputs sched,
  wf_objs D objs0 ->
  wf_objs D (objs (sfs (run D true fs_commit_skel std_key_len std_key_ranges
                            (init_sys fs_create_skel objs0 inputs) sched))).
Proof. intros D objs0 inputs sched Hwf k c Hl. eapply fs_objects_well_keyed; eauto. Qed.

(** Two generations: objects of the first are still there, unchanged, at
    every moment of the second. *)
Theorem fs_restart_keeps_objects : forall D objs0 in1 sched1 in2 sched2 k c,
  wf_objs D objs0 ->
  let gen1 := objs (sfs (run D true fs_commit_skel std_key_len std_key_ranges
                             (init_sys fs_create_skel objs0 in1) sched1)) in
  lookup_key k gen1 = Some c ->
  lookup_key k (objs (sfs (run D true fs_commit_skel std_key_len std_key_ranges
                               (init_sys fs_create_skel gen1 in2) sched2))) = Some c.
Proof.
  intros D objs0 in1 sched1 in2 sched2 k c Hwf gen1 Hl.
  pose proof (fs_objects_stable D gen1 in2 [] sched2 k c (fs_restart_wf D objs0 in1 sched1 Hwf)) as H.
  cbn [app run fold_left] in H. apply H. exact Hl.
Qed.

(** A string that is not a key is never found and never "had", whatever the
    directory holds — the check comes before the file system is touched. *)
Theorem invalid_key_never_found : forall klen kr st k,
  valid_key klen kr k = false ->
  fs_open klen kr st k = ONotFound /\ fs_has klen kr st k = false.
Proof. intros klen kr st k H. unfold fs_open, fs_has. now rewrite H. Qed.

(** A key is one plain file name: 64 characters, none of them a separator, a
    dot or NUL; so [filepath.Join(dir, key)] is a direct child of the store
    directory, different from the staging directory. *)
Theorem valid_key_plain_name : forall k,
  valid_key std_key_len std_key_ranges k = true ->
  length k = 64%nat /\ Forall (fun ch => ch <> 47 /\ ch <> 46 /\ ch <> 0 /\ ch <> 92) k.
Proof.
  intros k H. unfold valid_key in H. apply andb_true_iff in H as [Hl Hc]. split.
  - apply N.eqb_eq in Hl. unfold lenN, std_key_len in Hl. lia.
  - apply Forall_forall. intros ch Hin. rewrite forallb_forall in Hc. specialize (Hc ch Hin).
    unfold in_ranges, std_key_ranges in Hc. cbn [existsb fst snd] in Hc.
    rewrite orb_false_r in Hc. apply orb_true_iff in Hc as [Hc|Hc];
      apply andb_true_iff in Hc as [H1 H2]; apply N.leb_le in H1; apply N.leb_le in H2; lia.
Qed.

(** ** The input reader is consumed from where it stands

    A caller may hand in a reader that is not at its beginning (a
    *bytes.Reader, *os.File, *io.SectionReader ... after a header was read).
    What such a reader returns from now on is the script of the call; the
    content supplied is what lies between its current position and its end. *)
Definition reader_at (whole : bytes) (k : nat) : script := [(skipn k whole, REof)].

Lemma drain_reader_at whole k : drain (reader_at whole k) = (skipn k whole, REof).
Proof. reflexivity. Qed.

Theorem fs_create_from_current_position : forall D objs0 inputs sched tid t whole k r,
  (forall x, is_bytes (D x) /\ length (D x) = 32%nat) ->
  wf_objs D objs0 -> fault_free sched ->
  nth_error (sthr (run D true fs_commit_skel std_key_len std_key_ranges
                       (init_sys fs_create_skel objs0 inputs) sched)) tid = Some t ->
  nth_error inputs tid = Some (reader_at whole k) ->
  res t = Some r ->
  r = ROk (Hk D (skipn k whole)) /\
  lookup_key (Hk D (skipn k whole))
             (objs (sfs (run D true fs_commit_skel std_key_len std_key_ranges
                             (init_sys fs_create_skel objs0 inputs) sched))) <> None.
Proof.
  intros D objs0 inputs sched tid t whole k r HD Hwf Hff Ht Hin Hr.
  exact (fs_clean_input_returns_key D objs0 inputs sched tid t _ _ r HD Hwf Hff Ht Hin (drain_reader_at whole k) Hr).
Qed.

(** NOT the deployed code: a Create that, for seekable input, hashes first and
    then rewinds to the ABSOLUTE start before staging: what it stages and
    names is the whole underlying stream. *)
Definition reader_after_absolute_rewind (whole : bytes) (k : nat) : script := reader_at whole 0.

(** ** A failing input, whatever error value it fails with

    The model's script carries the error as a number; nothing in [tstep]
    inspects it.  [relabel g] replaces every error value of a script: the
    bytes delivered and the point of failure are the same. *)
Definition relabel_stat (g : N -> N) (st : rstat) : rstat :=
  match st with RFail e => RFail (g e) | x => x end.

Definition relabel (g : N -> N) (s : script) : script :=
  map (fun u => (fst u, relabel_stat g (snd u))) s.

Lemma drain_relabel g s : drain (relabel g s) = (fst (drain s), relabel_stat g (snd (drain s))).
Proof.
  induction s as [|[c st] r IH]; [reflexivity|].
  cbn [relabel map fst snd]. destruct st as [| |e]; cbn [relabel_stat drain].
  - fold (relabel g r). rewrite IH. destruct (drain r). reflexivity.
  - reflexivity.
  - reflexivity.
Qed.

Theorem fs_failed_input_any_error_value : forall D objs0 inputs sched tid t s0 g r e,
  wf_objs D objs0 ->
  nth_error (sthr (run D true fs_commit_skel std_key_len std_key_ranges
                       (init_sys fs_create_skel objs0 inputs) sched)) tid = Some t ->
  nth_error inputs tid = Some (relabel g s0) ->
  res t = Some r ->
  snd (drain s0) = RFail e ->
  (forall k, r <> ROk k) /\ committed t = false /\
  lookup_nat tid (tmp (sfs (run D true fs_commit_skel std_key_len std_key_ranges
                                (init_sys fs_create_skel objs0 inputs) sched))) = None.
Proof.
  intros D objs0 inputs sched tid t s0 g r e Hwf Ht Hin Hr He.
  assert (Hd : snd (drain (relabel g s0)) = RFail (g e)) by (rewrite drain_relabel; cbn [snd]; now rewrite He).
  destruct (fs_input_failure_is_error D objs0 inputs sched tid t _ r (g e) Hwf Ht Hin Hr Hd) as [A B].
  split; [exact A|]. split; [exact B|].
  now destruct (fs_create_result D objs0 inputs sched tid t _ r Hwf Ht Hin Hr) as (X & _ & _).
Qed.

(** NOT the deployed code: a reader type wrapped around the caller's reader
    that maps ONE error value to end-of-stream (e.g. io.ReadFull's
    io.ErrUnexpectedEOF taken for a short last block). *)
Definition eof_wrapper (bad : N) (s : script) : script :=
  map (fun u => (fst u, match snd u with RFail e => if e =? bad then REof else RFail e | x => x end)) s.
