(** C18 — obligations on the objects regenerated from /repo's source
    (Gen/ObjSkel.v).  Each is decided by computation; when the source changes
    shape, the corresponding [Lemma] stops checking. *)
From Coq Require Import List NArith ZArith Bool String.
From Verif Require Import Lib.Bytes Obj.Base Obj.Store Gen.ObjSkel.
Import ListNotations.
Local Open Scope string_scope.

Fixpoint strs_eqb (a b : list string) : bool :=
  match a, b with
  | [], [] => true
  | x :: a', y :: b' => String.eqb x y && strs_eqb a' b'
  | _, _ => false
  end.

Lemma sk_eqb_eq a b : sk_eqb a b = true -> a = b.
Proof.
  destruct a, b; cbn; try discriminate; try reflexivity.
  intros H. apply String.eqb_eq in H. now subst.
Qed.

Lemma sks_eqb_eq a : forall b, sks_eqb a b = true -> a = b.
Proof.
  induction a as [|x a IH]; intros [|y b]; cbn; try discriminate; [reflexivity|].
  intros H. apply andb_true_iff in H. destruct H as [H1 H2].
  apply sk_eqb_eq in H1. apply IH in H2. now subst.
Qed.

(** ** fsObjects.Create / commit: statement order, deferred cleanup, the
    point where [f = nil] disarms it, the locked region *)

Lemma gen_fs_create_frozen : gen_fs_create = fs_create_skel.
Proof. apply sks_eqb_eq. vm_compute. reflexivity. Qed.

Lemma gen_fs_commit_frozen : gen_fs_commit = fs_commit_skel.
Proof. apply sks_eqb_eq. vm_compute. reflexivity. Qed.

(** ** isValidKey *)

Lemma gen_key_shape : gen_key_shape_ok = true.
Proof. vm_compute. reflexivity. Qed.

Lemma gen_key_len_frozen : gen_key_len = std_key_len.
Proof. vm_compute. reflexivity. Qed.

Lemma gen_key_ranges_frozen : gen_key_ranges = std_key_ranges.
Proof. vm_compute. reflexivity. Qed.

(** The staging directory lives inside the store directory; its name can
    never be taken for an object. *)
Lemma gen_tmp_dir_not_a_key : valid_key gen_key_len gen_key_ranges gen_tmp_dir_name = false.
Proof. vm_compute. reflexivity. Qed.

(** ** createTemp: a staging file gets a name of at least 128 random bits
    from the repository's rand.HexBytes (the model names temp files after the
    creating call: names never collide) and lies in the directory given (the
    store's tmp/, never among the objects).  These three facts replace the
    frozen text of the function: renaming a variable breaks nothing, a
    shorter or predictable name does. *)
Definition std_tmp_name_src : string := "rand.HexBytes".

Lemma gen_tmp_name_ok :
  gen_tmp_name_src = std_tmp_name_src /\ (16 <=? gen_tmp_name_bytes)%N = true /\ gen_tmp_in_dir = true.
Proof. vm_compute. repeat split. Qed.

(** ** Create (fs, mem, mapped) touches its input reader only by handing it,
    as it is, to io.TeeReader / io.ReadAll / io.Copy: no Seek, no type
    assertion, no other method — the reader is consumed from wherever it
    stands to its end, which is what the model's script of a call is. *)
Lemma gen_create_reader_sequential : gen_create_uses_reader_sequentially = [true; true; true].
Proof. vm_compute. reflexivity. Qed.

(** What the tee / copy is fed with is the caller's reader itself, not a
    local reader type wrapped around it (which could turn one of the input's
    error values into an end of stream). *)
Definition std_reader_origin : list string := ["param r"; "param r"; "param r"].

Lemma gen_create_reader_unwrapped : gen_create_reader_origin = std_reader_origin.
Proof. vm_compute. reflexivity. Qed.

(** ** mem: slices are copied on the way in and on the way out *)

Lemma gen_mem_put_copies_ok : gen_mem_put_copies = true.
Proof. vm_compute. reflexivity. Qed.

Lemma gen_mem_get_copies_ok : gen_mem_get_copies = true.
Proof. vm_compute. reflexivity. Qed.

(** ** The small functions the hand-written model was written against *)

Definition frozen_texts : list (list string * list string) :=
  [ (gen_fs_Open,
     [ "if !isValidKey(key) { return nil, errcode.NotFoundf(""%q is not a valid key"", key) }";
       "f, err := b.open(key)";
       "if err != nil { if os.IsNotExist(err) { return nil, notFound(key) } return nil, err }";
       "return f, nil" ]);
    (gen_fs_open,
     [ "b.mu.RLock()"; "defer b.mu.RUnlock()"; "return os.Open(b.filename(key))" ]);
    (gen_fs_Has,
     [ "if !isValidKey(key) { return false, nil }"; "b.mu.RLock()"; "defer b.mu.RUnlock()";
       "return hasFile(b.filename(key))" ]);
    (gen_fs_filename, [ "return filepath.Join(b.dir, key)" ]);
    (gen_hasFile,
     [ "s, err := os.Stat(filename)";
       "if err != nil { if os.IsNotExist(err) { return false, nil } return false, err }";
       "return s.Mode().IsRegular(), nil" ]);
    (gen_newFSObjects,
     [ "tmpDir := filepath.Join(dir, ""tmp"")";
       "if err := os.MkdirAll(tmpDir, 0700); err != nil { return nil, err }";
       "return &fsObjects{ tmpDir: tmpDir, dir: dir, }, nil" ]);
    (gen_mem_Open,
     [ "m.mu.Lock()"; "defer m.mu.Unlock()"; "bs, found := m.blobs[h]";
       "if !found { return nil, notFound(h) }";
       "return io.NopCloser(bytes.NewBuffer(bs)), nil" ]);
    (gen_mem_Create,
     [ "bs, err := io.ReadAll(r)"; "if err != nil { return """", err }"; "return m.put(bs)" ]);
    (gen_mem_Put,
     [ "cp := make([]byte, len(bs))"; "copy(cp, bs)"; "return m.put(cp)" ]);
    (gen_mem_put,
     [ "m.mu.Lock()"; "defer m.mu.Unlock()"; "h := hashutil.Hash(bs)"; "m.blobs[h] = bs";
       "return h, nil" ]);
    (gen_mem_Get,
     [ "m.mu.Lock()"; "defer m.mu.Unlock()"; "bs, found := m.blobs[h]";
       "if !found { return nil, notFound(h) }";
       "cp := make([]byte, len(bs))"; "copy(cp, bs)"; "return cp, nil" ]);
    (gen_mem_Has,
     [ "m.mu.Lock()"; "defer m.mu.Unlock()"; "_, found := m.blobs[h]"; "return found, nil" ]);
    (gen_mapped_Open,
     [ "bs, err := b.s.Get(key)"; "if err != nil { return nil, err }";
       "return io.NopCloser(bytes.NewReader(bs)), nil" ]);
    (gen_mapped_Create,
     [ "buf := new(bytes.Buffer)";
       "if _, err := io.Copy(buf, r); err != nil { return """", err }";
       "return b.s.Put(buf.Bytes())" ]);
    (gen_mapped_Has, [ "return b.s.Has(key)" ]);
    (gen_NewMapped, [ "return &mappedStore{s: s}" ]);
    (gen_NewPsql, [ "if db == nil { return NewMemStore() }"; "return &psql{db: db}" ]);
    (gen_ReadJSON,
     [ "r, err := b.Open(k)"; "if err != nil { return err }"; "defer r.Close()";
       "if err := json.NewDecoder(r).Decode(v); err != nil { return err }"; "return r.Close()" ]);
    (gen_CreateJSON,
     [ "bs, err := json.Marshal(v)"; "if err != nil { return """", err }";
       "return b.Create(bytes.NewBuffer(bs))" ]);
    (gen_NewFS,
     [ "ret, err := newFSObjects(dir)"; "if err != nil { return nil, err }"; "return ret, nil" ]);
    (gen_notFound, [ "return errcode.NotFoundf(""object %q not found"", k)" ]);
    (gen_Hash, [ "ret := sha256.Sum256(bs)"; "return hex.EncodeToString(ret[:])" ]);
    (gen_HashStr,
     [ "h := sha256.New()"; "io.WriteString(h, s)"; "return hex.EncodeToString(h.Sum(nil))" ]);
    (gen_HashFile,
     [ "f, err := os.Open(p)"; "if err != nil { return """", err }"; "defer f.Close()";
       "ret, err := HashReader(f)"; "if err != nil { return """", err }";
       "if err := f.Close(); err != nil { return """", err }"; "return ret, nil" ]);
    (gen_HashReader,
     [ "h := sha256.New()"; "if _, err := io.Copy(h, r); err != nil { return """", err }";
       "return hex.EncodeToString(h.Sum(nil)), nil" ]);
    (gen_NewCheckReader,
     [ "if !strings.HasPrefix(h, ""sha256:"") { return nil, errcode.InvalidArgf(""only sha256 hash is supported"") }";
       "h2, err := hex.DecodeString(strings.TrimPrefix(h, ""sha256:""))";
       "if err != nil { return nil, errcode.Annotate(err, ""decode sha256 hash"") }";
       "if len(h2) != sha256.Size { return nil, errcode.InvalidArgf(""invalid hash size"") }";
       "return NewSHA256CheckReader(r, h2, n), nil" ]);
    (gen_NewSHA256CheckReader,
     [ "if n < 0 { n = -1 }";
       "return &CheckReader{ r: r, h: sha256.New(), wantSha256: h, wantLen: n, }" ]);
    (gen_CheckReader_Read,
     [ "n, err := r.r.Read(buf)";
       "if n > 0 { r.h.Write(buf[:n]) r.n += int64(n) }";
       "if err == io.EOF { if r.wantLen >= 0 && r.n != r.wantLen { return n, errcode.InvalidArgf( ""got %d bytes, want %d"", r.n, r.wantLen, ) } got := r.h.Sum(nil) if subtle.ConstantTimeCompare(got, r.wantSha256) == 0 { return n, errcode.InvalidArgf( ""got sha256 %x, want hash %x"", got, r.wantSha256, ) } return n, io.EOF }";
       "return n, err" ])
  ].

(** index of the first function whose text differs (for the error message) *)
Fixpoint first_diff (i : nat) (l : list (list string * list string)) : option nat :=
  match l with
  | [] => None
  | (a, b) :: r => if strs_eqb a b then first_diff (S i) r else Some i
  end.

Lemma gen_texts_frozen : first_diff 0 frozen_texts = None.
Proof. vm_compute. reflexivity. Qed.
