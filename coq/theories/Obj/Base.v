(** C18 — shared definitions: byte-string equality, association lists, hex
    keys, [isValidKey], and reader scripts (what an [io.Reader] returned,
    call by call).  Definitions and their basic lemmas only. *)
From Coq Require Import List NArith ZArith Bool Lia.
From Coq Require Import ZifyN ZifyNat ZifyBool.
From Verif Require Import Lib.Bytes.
Import ListNotations.
Local Open Scope N_scope.

(** ** Equality on byte strings *)

Fixpoint bytes_eqb (a b : bytes) : bool :=
  match a, b with
  | [], [] => true
  | x :: a', y :: b' => (x =? y) && bytes_eqb a' b'
  | _, _ => false
  end.

Lemma bytes_eqb_eq a b : bytes_eqb a b = true <-> a = b.
Proof.
  revert b; induction a as [|x a IH]; intros [|y b]; cbn [bytes_eqb];
    try (split; [discriminate|discriminate]); [tauto|].
  rewrite andb_true_iff, N.eqb_eq, IH. split.
  - intros [-> ->]; reflexivity.
  - intros [= -> ->]; auto.
Qed.

Lemma bytes_eqb_refl a : bytes_eqb a a = true.
Proof. now apply bytes_eqb_eq. Qed.

Lemma bytes_eqb_neq a b : bytes_eqb a b = false <-> a <> b.
Proof.
  rewrite <- bytes_eqb_eq. destruct (bytes_eqb a b); split; congruence.
Qed.

Definition lenN (b : bytes) : N := N.of_nat (length b).
Definition lenZ (b : bytes) : Z := Z.of_nat (length b).

(** ** Association lists (first binding wins) *)

Definition key := list N.       (* a key is the text of the hex digest *)

Fixpoint lookup_key {A} (k : key) (l : list (key * A)) : option A :=
  match l with
  | [] => None
  | (k', a) :: r => if bytes_eqb k k' then Some a else lookup_key k r
  end.

Fixpoint lookup_nat {A} (k : nat) (l : list (nat * A)) : option A :=
  match l with
  | [] => None
  | (k', a) :: r => if Nat.eqb k k' then Some a else lookup_nat k r
  end.

Fixpoint remove_nat {A} (k : nat) (l : list (nat * A)) : list (nat * A) :=
  match l with
  | [] => []
  | (k', a) :: r => if Nat.eqb k k' then remove_nat k r else (k', a) :: remove_nat k r
  end.

(** replace-or-insert, keeping one binding per key *)
Definition set_nat {A} (k : nat) (a : A) (l : list (nat * A)) : list (nat * A) :=
  (k, a) :: remove_nat k l.

Lemma lookup_remove_nat_same {A} k (l : list (nat * A)) : lookup_nat k (remove_nat k l) = None.
Proof.
  induction l as [|[k' a] r IH]; cbn; [reflexivity|].
  destruct (Nat.eqb k k') eqn:E; [exact IH|]. cbn. now rewrite E.
Qed.

Lemma lookup_remove_nat_other {A} k j (l : list (nat * A)) :
  j <> k -> lookup_nat j (remove_nat k l) = lookup_nat j l.
Proof.
  intros Hjk. induction l as [|[k' a] r IH]; cbn; [reflexivity|].
  destruct (Nat.eqb k k') eqn:E.
  - apply Nat.eqb_eq in E. subst k'.
    destruct (Nat.eqb j k) eqn:E2; [apply Nat.eqb_eq in E2; congruence|exact IH].
  - cbn. destruct (Nat.eqb j k'); [reflexivity|exact IH].
Qed.

Lemma lookup_set_nat_same {A} k (a : A) l : lookup_nat k (set_nat k a l) = Some a.
Proof. unfold set_nat. cbn. now rewrite Nat.eqb_refl. Qed.

Lemma lookup_set_nat_other {A} k j (a : A) l :
  j <> k -> lookup_nat j (set_nat k a l) = lookup_nat j l.
Proof.
  intros H. unfold set_nat. cbn.
  destruct (Nat.eqb j k) eqn:E; [apply Nat.eqb_eq in E; congruence|].
  now apply lookup_remove_nat_other.
Qed.

Lemma lookup_nat_all_none {A} (l : list (nat * A)) :
  (forall j, lookup_nat j l = None) -> l = [].
Proof.
  destruct l as [|[k a] r]; [reflexivity|].
  intros H. specialize (H k). cbn in H. now rewrite Nat.eqb_refl in H.
Qed.

Lemma lookup_key_cons_same {A} k (a : A) l : lookup_key k ((k, a) :: l) = Some a.
Proof. cbn. now rewrite bytes_eqb_refl. Qed.

Lemma lookup_key_cons_other {A} k k' (a : A) l :
  k <> k' -> lookup_key k ((k', a) :: l) = lookup_key k l.
Proof. intros H. cbn. apply bytes_eqb_neq in H. now rewrite H. Qed.

Lemma lookup_key_In {A} k (a : A) l : lookup_key k l = Some a -> In (k, a) l.
Proof.
  induction l as [|[k' a'] r IH]; cbn; [discriminate|].
  destruct (bytes_eqb k k') eqn:E.
  - apply bytes_eqb_eq in E. intros [= ->]. left. now subst.
  - intros H. right. auto.
Qed.

(** ** Hex text of a digest (lower case, as [hex.EncodeToString]) *)

Definition hex_digit (d : N) : N := if d <? 10 then 48 + d else 87 + d.

Fixpoint hex_encode (bs : bytes) : list N :=
  match bs with
  | [] => []
  | b :: r => hex_digit (b / 16) :: hex_digit (b mod 16) :: hex_encode r
  end.

(** Value of a hex character as [hex.DecodeString] reads it (both cases). *)
Definition unhex (c : N) : option N :=
  if (48 <=? c) && (c <=? 57) then Some (c - 48)
  else if (97 <=? c) && (c <=? 102) then Some (c - 87)
  else if (65 <=? c) && (c <=? 70) then Some (c - 55)
  else None.

Fixpoint hex_decode (s : list N) : option bytes :=
  match s with
  | [] => Some []
  | [_] => None
  | a :: b :: r =>
      match unhex a, unhex b, hex_decode r with
      | Some x, Some y, Some t => Some (16 * x + y :: t)
      | _, _, _ => None
      end
  end.

(** [isValidKey]: exact length, every character inside one of the ranges.
    Length and ranges are read from the source by the translator. *)
Definition in_ranges (rs : list (N * N)) (c : N) : bool :=
  existsb (fun r => (fst r <=? c) && (c <=? snd r)) rs.

Definition valid_key (klen : N) (rs : list (N * N)) (k : key) : bool :=
  (lenN k =? klen) && forallb (in_ranges rs) k.

Definition std_key_len : N := 64.
Definition std_key_ranges : list (N * N) := [(97, 122); (48, 57)].

Lemma hex_encode_length bs : length (hex_encode bs) = (2 * length bs)%nat.
Proof. induction bs as [|b r IH]; cbn [hex_encode length]; lia. Qed.

Lemma hex_digit_in_std d : d < 16 -> in_ranges std_key_ranges (hex_digit d) = true.
Proof.
  intros H. unfold in_ranges, std_key_ranges, hex_digit. cbn [existsb fst snd].
  destruct (N.ltb_spec d 10); lia.
Qed.

Lemma hex_encode_chars bs :
  is_bytes bs -> forallb (in_ranges std_key_ranges) (hex_encode bs) = true.
Proof.
  induction bs as [|b r IH]; intros H; [reflexivity|].
  inversion H as [|? ? Hb Hr]; subst. unfold is_byte in Hb.
  cbn [hex_encode forallb].
  rewrite !hex_digit_in_std, IH; auto.
  - apply N.mod_lt; lia.
  - apply N.div_lt_upper_bound; lia.
Qed.

(** The key of a 32-byte digest always passes [isValidKey]: the
    "invalid key generated" panic of [fsObjects.Create] is unreachable. *)
Lemma hex_key_valid d :
  is_bytes d -> length d = 32%nat ->
  valid_key std_key_len std_key_ranges (hex_encode d) = true.
Proof.
  intros Hb Hl. unfold valid_key, lenN. rewrite hex_encode_length, Hl.
  rewrite hex_encode_chars by assumption. reflexivity.
Qed.

Lemma unhex_hex_digit d : d < 16 -> unhex (hex_digit d) = Some d.
Proof.
  intros H. unfold unhex, hex_digit.
  destruct (N.ltb_spec d 10).
  - replace ((48 <=? 48 + d) && (48 + d <=? 57)) with true by lia. f_equal; lia.
  - replace ((48 <=? 87 + d) && (87 + d <=? 57)) with false by lia.
    replace ((97 <=? 87 + d) && (87 + d <=? 102)) with true by lia. f_equal; lia.
Qed.

Lemma hex_decode_encode bs : is_bytes bs -> hex_decode (hex_encode bs) = Some bs.
Proof.
  induction bs as [|b r IH]; intros H; [reflexivity|].
  inversion H as [|? ? Hb Hr]; subst. unfold is_byte in Hb.
  cbn [hex_encode hex_decode].
  rewrite !unhex_hex_digit, IH; auto.
  - f_equal. f_equal. pose proof (N.div_mod b 16). lia.
  - apply N.mod_lt; lia.
  - apply N.div_lt_upper_bound; lia.
Qed.

(** ** Reader scripts

    One element per [Read] call of the reader under consideration: the bytes
    it returned and the error it returned with them.  Go allows
    [(n>0, io.EOF)], [(0, io.EOF)], [(n>0, err)], [(0, nil)].  A script that
    runs out is continued by [(0, io.EOF)]. *)

Inductive rstat := RNil | REof | RFail (e : N).

Definition rstat_eqb (a b : rstat) : bool :=
  match a, b with
  | RNil, RNil | REof, REof => true
  | RFail x, RFail y => x =? y
  | _, _ => false
  end.

Definition script := list (bytes * rstat).

(** What a consumer that reads until the first error ([io.Copy],
    [io.ReadAll]) gets: the bytes and the terminating status. *)
Fixpoint drain (s : script) : bytes * rstat :=
  match s with
  | [] => ([], REof)
  | (c, RNil) :: r => let (c', e) := drain r in (c ++ c', e)
  | (c, st) :: _ => (c, st)
  end.

Lemma drain_not_nil s : snd (drain s) <> RNil.
Proof.
  induction s as [|[c st] r IH]; cbn; [discriminate|].
  destruct st; cbn; try discriminate.
  destruct (drain r); exact IH.
Qed.

Lemma drain_cons_nil c r : drain ((c, RNil) :: r) = (c ++ fst (drain r), snd (drain r)).
Proof. cbn. now destruct (drain r). Qed.
