(** C18 — model of hashutil.CheckReader (hashutil/check_reader.go) and of the
    string form of its constructor.  Definitions only.

    [D] is SHA-256 as a function from byte strings to 32-byte digests (a
    Section variable; the correspondence run instantiates it with a table
    computed by Go's crypto/sha256 for exactly the strings queried).  The
    streaming hash object [r.h] is represented by the bytes written to it so
    far; [h.Sum(nil)] is [D] of those bytes. *)
From Coq Require Import List NArith ZArith Bool.
From Verif Require Import Lib.Bytes Obj.Base.
Import ListNotations.
Local Open Scope N_scope.

Section CheckReader.
Variable D : bytes -> bytes.

(** Go's int64 addition: the mathematical sum reduced into [-2^63, 2^63). *)
Definition two63Z : Z := 9223372036854775808%Z.
Definition wrap64 (z : Z) : Z := ((z + two63Z) mod (2 * two63Z) - two63Z)%Z.

Record cr := mkCr {
  cr_n : Z;            (* r.n  : bytes passed on so far (an int64) *)
  cr_acc : bytes;      (* everything written to r.h *)
  cr_want : bytes;     (* r.wantSha256 *)
  cr_wantlen : Z       (* r.wantLen, -1 when no length was declared *)
}.

(** NewSHA256CheckReader *)
Definition new_cr (want : bytes) (n : Z) : cr :=
  mkCr 0 [] want (if (n <? 0)%Z then (-1)%Z else n).

Inductive cstat :=
| CNil                    (* nil error *)
| CEof                    (* io.EOF *)
| CFail (e : N)           (* the underlying reader's own error, passed through *)
| CBadLen                 (* InvalidArg "got %d bytes, want %d" *)
| CBadHash.               (* InvalidArg "got sha256 %x, want hash %x" *)

(** One call of [CheckReader.Read], given what the underlying reader
    returned to it. *)
Definition cr_read (r : cr) (u : bytes * rstat) : (bytes * cstat) * cr :=
  let '(chunk, st) := u in
  let r1 := match chunk with
            | [] => r
            | _ => mkCr (wrap64 (cr_n r + lenZ chunk)) (cr_acc r ++ chunk) (cr_want r) (cr_wantlen r)
            end in
  match st with
  | REof =>
      if (0 <=? cr_wantlen r1)%Z && negb (cr_n r1 =? cr_wantlen r1)%Z
      then ((chunk, CBadLen), r1)
      else if bytes_eqb (D (cr_acc r1)) (cr_want r1)   (* subtle.ConstantTimeCompare *)
      then ((chunk, CEof), r1)
      else ((chunk, CBadHash), r1)
  | RNil => ((chunk, CNil), r1)
  | RFail e => ((chunk, CFail e), r1)
  end.

(** Every call over a script of the underlying reader (the caller may go on
    calling [Read] after an error; the script says what the underlying reader
    did then). *)
Fixpoint cr_trace (r : cr) (s : script) : list (bytes * cstat) :=
  match s with
  | [] => []
  | u :: rest => let '(o, r') := cr_read r u in o :: cr_trace r' rest
  end.

(** A consumer that reads until the first non-nil error: bytes received and
    that error.  An exhausted script continues with [(0, io.EOF)]. *)
Fixpoint cr_consume (r : cr) (s : script) : bytes * cstat :=
  match s with
  | [] => let '((c, st), _) := cr_read r ([], REof) in (c, st)
  | u :: rest =>
      let '((c, st), r') := cr_read r u in
      match st with
      | CNil => let '(c', st') := cr_consume r' rest in (c ++ c', st')
      | _ => (c, st)
      end
  end.

(** ** NewCheckReader: the "sha256:<hex>" form *)

Definition sha256_prefix : list N := [115; 104; 97; 50; 53; 54; 58].   (* "sha256:" *)

Fixpoint strip_prefix (p s : list N) : option (list N) :=
  match p, s with
  | [], _ => Some s
  | x :: p', y :: s' => if x =? y then strip_prefix p' s' else None
  | _ :: _, [] => None
  end.

Inductive newcr_res := NewOk (r : cr) | NewBadScheme | NewBadHex | NewBadSize.

Definition new_check_reader (h : list N) (n : Z) : newcr_res :=
  match strip_prefix sha256_prefix h with
  | None => NewBadScheme
  | Some hx =>
      match hex_decode hx with
      | None => NewBadHex
      | Some want => if lenN want =? 32 then NewOk (new_cr want n) else NewBadSize
      end
  end.

End CheckReader.
