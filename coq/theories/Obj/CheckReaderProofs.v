(** C18 — proofs about the CheckReader model: what each [Read] call reports,
    for every script of the underlying reader (every chunking, both EOF
    styles, errors part-way). *)
From Coq Require Import List NArith ZArith Bool Lia.
From Coq Require Import ZifyN ZifyNat ZifyBool.
From Verif Require Import Lib.Bytes Obj.Base Obj.CheckReader.
Import ListNotations.
Local Open Scope N_scope.

Section Proofs.
Variable D : bytes -> bytes.

(** What a call must report when the bytes handed on so far (this call
    included) are [a] and the underlying reader returned status [st]. *)
Definition verdict (wl : Z) (want a : bytes) (st : rstat) : cstat :=
  match st with
  | RNil => CNil
  | RFail e => CFail e
  | REof =>
      if (0 <=? wl)%Z && negb (lenZ a =? wl)%Z then CBadLen
      else if bytes_eqb (D a) want then CEof else CBadHash
  end.

(** the count is exact as long as fewer than 2^63 bytes have gone through *)
Definition cr_ok (r : cr) : Prop := cr_n r = lenZ (cr_acc r) /\ (lenZ (cr_acc r) < two63Z)%Z.

Lemma wrap64_small z : (0 <= z < two63Z)%Z -> wrap64 z = z.
Proof. unfold wrap64, two63Z. intros Hz. rewrite Z.mod_small; lia. Qed.

Lemma lenZ_nonneg a : (0 <= lenZ a)%Z.
Proof. unfold lenZ. lia. Qed.

Lemma lenZ_app a b : lenZ (a ++ b) = (lenZ a + lenZ b)%Z.
Proof. unfold lenZ. rewrite app_length. lia. Qed.

Lemma cr_read_spec r chunk st :
  cr_ok r -> (lenZ (cr_acc r ++ chunk) < two63Z)%Z ->
  exists r',
    cr_read D r (chunk, st)
    = ((chunk, verdict (cr_wantlen r) (cr_want r) (cr_acc r ++ chunk) st), r') /\
    cr_ok r' /\ cr_acc r' = cr_acc r ++ chunk /\
    cr_want r' = cr_want r /\ cr_wantlen r' = cr_wantlen r.
Proof.
  intros [Hn Hb] Hsmall.
  destruct chunk as [|b chunk].
  - exists r. rewrite app_nil_r. unfold cr_read, verdict.
    rewrite Hn. destruct st; repeat split; auto.
    destruct ((0 <=? cr_wantlen r)%Z && negb (lenZ (cr_acc r) =? cr_wantlen r)%Z); [reflexivity|].
    destruct (bytes_eqb (D (cr_acc r)) (cr_want r)); reflexivity.
  - eexists (mkCr _ _ _ _). unfold cr_read, verdict. cbn [cr_n cr_acc cr_want cr_wantlen].
    rewrite Hn, <- lenZ_app.
    rewrite wrap64_small by (split; [apply lenZ_nonneg|exact Hsmall]).
    destruct st; repeat split; auto.
    destruct ((0 <=? cr_wantlen r)%Z && negb (lenZ (cr_acc r ++ b :: chunk) =? cr_wantlen r)%Z);
      [reflexivity|].
    destruct (bytes_eqb (D (cr_acc r ++ b :: chunk)) (cr_want r)); reflexivity.
Qed.

(** *** Every call, one by one *)

Fixpoint delivered (s : script) : bytes :=
  match s with
  | [] => []
  | (c, _) :: r => c ++ delivered r
  end.

Theorem cr_trace_spec : forall s r i,
  cr_ok r -> (lenZ (cr_acc r ++ delivered s) < two63Z)%Z ->
  nth_error (cr_trace D r s) i =
  match nth_error s i with
  | Some (chunk, st) =>
      Some (chunk, verdict (cr_wantlen r) (cr_want r)
                     (cr_acc r ++ delivered (firstn (S i) s)) st)
  | None => None
  end.
Proof.
  induction s as [|[chunk st] rest IH]; intros r i Hok Hsm.
  - destruct i; reflexivity.
  - cbn [delivered] in Hsm. rewrite app_assoc in Hsm.
    assert (Hsm1 : (lenZ (cr_acc r ++ chunk) < two63Z)%Z).
    { rewrite lenZ_app in Hsm. pose proof (lenZ_nonneg (delivered rest)). lia. }
    destruct (cr_read_spec r chunk st Hok Hsm1) as (r' & E & Hok' & Ha & Hw & Hl).
    cbn [cr_trace]. unfold bytes in *. rewrite E.
    destruct i as [|i].
    + cbn [nth_error firstn delivered]. now rewrite app_nil_r.
    + cbn [nth_error]. rewrite (IH r' i Hok') by (now rewrite Ha). rewrite Hw, Hl, Ha.
      destruct (nth_error rest i) as [[c2 st2]|]; [|reflexivity].
      cbn [firstn delivered]. now rewrite app_assoc.
Qed.

Lemma cr_trace_length s : forall r, length (cr_trace D r s) = length s.
Proof.
  induction s as [|u rest IH]; intros r; [reflexivity|].
  cbn [cr_trace]. destruct (cr_read D r u) as [o r']. cbn. now rewrite IH.
Qed.

(** *** The consumer's view *)

Theorem cr_consume_spec : forall s r,
  cr_ok r -> (lenZ (cr_acc r ++ fst (drain s)) < two63Z)%Z ->
  cr_consume D r s =
  (fst (drain s),
   verdict (cr_wantlen r) (cr_want r) (cr_acc r ++ fst (drain s)) (snd (drain s))).
Proof.
  induction s as [|[chunk st] rest IH]; intros r Hok Hsm.
  - destruct (cr_read_spec r [] REof Hok Hsm) as (r' & E & _).
    cbn [cr_consume drain fst snd]. unfold bytes in *. rewrite E. reflexivity.
  - assert (Hsm1 : (lenZ (cr_acc r ++ chunk) < two63Z)%Z).
    { destruct st.
      - rewrite drain_cons_nil in Hsm. cbn [fst] in Hsm. rewrite app_assoc, lenZ_app in Hsm.
        pose proof (lenZ_nonneg (fst (drain rest))). lia.
      - cbn [drain fst] in Hsm. exact Hsm.
      - cbn [drain fst] in Hsm. exact Hsm. }
    destruct (cr_read_spec r chunk st Hok Hsm1) as (r' & E & Hok' & Ha & Hw & Hl).
    cbn [cr_consume]. unfold bytes in *. rewrite E.
    destruct st.
    + cbn [verdict]. rewrite drain_cons_nil in Hsm. cbn [fst] in Hsm.
      rewrite (IH r' Hok') by (now rewrite Ha, <- app_assoc). rewrite Hw, Hl, Ha.
      rewrite drain_cons_nil. cbn [fst snd]. now rewrite app_assoc.
    + cbn [drain fst snd verdict].
      destruct (_ && _); [reflexivity|]. destruct (bytes_eqb _ _); reflexivity.
    + cbn [drain fst snd verdict]. reflexivity.
Qed.

Lemma new_cr_ok want n : cr_ok (new_cr want n).
Proof. split; reflexivity. Qed.

Definition declared (n : Z) : Z := if (n <? 0)%Z then (-1)%Z else n.

(** streams of fewer than 2^63 bytes (every stream there will ever be) *)
Definition small (b : bytes) : Prop := (lenZ b < two63Z)%Z.

(** End of stream is reported exactly when the underlying reader ended
    cleanly, the bytes passed on have the expected digest, and their number
    is the declared one (if one was declared). *)
Theorem check_reader_eof_iff : forall want n s,
  small (fst (drain s)) ->
  (snd (cr_consume D (new_cr want n) s) = CEof <->
   snd (drain s) = REof /\ D (fst (drain s)) = want /\
   ((n < 0)%Z \/ lenZ (fst (drain s)) = n)).
Proof.
  intros want n s Hsm. rewrite (cr_consume_spec s _ (new_cr_ok want n) Hsm).
  cbn [snd new_cr cr_wantlen cr_want cr_acc app].
  pose proof (drain_not_nil s) as Hnn.
  destruct (snd (drain s)) as [| |e] eqn:Est; cbn [verdict].
  - congruence.
  - set (a := fst (drain s)).
    destruct (Z.ltb_spec n 0).
    + cbn [Z.leb andb].
      replace ((0 <=? -1)%Z) with false by reflexivity. cbn [andb].
      destruct (bytes_eqb (D a) want) eqn:Eb.
      * apply bytes_eqb_eq in Eb. split; auto.
      * apply bytes_eqb_neq in Eb. split; [discriminate|]. intros (_ & H1 & _). congruence.
    + destruct (Z.eqb_spec (lenZ a) n) as [El|El].
      * replace ((0 <=? n)%Z && negb true) with false by (destruct (0 <=? n)%Z; reflexivity).
        destruct (bytes_eqb (D a) want) eqn:Eb.
        -- apply bytes_eqb_eq in Eb. split; auto.
        -- apply bytes_eqb_neq in Eb. split; [discriminate|]. intros (_ & H1 & _). congruence.
      * replace ((0 <=? n)%Z) with true by lia. cbn [andb negb].
        split; [discriminate|]. intros (_ & _ & [H1|H1]); lia.
  - split; [discriminate|]. intros (H1 & _). discriminate.
Qed.

(** Whatever is reported, the bytes handed to the consumer are exactly the
    bytes the underlying reader produced. *)
Theorem check_reader_transparent : forall want n s,
  small (fst (drain s)) ->
  fst (cr_consume D (new_cr want n) s) = fst (drain s).
Proof. intros want n s Hsm. now rewrite (cr_consume_spec s _ (new_cr_ok want n) Hsm). Qed.

(** The result is never "no error": the stream ends in EOF or in an error. *)
Theorem check_reader_terminal : forall want n s,
  small (fst (drain s)) ->
  snd (cr_consume D (new_cr want n) s) <> CNil.
Proof.
  intros want n s Hsm. rewrite (cr_consume_spec s _ (new_cr_ok want n) Hsm). cbn [snd].
  pose proof (drain_not_nil s). destruct (snd (drain s)); cbn [verdict]; try congruence.
  destruct (_ && _); [discriminate|]. destruct (bytes_eqb _ _); discriminate.
Qed.

(** An underlying error is passed through unchanged (never turned into EOF). *)
Theorem check_reader_passes_errors : forall want n s e,
  small (fst (drain s)) ->
  snd (drain s) = RFail e -> snd (cr_consume D (new_cr want n) s) = CFail e.
Proof.
  intros want n s e Hsm H. rewrite (cr_consume_spec s _ (new_cr_ok want n) Hsm). cbn [snd].
  now rewrite H.
Qed.

(** *** Corruption, truncation, extension

    [x] is the genuine stream, the reader was built with its digest and
    (optionally) its length; [s] delivers something else. *)

(** With a declared length: any stream of another length is an error — no
    assumption on the hash at all (all truncations and all extensions). *)
Theorem check_reader_wrong_length_is_error : forall x s,
  small (fst (drain s)) ->
  snd (drain s) = REof ->
  length (fst (drain s)) <> length x ->
  snd (cr_consume D (new_cr (D x) (lenZ x)) s) = CBadLen.
Proof.
  intros x s Hsm He Hl. rewrite (cr_consume_spec s _ (new_cr_ok _ _) Hsm).
  cbn [snd new_cr cr_wantlen cr_want cr_acc app]. rewrite He. cbn [verdict].
  replace (lenZ x <? 0)%Z with false by (unfold lenZ; lia).
  replace ((0 <=? lenZ x)%Z) with true by (unfold lenZ; lia).
  replace (lenZ (fst (drain s)) =? lenZ x)%Z with false by (unfold lenZ; lia).
  reflexivity.
Qed.

(** In general: a delivered stream [y <> x] is reported as EOF only if it
    collides with [x] under the hash.  (The only way past the check is a
    SHA-256 collision, which the theorem names.) *)
Theorem check_reader_wrong_bytes_is_error : forall x n s,
  small (fst (drain s)) ->
  (n < 0)%Z \/ n = lenZ x ->
  fst (drain s) <> x ->
  snd (cr_consume D (new_cr (D x) n) s) = CEof ->
  D (fst (drain s)) = D x /\ fst (drain s) <> x.
Proof.
  intros x n s Hsm _ Hne H. apply check_reader_eof_iff in H; tauto.
Qed.

Theorem check_reader_accepts_genuine : forall x n s,
  small x ->
  (n < 0)%Z \/ n = lenZ x ->
  drain s = (x, REof) ->
  cr_consume D (new_cr (D x) n) s = (x, CEof).
Proof.
  intros x n s Hsm Hn Hd.
  assert (Hsm' : small (fst (drain s))) by (now rewrite Hd).
  pose proof (check_reader_transparent (D x) n s Hsm') as Ht.
  pose proof (proj2 (check_reader_eof_iff (D x) n s Hsm')) as He.
  rewrite Hd in *. cbn [fst snd] in *.
  destruct (cr_consume D (new_cr (D x) n) s) as [c st]. cbn [fst snd] in *.
  subst c. f_equal. apply He. repeat split; auto.
  destruct Hn; [left; assumption|right; congruence].
Qed.

(** A caller that stops early has been told nothing: a call reports
    end-of-stream only if the underlying reader reported it on that very
    call and everything handed out up to and including it checks out. *)
Theorem check_reader_eof_at_call : forall want n s i c,
  small (delivered s) ->
  nth_error (cr_trace D (new_cr want n) s) i = Some (c, CEof) ->
  nth_error s i = Some (c, REof) /\
  D (delivered (firstn (S i) s)) = want /\
  ((n < 0)%Z \/ lenZ (delivered (firstn (S i) s)) = n).
Proof.
  intros want n s i c Hsm H.
  rewrite (cr_trace_spec _ _ _ (new_cr_ok want n)) in H by exact Hsm.
  destruct (nth_error s i) as [[chunk st]|]; [|discriminate].
  set (a := delivered (firstn (S i) s)) in *.
  cbn [new_cr cr_wantlen cr_want cr_acc app] in H. injection H as <- Hv.
  destruct st; cbn [verdict] in Hv; try discriminate Hv.
  split; [reflexivity|].
  destruct ((0 <=? (if (n <? 0)%Z then (-1)%Z else n))%Z &&
            negb (lenZ a =? (if (n <? 0)%Z then (-1)%Z else n))%Z) eqn:El; [discriminate Hv|].
  destruct (bytes_eqb (D a) want) eqn:Eb; [|discriminate Hv].
  apply bytes_eqb_eq in Eb. split; [exact Eb|].
  destruct (Z.ltb_spec n 0); [now left|right].
  apply andb_false_iff in El. destruct El as [El|El]; [lia|].
  apply negb_false_iff in El. now apply Z.eqb_eq in El.
Qed.

Lemma delivered_app a b : delivered (a ++ b) = delivered a ++ delivered b.
Proof.
  induction a as [|[c0 s0] a IH]; cbn [app delivered]; [reflexivity|].
  now rewrite IH, app_assoc.
Qed.

Lemma delivered_firstn_eofs m : forall j, delivered (firstn j (repeat (@nil N, REof) m)) = [].
Proof. induction m as [|m IH]; intros [|j]; cbn; auto. Qed.

Lemma delivered_eofs m : delivered (repeat (@nil N, REof) m) = [].
Proof. induction m as [|m IH]; cbn; auto. Qed.

Theorem check_reader_sticky : forall want n s k i c st,
  small (delivered s) ->
  nth_error (cr_trace D (new_cr want n) (s ++ repeat ([], REof) k)) (length s + i) = Some (c, st) ->
  (i < k)%nat ->
  c = [] /\
  st = verdict (declared n) want (delivered s) REof.
Proof.
  intros want n s k i c st Hsm H Hi.
  rewrite (cr_trace_spec _ _ _ (new_cr_ok want n)) in H
    by (cbn [new_cr cr_acc app]; now rewrite delivered_app, delivered_eofs, app_nil_r).
  rewrite nth_error_app2 in H by lia.
  replace (length s + i - length s)%nat with i in H by lia.
  rewrite nth_error_repeat in H by assumption.
  replace (S (length s + i)) with (length s + S i)%nat in H by lia.
  rewrite firstn_app_2, delivered_app, delivered_firstn_eofs, app_nil_r in H.
  injection H as <- <-. split; reflexivity.
Qed.

(** *** The byte count is an int64: where the wrap is *)
Example wrap64_at_the_edge :
  wrap64 (two63Z - 1) = (two63Z - 1)%Z /\ wrap64 two63Z = (- two63Z)%Z /\
  forall k, (0 <= k < two63Z)%Z -> wrap64 (k + 2 * two63Z) = k.
Proof.
  split; [reflexivity|split; [reflexivity|]].
  intros k Hk. unfold wrap64, two63Z in *.
  replace (k + 2 * 9223372036854775808 + 9223372036854775808)%Z
    with (k + 9223372036854775808 + 1 * (2 * 9223372036854775808))%Z by lia.
  rewrite Z.mod_add by lia. rewrite Z.mod_small; lia.
Qed.

(** *** NewCheckReader *)

Lemma strip_prefix_app p s : strip_prefix p (p ++ s) = Some s.
Proof. induction p as [|x p IH]; cbn; [reflexivity|]. now rewrite N.eqb_refl. Qed.

Theorem new_check_reader_of_hex : forall d n,
  is_bytes d -> length d = 32%nat ->
  new_check_reader (sha256_prefix ++ hex_encode d) n = NewOk (new_cr d n).
Proof.
  intros d n Hb Hl. unfold new_check_reader.
  rewrite strip_prefix_app, hex_decode_encode by assumption.
  unfold lenN. now rewrite Hl.
Qed.

Theorem new_check_reader_ok_size : forall h n r,
  new_check_reader h n = NewOk r -> length (cr_want r) = 32%nat /\ cr_ok r.
Proof.
  intros h n r. unfold new_check_reader.
  destruct (strip_prefix sha256_prefix h); [|discriminate].
  destruct (hex_decode l) as [w|]; [|discriminate].
  destruct (N.eqb_spec (lenN w) 32) as [E|E]; [|discriminate].
  intros [= <-]. split; [unfold lenN in E; cbn; lia|apply new_cr_ok].
Qed.

End Proofs.
