(** objects.isValidKey as it is written NOW (Gen/CodeObj.v, translated from
    objects/fs.go by gen/gotrans.go on every run) computes the model
    [valid_key] of Obj/Base.v on every string.  The Go loop ranges over the
    RUNES of the key (UTF-8 decoding, U+FFFD for invalid bytes); the model
    tests bytes.  They agree because every accepted character is ASCII and
    every rune that comes out of a non-ASCII byte is >= 128.  Candidates for
    the counterexample search: CodeCands.v. *)
From Coq Require Import List NArith ZArith Bool Lia.
From Coq Require Import ZifyN ZifyNat ZifyBool.
From Verif Require Import Lib.Bytes Lib.Codec Lib.Path Lib.Utf8 Lib.GoLib Obj.Base Gen.CodeObj Obj.CodeCands.
Import ListNotations.
Local Open Scope N_scope.
Ltac Zify.zify_post_hook ::= Z.div_mod_to_equations.

(** The first rune decoded from a non-ASCII byte is not ASCII. *)
Lemma decode_head_nonascii bad b0 r0 :
  128 <= b0 -> 128 <= bad ->
  match utf8_decode_with bad (b0 :: r0) with r :: _ => 128 <= r | [] => False end.
Proof.
  intros H Hb. pose proof (lead_range b0 H) as L.
  cbn [utf8_decode_with]. replace (b0 <? 128) with false by lia.
  destruct (lead b0) as [[[sz lo] hi]|]; [|exact Hb].
  destruct L as (Hlo & Hhi & L).
  destruct r0 as [|b1 r1]; [exact Hb|].
  destruct (in_range lo hi b1) eqn:R; cbn [negb]; [|exact Hb].
  unfold in_range in R.
  destruct (sz =? 2) eqn:S2.
  { destruct L as [L|[L|L]]; lia. }
  destruct r1 as [|b2 r2]; [exact Hb|].
  destruct (cont b2) eqn:C2; cbn [negb]; [|exact Hb].
  destruct (sz =? 3) eqn:S3.
  { destruct L as [L|[L|L]]; try lia.
    destruct L as (_ & Hr & -> & _). destruct (b0 =? 224) eqn:E; lia. }
  destruct r2 as [|b3 r3]; [exact Hb|].
  destruct (cont b3) eqn:C3; cbn [negb]; [|exact Hb].
  destruct L as [L|[L|L]]; try lia.
  destruct L as (_ & Hr & -> & _). destruct (b0 =? 240) eqn:E; lia.
Qed.

Lemma forallb_decode_ascii (P : N -> bool) bad bs :
  (forall c, P c = true -> c < 128) -> 128 <= bad ->
  forallb P (utf8_decode_with bad bs) = forallb P bs.
Proof.
  intros HP Hb.
  assert (G : forall n bs, (length bs <= n)%nat -> forallb P (utf8_decode_with bad bs) = forallb P bs).
  { clear bs. induction n as [|n IH]; intros [|b0 r0] Hn; try reflexivity; [cbn in Hn; lia|].
    destruct (N.ltb_spec b0 128) as [Hs|Hs].
    - rewrite decode_1 by exact Hs. cbn [forallb]. rewrite IH by (cbn in Hn; lia). reflexivity.
    - pose proof (decode_head_nonascii bad b0 r0 Hs Hb) as D.
      destruct (utf8_decode_with bad (b0 :: r0)) as [|r rest]; [contradiction|].
      cbn [forallb].
      assert (P r = false) as -> by (destruct (P r) eqn:E; [apply HP in E; lia|reflexivity]).
      assert (P b0 = false) as -> by (destruct (P b0) eqn:E; [apply HP in E; lia|reflexivity]).
      reflexivity. }
  apply (G (length bs)). lia.
Qed.

Definition ok_rune (r : Z) : bool := (((r >=? 97) && (r <=? 122)) || ((r >=? 48) && (r <=? 57)))%Z.

Lemma forallb_map {A B} (f : A -> B) (P : B -> bool) l : forallb P (map f l) = forallb (fun x => P (f x)) l.
Proof. induction l as [|a l IH]; [reflexivity|]. cbn [map forallb]. now rewrite IH. Qed.

Lemma forallb_ext' {A} (P Q : A -> bool) l : (forall x, P x = Q x) -> forallb P l = forallb Q l.
Proof. intros H. induction l as [|a l IH]; [reflexivity|]. cbn [forallb]. now rewrite H, IH. Qed.

Lemma gen_isValidKey_is_model : forall k,
  gen_objects_isValidKey k = valid_key std_key_len std_key_ranges k.
Proof.
  intros k. unfold gen_objects_isValidKey, valid_key, std_key_len, lenN.
  rewrite go_len_N.
  match goal with |- context [?f (go_runes k)] =>
    assert (L : forall l, f l = forallb ok_rune l);
      [induction l as [|r l IH]; [reflexivity|];
       cbn [forallb]; unfold ok_rune at 1; rewrite <- IH; cbn beta iota zeta; go_solve|rewrite L; clear L]
  end.
  unfold go_runes. rewrite forallb_map.
  rewrite (forallb_ext' _ (in_ranges std_key_ranges)).
  - rewrite forallb_decode_ascii.
    + go_solve.
    + intros c. unfold in_ranges, std_key_ranges. cbn [existsb fst snd]. lia.
    + unfold rune_error. lia.
  - intros x. unfold ok_rune, in_ranges, std_key_ranges. cbn [existsb fst snd]. lia.
Qed.

(** Read over the code: the key of a 32-byte digest always passes
    (fsObjects.Create's "invalid key generated" panic is unreachable). *)
Lemma code_hex_key_valid : forall d,
  is_bytes d -> length d = 32%nat -> gen_objects_isValidKey (hex_encode d) = true.
Proof. intros d Hb Hl. rewrite gen_isValidKey_is_model. now apply hex_key_valid. Qed.

Lemma cex_obj_none : cex_isValidKey = [].
Proof. vm_compute. reflexivity. Qed.
