(** objects.isValidKey as it is written NOW (Gen/CodeObj.v, translated from
    objects/fs.go by gen/gotrans.go on every run) computes the model
    [valid_key] of Obj/Base.v on every string.  The Go loop ranges over the
    RUNES of the key (UTF-8 decoding, U+FFFD for invalid bytes); the model
    tests bytes.  They agree because every accepted character is ASCII and
    every rune that comes out of a non-ASCII byte is >= 128.  Candidates for
    the counterexample search: CodeCands.v. *)
From Coq Require Import String.
From Coq Require Import List NArith ZArith Bool Lia.
From Coq Require Import ZifyN ZifyNat ZifyBool.
From Verif Require Import Lib.Bytes Lib.Codec Lib.Path Lib.Utf8 Lib.GoLib Obj.Base Obj.CheckReader Obj.CheckReaderProofs Gen.CodeObj Obj.CodeCands.
Import ListNotations.
Local Open Scope N_scope.
Ltac Zify.zify_post_hook ::= Z.div_mod_to_equations.

(** The first rune decoded from a non-ASCII byte is not ASCII. *)
Lemma decode_head_nonascii bad b0 r0 :
  128 <= b0 -> 128 <= bad ->
  match utf8_decode_with bad (b0 :: r0) with r :: _ => 128 <= r | [] => False end.
Proof.
  intros H Hb. pose proof (lead_range b0 H) as L.
  cbn [utf8_decode_with]. replace (b0 <? 128) with false by lia.
  destruct (lead b0) as [[[sz lo] hi]|]; [|exact Hb].
  destruct L as (Hlo & Hhi & L).
  destruct r0 as [|b1 r1]; [exact Hb|].
  destruct (in_range lo hi b1) eqn:R; cbn [negb]; [|exact Hb].
  unfold in_range in R.
  destruct (sz =? 2) eqn:S2.
  { destruct L as [L|[L|L]]; lia. }
  destruct r1 as [|b2 r2]; [exact Hb|].
  destruct (cont b2) eqn:C2; cbn [negb]; [|exact Hb].
  destruct (sz =? 3) eqn:S3.
  { destruct L as [L|[L|L]]; try lia.
    destruct L as (_ & Hr & -> & _). destruct (b0 =? 224) eqn:E; lia. }
  destruct r2 as [|b3 r3]; [exact Hb|].
  destruct (cont b3) eqn:C3; cbn [negb]; [|exact Hb].
  destruct L as [L|[L|L]]; try lia.
  destruct L as (_ & Hr & -> & _). destruct (b0 =? 240) eqn:E; lia.
Qed.

Lemma forallb_decode_ascii (P : N -> bool) bad bs :
  (forall c, P c = true -> c < 128) -> 128 <= bad ->
  forallb P (utf8_decode_with bad bs) = forallb P bs.
Proof.
  intros HP Hb.
  assert (G : forall n bs, (length bs <= n)%nat -> forallb P (utf8_decode_with bad bs) = forallb P bs).
  { clear bs. induction n as [|n IH]; intros [|b0 r0] Hn; try reflexivity; [cbn in Hn; lia|].
    destruct (N.ltb_spec b0 128) as [Hs|Hs].
    - rewrite decode_1 by exact Hs. cbn [forallb]. rewrite IH by (cbn in Hn; lia). reflexivity.
    - pose proof (decode_head_nonascii bad b0 r0 Hs Hb) as D.
      destruct (utf8_decode_with bad (b0 :: r0)) as [|r rest]; [contradiction|].
      cbn [forallb].
      assert (P r = false) as -> by (destruct (P r) eqn:E; [apply HP in E; lia|reflexivity]).
      assert (P b0 = false) as -> by (destruct (P b0) eqn:E; [apply HP in E; lia|reflexivity]).
      reflexivity. }
  apply (G (length bs)). lia.
Qed.

Definition ok_rune (r : Z) : bool := (((r >=? 97) && (r <=? 122)) || ((r >=? 48) && (r <=? 57)))%Z.

Lemma forallb_map {A B} (f : A -> B) (P : B -> bool) l : forallb P (map f l) = forallb (fun x => P (f x)) l.
Proof. induction l as [|a l IH]; [reflexivity|]. cbn [map forallb]. now rewrite IH. Qed.

Lemma forallb_ext' {A} (P Q : A -> bool) l : (forall x, P x = Q x) -> forallb P l = forallb Q l.
Proof. intros H. induction l as [|a l IH]; [reflexivity|]. cbn [forallb]. now rewrite H, IH. Qed.

Lemma gen_isValidKey_is_model : forall k,
  gen_objects_isValidKey k = valid_key std_key_len std_key_ranges k.
Proof.
  intros k. unfold gen_objects_isValidKey, valid_key, std_key_len, lenN.
  rewrite go_len_N.
  match goal with |- context [?f (go_runes k)] =>
    assert (L : forall l, f l = forallb ok_rune l);
      [induction l as [|r l IH]; [reflexivity|];
       cbn [forallb]; unfold ok_rune at 1; rewrite <- IH; cbn beta iota zeta; go_solve|rewrite L; clear L]
  end.
  unfold go_runes. rewrite forallb_map.
  rewrite (forallb_ext' _ (in_ranges std_key_ranges)).
  - rewrite forallb_decode_ascii.
    + go_solve.
    + intros c. unfold in_ranges, std_key_ranges. cbn [existsb fst snd]. lia.
    + unfold rune_error. lia.
  - intros x. unfold ok_rune, in_ranges, std_key_ranges. cbn [existsb fst snd]. lia.
Qed.

(** Read over the code: the key of a 32-byte digest always passes
    (fsObjects.Create's "invalid key generated" panic is unreachable). *)
Lemma code_hex_key_valid : forall d,
  is_bytes d -> length d = 32%nat -> gen_objects_isValidKey (hex_encode d) = true.
Proof. intros d Hb Hl. rewrite gen_isValidKey_is_model. now apply hex_key_valid. Qed.

(** ** hashutil.CheckReader.Read (check_reader.go)

    One call of [Read] as it is written NOW, given what the underlying
    reader did (it put [n] bytes into [buf], [0 <= n <= len(buf)], and
    returned [st]): the status passed on, the running count [r.n] (an [int64],
    wrapping) and everything written to the hash [r.h] are the model's
    [cr_read], for every digest function [D] (sha256's [Sum] is a Section
    variable of the generated file).  The receiver's fields [r.n] and [r.h]
    are assigned by the body; the generated definition returns their final
    values. *)
Local Open Scope Z_scope.

Lemma firstn_nil_iff {A} (n : nat) (l : list A) : (n <= List.length l)%nat -> firstn n l = [] <-> n = 0%nat.
Proof.
  intros H. split; [|intros ->; reflexivity].
  intros E. apply (f_equal (@List.length A)) in E. rewrite firstn_length in E. cbn in E. lia.
Qed.

Lemma gen_CheckReader_Read_is_model : forall (D : bytes -> bytes) (r : cr) (buf : bytes) (n : Z) (st : rstat),
  0 <= n <= go_len buf -> go_sized buf ->
  run_Read D r buf n st = model_Read D r buf n st.
Proof.
  intros D r buf n st Hn Hsz. unfold go_sized in Hsz.
  unfold run_Read, model_Read, gen_hashutil_CheckReader_Read, cr_read, subtle_ConstantTimeCompare.
  change bytes_eqb with beq_bytes. change wrap64 with wrap_i64.
  rewrite (wrap_i64_small n) by (unfold is_i64, two63z, go_len in *; lia).
  rewrite go_slice_to by exact Hn.
  assert (Hl : List.length (firstn (Z.to_nat n) buf) = Z.to_nat n)
    by (rewrite firstn_length; unfold go_len in *; lia).
  unfold lenZ. 
  destruct (Z.gtb_spec n 0) as [Hp|Hp].
  - destruct (firstn (Z.to_nat n) buf) as [|c0 ch] eqn:E; [cbn in Hl; lia|]. rewrite <- E in *. rewrite Hl.
    rewrite Z2Nat.id by lia.
    destruct st; cbn [err_of_rstat opt_eqb go_err_eqb String.eqb Ascii.eqb Bool.eqb andb cr_n cr_acc cr_want cr_wantlen].
    all: go_cases; cbn [cstat_of String.eqb Ascii.eqb Bool.eqb andb cr_n cr_acc cr_want cr_wantlen];
      rewrite ?Hl, ?Z2Nat.id by lia; go_leaf.
  - assert (n = 0) as -> by lia. cbn [Z.to_nat firstn List.length Z.of_nat].
    destruct st; cbn [err_of_rstat opt_eqb go_err_eqb String.eqb Ascii.eqb Bool.eqb andb cr_n cr_acc cr_want cr_wantlen].
    all: go_cases; cbn [cstat_of String.eqb Ascii.eqb Bool.eqb andb cr_n cr_acc cr_want cr_wantlen];
      rewrite ?Hl, ?Z2Nat.id by lia; go_leaf.
Qed.

(** Read over the code: as long as fewer than 2^63 bytes have gone through,
    the status [Read] passes on is the verdict on EVERYTHING read so far —
    io.EOF exactly when the declared length (if any) and the digest match —
    and the bytes handed to the caller are the underlying reader's. *)
Lemma code_Read_verdict : forall (D : bytes -> bytes) (r : cr) (buf : bytes) (n : Z) (st : rstat),
  0 <= n <= go_len buf -> go_sized buf ->
  cr_ok r -> lenZ (cr_acc r ++ firstn (Z.to_nat n) buf) < two63Z ->
  run_Read D r buf n st =
    (n, verdict D (cr_wantlen r) (cr_want r) (cr_acc r ++ firstn (Z.to_nat n) buf) st,
     lenZ (cr_acc r ++ firstn (Z.to_nat n) buf), cr_acc r ++ firstn (Z.to_nat n) buf).
Proof.
  intros D r buf n st Hn Hsz Hok Hsm.
  rewrite gen_CheckReader_Read_is_model by assumption. unfold model_Read.
  destruct (cr_read_spec D r (firstn (Z.to_nat n) buf) st Hok Hsm) as (r' & E & [Hn' _] & Ha & _ & _).
  rewrite E. rewrite Hn', Ha. f_equal. f_equal. f_equal.
  rewrite firstn_length. unfold go_len in *. lia.
Qed.

Lemma cex_obj_none : cex_isValidKey = [] /\ cex_CheckReader_Read = [].
Proof. vm_compute. split; reflexivity. Qed.
