(** C18 — the file-system store when the lock gives no protection: several
    store objects (each with its own mutex) opened on one directory, files
    already lying in tmp/, and any number of threads calling Open / Has at any
    moment, with or without the read lock.

    The semantics is [tstep] with [excl] arbitrary: for [excl = false] Lock
    never waits and excludes nobody.  Every locking discipline that only makes
    threads wait (one mutex per store object, the read side of the RWMutex) is
    a restriction of the schedule, expressed by a guard that may skip
    entries; the results below hold for every guard.

    What is used about the file system: [os.Rename] installs the complete
    temp file under the final name in one step (statement [CkRemoveOrRename]),
    so a file under a final name is never partially written.  The copying
    variant at the end of Props/C18.v shows what happens without that. *)
From Coq Require Import List NArith ZArith Bool Lia.
From Verif Require Import Lib.Bytes Obj.Base Obj.Store Obj.StoreProofs.
Import ListNotations.

Section Multi.
Variable D : bytes -> bytes.
Variable excl : bool.

Notation HK := (Hk D).
Notation vkey := (valid_key std_key_len std_key_ranges).
Notation step := (tstep D excl fs_commit_skel std_key_len std_key_ranges).
Notation sstep := (sys_step D excl fs_commit_skel std_key_len std_key_ranges).
Notation gstep := (gstep D excl fs_commit_skel std_key_len std_key_ranges).
Notation grun := (grun D excl fs_commit_skel std_key_len std_key_ranges).
Notation observe := (observe std_key_len std_key_ranges).
Notation mstep := (mstep D excl fs_commit_skel std_key_len std_key_ranges).
Notation mrun := (mrun D excl fs_commit_skel std_key_len std_key_ranges).

Notation c0 := [SkCreateTemp; SkDeferCleanup; SkTeeHash; SkCloseTemp; SkCheckKey; SkCommit; SkDisarm; SkReturnKey].
Notation c1 := [SkDeferCleanup; SkTeeHash; SkCloseTemp; SkCheckKey; SkCommit; SkDisarm; SkReturnKey].
Notation c2 := [SkTeeHash; SkCloseTemp; SkCheckKey; SkCommit; SkDisarm; SkReturnKey].
Notation c3 := [SkCloseTemp; SkCheckKey; SkCommit; SkDisarm; SkReturnKey].
Notation c4 := [SkCheckKey; SkCommit; SkDisarm; SkReturnKey].
Notation c5 := [SkCommit; SkDisarm; SkReturnKey].
Notation c6 := [CkLock; CkDeferUnlock; CkStat; CkRemoveOrRename; CkEnd; SkDisarm; SkReturnKey].
Notation c7 := [CkDeferUnlock; CkStat; CkRemoveOrRename; CkEnd; SkDisarm; SkReturnKey].
Notation c8 := [CkStat; CkRemoveOrRename; CkEnd; SkDisarm; SkReturnKey].
Notation c9 := [CkRemoveOrRename; CkEnd; SkDisarm; SkReturnKey].
Notation c10 := [CkEnd; SkDisarm; SkReturnKey].
Notation c11 := [SkDisarm; SkReturnKey].
Notation c12 := [SkReturnKey].

(** Per-thread invariant that does not mention the lock. *)
Inductive linv0 (st : fsst) (tid : nat) (s0 : script) : thr -> Prop :=
| M0 :
    lookup_nat tid (tmp st) = None ->
    linv0 st tid s0 (mkThr c0 None false false s0 [] None None None false)
| M1 :
    lookup_nat tid (tmp st) = Some [] ->
    linv0 st tid s0 (mkThr c1 (Some tid) false false s0 [] None None None false)
| M2 : forall i a,
    lookup_nat tid (tmp st) = Some a ->
    drain s0 = (a ++ fst (drain i), snd (drain i)) ->
    linv0 st tid s0 (mkThr c2 (Some tid) true false i a None None None false)
| M3 : forall c ud i a,
    (c = c3 /\ ud = false) \/ (c = c4 /\ ud = false) \/ (c = c5 /\ ud = false) \/
    (c = c6 /\ ud = false) \/ (c = c7 /\ ud = false) \/ (c = c8 /\ ud = true) ->
    lookup_nat tid (tmp st) = Some a ->
    drain s0 = (a, REof) ->
    linv0 st tid s0 (mkThr c (Some tid) true ud i a (Some (HK a)) None None false)
| M9 : forall i a b,
    lookup_nat tid (tmp st) = Some a ->
    drain s0 = (a, REof) ->
    (b = true -> has_key (HK a) st = true) ->
    linv0 st tid s0 (mkThr c9 (Some tid) true true i a (Some (HK a)) (Some b) None false)
| M10 : forall i a b cm,
    lookup_nat tid (tmp st) = None ->
    drain s0 = (a, REof) ->
    has_key (HK a) st = true ->
    linv0 st tid s0 (mkThr c10 (Some tid) true true i a (Some (HK a)) (Some b) None cm)
| M11 : forall i a b cm,
    lookup_nat tid (tmp st) = None ->
    drain s0 = (a, REof) ->
    has_key (HK a) st = true ->
    linv0 st tid s0 (mkThr c11 (Some tid) true false i a (Some (HK a)) (Some b) None cm)
| M12 : forall i a b cm,
    lookup_nat tid (tmp st) = None ->
    drain s0 = (a, REof) ->
    has_key (HK a) st = true ->
    linv0 st tid s0 (mkThr c12 None true false i a (Some (HK a)) (Some b) None cm)
| MOk : forall i a b cm,
    lookup_nat tid (tmp st) = None ->
    drain s0 = (a, REof) ->
    has_key (HK a) st = true ->
    linv0 st tid s0 (mkThr [] None true false i a (Some (HK a)) (Some b) (Some (ROk (HK a))) cm)
| MErr : forall f ar i a k h r,
    lookup_nat tid (tmp st) = None ->
    (forall k', r <> ROk k') ->
    (r = RPanic -> exists x, vkey (HK x) = false) ->
    (forall e, r = RErr (EInput e) -> snd (drain s0) = RFail e) ->
    linv0 st tid s0 (mkThr [] f ar false i a k h (Some r) false).

(** What one step may do to the directory, whoever holds whichever lock. *)
Record effect0 (tid : nat) (st st' : fsst) : Prop := mkEffect0 {
  eff0_tmp : forall j, j <> tid -> lookup_nat j (tmp st') = lookup_nat j (tmp st);
  eff0_objs : objs st' = objs st \/ exists k c, objs st' = (k, c) :: objs st /\ HK c = k
}.

Lemma effect0_refl tid st : effect0 tid st st.
Proof. constructor; auto. Qed.

Ltac msimp :=
  unfold tstep in *; unfold finish, set_cont, set_lock, rm_tmp in *;
  cbn [cont tf armed udefer inp acc tk thas res committed
       fs_commit_skel app objs tmp lock] in *.

Ltac eff0 :=
  constructor; unfold set_lock, rm_tmp; cbn [objs tmp lock];
  [ intros ? ?; rewrite ?Nat.eqb_refl;
    rewrite ?lookup_set_nat_other, ?lookup_remove_nat_other by auto; auto
  | auto ].

Ltac inj0 :=
  match goal with
  | Hs : Some (_, _) = Some (_, _) |- _ => injection Hs as <- <-
  end.

Ltac tmpnone0 :=
  first [ apply lookup_remove_nat_same
        | rewrite ?Nat.eqb_refl; apply lookup_remove_nat_same
        | cbn; rewrite ?Nat.eqb_refl; apply lookup_remove_nat_same ].

Ltac fin_refl := split; [|split; [apply effect0_refl|cbn; split; [try discriminate; auto|auto]]].
Ltac fin_eff := split; [|split; [eff0|cbn; split; [try discriminate; auto|auto]]].

Lemma has_key_any_lock k o t l l' : has_key k (mkFs o t l) = has_key k (mkFs o t l').
Proof. reflexivity. Qed.

(** finishing from a point where the thread owns a registered temp file *)
Lemma step_self0 fault st tid s0 t st' t' :
  linv0 st tid s0 t -> step fault st tid t = Some (st', t') ->
  linv0 st' tid s0 t' /\ effect0 tid st st' /\ step_post D st t st' t'.
Proof.
  intros HL. unfold step_post.
  destruct HL as [Htmp | Htmp | i a Htmp Hdr | c ud i a Hc Htmp Hdr
                 | i a b Htmp Hdr Hb | i a b cm Htmp Hdr Hhas | i a b cm Htmp Hdr Hhas
                 | i a b cm Htmp Hdr Hhas | i a b cm Htmp Hdr Hhas
                 | f ar i a k h r Htmp Hnok Hpan Hinp];
    intros HS; msimp.
  - destruct fault; inj0.
    + fin_refl. apply MErr; auto; discriminate.
    + fin_eff. apply M1; cbn [tmp]; auto. apply lookup_set_nat_same.
  - inj0. fin_refl. apply M2; auto. cbn. now destruct (drain s0).
  - destruct i as [|[chunk stt] more].
    + inj0. fin_refl. apply (M3 _ _ _ c3 false); auto. cbn in Hdr. now rewrite app_nil_r in Hdr.
    + rewrite Htmp in HS.
      assert (Hd : drain s0 = ((a ++ chunk) ++ fst (drain (match stt with RNil => more | _ => [] end)),
                               match stt with RNil => snd (drain more) | _ => stt end)).
      { rewrite Hdr. destruct stt; cbn [drain fst snd].
        - destruct (drain more). cbn [fst snd]. now rewrite app_assoc.
        - now rewrite app_nil_r.
        - now rewrite app_nil_r. }
      destruct chunk as [|b chunk].
      * destruct stt; inj0.
        -- fin_refl. apply M2; rewrite ?app_nil_r; auto. rewrite app_nil_r in Hd. exact Hd.
        -- fin_refl. apply (M3 _ _ _ c3 false); rewrite ?app_nil_r; auto.
           rewrite !app_nil_r in Hd. exact Hd.
        -- fin_eff. apply MErr; cbn [tmp]; auto; try discriminate.
           ++ tmpnone0.
           ++ intros e0 [= ->]. now rewrite Hd.
      * destruct fault; [inj0|].
        -- fin_eff. apply MErr; cbn [tmp]; auto; try discriminate. tmpnone0.
        -- destruct stt; inj0.
           ++ fin_eff. apply M2; cbn [tmp]; auto. apply lookup_set_nat_same.
           ++ fin_eff. apply (M3 _ _ _ c3 false); cbn [tmp]; auto; try apply lookup_set_nat_same.
              all: try (now rewrite app_nil_r in Hd).
           ++ fin_eff. apply MErr; cbn [tmp]; auto; try discriminate.
              ** tmpnone0.
              ** intros e0 [= ->]. now rewrite Hd.
  - destruct Hc as [[-> ->] | [[-> ->] | [[-> ->] | [[-> ->] | [[-> ->] | [-> ->]]]]]]; msimp.
    + destruct fault; inj0.
      * fin_eff. apply MErr; cbn [tmp]; auto; try discriminate. tmpnone0.
      * fin_refl. apply (M3 _ _ _ c4 false); auto 10.
    + destruct (vkey (HK a)) eqn:Ev; inj0.
      * fin_refl. apply (M3 _ _ _ c5 false); auto 10.
      * fin_eff. apply MErr; cbn [tmp]; auto; try discriminate.
        -- tmpnone0.
        -- intros _. now exists a.
    + inj0. fin_refl. apply (M3 _ _ _ c6 false); auto 10.
    + destruct excl.
      * destruct (lock st); [discriminate|]. inj0.
        fin_eff. apply (M3 _ _ _ c7 false); cbn [tmp]; auto 10.
      * inj0. fin_refl. apply (M3 _ _ _ c7 false); auto 10.
    + inj0. fin_refl. apply (M3 _ _ _ c8 true); auto 10.
    + destruct fault; inj0.
      * fin_eff. apply MErr; cbn [tmp]; auto; try discriminate. tmpnone0.
      * fin_refl. apply M9; auto.
  - destruct b.
    + destruct fault; inj0.
      * fin_eff. apply MErr; cbn [tmp]; auto; try discriminate. tmpnone0.
      * fin_eff. apply M10; cbn [tmp objs]; auto. tmpnone0.
    + destruct fault; [inj0|].
      * fin_eff. apply MErr; cbn [tmp]; auto; try discriminate. tmpnone0.
      * rewrite Htmp in HS. inj0. split; [|split].
        -- apply M10; cbn [tmp objs]; auto.
           ++ tmpnone0.
           ++ apply has_key_cons_same.
        -- constructor; cbn [objs tmp]; auto.
           ++ intros j Hj. now apply lookup_remove_nat_other.
           ++ right. exists (HK a), a. auto.
        -- cbn. split; [discriminate|]. right. auto.
  - inj0. fin_eff. apply M11; cbn [tmp objs]; auto.
  - inj0. fin_refl. apply M12; auto.
  - inj0. fin_refl. apply MOk; auto.
  - discriminate.
  - discriminate.
Qed.

Lemma has_key_grow k st st' tid :
  effect0 tid st st' -> has_key k st = true -> has_key k st' = true.
Proof.
  unfold has_key. intros [_ [E|(k' & c' & E & _)]] Hh; rewrite E; [assumption|].
  cbn. destruct (bytes_eqb k k'); [reflexivity|assumption].
Qed.

Lemma linv0_frame st st' tid j s0 t :
  linv0 st j s0 t -> effect0 tid st st' -> j <> tid -> linv0 st' j s0 t.
Proof.
  intros HL He Hj.
  assert (Ht : lookup_nat j (tmp st') = lookup_nat j (tmp st)) by (apply He; auto).
  destruct HL as [Htmp | Htmp | i a Htmp Hdr | c ud i a Hc Htmp Hdr
                 | i a b Htmp Hdr Hb | i a b cm Htmp Hdr Hhas | i a b cm Htmp Hdr Hhas
                 | i a b cm Htmp Hdr Hhas | i a b cm Htmp Hdr Hhas
                 | f ar i a k h r Htmp Hnok Hpan Hinp].
  - apply M0; congruence.
  - apply M1; congruence.
  - apply M2; auto; congruence.
  - apply M3; auto; congruence.
  - apply M9; auto; try congruence. intros E. eapply has_key_grow; eauto.
  - apply M10; auto; try congruence. eapply has_key_grow; eauto.
  - apply M11; auto; try congruence. eapply has_key_grow; eauto.
  - apply M12; auto; try congruence. eapply has_key_grow; eauto.
  - apply MOk; auto; try congruence. eapply has_key_grow; eauto.
  - apply MErr; auto; congruence.
Qed.

(** ** System invariant, with files already lying in tmp/ *)

(** names of files found in tmp/ differ from every name a call will create *)
Definition strays_ok (n : nat) (tmp0 : list (nat * bytes)) : Prop :=
  forall j, j < n -> lookup_nat j tmp0 = None.

Record inv0 (objs0 : list (key * bytes)) (tmp0 : list (nat * bytes)) (inputs : list script)
       (s : sys) : Prop := mkInv0 {
  inv0_len : length (sthr s) = length inputs;
  inv0_wf : wf_objs D (objs (sfs s));
  inv0_thr : forall tid t s0,
      nth_error (sthr s) tid = Some t -> nth_error inputs tid = Some s0 ->
      linv0 (sfs s) tid s0 t;
  inv0_stray : forall j, length (sthr s) <= j -> lookup_nat j (tmp (sfs s)) = lookup_nat j tmp0;
  inv0_prov : forall k c, In (k, c) (objs (sfs s)) ->
      In (k, c) objs0 \/
      exists tid t, nth_error (sthr s) tid = Some t /\
                    committed t = true /\ tk t = Some k /\ acc t = c
}.

Lemma inv0_init objs0 tmp0 inputs :
  wf_objs D objs0 -> strays_ok (length inputs) tmp0 ->
  inv0 objs0 tmp0 inputs (init_sys_tmp fs_create_skel objs0 tmp0 inputs).
Proof.
  intros Hwf Hs. constructor; cbn [init_sys_tmp sfs sthr objs tmp].
  - apply map_length.
  - exact Hwf.
  - intros tid t s0 Ht Hi. rewrite nth_error_map, Hi in Ht. cbn in Ht. injection Ht as <-.
    unfold new_thr. apply M0. cbn [tmp]. apply Hs. apply nth_error_Some. congruence.
  - reflexivity.
  - intros k c Hin. now left.
Qed.

Lemma inv0_step objs0 tmp0 inputs s e :
  inv0 objs0 tmp0 inputs s -> inv0 objs0 tmp0 inputs (sstep s e).
Proof.
  intros I. destruct e as [tid fault]. unfold sys_step. cbn [fst snd].
  destruct (nth_error (sthr s) tid) as [t|] eqn:Et; [|exact I].
  destruct (step fault (sfs s) tid t) as [[st' t']|] eqn:Es; [|exact I].
  assert (Hlt : tid < length (sthr s)) by (apply nth_error_Some; congruence).
  destruct (nth_error inputs tid) as [s0|] eqn:Ei.
  2:{ apply nth_error_None in Ei. rewrite <- (inv0_len _ _ _ _ I) in Ei. lia. }
  destruct (step_self0 _ _ _ _ _ _ _ (inv0_thr _ _ _ _ I _ _ _ Et Ei) Es) as (HL & He & Hc & Ho).
  constructor; cbn [sfs sthr].
  - rewrite upd_nth_length. apply I.
  - intros k c Hl. destruct (eff0_objs _ _ _ He) as [E|(k' & c' & E & Hh)]; rewrite E in Hl.
    + now apply (inv0_wf _ _ _ _ I).
    + cbn in Hl. destruct (bytes_eqb k k') eqn:Ek.
      * apply bytes_eqb_eq in Ek. injection Hl as <-. congruence.
      * now apply (inv0_wf _ _ _ _ I).
  - intros j tj sj Hj Hsj. destruct (Nat.eq_dec j tid) as [->|Hne].
    + rewrite (nth_error_upd_same _ _ _ _ Et) in Hj. injection Hj as <-.
      rewrite Ei in Hsj. injection Hsj as <-. exact HL.
    + rewrite nth_error_upd_other in Hj by auto.
      eapply linv0_frame; eauto. eapply (inv0_thr _ _ _ _ I); eauto.
  - intros j Hj. rewrite upd_nth_length in Hj.
    rewrite (eff0_tmp _ _ _ He j) by lia. now apply (inv0_stray _ _ _ _ I).
  - intros k c Hin.
    assert (Hold : In (k, c) (objs (sfs s)) ->
                   In (k, c) objs0 \/
                   exists tid0 t0, nth_error (upd_nth tid t' (sthr s)) tid0 = Some t0 /\
                                   committed t0 = true /\ tk t0 = Some k /\ acc t0 = c).
    { intros Hin'. destruct (inv0_prov _ _ _ _ I _ _ Hin') as [Hi|(j & tj & Hj & Hcm & Hk & Ha)];
        [now left|right].
      destruct (Nat.eq_dec j tid) as [->|Hne].
      - exists tid, t'. rewrite (nth_error_upd_same _ _ _ _ Et).
        rewrite Et in Hj. injection Hj as <-.
        destruct (Hc Hcm) as (C1 & C2 & C3). repeat split; congruence.
      - exists j, tj. rewrite nth_error_upd_other by auto. auto. }
    destruct Ho as [E|(C1 & C2 & E)]; rewrite E in Hin; [now apply Hold|].
    destruct Hin as [Heq|Hin]; [|now apply Hold].
    injection Heq as <- <-. right. exists tid, t'.
    rewrite (nth_error_upd_same _ _ _ _ Et). auto.
Qed.

(** ** Guarded schedules: any discipline that only makes threads wait *)

Lemma inv0_grun g objs0 tmp0 inputs sched :
  wf_objs D objs0 -> strays_ok (length inputs) tmp0 ->
  inv0 objs0 tmp0 inputs (grun g (init_sys_tmp fs_create_skel objs0 tmp0 inputs) sched).
Proof.
  intros Hwf Hs. unfold grun.
  assert (G : forall s, inv0 objs0 tmp0 inputs s ->
                        inv0 objs0 tmp0 inputs (fold_left (gstep g) sched s)).
  { induction sched as [|e r IH]; intros s I; [exact I|]. cbn. apply IH.
    unfold gstep. destruct (g s e); [now apply inv0_step|exact I]. }
  apply G. now apply inv0_init.
Qed.

(** One mutex per store object: thread [tid] works through the store object
    [dom tid]; it may enter its commit section only while no other thread of
    the same store object is inside one. *)
Definition in_commit (t : thr) : bool :=
  match cont t with
  | CkDeferUnlock :: _ | CkStat :: _ | CkRemoveOrRename :: _ | CkEnd :: _ => true
  | _ => false
  end.

Definition at_lock (t : thr) : bool :=
  match cont t with CkLock :: _ => true | _ => false end.

Fixpoint none_in_commit (dom : nat -> nat) (d : nat) (i : nat) (l : list thr) : bool :=
  match l with
  | [] => true
  | t :: r => (negb (Nat.eqb (dom i) d) || negb (in_commit t)) && none_in_commit dom d (S i) r
  end.

Definition guard_stores (dom : nat -> nat) : guard :=
  fun s e =>
    match nth_error (sthr s) (fst e) with
    | Some t => if at_lock t then none_in_commit dom (dom (fst e)) 0 (sthr s) else true
    | None => true
    end.

(** ** Consequences, for every guard *)

Notation gruns g objs0 tmp0 inputs sched :=
  (grun g (init_sys_tmp fs_create_skel objs0 tmp0 inputs) sched).

Theorem multi_objects_well_keyed : forall g objs0 tmp0 inputs sched k c,
  wf_objs D objs0 -> strays_ok (length inputs) tmp0 ->
  lookup_key k (objs (sfs (gruns g objs0 tmp0 inputs sched))) = Some c -> HK c = k.
Proof. intros. eapply inv0_wf; [apply inv0_grun|]; eauto. Qed.

Lemma linv0_done st tid s0 t r :
  linv0 st tid s0 t -> res t = Some r ->
  lookup_nat tid (tmp st) = None /\
  match r with
  | ROk k => drain s0 = (acc t, REof) /\ k = HK (acc t) /\ has_key k st = true
  | RErr e => committed t = false /\ (forall x, e = EInput x -> snd (drain s0) = RFail x)
  | RPanic => committed t = false /\ exists x, vkey (HK x) = false
  end.
Proof.
  intros HL.
  destruct HL as [Htmp | Htmp | i a Htmp Hdr | c ud i a Hc Htmp Hdr
                 | i a b Htmp Hdr Hb | i a b cm Htmp Hdr Hhas | i a b cm Htmp Hdr Hhas
                 | i a b cm Htmp Hdr Hhas | i a b cm Htmp Hdr Hhas
                 | f ar i a k h r0 Htmp Hnok Hpan Hinp];
    cbn [res acc committed]; intros Hr; try discriminate; injection Hr as <-.
  - auto.
  - split; [assumption|]. destruct r0.
    + exfalso. eapply Hnok; eauto.
    + split; [reflexivity|]. intros x ->. auto.
    + split; [reflexivity|]. auto.
Qed.

Lemma linv0_committed st tid s0 t :
  linv0 st tid s0 t -> committed t = true ->
  drain s0 = (acc t, REof) /\ tk t = Some (HK (acc t)) /\
  (forall r, res t = Some r -> r = ROk (HK (acc t))).
Proof.
  intros HL.
  destruct HL as [Htmp | Htmp | i a Htmp Hdr | c ud i a Hc Htmp Hdr
                 | i a b Htmp Hdr Hb | i a b cm Htmp Hdr Hhas | i a b cm Htmp Hdr Hhas
                 | i a b cm Htmp Hdr Hhas | i a b cm Htmp Hdr Hhas
                 | f ar i a k h r0 Htmp Hnok Hpan Hinp];
    cbn [res acc committed tk]; intros Hc'; try discriminate;
    (split; [assumption|split; [reflexivity|]]); intros r Hr; try discriminate.
  now injection Hr as <-.
Qed.

(** A returned call: no temp file of its own left; a key is the hash of the
    complete input and is present; an error means nothing was committed. *)
Theorem multi_create_result : forall g objs0 tmp0 inputs sched tid t s0 r,
  wf_objs D objs0 -> strays_ok (length inputs) tmp0 ->
  nth_error (sthr (gruns g objs0 tmp0 inputs sched)) tid = Some t ->
  nth_error inputs tid = Some s0 ->
  res t = Some r ->
  lookup_nat tid (tmp (sfs (gruns g objs0 tmp0 inputs sched))) = None /\
  match r with
  | ROk k =>
      drain s0 = (acc t, REof) /\ k = HK (acc t) /\
      exists c, lookup_key k (objs (sfs (gruns g objs0 tmp0 inputs sched))) = Some c /\ HK c = k
  | RErr e => committed t = false /\ (forall x, e = EInput x -> snd (drain s0) = RFail x)
  | RPanic => committed t = false /\ exists x, vkey (HK x) = false
  end.
Proof.
  intros g objs0 tmp0 inputs sched tid t s0 r Hwf Hs Ht Hi Hr.
  pose proof (inv0_grun g objs0 tmp0 inputs sched Hwf Hs) as I.
  pose proof (inv0_thr _ _ _ _ I _ _ _ Ht Hi) as HL.
  destruct (linv0_done _ _ _ _ _ HL Hr) as (A & C).
  split; [assumption|]. destruct r; auto.
  destruct C as (C1 & C2 & C3). repeat split; auto.
  unfold has_key in C3. destruct (lookup_key k _) eqn:El; [|discriminate].
  eexists; split; [reflexivity|]. eapply inv0_wf; eauto.
Qed.

(** When all calls have returned, tmp/ holds exactly the files that were
    lying there before, untouched. *)
Theorem multi_no_temp_left : forall g objs0 tmp0 inputs sched j,
  wf_objs D objs0 -> strays_ok (length inputs) tmp0 ->
  all_done (gruns g objs0 tmp0 inputs sched) ->
  lookup_nat j (tmp (sfs (gruns g objs0 tmp0 inputs sched))) = lookup_nat j tmp0.
Proof.
  intros g objs0 tmp0 inputs sched j Hwf Hs Hdone.
  pose proof (inv0_grun g objs0 tmp0 inputs sched Hwf Hs) as I.
  set (s := gruns g objs0 tmp0 inputs sched) in *.
  destruct (Nat.lt_ge_cases j (length (sthr s))) as [Hlt|Hge].
  - rewrite Hs by (rewrite <- (inv0_len _ _ _ _ I); exact Hlt).
    destruct (nth_error (sthr s) j) as [t|] eqn:Et; [|apply nth_error_None in Et; lia].
    destruct (nth_error inputs j) as [s0|] eqn:Ei.
    2:{ apply nth_error_None in Ei. rewrite <- (inv0_len _ _ _ _ I) in Ei. lia. }
    destruct (res t) as [r|] eqn:Er.
    + destruct (linv0_done _ _ _ _ _ (inv0_thr _ _ _ _ I _ _ _ Et Ei) Er) as (A & _). exact A.
    + exfalso. apply (Hdone t); [eapply nth_error_In; eauto|assumption].
  - now apply (inv0_stray _ _ _ _ I).
Qed.

(** Files found in tmp/ are never touched, at any moment. *)
Theorem multi_strays_untouched : forall g objs0 tmp0 inputs sched j,
  wf_objs D objs0 -> strays_ok (length inputs) tmp0 ->
  length inputs <= j ->
  lookup_nat j (tmp (sfs (gruns g objs0 tmp0 inputs sched))) = lookup_nat j tmp0.
Proof.
  intros g objs0 tmp0 inputs sched j Hwf Hs Hj.
  pose proof (inv0_grun g objs0 tmp0 inputs sched Hwf Hs) as I.
  apply (inv0_stray _ _ _ _ I). now rewrite (inv0_len _ _ _ _ I).
Qed.

(** Every object is an initial one or the complete input of a call that
    committed it. *)
Theorem multi_objects_provenance : forall g objs0 tmp0 inputs sched k c,
  wf_objs D objs0 -> strays_ok (length inputs) tmp0 ->
  lookup_key k (objs (sfs (gruns g objs0 tmp0 inputs sched))) = Some c ->
  In (k, c) objs0 \/
  exists tid s0, nth_error inputs tid = Some s0 /\ drain s0 = (c, REof) /\ k = HK c.
Proof.
  intros g objs0 tmp0 inputs sched k c Hwf Hs Hl.
  pose proof (inv0_grun g objs0 tmp0 inputs sched Hwf Hs) as I.
  destruct (inv0_prov _ _ _ _ I _ _ (lookup_key_In _ _ _ Hl)) as [Hi|(tid & t & Ht & Hc & Hk & Ha)];
    [now left|right].
  set (s := gruns g objs0 tmp0 inputs sched) in *.
  assert (Hj : tid < length (sthr s)) by (apply nth_error_Some; congruence).
  destruct (nth_error inputs tid) as [s0|] eqn:Ei.
  2:{ apply nth_error_None in Ei. rewrite <- (inv0_len _ _ _ _ I) in Ei. lia. }
  destruct (linv0_committed _ _ _ _ (inv0_thr _ _ _ _ I _ _ _ Ht Ei) Hc) as (C1 & C2 & _).
  exists tid, s0. subst c. repeat split; auto. congruence.
Qed.

(** ** Threads that call Open and Has

    An observer performs its file-system action (os.Open followed by reading
    the file, or os.Stat) at some moment of the schedule; whether it took the
    read lock first, and of which store object, only restricts which moments
    are possible.  Its result is recorded when it acts. *)

(** what a recorded observation must satisfy: it refers to the inputs and
    the initial directory only, never to a file in the making *)
Definition obs_sound objs0 (inputs : list script) (o : obsv) (r : oresv) : Prop :=
  match o, r with
  | OOpen k, ORes (OFound c) =>
      HK c = k /\ vkey k = true /\
      (In (k, c) objs0 \/ exists tid s0, nth_error inputs tid = Some s0 /\ drain s0 = (c, REof))
  | OHas k, OBool true =>
      vkey k = true /\
      exists c, HK c = k /\
        (In (k, c) objs0 \/ exists tid s0, nth_error inputs tid = Some s0 /\ drain s0 = (c, REof))
  | _, _ => True
  end.

Lemma observe_sound objs0 tmp0 inputs s o :
  inv0 objs0 tmp0 inputs s -> obs_sound objs0 inputs o (observe (sfs s) o).
Proof.
  intros I. destruct o as [k|k]; cbn [observe obs_sound].
  - unfold fs_open. destruct (vkey k) eqn:Ev; [|exact Logic.I].
    destruct (lookup_key k (objs (sfs s))) as [c|] eqn:El; [|exact Logic.I].
    split; [eapply inv0_wf; eauto|split; [reflexivity|]].
    destruct (inv0_prov _ _ _ _ I _ _ (lookup_key_In _ _ _ El)) as [Hi|(tid & t & Ht & Hc & Hk & Ha)];
      [now left|right].
    assert (Hj : tid < length (sthr s)) by (apply nth_error_Some; congruence).
    destruct (nth_error inputs tid) as [s0|] eqn:Ei.
    2:{ apply nth_error_None in Ei. rewrite <- (inv0_len _ _ _ _ I) in Ei. lia. }
    destruct (linv0_committed _ _ _ _ (inv0_thr _ _ _ _ I _ _ _ Ht Ei) Hc) as (C1 & _).
    exists tid, s0. split; [exact Ei|]. congruence.
  - unfold fs_has, has_key. destruct (vkey k) eqn:Ev; [|exact Logic.I]. cbn [andb].
    destruct (lookup_key k (objs (sfs s))) as [c|] eqn:El; [|exact Logic.I].
    split; [reflexivity|]. exists c. split; [eapply inv0_wf; eauto|].
    destruct (inv0_prov _ _ _ _ I _ _ (lookup_key_In _ _ _ El)) as [Hi|(tid & t & Ht & Hc & Hk & Ha)];
      [now left|right].
    assert (Hj : tid < length (sthr s)) by (apply nth_error_Some; congruence).
    destruct (nth_error inputs tid) as [s0|] eqn:Ei.
    2:{ apply nth_error_None in Ei. rewrite <- (inv0_len _ _ _ _ I) in Ei. lia. }
    destruct (linv0_committed _ _ _ _ (inv0_thr _ _ _ _ I _ _ _ Ht Ei) Hc) as (C1 & _).
    exists tid, s0. split; [exact Ei|]. congruence.
Qed.

Definition minv objs0 tmp0 inputs (s : msys) : Prop :=
  inv0 objs0 tmp0 inputs (ms s) /\
  forall j o r, nth_error (mo s) j = Some (o, Some r) -> obs_sound objs0 inputs o r.

Lemma minv_step g og objs0 tmp0 inputs s e :
  minv objs0 tmp0 inputs s -> minv objs0 tmp0 inputs (mstep g og s e).
Proof.
  intros [I Ho]. destruct e as [c|j]; cbn [mstep].
  - split; [|exact Ho]. cbn [ms]. unfold gstep. destruct (g (ms s) c); [now apply inv0_step|exact I].
  - destruct (nth_error (mo s) j) as [[o [r|]]|] eqn:Ej; try (split; assumption).
    destruct (og (ms s) j); [|split; assumption].
    split; [exact I|]. cbn [mo]. intros j' o' r' Hj'.
    destruct (Nat.eq_dec j' j) as [->|Hne].
    + rewrite (nth_error_upd_same _ _ _ _ Ej) in Hj'. injection Hj' as <- <-.
      eapply observe_sound; eauto.
    + rewrite nth_error_upd_other in Hj' by auto. eauto.
Qed.

(** Any number of store objects on the directory, any number of creating
    and observing threads, any interleaving, any failing system calls, with
    or without read locks: what Open returns hashes to the key asked for and
    is the complete content of an initial object or of some call's whole
    input — never a file in the making; Has answers true only for such a
    key. *)
Theorem multi_observers_sound : forall g og objs0 tmp0 inputs obs sched j o r,
  wf_objs D objs0 -> strays_ok (length inputs) tmp0 ->
  nth_error (mo (mrun g og (minit fs_create_skel objs0 tmp0 inputs obs) sched)) j = Some (o, Some r) ->
  obs_sound objs0 inputs o r.
Proof.
  intros g og objs0 tmp0 inputs obs sched j o r Hwf Hs.
  assert (G : forall s, minv objs0 tmp0 inputs s ->
                        minv objs0 tmp0 inputs (fold_left (mstep g og) sched s)).
  { induction sched as [|e rr IH]; intros s I; [exact I|]. cbn. apply IH. now apply minv_step. }
  assert (I0 : minv objs0 tmp0 inputs (minit fs_create_skel objs0 tmp0 inputs obs)).
  { split; [now apply inv0_init|]. cbn [minit mo]. intros j' o' r' Hj'.
    rewrite nth_error_map in Hj'. destruct (nth_error obs j'); discriminate. }
  intros Hj. exact (proj2 (G _ I0) j o r Hj).
Qed.

End Multi.
