(** Executable model of shanhu.io/g/dags (definitions only; proofs are in
    the sibling files).

    Go maps are modelled as duplicate-free lists ("sets as lists") and as
    association lists.  Go iterates a map in an unspecified order: every
    [range] over a map whose order can influence the state that follows goes
    through the oracle [sh tick l], an arbitrary function that the theorems
    only assume to return a permutation of [l].  The correspondence runs
    instantiate it with the identity ([sh_id]); every compared observable is
    proved independent of it.

    Names are [N]; the harness maps the strings of a case to their rank in
    sorted order, so [N.ltb] is Go's string [<] on the names of the case. *)
From Coq Require Import List NArith ZArith Bool Arith.
Import ListNotations.

Definition name := N.
Definition graph := list (name * list name).     (* Graph.Nodes : map[string][]string *)

Definition keys (g : graph) : list name := map fst g.

Fixpoint adj (g : graph) (u : name) : list name :=
  match g with
  | [] => []
  | (k, l) :: r => if N.eqb u k then l else adj r u
  end.

Fixpoint memb (x : name) (l : list name) : bool :=
  match l with
  | [] => false
  | y :: r => if N.eqb x y then true else memb x r
  end.

(** [m[x] = ...] on a set *)
Definition addn (x : name) (l : list name) : list name :=
  if memb x l then l else l ++ [x].

Definition dedup : list name -> list name := nodup N.eq_dec.

Section Assoc.
  Context {A : Type}.
  Fixpoint aget (d : A) (m : list (name * A)) (k : name) : A :=
    match m with
    | [] => d
    | (k', v) :: r => if N.eqb k k' then v else aget d r k
    end.
  Fixpoint aset (m : list (name * A)) (k : name) (v : A) : list (name * A) :=
    match m with
    | [] => [(k, v)]
    | (k', v') :: r => if N.eqb k k' then (k, v) :: r else (k', v') :: aset r k v
    end.
  Fixpoint afind (m : list (name * A)) (k : name) : option A :=
    match m with
    | [] => None
    | (k', v) :: r => if N.eqb k k' then Some v else afind r k
    end.
End Assoc.

Definition sets := list (name * list name).
Definition sget (m : sets) (k : name) : list name := aget [] m k.
Definition sadd (m : sets) (k x : name) : sets := aset m k (addn x (sget m k)).

(** Insertion sort with a strict "less" test (sort.Sort with a total order
    has exactly one possible result). *)
Section Sort.
  Context {A : Type} (lt : A -> A -> bool).
  Fixpoint insert_by (x : A) (l : list A) : list A :=
    match l with
    | [] => [x]
    | y :: r => if lt x y then x :: l else y :: insert_by x r
    end.
  Definition sort_by (l : list A) : list A := fold_right insert_by [] l.
End Sort.

Definition sort_names : list name -> list name := sort_by N.ltb.

(** * graph.go / map.go initMap *)

Definition is_key (g : graph) (v : name) : bool := memb v (keys g).

(** every edge target is a node ([initMap] returns "missing node" otherwise) *)
Definition targets_ok (g : graph) : bool :=
  forallb (fun e => forallb (is_key g) (snd e)) g.

(** Nedge counts list entries (duplicates included) *)
Definition nedge (g : graph) : nat :=
  fold_left (fun a e => a + length (snd e)) g 0.

(** MapNode.Outs / MapNode.Ins as sets *)
Definition outs (g : graph) (u : name) : list name := dedup (adj g u).
Definition ins (g : graph) (v : name) : list name :=
  filter (fun u => memb v (adj g u)) (keys g).

Definition tk (site a b : N) : N := (site + 16 * (a + 4294967296 * b))%N.

Section Ord.
Variable sh : N -> list name -> list name.

(** * map.go makeLayers (Kahn with hit counts) *)

Definition cnt := list (name * nat).

(** the inner [out.nhit++; if out.nhit == len(out.Ins) { next = append }] over
    the flattened sequence of (node, out) visits of one round *)
Fixpoint hit_all (g : graph) (hits : list name) (nh : cnt) (next : list name)
  : cnt * list name :=
  match hits with
  | [] => (nh, next)
  | v :: r =>
      let c := S (aget 0 nh v) in
      hit_all g r (aset nh v c)
        (if Nat.eqb c (length (ins g v)) then next ++ [v] else next)
  end.

Definition layer_hits (g : graph) (cur : list name) : list name :=
  flat_map (fun u => sh (tk 2 u 0) (outs g u)) cur.

Fixpoint layers_loop (g : graph) (fuel : nat) (cur : list name) (nh : cnt)
         (acc : list (list name)) : option (list (list name)) :=
  match cur with
  | [] => Some acc
  | _ :: _ =>
      match fuel with
      | O => None
      | S f =>
          let '(nh', next) := hit_all g (layer_hits g cur) nh [] in
          layers_loop g f next nh' (acc ++ [cur])
      end
  end.

Definition sources (g : graph) : list name :=
  filter (fun v => match ins g v with [] => true | _ => false end) (keys g).

Definition make_layers (g : graph) : option (list (list name)) :=
  layers_loop g (length g) (sh (tk 1 0 0) (sources g)) [] [].

(** nodes that never got a layer ([left] in makeLayers) *)
Definition left_nodes (g : graph) (ls : list (list name)) : list name :=
  filter (fun k => negb (memb k (concat ls))) (keys g).

Fixpoint index_layers (ls : list (list name)) (i : nat) : list (name * nat) :=
  match ls with
  | [] => []
  | l :: r => map (fun v => (v, i)) l ++ index_layers r (S i)
  end.

(** * circle.go minCircle (after the fix: visited is extended) *)

Record snode := mkS { s_start : name; s_this : name; s_path : list name }.
(* s_path: the names from s_this back to s_start (what following [last]
   yields); searchNode.length = length s_path *)

Fixpoint scan_outs (start : name) (path : list name) (os : list name)
         (vs : list name) (new : list snode) : list name * list snode :=
  match os with
  | [] => (vs, new)
  | v :: r =>
      if memb v vs then scan_outs start path r vs new
      else if N.ltb v start then scan_outs start path r vs new
      else scan_outs start path r (v :: vs) (new ++ [mkS start v (v :: path)])
  end.

Inductive sres := SFound (c : list name) | SNone | SFuel.

Fixpoint search (g : graph) (fuel : nat) (pt : N) (vis : sets)
         (queue : list snode) : sres :=
  match queue with
  | [] => SNone
  | sn :: rest =>
      match fuel with
      | O => SFuel
      | S f =>
          let os := sh (tk 4 pt 0) (outs g (s_this sn)) in
          if memb (s_start sn) os then SFound (rev (s_path sn))
          else
            let '(vs, new) :=
              scan_outs (s_start sn) (s_path sn) os (sget vis (s_start sn)) [] in
            search g f (pt + 1)%N (aset vis (s_start sn) vs) (rest ++ new)
      end
  end.

Definition circle_fuel (g : graph) : nat := S (length g + length g * length g).

Definition min_circle (g : graph) : sres :=
  search g (circle_fuel g) 0%N
    (map (fun k => (k, [k])) (keys g))
    (map (fun k => mkS k k [k]) (sh (tk 3 0 0) (keys g))).

(** * CheckDAG / the error paths of NewMap *)

Inductive verdict :=
| VOk (layers : list (list name))
| VMissing                      (* "missing node %q for %q" *)
| VCircle (c : list name)       (* "graph has circle: a->b->c" *)
| VPanic                        (* panic("should find a circle") *)
| VFuel.                        (* model ran out of fuel: excluded by theorem *)

Definition check_dag (g : graph) : verdict :=
  if negb (targets_ok g) then VMissing
  else match make_layers g with
       | None => VFuel
       | Some ls =>
           match left_nodes g ls with
           | [] => VOk ls
           | _ :: _ =>
               match min_circle g with
               | SFound [] => VPanic
               | SFound c => VCircle c
               | SNone => VPanic
               | SFuel => VFuel
               end
           end
       end.

(** * map.go buildAlls *)

Definition link (st : sets * sets) (i o : name) : sets * sets :=
  (sadd (fst st) o i, sadd (snd st) i o).     (* out.AllIns[in]; in.AllOuts[out] *)

Definition alls_out (st : sets * sets) (node out : name) : sets * sets :=
  link (fold_left (fun st i => link st i out)
                  (sh (tk 6 node out) (sget (fst st) node)) st)
       node out.

Definition alls_node (g : graph) (st : sets * sets) (node : name) : sets * sets :=
  fold_left (fun st o => alls_out st node o) (sh (tk 5 node 0) (outs g node)) st.

Definition empty_sets (g : graph) : sets := map (fun k => (k, [])) (keys g).

Definition build_alls (g : graph) (ls : list (list name)) : sets * sets :=
  fold_left (fun st layer => fold_left (alls_node g) layer st) ls
            (empty_sets g, empty_sets g).

End Ord.

(** * map.go isCrit / buildCrits (set-valued; iteration order immaterial) *)

Definition is_crit (ao : sets) (from to : name) : bool :=
  forallb (fun via => N.eqb via to || negb (memb to (sget ao via))) (sget ao from).

Definition crit_outs (g : graph) (ao : sets) (u : name) : list name :=
  filter (is_crit ao u) (outs g u).
Definition crit_ins (g : graph) (ao : sets) (v : name) : list name :=
  filter (fun u => is_crit ao u v) (ins g v).
Definition ncrit (g : graph) (ao : sets) : nat :=
  fold_left (fun a u => a + length (crit_outs g ao u)) (keys g) 0.

(** * Map *)

Record dmap := mkMap {
  m_g : graph;
  m_layers : list (list name);       (* makeLayers result *)
  m_ai : sets;                       (* AllIns *)
  m_ao : sets;                       (* AllOuts *)
}.

Definition m_nlayer (m : dmap) : nat := length (m_layers m).
Definition m_lay0 (m : dmap) : list (name * nat) := index_layers (m_layers m) 0.
Definition m_crit_outs (m : dmap) (u : name) := crit_outs (m_g m) (m_ao m) u.
Definition m_crit_ins (m : dmap) (v : name) := crit_ins (m_g m) (m_ao m) v.

Inductive mres := MOk (m : dmap) | MErr (v : verdict).

Definition new_map (sh : N -> list name -> list name) (g : graph) : mres :=
  match check_dag sh g with
  | VOk ls => let '(ai, ao) := build_alls sh g ls in MOk (mkMap g ls ai ao)
  | v => MErr v
  end.

(** * Source-derived parameters of sorting and placing (regenerated from
      /repo by gen/dags.go into Gen/DagsSrc.v) *)

(** sort keys of the Less methods *)
Inductive ckey := KLayer | KNCritIns | KNCritOuts | KName | KUnknown.
Definition cmp_keys := list (ckey * bool).        (* key, ascending? *)

(** one arm of snapNearBy: all conditions (offset from y, expected taken?)
    hold => y moves by sn_move *)
Record snap_rule := mkSnap { sn_conds : list (Z * bool); sn_move : Z }.

Record lparams := mkP {
  p_by_layer : cmp_keys;        (* byLayer.Less *)
  p_by_ncrit : cmp_keys;        (* byNcritOuts.Less *)
  p_reserve : list Z;           (* offsets o with tak[y+o] = true in LayoutMap *)
  p_snap : list snap_rule;      (* snapNearBy *)
}.

Fixpoint cmp_lt (val : ckey -> name -> N) (ks : cmp_keys) (a b : name) : bool :=
  match ks with
  | [] => false
  | (k, asc) :: r =>
      if N.ltb (val k a) (val k b) then asc
      else if N.ltb (val k b) (val k a) then negb asc
      else cmp_lt val r a b
  end.

(** * push_tight.go (after the fix: checkPush memoised per call, pushNode
      skips nodes already in the pushed set) *)

Definition lays := list (name * nat).
Definition lget (L : lays) (v : name) : nat := aget 0 L v.

Definition pmemo := list (name * (bool * bool)).

Section Push.
Variable P : lparams.
Variable m : dmap.
Let nl := m_nlayer m.

(** loop over node.CritOuts inside checkPush; [rec] is the recursive call *)
Fixpoint cp_loop (rec : name -> pmemo -> option ((bool * bool) * pmemo))
         (L : lays) (lnode : nat) (os : list name) (worthy : bool) (memo : pmemo)
  : option ((bool * bool) * pmemo) :=
  match os with
  | [] => Some ((true, worthy), memo)
  | o :: r =>
      if Nat.ltb (S lnode) (lget L o) then cp_loop rec L lnode r true memo
      else match rec o memo with
           | None => None
           | Some ((able, w), memo') =>
               if able then cp_loop rec L lnode r (worthy || w) memo'
               else Some ((false, false), memo')
           end
  end.

Fixpoint check_push (fuel : nat) (L : lays) (node : name) (memo : pmemo)
  : option ((bool * bool) * pmemo) :=
  match fuel with
  | O => None
  | S f =>
      match afind memo node with
      | Some r => Some (r, memo)
      | None =>
          let res :=
            if Nat.eqb (S (lget L node)) nl then Some ((false, false), memo)
            else cp_loop (check_push f L) L (lget L node) (m_crit_outs m node) false memo in
          match res with
          | None => None
          | Some (r, memo') => Some (r, aset memo' node r)
          end
      end
  end.

(** pushNode: the set of nodes that move *)
Fixpoint pn_loop (rec : name -> list name -> option (list name))
         (L : lays) (lnode : nat) (os : list name) (pushed : list name)
  : option (list name) :=
  match os with
  | [] => Some pushed
  | o :: r =>
      if Nat.ltb (S lnode) (lget L o) then pn_loop rec L lnode r pushed
      else match rec o pushed with
           | None => None
           | Some p' => pn_loop rec L lnode r p'
           end
  end.

Fixpoint push_node (fuel : nat) (L : lays) (node : name) (pushed : list name)
  : option (list name) :=
  match fuel with
  | O => None
  | S f =>
      if memb node pushed then Some pushed
      else match pn_loop (push_node f L) L (lget L node) (m_crit_outs m node) pushed with
           | None => None
           | Some p => Some (addn node p)
           end
  end.

Inductive pres := POk (L : lays) | PPanic | PFuel.

Definition incr_layers (L : lays) (pushed : list name) : lays :=
  fold_left (fun L p => aset L p (S (lget L p))) pushed L.

(** [for pushWorthy(m, node) { push }] *)
Fixpoint push_while (fuel : nat) (L : lays) (node : name) : pres :=
  match fuel with
  | O => PFuel
  | S f =>
      match check_push (S nl) L node [] with
      | None => PFuel
      | Some ((_, worthy), _) =>
          if worthy then
            match push_node (S nl) L node [] with
            | None => PFuel
            | Some pushed =>
                let L' := incr_layers L pushed in
                if forallb (fun p => Nat.ltb (lget L' p) nl) pushed
                then push_while f L' node
                else PPanic                   (* "pushing to hard, increasing layers" *)
            end
          else POk L
      end
  end.

Definition kval (L : lays) (k : ckey) (v : name) : N :=
  match k with
  | KLayer => N.of_nat (lget L v)
  | KNCritIns => N.of_nat (length (m_crit_ins m v))
  | KNCritOuts => N.of_nat (length (m_crit_outs m v))
  | KName => v
  | KUnknown => 0%N
  end.

Definition by_layer_lt (L : lays) : name -> name -> bool := cmp_lt (kval L) (p_by_layer P).

Definition sorted_nodes (L : lays) : list name :=
  sort_by (by_layer_lt L) (keys (m_g m)).

Fixpoint push_all (L : lays) (nodes : list name) : pres :=
  match nodes with
  | [] => POk L
  | node :: r =>
      match push_while (S nl) L node with
      | POk L' => push_all L' r
      | e => e
      end
  end.

Definition push_tight : pres := push_all (m_lay0 m) (rev (sorted_nodes (m_lay0 m))).

(** * layout.go LayoutMap *)

Definition by_ncrit_lt (L : lays) : name -> name -> bool := cmp_lt (kval L) (p_by_ncrit P).

(** SortedLayers (after pushing); indexing ret[node.layer] panics when a
    layer is out of range *)
Definition sorted_layers (L : lays) : option (list (list name)) :=
  if forallb (fun v => Nat.ltb (lget L v) nl) (keys (m_g m)) then
    Some (map (fun i => sort_by (by_ncrit_lt L)
                         (filter (fun v => Nat.eqb (lget L v) i) (keys (m_g m))))
              (seq 0 nl))
  else None.

Fixpoint zmem (y : Z) (l : list Z) : bool :=
  match l with
  | [] => false
  | z :: r => if Z.eqb y z then true else zmem y r
  end.

Definition ys := list (name * Z).
Definition yget (Y : ys) (v : name) : Z := aget 0%Z Y v.

Definition avg_crit_in_y (Y : ys) (n : name) : Z :=
  match m_crit_ins m n with
  | [] => 0%Z
  | cins =>
      let nin := Z.of_nat (length cins) in
      let sum := fold_left (fun a i => (a + yget Y i)%Z) cins 0%Z in
      Z.quot (sum + Z.quot nin 2) nin       (* Go integer division truncates *)
  end.

Fixpoint find_y (fuel : nat) (tak : list Z) (yavg offset : Z) : option Z :=
  match fuel with
  | O => None
  | S f =>
      if negb (zmem (yavg + offset) tak) then Some (yavg + offset)%Z
      else if negb (zmem (yavg - offset) tak) then Some (yavg - offset)%Z
      else find_y f tak yavg (offset + 1)%Z
  end.

Definition rule_holds (tak : list Z) (y : Z) (r : snap_rule) : bool :=
  forallb (fun c => Bool.eqb (zmem (y + fst c) tak) (snd c)) (sn_conds r).

Fixpoint snap_rules (tak : list Z) (y : Z) (rs : list snap_rule) : Z :=
  match rs with
  | [] => y
  | r :: rest => if rule_holds tak y r then (y + sn_move r)%Z else snap_rules tak y rest
  end.

Definition snap_near_by (tak : list Z) (y : Z) : Z := snap_rules tak y (p_snap P).

Definition crit_out_max_layer (L : lays) (n : name) : nat :=
  fold_left (fun r o => if Nat.ltb r (lget L o) then lget L o else r)
            (m_crit_outs m n) (lget L n).

Fixpoint take_slot (slots : list (list Z)) (i : nat) (zs : list Z) : list (list Z) :=
  match slots, i with
  | [], _ => []
  | t :: r, O => (zs ++ t) :: r
  | t :: r, S i' => t :: take_slot r i' zs
  end.

Record lstate := mkL { l_slots : list (list Z); l_y : ys; l_ymin : Z }.

Inductive lres := LOk (st : lstate) | LFuel.

Definition place (L : lays) (st : lstate) (node : name) : lres :=
  let x := lget L node in
  let tak := nth x (l_slots st) [] in
  match find_y (S (length tak)) tak (avg_crit_in_y (l_y st) node) 0%Z with
  | None => LFuel
  | Some y0 =>
      let y := snap_near_by tak y0 in
      let slots1 := take_slot (l_slots st) x (map (fun o => (y + o)%Z) (p_reserve P)) in
      let xmax := crit_out_max_layer L node in
      let slots2 :=
        fold_left (fun s i => take_slot s i [y]) (seq (S x) (xmax - S x)) slots1 in
      LOk (mkL slots2 (aset (l_y st) node y) (if Z.ltb y (l_ymin st) then y else l_ymin st))
  end.

Fixpoint place_all (L : lays) (st : lstate) (nodes : list name) : lres :=
  match nodes with
  | [] => LOk st
  | n :: r => match place L st n with
              | LOk st' => place_all L st' r
              | e => e
              end
  end.

Record view := mkV {
  v_nodes : list (name * (nat * Z));     (* name -> (X, Y) *)
  v_width : nat;
  v_height : Z;
}.

Inductive vres := VwOk (v : view) | VwPanic | VwFuel.

Definition layout_map : vres :=
  match push_tight with
  | PPanic => VwPanic
  | PFuel => VwFuel
  | POk L =>
      match sorted_layers L with
      | None => VwPanic
      | Some sl =>
          match place_all L (mkL (repeat [] nl) [] 0%Z) (concat sl) with
          | LFuel => VwFuel
          | LOk st =>
              let ymin := l_ymin st in
              let nodes := map (fun k => (k, (lget L k, (yget (l_y st) k - ymin)%Z)))
                               (keys (m_g m)) in
              let ymax := fold_left (fun a e => if Z.ltb a (snd (snd e)) then snd (snd e) else a)
                                    nodes 0%Z in
              VwOk (mkV nodes nl (ymax + 1)%Z)
          end
      end
  end.

End Push.

(** decidable well-formedness of the source-derived parameters: every
    snapNearBy arm tests that its target slot is free; the node's own slot is
    among the reserved ones; both sort orders end in the (unique) name, so
    that sort.Sort has exactly one possible result *)
Definition snap_ok (rs : list snap_rule) : bool :=
  forallb (fun r => existsb (fun c => Z.eqb (fst c) (sn_move r) && negb (snd c)) (sn_conds r)) rs.
Definition reserve_ok (l : list Z) : bool := existsb (Z.eqb 0) l.
Definition keys_total (ks : cmp_keys) : bool :=
  match last ks (KUnknown, true) with (KName, _) => true | _ => false end &&
  forallb (fun k => match fst k with KUnknown => false | _ => true end) ks.
Definition params_ok (P : lparams) : bool :=
  snap_ok (p_snap P) && reserve_ok (p_reserve P) &&
  keys_total (p_by_layer P) && keys_total (p_by_ncrit P).

(** byLayer sorts by layer first: then SortedNodes (TopoSort) is a
    topological order *)
Definition layer_first (ks : cmp_keys) : bool :=
  match ks with
  | (KLayer, true) :: _ => true
  | _ => false
  end.

(** * graph.go Reverse *)

Definition rev_graph (sh : N -> list name -> list name) (g : graph) : graph :=
  let r0 := map (fun k => (k, @nil name)) (keys g) in
  let r1 := fold_left
              (fun r n => fold_left (fun r t => aset r t (aget [] r t ++ [n])) (adj g n) r)
              (sh (tk 8 0 0) (keys g)) r0 in
  map (fun e => (fst e, sort_names (snd e))) r1.

Definition sh_id : N -> list name -> list name := fun _ l => l.
Definition sh_rev : N -> list name -> list name := fun _ l => rev l.
