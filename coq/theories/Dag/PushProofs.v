(** pushTight: every push keeps critical edges (hence all edges) strictly
    increasing in layer and inside the layer range; it never panics and never
    runs out of fuel. *)
From Coq Require Import List NArith ZArith Bool Arith Lia Permutation.
From Verif Require Import Dag.Model Dag.Facts Dag.KahnProofs Dag.ClosureProofs.
Import ListNotations.

(** what NewMap establishes (proved in MapProofs.v for every accepted graph) *)
Record accepted (m : dmap) : Prop := {
  a_wf : wf (m_g m);
  a_targets : targets_exist (m_g m);
  a_layered : layered (m_g m) (m_layers m);
  a_covers : forall v, In v (keys (m_g m)) -> In v (concat (m_layers m));
  a_ao : forall u v, In v (sget (m_ao m) u) <-> path (m_g m) u v;
  a_ai : forall u v, In u (sget (m_ai m) v) <-> path (m_g m) u v;
  a_acyclic : acyclic (m_g m);
}.

Section Push.
Variable Prm : lparams.
Variable m : dmap.
Hypothesis Acc : accepted m.
Let g := m_g m.
Let nl := m_nlayer m.

Definition crit (u v : name) : Prop := In v (m_crit_outs m u).

Lemma crit_edge : forall u v, crit u v -> edge g u v.
Proof.
  intros u v H. unfold crit, m_crit_outs in H.
  apply (crit_outs_spec g (m_ao m) (a_ao m Acc) (a_acyclic m Acc)) in H. tauto.
Qed.

Lemma crit_key : forall u v, crit u v -> In v (keys g).
Proof. intros u v H. eapply (a_targets m Acc). apply crit_edge. eassumption. Qed.

Inductive cpath : name -> name -> Prop :=
| cpath1 : forall u v, crit u v -> cpath u v
| cpathS : forall u w v, crit u w -> cpath w v -> cpath u v.

Lemma cpath_trans : forall u w v, cpath u w -> cpath w v -> cpath u v.
Proof. intros u w v H. induction H; intros; eapply cpathS; eauto. Qed.

(** ** the Kahn layer numbers *)

Definition lay0 (v : name) : nat := lget (m_lay0 m) v.

Lemma lay0_spec : forall i v, In v (nth i (m_layers m) []) -> lay0 v = i.
Proof.
  intros i v H. unfold lay0, lget, m_lay0.
  rewrite (index_layers_get (m_layers m) 0 i v); [reflexivity | apply (l_nodup _ _ (a_layered m Acc)) | assumption].
Qed.

Lemma lay0_layer : forall v, In v (keys g) -> In v (nth (lay0 v) (m_layers m) []) /\ lay0 v < nl.
Proof.
  intros v Hv. apply (a_covers m Acc) in Hv. apply in_concat_nth in Hv.
  destruct Hv as [i [Hi Hv]]. rewrite (lay0_spec i v Hv). split; assumption.
Qed.

Lemma lay0_edge : forall u v, edge g u v -> lay0 u < lay0 v.
Proof.
  intros u v E.
  assert (Hv : In v (keys g)) by (eapply (a_targets m Acc); eauto).
  destruct (lay0_layer v Hv) as [Hl _].
  destruct (l_before _ _ (a_layered m Acc) _ v u Hl E) as [j [Hj Hu]].
  rewrite (lay0_spec j u Hu). assumption.
Qed.

Lemma lay0_path : forall u v, path g u v -> lay0 u < lay0 v.
Proof. apply path_measure. apply lay0_edge. Qed.

(** every path is covered by a path of critical edges *)
Lemma path_cpath : forall d u v, path g u v -> lay0 v - lay0 u <= d -> cpath u v.
Proof.
  induction d as [|d IH]; intros u v P Hd.
  - pose proof (lay0_path u v P). lia.
  - destruct P as [u v E | u w v E P].
    + destruct (is_crit (m_ao m) u v) eqn:Ec.
      * constructor. unfold crit, m_crit_outs, crit_outs. apply filter_In. split; [apply In_outs; assumption | assumption].
      * apply (not_crit_witness g (m_ao m) (a_ao m Acc)) in Ec. destruct Ec as [w [P1 P2]].
        pose proof (lay0_path _ _ P1). pose proof (lay0_path _ _ P2).
        apply cpath_trans with w; apply IH; auto; lia.
    + pose proof (lay0_edge _ _ E). pose proof (lay0_path _ _ P).
      apply cpath_trans with w; apply IH; auto; [constructor; assumption | lia | lia].
Qed.

Lemma edge_cpath : forall u v, edge g u v -> cpath u v.
Proof. intros u v E. eapply path_cpath; [constructor; exact E | reflexivity]. Qed.

(** ** the invariant of pushing *)

Record pinv (L : lays) : Prop := {
  p_crit : forall u v, crit u v -> lget L u < lget L v;
  p_bound : forall v, In v (keys g) -> lget L v < nl;
}.

Lemma pinv_edge : forall L, pinv L -> forall u v, edge g u v -> lget L u < lget L v.
Proof.
  intros L I u v E. apply edge_cpath in E. induction E.
  - apply (p_crit L I). assumption.
  - pose proof (p_crit L I _ _ H). lia.
Qed.

Lemma pinv_init : pinv (m_lay0 m).
Proof.
  constructor.
  - intros u v C. apply lay0_edge. apply crit_edge. assumption.
  - intros v Hv. apply lay0_layer. assumption.
Qed.

(** [Able L u]: [u] and everything below it through tight critical edges can
    move up one layer *)
Inductive Able (L : lays) : name -> Prop :=
| able_intro : forall u,
    S (lget L u) <> nl ->
    (forall o, crit u o -> ~ S (lget L u) < lget L o -> Able L o) ->
    Able L u.

Definition memo_ok (L : lays) (memo : pmemo) : Prop :=
  forall x a w, afind memo x = Some (a, w) -> (a = true -> Able L x) /\ (w = true -> a = true).

Lemma cp_loop_sound : forall L rec lnode,
  (forall o memo r memo', memo_ok L memo -> rec o memo = Some (r, memo') ->
      memo_ok L memo' /\ (fst r = true -> Able L o) /\ (snd r = true -> fst r = true)) ->
  forall os worthy memo r memo',
  memo_ok L memo ->
  cp_loop rec L lnode os worthy memo = Some (r, memo') ->
  memo_ok L memo' /\
  (fst r = true -> forall o, In o os -> ~ S lnode < lget L o -> Able L o) /\
  (snd r = true -> fst r = true).
Proof.
  intros L rec lnode Hrec. induction os as [|o os' IH]; intros worthy memo r memo' Hm H; simpl in H.
  - inversion H; subst. simpl. split; [assumption|]. split; [intros _ o []| auto].
  - destruct (Nat.ltb_spec (S lnode) (lget L o)).
    + destruct (IH _ _ _ _ Hm H) as [A [B C]]. split; [assumption|]. split; [|assumption].
      intros Hr o' [<-|Ho'] Ht; [lia | apply B; assumption].
    + destruct (rec o memo) as [[[a w] memo1]|] eqn:Er; [|discriminate].
      destruct (Hrec _ _ _ _ Hm Er) as [A1 [B1 C1]]. simpl in *.
      destruct a.
      * destruct (IH _ _ _ _ A1 H) as [A [B C]]. split; [assumption|]. split; [|assumption].
        intros Hr o' [<-|Ho'] Ht; [apply B1; reflexivity | apply B; assumption].
      * inversion H; subst. simpl. split; [assumption|]. split; discriminate.
Qed.

Lemma check_push_sound : forall fuel L u memo r memo',
  memo_ok L memo -> check_push m fuel L u memo = Some (r, memo') ->
  memo_ok L memo' /\ (fst r = true -> Able L u) /\ (snd r = true -> fst r = true).
Proof.
  induction fuel as [|f IH]; intros L u memo r memo' Hm H; cbn [check_push] in H; [discriminate|].
  destruct (afind memo u) as [[a w]|] eqn:Ef.
  - inversion H; subst. simpl. split; [assumption|]. apply (Hm u a w Ef).
  - fold nl in H.
    assert (G : forall r0 memo0, memo_ok L memo0 ->
                (fst r0 = true -> Able L u) -> (snd r0 = true -> fst r0 = true) ->
                memo_ok L (aset memo0 u r0)).
    { intros [a0 w0] memo0 Hm0 Ha Hw x a w Hx. rewrite afind_aset in Hx.
      destruct (N.eqb_spec x u); [inversion Hx; subst; simpl in *; auto | eapply Hm0; eauto]. }
    destruct (Nat.eqb_spec (S (lget L u)) nl).
    + inversion H; subst. simpl. split; [|split; discriminate].
      apply G; simpl; auto; discriminate.
    + destruct (cp_loop (check_push m f L) L (lget L u) (m_crit_outs m u) false memo) as [[r1 memo1]|] eqn:Ec; [|discriminate].
      inversion H; subst.
      destruct (cp_loop_sound L (check_push m f L) (lget L u)
                  (fun o memo r memo' Hm0 Hr => IH L o memo r memo' Hm0 Hr)
                  _ _ _ _ _ Hm Ec) as [A [B C]].
      assert (Ha : fst r = true -> Able L u).
      { intros Hr. constructor; [assumption|]. intros o Ho Ht. apply B; assumption. }
      split; [apply G; assumption | split; assumption].
Qed.

Lemma memo_ok_nil : forall L, memo_ok L [].
Proof. intros L x a w H. discriminate. Qed.

(** ** fuel of checkPush *)

Lemma tight_next : forall L, pinv L -> forall u o, crit u o -> ~ S (lget L u) < lget L o ->
  lget L o = S (lget L u).
Proof. intros L I u o C H. pose proof (p_crit L I _ _ C). lia. Qed.

Lemma cp_loop_some : forall L rec lnode,
  forall os, (forall o memo, In o os -> ~ S lnode < lget L o -> rec o memo <> None) ->
  forall worthy memo, cp_loop rec L lnode os worthy memo <> None.
Proof.
  intros L rec lnode. induction os as [|o os' IH]; intros Hrec worthy memo; simpl; [discriminate|].
  destruct (Nat.ltb_spec (S lnode) (lget L o)).
  - apply IH. intros o' memo0 Ho'. apply Hrec. right; assumption.
  - destruct (rec o memo) as [[[a w] memo1]|] eqn:Er.
    + destruct a; [|discriminate]. apply IH. intros o' memo0 Ho'. apply Hrec. right; assumption.
    + exfalso. eapply Hrec; [left; reflexivity | lia | exact Er].
Qed.

Lemma check_push_some : forall L, pinv L -> forall fuel u memo,
  In u (keys g) -> nl <= fuel + lget L u -> check_push m fuel L u memo <> None.
Proof.
  intros L I. induction fuel as [|f IH]; intros u memo Ku Hf.
  - pose proof (p_bound L I u Ku). lia.
  - cbn [check_push]. destruct (afind memo u); [discriminate|]. fold nl.
    destruct (Nat.eqb_spec (S (lget L u)) nl); [discriminate|].
    destruct (cp_loop (check_push m f L) L (lget L u) (m_crit_outs m u) false memo) as [[r1 memo1]|] eqn:Ec; [discriminate|].
    exfalso. revert Ec. apply cp_loop_some. intros o memo0 Ho Ht.
    apply IH; [eapply crit_key; exact Ho|].
    rewrite (tight_next L I u o Ho Ht). lia.
Qed.

(** ** pushNode *)

Record pset (L : lays) (P : list name) : Prop := {
  ps_nodup : NoDup P;
  ps_keys : forall x, In x P -> In x (keys g);
  ps_able : forall x, In x P -> Able L x;
  ps_closed : forall x o, In x P -> crit x o -> ~ S (lget L x) < lget L o -> In o P;
}.

Lemma pn_loop_spec : forall L rec lnode,
  (forall o P0 P1, pset L P0 -> Able L o -> In o (keys g) -> rec o P0 = Some P1 ->
       pset L P1 /\ incl P0 P1 /\ In o P1) ->
  forall os P0 P1, pset L P0 -> (forall o, In o os -> In o (keys g)) ->
  (forall o, In o os -> ~ S lnode < lget L o -> Able L o) ->
  pn_loop rec L lnode os P0 = Some P1 ->
  pset L P1 /\ incl P0 P1 /\ (forall o, In o os -> ~ S lnode < lget L o -> In o P1).
Proof.
  intros L rec lnode Hrec. induction os as [|o os' IH]; intros P0 P1 HP Hk Hab H; simpl in H.
  - inversion H; subst. split; [assumption|]. split; [apply incl_refl | intros o []].
  - destruct (Nat.ltb_spec (S lnode) (lget L o)).
    + destruct (IH _ _ HP (fun o' Ho' => Hk o' (or_intror Ho')) (fun o' Ho' => Hab o' (or_intror Ho')) H) as [A [B C]].
      split; [assumption|]. split; [assumption|]. intros o' [<-|Ho'] Ht; [lia | auto].
    + destruct (rec o P0) as [Pm|] eqn:Er; [|discriminate].
      destruct (Hrec _ _ _ HP (Hab o (or_introl eq_refl) ltac:(lia)) (Hk o (or_introl eq_refl)) Er) as [A1 [B1 C1]].
      destruct (IH _ _ A1 (fun o' Ho' => Hk o' (or_intror Ho')) (fun o' Ho' => Hab o' (or_intror Ho')) H) as [A [B C]].
      split; [assumption|]. split; [eapply incl_tran; eauto|].
      intros o' [<-|Ho'] Ht; [apply B; assumption | auto].
Qed.

Lemma push_node_spec : forall fuel L u P0 P1,
  pset L P0 -> Able L u -> In u (keys g) -> push_node m fuel L u P0 = Some P1 ->
  pset L P1 /\ incl P0 P1 /\ In u P1.
Proof.
  induction fuel as [|f IH]; intros L u P0 P1 HP Hab Ku H; simpl in H; [discriminate|].
  destruct (memb u P0) eqn:Em.
  - inversion H; subst. apply memb_In in Em. split; [assumption|]. split; [apply incl_refl | assumption].
  - destruct (pn_loop (push_node m f L) L (lget L u) (m_crit_outs m u) P0) as [Pm|] eqn:El; [|discriminate].
    inversion H; subst. inversion Hab as [u' Hne Hsub]; subst.
    destruct (pn_loop_spec L (push_node m f L) (lget L u)
                (fun o Pa Pb Hpa Hao Hko Hr => IH L o Pa Pb Hpa Hao Hko Hr) _ _ _ HP
                (fun o Ho => crit_key u o Ho) Hsub El) as [A [B C]].
    split; [|split].
    + destruct A as [A1 A0 A2 A3]. constructor.
      * apply NoDup_addn. assumption.
      * intros x Hx. apply In_addn in Hx. destruct Hx as [->|Hx]; auto.
      * intros x Hx. apply In_addn in Hx. destruct Hx as [->|Hx]; auto.
      * intros x o Hx Hc Ht. apply In_addn. right. apply In_addn in Hx. destruct Hx as [->|Hx].
        -- apply C; assumption.
        -- eapply A3; eauto.
    + intros x Hx. apply In_addn. right. apply B. assumption.
    + apply In_addn. left. reflexivity.
Qed.

Lemma pn_loop_some : forall L rec lnode os,
  (forall o P0, In o os -> ~ S lnode < lget L o -> rec o P0 <> None) ->
  forall P0, pn_loop rec L lnode os P0 <> None.
Proof.
  intros L rec lnode. induction os as [|o os' IH]; intros Hrec P0; simpl; [discriminate|].
  destruct (Nat.ltb_spec (S lnode) (lget L o)).
  - apply IH. intros o' P Ho'. apply Hrec. right; assumption.
  - destruct (rec o P0) as [Pm|] eqn:Er.
    + apply IH. intros o' P Ho'. apply Hrec. right; assumption.
    + exfalso. eapply Hrec; [left; reflexivity | lia | exact Er].
Qed.

Lemma push_node_some : forall L, pinv L -> forall fuel u P0,
  In u (keys g) -> nl <= fuel + lget L u -> push_node m fuel L u P0 <> None.
Proof.
  intros L I. induction fuel as [|f IH]; intros u P0 Ku Hf.
  - pose proof (p_bound L I u Ku). lia.
  - simpl. destruct (memb u P0); [discriminate|].
    destruct (pn_loop (push_node m f L) L (lget L u) (m_crit_outs m u) P0) as [Pm|] eqn:El; [discriminate|].
    exfalso. revert El. apply pn_loop_some. intros o P Ho Ht.
    apply IH; [eapply crit_key; exact Ho|].
    rewrite (tight_next L I u o Ho Ht). lia.
Qed.

(** ** one push *)

Lemma incr_layers_get : forall P L v, NoDup P ->
  lget (incr_layers L P) v = if memb v P then S (lget L v) else lget L v.
Proof.
  induction P as [|p r IH]; intros L v Hn; simpl; [reflexivity|].
  inversion Hn; subst. rewrite IH by assumption.
  unfold lget at 1 3. rewrite aget_aset. fold (lget L v). fold (lget L p).
  destruct (N.eqb_spec v p).
  - subst. apply memb_false in H1. rewrite H1. reflexivity.
  - destruct (memb v r); reflexivity.
Qed.

Lemma pinv_push : forall L P, pinv L -> pset L P -> pinv (incr_layers L P).
Proof.
  intros L P I [N1 N0 N2 N3]. constructor.
  - intros u v C. rewrite !incr_layers_get by assumption.
    pose proof (p_crit L I u v C).
    destruct (memb u P) eqn:Eu, (memb v P) eqn:Ev; try lia.
    apply memb_In in Eu. apply memb_false in Ev.
    destruct (Nat.lt_ge_cases (S (lget L u)) (lget L v)); [lia|].
    exfalso. apply Ev. eapply N3; eauto. lia.
  - intros v Kv. rewrite incr_layers_get by assumption.
    pose proof (p_bound L I v Kv).
    destruct (memb v P) eqn:Ev; [|assumption].
    apply memb_In in Ev. apply N2 in Ev. inversion Ev; subst. lia.
Qed.

Lemma pset_nil : forall L, pset L [].
Proof. intros L. constructor; [constructor | intros x [] | intros x [] | intros x o []]. Qed.

(** ** the loops *)

Lemma push_while_ok : forall fuel L u, pinv L -> In u (keys g) ->
  nl < fuel + lget L u ->
  exists L', push_while m fuel L u = POk L' /\ pinv L'.
Proof.
  induction fuel as [|f IH]; intros L u I Ku Hf.
  - pose proof (p_bound L I u Ku). lia.
  - cbn [push_while]. fold nl.
    destruct (check_push m (S nl) L u []) as [[[a w] memo]|] eqn:Ec.
    2:{ exfalso. revert Ec. apply check_push_some; auto. lia. }
    destruct (check_push_sound _ _ _ _ _ _ (memo_ok_nil L) Ec) as [_ [Ha Hw]]. simpl in Ha, Hw.
    destruct w; [|exists L; auto].
    specialize (Ha (Hw eq_refl)).
    destruct (push_node m (S nl) L u []) as [P|] eqn:Ep.
    2:{ exfalso. revert Ep. apply push_node_some; auto. lia. }
    destruct (push_node_spec _ _ _ _ _ (pset_nil L) Ha Ku Ep) as [HP [_ Hu]].
    pose proof (pinv_push L P I HP) as I'.
    assert (Hall : forallb (fun p => Nat.ltb (lget (incr_layers L P) p) nl) P = true).
    { apply forallb_forall. intros p Hp. apply Nat.ltb_lt. apply (p_bound _ I').
      apply (ps_keys L P HP). assumption. }
    rewrite Hall. apply IH; auto.
    rewrite incr_layers_get by (apply (ps_nodup L P HP)).
    apply memb_In in Hu. rewrite Hu. lia.
Qed.

Lemma push_all_ok : forall nodes L, pinv L -> (forall u, In u nodes -> In u (keys g)) ->
  exists L', push_all m L nodes = POk L' /\ pinv L'.
Proof.
  induction nodes as [|u r IH]; intros L I Hk.
  - simpl. exists L. auto.
  - cbn [push_all]. fold nl. destruct (push_while_ok (S nl) L u I (Hk u (or_introl eq_refl))) as [L1 [E1 I1]]; [lia|].
    rewrite E1. apply IH; [assumption|]. intros x Hx. apply Hk. right. assumption.
Qed.

Theorem push_tight_ok : exists L, push_tight Prm m = POk L /\ pinv L.
Proof.
  unfold push_tight. apply push_all_ok; [apply pinv_init|].
  intros u Hu. apply in_rev in Hu. unfold sorted_nodes in Hu. apply In_sort_by in Hu. assumption.
Qed.

End Push.
