(** TopoSort / Map.SortedNodes: when the byLayer order starts with the layer,
    the sorted node list is a topological order of the graph. *)
From Coq Require Import List NArith Bool Arith Lia Permutation Sorted.
From Verif Require Import Dag.Model Dag.Facts Dag.KahnProofs Dag.ClosureProofs Dag.PushProofs.
Import ListNotations.

Section SortedBy.
  Context {A : Type} (lt : A -> A -> bool) (f : A -> nat).
  Hypothesis lt_le : forall x y, lt x y = true -> f x <= f y.
  Hypothesis nlt_ge : forall x y, lt x y = false -> f y <= f x.

  Let R (a b : A) : Prop := f a <= f b.

  Lemma insert_by_in : forall x l y, In y (insert_by lt x l) -> y = x \/ In y l.
  Proof.
    intros x l y H. apply (Permutation_in _ (insert_by_perm lt x l)) in H.
    destruct H; [left; auto | right; assumption].
  Qed.

  Lemma insert_by_sorted : forall x l, StronglySorted R l -> StronglySorted R (insert_by lt x l).
  Proof.
    induction l as [|y r IH]; intros S; simpl.
    - constructor; constructor.
    - inversion S; subst. destruct (lt x y) eqn:E.
      + constructor; [assumption|]. constructor.
        * apply lt_le. assumption.
        * rewrite Forall_forall in *. intros z Hz. specialize (H2 z Hz). apply lt_le in E. unfold R in *. lia.
      + constructor; [apply IH; assumption|].
        rewrite Forall_forall in *. intros z Hz. apply insert_by_in in Hz.
        destruct Hz as [->|Hz]; [apply nlt_ge; assumption | apply H2; assumption].
  Qed.

  Lemma sort_by_sorted : forall l, StronglySorted R (sort_by lt l).
  Proof.
    induction l as [|x r IH]; simpl; [constructor|]. apply insert_by_sorted. assumption.
  Qed.

  Lemma sorted_after : forall l1 v l2, StronglySorted R (l1 ++ v :: l2) -> forall u, In u l2 -> f v <= f u.
  Proof.
    induction l1 as [|a r IH]; intros v l2 S u Hu; simpl in S; inversion S; subst.
    - rewrite Forall_forall in H2. apply H2. assumption.
    - eapply IH; eauto.
  Qed.
End SortedBy.

Section Topo.
Variable P : lparams.
Hypothesis LF : layer_first (p_by_layer P) = true.
Variable m : dmap.
Hypothesis Acc : accepted m.
Let g := m_g m.

Lemma by_layer_le : forall L x y, by_layer_lt P m L x y = true -> lget L x <= lget L y.
Proof.
  intros L x y. unfold by_layer_lt. destruct (p_by_layer P) as [|[[] []] r]; try discriminate.
  simpl. destruct (N.ltb_spec (N.of_nat (lget L x)) (N.of_nat (lget L y))); [lia|].
  destruct (N.ltb_spec (N.of_nat (lget L y)) (N.of_nat (lget L x))); [discriminate | lia].
Qed.

Lemma by_layer_ge : forall L x y, by_layer_lt P m L x y = false -> lget L y <= lget L x.
Proof.
  intros L x y. unfold by_layer_lt. destruct (p_by_layer P) as [|[[] []] r]; try discriminate.
  simpl. destruct (N.ltb_spec (N.of_nat (lget L x)) (N.of_nat (lget L y))); [discriminate|]. lia.
Qed.

(** TopoSort returns [sorted_nodes P m (m_lay0 m)] *)
Theorem sorted_nodes_topological :
  let l := sorted_nodes P m (m_lay0 m) in
  Permutation l (keys g) /\
  forall l1 v l2 u, l = l1 ++ v :: l2 -> edge g u v -> In u l1.
Proof.
  simpl. split; [apply sort_by_perm|].
  intros l1 v l2 u E Ed.
  pose proof (sort_by_sorted (by_layer_lt P m (m_lay0 m)) (lget (m_lay0 m))
                (by_layer_le (m_lay0 m)) (by_layer_ge (m_lay0 m)) (keys (m_g m))) as S.
  fold (sorted_nodes P m (m_lay0 m)) in S. rewrite E in S.
  pose proof (lay0_edge m Acc u v Ed) as Hl. unfold lay0 in Hl.
  assert (Hu : In u (sorted_nodes P m (m_lay0 m))).
  { unfold sorted_nodes. apply In_sort_by. eapply edge_key; eauto. }
  rewrite E in Hu. apply in_app_iff in Hu. destruct Hu as [Hu|[Hu|Hu]].
  - assumption.
  - subst. lia.
  - pose proof (sorted_after (lget (m_lay0 m)) l1 v l2 S u Hu). lia.
Qed.

End Topo.
