(** Graph-theoretic vocabulary of C19 and basic facts about the containers
    of Dag/Model.v. *)
From Coq Require Import List NArith ZArith Bool Arith Lia Permutation.
From Verif Require Import Dag.Model.
Import ListNotations.

(** * Specification vocabulary *)

(** a Go map has distinct keys *)
Definition wf (g : graph) : Prop := NoDup (keys g).
Definition edge (g : graph) (u v : name) : Prop := In v (adj g u).
Definition targets_exist (g : graph) : Prop := forall u v, edge g u v -> In v (keys g).

Inductive path (g : graph) : name -> name -> Prop :=
| path1 : forall u v, edge g u v -> path g u v
| pathS : forall u w v, edge g u w -> path g w v -> path g u v.

Definition acyclic (g : graph) : Prop := forall u, ~ path g u u.

(** [chain g l]: consecutive elements of [l] are joined by edges *)
Fixpoint chain (g : graph) (l : list name) : Prop :=
  match l with
  | [] => True
  | x :: r => match r with
              | [] => True
              | y :: _ => edge g x y /\ chain g r
              end
  end.

(** a closed walk: x1 -> x2 -> ... -> xn -> x1, n >= 1 *)
Definition closed_walk (g : graph) (c : list name) : Prop :=
  match c with
  | [] => False
  | x :: _ => chain g (c ++ [x])
  end.

(** * memb, addn, association lists *)

Lemma memb_In : forall x l, memb x l = true <-> In x l.
Proof.
  induction l as [|y r IH]; simpl.
  - split; [discriminate | tauto].
  - destruct (N.eqb_spec x y).
    + subst; tauto.
    + rewrite IH. split; [tauto | intros [E|H]; [congruence | exact H]].
Qed.

Lemma memb_false : forall x l, memb x l = false <-> ~ In x l.
Proof.
  intros. rewrite <- memb_In. destruct (memb x l); split; congruence.
Qed.

Lemma In_addn : forall y x l, In y (addn x l) <-> y = x \/ In y l.
Proof.
  intros. unfold addn. destruct (memb x l) eqn:E.
  - apply memb_In in E. split; [tauto | intros [->|H]; assumption].
  - rewrite in_app_iff. simpl. split; [intros [H|[H|[]]]; auto | intros [->|H]; auto].
Qed.

Lemma NoDup_snoc : forall (x : name) l, NoDup l -> ~ In x l -> NoDup (l ++ [x]).
Proof.
  induction l as [|y r IH]; simpl; intros Hn Hx.
  - constructor; [tauto | constructor].
  - inversion Hn; subst. constructor.
    + rewrite in_app_iff. simpl. intros [H|[H|[]]]; [tauto | subst; tauto].
    + apply IH; tauto.
Qed.

Lemma NoDup_app_iff : forall (a b : list name),
  NoDup (a ++ b) <-> NoDup a /\ NoDup b /\ (forall x, In x a -> ~ In x b).
Proof.
  induction a as [|x r IH]; simpl; intros b.
  - split; [intros H; repeat split; [constructor | assumption | tauto] | tauto].
  - split.
    + intros H. inversion H; subst. apply IH in H3. destruct H3 as [H3 [H4 H5]].
      rewrite in_app_iff in H2. repeat split.
      * constructor; tauto.
      * assumption.
      * intros y [->|Hy]; [tauto | apply H5; assumption].
    + intros [H1 [H2 H3]]. inversion H1; subst. constructor.
      * rewrite in_app_iff. intros [?|?]; [tauto | apply (H3 x); auto].
      * apply IH. repeat split; auto.
Qed.

Lemma NoDup_addn : forall x l, NoDup l -> NoDup (addn x l).
Proof.
  intros. unfold addn. destruct (memb x l) eqn:E; [assumption|].
  apply memb_false in E. apply NoDup_snoc; assumption.
Qed.

Section AssocFacts.
  Context {A : Type}.
  Lemma aget_aset : forall (d : A) m k v k',
    aget d (aset m k v) k' = if N.eqb k' k then v else aget d m k'.
  Proof.
    induction m as [|[k0 v0] r IH]; intros; simpl.
    - destruct (N.eqb k' k); reflexivity.
    - destruct (N.eqb_spec k k0).
      + subst. simpl. destruct (N.eqb k' k0); reflexivity.
      + simpl. destruct (N.eqb_spec k' k0).
        * subst. destruct (N.eqb_spec k0 k); [congruence | reflexivity].
        * apply IH.
  Qed.

  Lemma aget_aset_same : forall (d : A) m k v, aget d (aset m k v) k = v.
  Proof. intros. rewrite aget_aset, N.eqb_refl. reflexivity. Qed.

  Lemma aget_aset_other : forall (d : A) m k v k', k' <> k -> aget d (aset m k v) k' = aget d m k'.
  Proof. intros. rewrite aget_aset. destruct (N.eqb_spec k' k); [contradiction | reflexivity]. Qed.

  Lemma afind_aset : forall (m : list (name * A)) k v k',
    afind (aset m k v) k' = if N.eqb k' k then Some v else afind m k'.
  Proof.
    induction m as [|[k0 v0] r IH]; intros; simpl.
    - destruct (N.eqb k' k); reflexivity.
    - destruct (N.eqb_spec k k0).
      + subst. simpl. destruct (N.eqb k' k0); reflexivity.
      + simpl. destruct (N.eqb_spec k' k0).
        * subst. destruct (N.eqb_spec k0 k); [congruence | reflexivity].
        * apply IH.
  Qed.

  Lemma keys_aset_in : forall (m : list (name * A)) k v,
    In k (map fst m) -> map fst (aset m k v) = map fst m.
  Proof.
    induction m as [|[k0 v0] r IH]; simpl; intros k v H; [contradiction|].
    destruct (N.eqb_spec k k0); simpl; [subst; reflexivity|].
    f_equal. apply IH. destruct H; [congruence | assumption].
  Qed.

  Lemma aget_map_const : forall (d : A) (f : name -> A) ks k,
    In k ks -> aget d (map (fun k => (k, f k)) ks) k = f k.
  Proof.
    induction ks as [|k0 r IH]; simpl; intros k H; [contradiction|].
    destruct (N.eqb_spec k k0); [subst; reflexivity|].
    apply IH. destruct H; [congruence | assumption].
  Qed.

  Lemma aget_map_notin : forall (d : A) (f : name -> A) ks k,
    ~ In k ks -> aget d (map (fun k => (k, f k)) ks) k = d.
  Proof.
    induction ks as [|k0 r IH]; simpl; intros k H; [reflexivity|].
    destruct (N.eqb_spec k k0); [subst; tauto|]. apply IH. tauto.
  Qed.
End AssocFacts.

Lemma In_sget_sadd : forall m k x k' y,
  In y (sget (sadd m k x) k') <-> In y (sget m k') \/ (k' = k /\ y = x).
Proof.
  intros. unfold sget, sadd. rewrite aget_aset.
  destruct (N.eqb_spec k' k).
  - subst. rewrite In_addn. unfold sget. tauto.
  - tauto.
Qed.

(** * adj, keys, edges *)

Lemma adj_entry : forall g k l, wf g -> In (k, l) g -> adj g k = l.
Proof.
  unfold wf. induction g as [|[k0 l0] r IH]; simpl; intros k l Hn H; [contradiction|].
  inversion Hn; subst. destruct H as [H|H].
  - inversion H; subst. rewrite N.eqb_refl. reflexivity.
  - destruct (N.eqb_spec k k0).
    + subst. exfalso. apply H2. change k0 with (fst (k0, l)). apply in_map. exact H.
    + apply IH; assumption.
Qed.

Lemma adj_notkey : forall g u, ~ In u (keys g) -> adj g u = [].
Proof.
  induction g as [|[k0 l0] r IH]; simpl; intros u H; [reflexivity|].
  destruct (N.eqb_spec u k0); [subst; tauto|]. apply IH. tauto.
Qed.

Lemma adj_in_entries : forall g u, In u (keys g) -> In (u, adj g u) g.
Proof.
  induction g as [|[k0 l0] r IH]; simpl; intros u H; [contradiction|].
  destruct (N.eqb_spec u k0).
  - subst. left. reflexivity.
  - right. apply IH. destruct H; [congruence | assumption].
Qed.

Lemma edge_key : forall g u v, edge g u v -> In u (keys g).
Proof.
  intros g u v H. destruct (in_dec N.eq_dec u (keys g)) as [|n]; [assumption|].
  unfold edge in H. rewrite (adj_notkey _ _ n) in H. contradiction.
Qed.

Lemma is_key_In : forall g v, is_key g v = true <-> In v (keys g).
Proof. intros. apply memb_In. Qed.

Lemma targets_ok_spec : forall g, wf g -> (targets_ok g = true <-> targets_exist g).
Proof.
  intros g W. unfold targets_ok, targets_exist. rewrite forallb_forall. split.
  - intros H u v E. pose proof (edge_key _ _ _ E) as Hu.
    specialize (H _ (adj_in_entries _ _ Hu)). simpl in H.
    rewrite forallb_forall in H. apply is_key_In. apply H. exact E.
  - intros H [k l] Hin. simpl. rewrite forallb_forall. intros v Hv.
    apply is_key_In. apply (H k). unfold edge. rewrite (adj_entry _ _ _ W Hin). exact Hv.
Qed.

(** * Outs / Ins *)

Lemma In_outs : forall g u v, In v (outs g u) <-> edge g u v.
Proof. intros. unfold outs, dedup, edge. apply nodup_In. Qed.

Lemma NoDup_outs : forall g u, NoDup (outs g u).
Proof. intros. apply NoDup_nodup. Qed.

Lemma In_ins : forall g u v, In u (ins g v) <-> edge g u v.
Proof.
  intros. unfold ins. rewrite filter_In, memb_In. split; [tauto|].
  intros E. split; [eapply edge_key; eauto | exact E].
Qed.

Lemma NoDup_ins : forall g v, wf g -> NoDup (ins g v).
Proof. intros. unfold ins. apply NoDup_filter. assumption. Qed.

Lemma ins_keys : forall g u v, In u (ins g v) -> In u (keys g).
Proof. intros g u v H. apply In_ins in H. eapply edge_key; eauto. Qed.

Lemma length_keys : forall g : graph, length (keys g) = length g.
Proof. intros. apply map_length. Qed.

(** * sort_by *)

Section SortFacts.
  Context {A : Type} (lt : A -> A -> bool).
  Lemma insert_by_perm : forall x l, Permutation (insert_by lt x l) (x :: l).
  Proof.
    induction l as [|y r IH]; simpl; [reflexivity|].
    destruct (lt x y); [reflexivity|].
    rewrite IH. apply perm_swap.
  Qed.
  Lemma sort_by_perm : forall l, Permutation (sort_by lt l) l.
  Proof.
    induction l as [|x r IH]; simpl; [reflexivity|].
    rewrite insert_by_perm. constructor. exact IH.
  Qed.
  Lemma In_sort_by : forall x l, In x (sort_by lt l) <-> In x l.
  Proof.
    intros; split; apply Permutation_in; [|symmetry]; apply sort_by_perm.
  Qed.
  Lemma NoDup_sort_by : forall l, NoDup l -> NoDup (sort_by lt l).
  Proof.
    intros l H. eapply Permutation_NoDup; [symmetry; apply sort_by_perm | exact H].
  Qed.
End SortFacts.

(** * paths *)

Lemma path_trans : forall g u w v, path g u w -> path g w v -> path g u v.
Proof.
  intros g u w v H. induction H; intros H2.
  - eapply pathS; eauto.
  - eapply pathS; eauto.
Qed.

Lemma path_snoc : forall g u w v, path g u w -> edge g w v -> path g u v.
Proof. intros. eapply path_trans; eauto. constructor. assumption. Qed.

(** decomposition at the last edge *)
Lemma path_last : forall g u v, path g u v -> edge g u v \/ exists w, path g u w /\ edge g w v.
Proof.
  intros g u v H. induction H.
  - left; assumption.
  - right. destruct IHpath as [E|[x [P E]]].
    + exists w. split; [constructor; assumption | assumption].
    + exists x. split; [eapply pathS; eauto | assumption].
Qed.

Lemma path_first : forall g u v, path g u v -> edge g u v \/ exists w, edge g u w /\ path g w v.
Proof. intros g u v H. inversion H; subst; [left | right; exists w]; auto. Qed.

Lemma path_start_key : forall g u v, path g u v -> In u (keys g).
Proof. intros g u v H. inversion H; subst; eapply edge_key; eauto. Qed.

Lemma path_end_key : forall g u v, targets_exist g -> path g u v -> In v (keys g).
Proof. intros g u v T H. induction H; eauto. Qed.

(** a strictly increasing measure along edges rules out cycles *)
Lemma path_measure : forall g (f : name -> nat),
  (forall u v, edge g u v -> f u < f v) -> forall u v, path g u v -> f u < f v.
Proof.
  intros g f H u v P. induction P.
  - auto.
  - specialize (H _ _ H0). lia.
Qed.

(** * chains *)

Lemma chain_app : forall g l1 x y l2,
  chain g (l1 ++ [x]) -> edge g x y -> chain g (y :: l2) -> chain g (l1 ++ x :: y :: l2).
Proof.
  induction l1 as [|a r IH]; simpl; intros x y l2 H1 E H2.
  - split; assumption.
  - destruct r as [|b r'].
    + simpl in *. destruct H1 as [E1 _]. split; [assumption|]. split; assumption.
    + simpl in *. destruct H1 as [E1 H1]. split; [assumption|]. apply (IH x y l2); assumption.
Qed.

Lemma chain_tail : forall g x l, chain g (x :: l) -> chain g l.
Proof. intros g x [|y l]; simpl; tauto. Qed.

Lemma chain_split_l : forall g l1 l2, chain g (l1 ++ l2) -> chain g l1.
Proof.
  induction l1 as [|a r IH]; intros l2 H; [exact I|].
  destruct r as [|b r']; [exact I|].
  simpl in *. destruct H as [E H]. split; [assumption|]. apply (IH l2). exact H.
Qed.

Lemma chain_split_r : forall g l1 l2, chain g (l1 ++ l2) -> chain g l2.
Proof.
  induction l1 as [|a r IH]; intros l2 H; [exact H|].
  apply IH. eapply chain_tail. exact H.
Qed.

Lemma chain_mid : forall g l1 x y l2, chain g (l1 ++ x :: y :: l2) -> edge g x y.
Proof.
  intros g l1 x y l2 H. apply chain_split_r in H. simpl in H. tauto.
Qed.

(** a chain from x to y with at least one edge is a path *)
Lemma chain_path : forall g l x y, chain g (x :: l ++ [y]) -> path g x y.
Proof.
  intros g l. induction l as [|a r IH]; intros x y H.
  - simpl in H. constructor. tauto.
  - simpl in H. destruct H as [E H]. eapply pathS; [exact E|]. apply IH. exact H.
Qed.

Lemma path_chain : forall g x y, path g x y -> exists l, chain g (x :: l ++ [y]).
Proof.
  intros g x y H. induction H.
  - exists []. simpl. tauto.
  - destruct IHpath as [l Hl]. exists (w :: l). simpl. split; assumption.
Qed.

Lemma closed_walk_path : forall g c x, closed_walk g c -> In x c -> path g x x.
Proof.
  intros g c x H Hx. destruct c as [|a r]; [contradiction|].
  simpl in H. apply in_split in Hx. destruct Hx as [l1 [l2 E]].
  (* a :: r = l1 ++ x :: l2 ; walk: x, l2, (a...), l1, x *)
  change (chain g ((a :: r) ++ [a])) in H. rewrite E in H.
  destruct l1 as [|b l1'].
  - simpl in E. inversion E; subst. simpl in H.
    change (chain g (x :: l2 ++ [x])) in H. apply chain_path in H. exact H.
  - simpl in E. inversion E; subst b.
    assert (K1 : chain g ((x :: l2) ++ [a])).
    { replace (((a :: l1') ++ x :: l2) ++ [a]) with ((a :: l1') ++ ((x :: l2) ++ [a])) in H
        by (rewrite <- app_assoc; reflexivity).
      apply chain_split_r in H. exact H. }
    assert (K2 : chain g ((a :: l1') ++ [x])).
    { replace (((a :: l1') ++ x :: l2) ++ [a]) with (((a :: l1') ++ [x]) ++ (l2 ++ [a])) in H
        by (rewrite <- !app_assoc; reflexivity).
      apply chain_split_l in H. exact H. }
    apply (chain_path g l2 x a) in K1. apply (chain_path g l1' a x) in K2.
    eapply path_trans; eauto.
Qed.

(** * the iteration-order oracle *)

Section Sh.
  Variable sh : N -> list name -> list name.
  Hypothesis sh_perm : forall t l, Permutation (sh t l) l.
  Lemma In_sh : forall t l x, In x (sh t l) <-> In x l.
  Proof. intros; split; apply Permutation_in; [|symmetry]; apply sh_perm. Qed.
  Lemma NoDup_sh : forall t l, NoDup l -> NoDup (sh t l).
  Proof. intros t l H. eapply Permutation_NoDup; [symmetry; apply sh_perm | exact H]. Qed.
  Lemma length_sh : forall t l, length (sh t l) = length l.
  Proof. intros. apply Permutation_length, sh_perm. Qed.
End Sh.

Lemma sh_id_perm : forall t l, Permutation (sh_id t l) l.
Proof. intros. reflexivity. Qed.
Lemma sh_rev_perm : forall t l, Permutation (sh_rev t l) l.
Proof. intros. symmetry. apply Permutation_rev. Qed.
