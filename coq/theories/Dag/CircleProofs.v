(** minCircle (level-order search from every start, restricted to larger
    names): the reported cycle is real, no closed walk of the graph is shorter,
    a cycle is found whenever one exists, and the fuel is never exhausted. *)
From Coq Require Import List NArith Bool Arith Lia Permutation.
From Verif Require Import Dag.Model Dag.Facts.
Import ListNotations.

(** * minimum of a list of names *)

Fixpoint lmin (d : name) (l : list name) : name :=
  match l with
  | [] => d
  | x :: r => lmin (N.min d x) r
  end.

Lemma lmin_le_d : forall l d, (lmin d l <= d)%N.
Proof.
  induction l as [|x r IH]; intros d; simpl; [lia|].
  specialize (IH (N.min d x)). lia.
Qed.

Lemma lmin_le : forall l d x, In x l -> (lmin d l <= x)%N.
Proof.
  induction l as [|y r IH]; intros d x H; simpl; [contradiction|].
  destruct H as [->|H].
  - pose proof (lmin_le_d r (N.min d x)). lia.
  - apply IH. assumption.
Qed.

Lemma lmin_in : forall l d, lmin d l = d \/ In (lmin d l) l.
Proof.
  induction l as [|y r IH]; intros d; simpl; [left; reflexivity|].
  destruct (IH (N.min d y)) as [E|H].
  - rewrite E. destruct (N.min_spec d y) as [[_ ->]|[_ ->]]; [left; reflexivity | right; left; reflexivity].
  - right. right. assumption.
Qed.

Lemma list_min_exists : forall c : list name, c <> [] ->
  exists m, In m c /\ forall x, In x c -> (m <= x)%N.
Proof.
  intros [|a r] H; [congruence|]. exists (lmin a r). split.
  - destruct (lmin_in r a) as [->|Hin]; [left; reflexivity | right; assumption].
  - intros x [<-|Hx]; [apply lmin_le_d | apply lmin_le; assumption].
Qed.

Section Circle.
Variable sh : N -> list name -> list name.
Hypothesis sh_perm : forall t l, Permutation (sh t l) l.
Variable g : graph.
Hypothesis W : wf g.
Hypothesis T : targets_exist g.

(** [rwalk s n v]: a walk of [n] edges from [s] to [v] whose nodes after the
    first are all larger than [s] *)
Inductive rwalk (s : name) : nat -> name -> Prop :=
| rw0 : rwalk s 0 s
| rwS : forall n u v, rwalk s n u -> edge g u v -> (s < v)%N -> rwalk s (S n) v.

(** the path a search node carries (newest first) *)
Inductive wpath (s : name) : name -> list name -> Prop :=
| wp0 : wpath s s [s]
| wpS : forall u p v, wpath s u p -> edge g u v -> (s < v)%N -> wpath s v (v :: p).

Lemma wpath_rwalk : forall s u p, wpath s u p -> exists n, length p = S n /\ rwalk s n u.
Proof.
  intros s u p H. induction H.
  - exists 0. split; [reflexivity | constructor].
  - destruct IHwpath as [n [L R]]. exists (S n). split; [simpl; lia | econstructor; eauto].
Qed.

Lemma chain_join : forall p a q, chain g (p ++ [a]) -> chain g (a :: q) -> chain g (p ++ a :: q).
Proof.
  induction p as [|x r IH]; intros a q H1 H2; [exact H2|].
  destruct r as [|y r'].
  - simpl in *. split; tauto.
  - simpl in H1. destruct H1 as [E H1]. simpl. split; [assumption|].
    apply (IH a q); assumption.
Qed.

Lemma wpath_chain : forall s u p, wpath s u p ->
  exists q, rev p = s :: q /\ chain g (rev p) /\ exists p', p = u :: p'.
Proof.
  intros s u p H. induction H.
  - exists []. simpl. repeat split; eauto.
  - destruct IHwpath as [q [E [C [p' Ep]]]]. exists (q ++ [v]).
    split; [simpl; rewrite E; reflexivity|]. split; [|eauto].
    change (rev (v :: p)) with (rev p ++ [v]).
    subst p. change (rev (u :: p')) with (rev p' ++ [u]) in *.
    replace ((rev p' ++ [u]) ++ [v]) with (rev p' ++ u :: [v]) by (rewrite <- app_assoc; reflexivity).
    apply chain_join; [exact C | simpl; tauto].
Qed.

Lemma wpath_closed : forall s u p, wpath s u p -> edge g u s -> closed_walk g (rev p).
Proof.
  intros s u p H E. destruct (wpath_chain _ _ _ H) as [q [Eq [C [p' Ep]]]].
  unfold closed_walk. rewrite Eq. rewrite <- Eq.
  subst p. change (rev (u :: p')) with (rev p' ++ [u]) in *.
  replace ((rev p' ++ [u]) ++ [s]) with (rev p' ++ u :: [s]) by (rewrite <- app_assoc; reflexivity).
  apply chain_join; [exact C | simpl; tauto].
Qed.

(** * every closed walk contains a restricted closed walk from its minimum *)

Lemma first_return : forall m t n u,
  rwalk m n u -> chain g (u :: t ++ [m]) -> (forall x, In x t -> (m <= x)%N) ->
  exists n' w, rwalk m n' w /\ edge g w m /\ n' <= n + length t.
Proof.
  intros m t. induction t as [|x t' IH]; intros n u R C Hm.
  - simpl in C. exists n, u. repeat split; [assumption | tauto | lia].
  - simpl in C. destruct C as [E C].
    destruct (N.eq_dec x m) as [->|Hne].
    + exists n, u. repeat split; [assumption | assumption | lia].
    + assert (Hlt : (m < x)%N) by (specialize (Hm x (or_introl eq_refl)); lia).
      destruct (IH (S n) x) as [n' [w [R' [E' L]]]].
      * econstructor; eauto.
      * exact C.
      * intros y Hy. apply Hm. right. assumption.
      * exists n', w. repeat split; auto. simpl. lia.
Qed.

Lemma closed_rotate : forall l1 m l2,
  closed_walk g (l1 ++ m :: l2) -> chain g (m :: (l2 ++ l1) ++ [m]).
Proof.
  intros l1 m l2 H. destruct l1 as [|a l1'].
  - simpl in H. rewrite app_nil_r. exact H.
  - unfold closed_walk in H. simpl in H.
    change (chain g ((a :: l1' ++ m :: l2) ++ [a])) in H.
    assert (H1 : chain g ((a :: l1') ++ [m])).
    { replace ((a :: l1' ++ m :: l2) ++ [a]) with (((a :: l1') ++ [m]) ++ (l2 ++ [a])) in H
        by (simpl; rewrite <- !app_assoc; reflexivity).
      apply chain_split_l in H. exact H. }
    assert (H2 : chain g ((m :: l2) ++ [a])).
    { replace ((a :: l1' ++ m :: l2) ++ [a]) with ((a :: l1') ++ ((m :: l2) ++ [a])) in H
        by (simpl; rewrite <- !app_assoc; reflexivity).
      apply chain_split_r in H. exact H. }
    replace (m :: (l2 ++ a :: l1') ++ [m]) with ((m :: l2) ++ a :: (l1' ++ [m]))
      by (simpl; rewrite <- !app_assoc; reflexivity).
    apply chain_join; assumption.
Qed.

Lemma closed_walk_restricted : forall c, closed_walk g c ->
  exists m n w, In m (keys g) /\ rwalk m n w /\ edge g w m /\ S n <= length c.
Proof.
  intros c H.
  assert (Hne : c <> []) by (destruct c; [contradiction | discriminate]).
  destruct (list_min_exists c Hne) as [m [Hin Hmin]].
  pose proof (closed_walk_path g c m H Hin) as Hp.
  apply in_split in Hin. destruct Hin as [l1 [l2 E]]. subst c.
  apply closed_rotate in H.
  destruct (first_return m (l2 ++ l1) 0 m (rw0 m) H) as [n' [w [R [E' L]]]].
  - intros x Hx. apply Hmin. apply in_app_iff in Hx. apply in_app_iff.
    destruct Hx; [right; right; assumption | left; assumption].
  - exists m, n', w. repeat split; auto.
    + eapply path_start_key; eauto.
    + rewrite app_length in *. simpl. lia.
Qed.

(** * one scan of a node's outs *)

Lemma scan_spec : forall s p os vs new vs' new',
  scan_outs s p os vs new = (vs', new') ->
  (forall v, In v vs' <-> In v vs \/ (In v os /\ N.ltb v s = false)) /\
  (exists add, new' = new ++ add /\ length vs' = length vs + length add /\
     (forall sn, In sn add ->
        s_start sn = s /\ s_path sn = s_this sn :: p /\ In (s_this sn) os /\
        N.ltb (s_this sn) s = false /\ ~ In (s_this sn) vs) /\
     (forall v, In v os -> N.ltb v s = false -> ~ In v vs ->
        exists sn, In sn add /\ s_start sn = s /\ s_this sn = v)) /\
  (NoDup vs -> NoDup vs').
Proof.
  intros s p. induction os as [|v r IH]; intros vs new vs' new' H; simpl in H.
  - inversion H; subst. split; [|split].
    + intros v. simpl. tauto.
    + exists []. rewrite app_nil_r. simpl. split; [reflexivity|]. split; [lia|]. split; intros; contradiction.
    + auto.
  - destruct (memb v vs) eqn:Em.
    + apply memb_In in Em. destruct (IH _ _ _ _ H) as [A [[add [B1 [B2 [B3 B4]]]] C]].
      split; [|split].
      * intros v0. rewrite A. simpl. split; [tauto|].
        intros [?|[[<-|?] ?]]; tauto.
      * exists add. split; [exact B1|]. split; [exact B2|]. split.
        -- intros sn Hsn. destruct (B3 sn Hsn) as [? [? [? [? ?]]]]. repeat split; auto. right; assumption.
        -- intros v0 [<-|Hv0] Hl Hn; [contradiction | apply B4; assumption].
      * exact C.
    + destruct (N.ltb v s) eqn:El.
      * destruct (IH _ _ _ _ H) as [A [[add [B1 [B2 [B3 B4]]]] C]].
        split; [|split].
        -- intros v0. rewrite A. simpl. split; [tauto|].
           intros [?|[[<-|?] ?]]; [tauto | congruence | tauto].
        -- exists add. split; [exact B1|]. split; [exact B2|]. split.
           ++ intros sn Hsn. destruct (B3 sn Hsn) as [? [? [? [? ?]]]]. repeat split; auto. right; assumption.
           ++ intros v0 [<-|Hv0] Hl Hn; [congruence | apply B4; assumption].
        -- exact C.
      * apply memb_false in Em.
        destruct (IH _ _ _ _ H) as [A [[add [B1 [B2 [B3 B4]]]] C]].
        split; [|split].
        -- intros v0. rewrite A. simpl. split.
           ++ intros [[<-|?]|[? ?]]; tauto.
           ++ intros [?|[[<-|?] ?]]; tauto.
        -- exists (mkS s v (v :: p) :: add).
           split; [rewrite B1; rewrite <- app_assoc; reflexivity|].
           split; [rewrite B2; simpl; lia|]. split.
           ++ intros sn [<-|Hsn]; simpl.
              ** repeat split; auto.
              ** destruct (B3 sn Hsn) as [? [? [? [? Hn]]]]. repeat split; auto.
                 intros Hin. apply Hn. right. assumption.
           ++ intros v0 Hv0 Hl Hn. destruct (N.eq_dec v0 v) as [->|Hne].
              ** exists (mkS s v (v :: p)). simpl. auto.
              ** destruct Hv0 as [<-|Hv0]; [congruence|].
                 destruct (B4 v0 Hv0 Hl) as [sn [? [? ?]]].
                 { intros [?|?]; [congruence | contradiction]. }
                 exists sn. simpl. auto.
        -- intros Hn. apply C. constructor; assumption.
Qed.

(** * the search invariant *)

Definition inq (s u : name) (Q : list snode) : Prop :=
  exists sn, In sn Q /\ s_start sn = s /\ s_this sn = u.

Definition finished (vis : sets) (s u : name) : Prop :=
  ~ edge g u s /\ forall v, edge g u v -> (s < v)%N -> In v (sget vis s).

Record vwf (vis : sets) : Prop := {
  v_keys : map fst vis = keys g;
  v_nodup : forall s, NoDup (sget vis s);
  v_incl : forall s, incl (sget vis s) (keys g);
}.

(** [Tq]: search nodes of length [k] still to be expanded; [B]: the nodes of
    length [k+1] produced so far.  The queue is [Tq ++ B]. *)
Record sinv (k : nat) (Tq B : list snode) (vis : sets) : Prop := {
  q_pos : 1 <= k;
  q_lenT : forall sn, In sn Tq -> length (s_path sn) = k;
  q_lenB : forall sn, In sn B -> length (s_path sn) = S k;
  q_valid : forall sn, In sn (Tq ++ B) ->
      wpath (s_start sn) (s_this sn) (s_path sn) /\
      In (s_this sn) (sget vis (s_start sn)) /\ In (s_start sn) (keys g);
  m2 : forall s n v, In s (keys g) -> rwalk s n v -> n < k -> In v (sget vis s);
  m3 : forall s u, In s (keys g) -> In u (sget vis s) -> inq s u (Tq ++ B) \/ finished vis s u;
  m4 : forall s n u, In s (keys g) -> rwalk s n u -> S n < k -> ~ edge g u s;
  m5 : forall s n u, In s (keys g) -> rwalk s n u -> S n = k -> inq s u Tq \/ finished vis s u;
  q_vwf : vwf vis;
}.

Lemma sget_aset : forall vis s l s',
  sget (aset vis s l) s' = if N.eqb s' s then l else sget vis s'.
Proof. intros. unfold sget. apply aget_aset. Qed.

Lemma finished_mono : forall vis vis' s u,
  (forall s' x, In x (sget vis s') -> In x (sget vis' s')) ->
  finished vis s u -> finished vis' s u.
Proof. intros vis vis' s u M [F1 F2]. split; [assumption|]. intros v E L. apply M. auto. Qed.

Lemma inq_app : forall s u A B, inq s u (A ++ B) <-> inq s u A \/ inq s u B.
Proof.
  intros. unfold inq. split.
  - intros [sn [H1 H2]]. apply in_app_iff in H1. destruct H1; [left | right]; exists sn; auto.
  - intros [[sn [H1 H2]]|[sn [H1 H2]]]; exists sn; split; auto; apply in_app_iff; auto.
Qed.

Lemma sinv_shift : forall k B vis, sinv k [] B vis -> sinv (S k) B [] vis.
Proof.
  intros k B vis [P LT LB QV M2 M3 M4 M5 VW]. simpl in *.
  assert (M2' : forall s n v, In s (keys g) -> rwalk s n v -> n < S k -> In v (sget vis s)).
  { intros s n v Ks R L. destruct (Nat.eq_dec n k) as [->|Hne]; [|apply (M2 s n v); auto; lia].
    inversion R as [|n0 u0 v0 R0 E0 L0]; subst; [lia|].
    destruct (M5 s n0 u0 Ks R0 eq_refl) as [[sn [[] _]]|[_ F]]. apply F; assumption. }
  constructor.
  - lia.
  - exact LB.
  - intros sn [].
  - intros sn Hsn. rewrite app_nil_r in Hsn. apply QV. assumption.
  - exact M2'.
  - intros s u Ks Hu. rewrite app_nil_r. apply M3; assumption.
  - intros s n u Ks R L. destruct (Nat.eq_dec (S n) k) as [E|Hne]; [|apply (M4 s n u); auto; lia].
    destruct (M5 s n u Ks R E) as [[sn [[] _]]|[F _]]. assumption.
  - intros s n u Ks R E. inversion E; subst n.
    apply M3; [assumption|]. apply (M2' s k u); auto.
  - exact VW.
Qed.

Lemma sinv_step : forall k sn Tq B vis os vs' new,
  sinv k (sn :: Tq) B vis ->
  (forall x, In x os <-> edge g (s_this sn) x) ->
  ~ edge g (s_this sn) (s_start sn) ->
  scan_outs (s_start sn) (s_path sn) os (sget vis (s_start sn)) [] = (vs', new) ->
  sinv k Tq (B ++ new) (aset vis (s_start sn) vs').
Proof.
  intros k sn Tq B vis os vs' new [P LT LB QV M2 M3 M4 M5 VW] Hos Hnf Hscan.
  destruct sn as [s u p]. simpl in *.
  destruct (scan_spec _ _ _ _ _ _ _ Hscan) as [A [[add [B1 [B2 [B3 B4]]]] C]].
  simpl in B1. subst add.
  set (vis' := aset vis s vs').
  destruct (QV (mkS s u p) (or_introl eq_refl)) as [Wp [Hu Ks]]. simpl in *.
  assert (Mono : forall s' x, In x (sget vis s') -> In x (sget vis' s')).
  { intros s' x Hx. unfold vis'. rewrite sget_aset. destruct (N.eqb_spec s' s); [subst|assumption].
    apply A. left. assumption. }
  assert (Hlt : forall v, In v os -> N.ltb v s = false -> (s < v)%N).
  { intros v Hv Hl. apply N.ltb_ge in Hl. assert (v <> s) by (intros ->; apply Hnf; apply Hos; assumption). lia. }
  assert (Fin : finished vis' s u).
  { split; [assumption|]. intros v E L. unfold vis'. rewrite sget_aset, N.eqb_refl. apply A.
    right. split; [apply Hos; assumption | apply N.ltb_ge; lia]. }
  constructor.
  - exact P.
  - intros sn' Hsn. apply LT. right. assumption.
  - intros sn' Hsn. apply in_app_iff in Hsn. destruct Hsn as [Hsn|Hsn]; [apply LB; assumption|].
    destruct (B3 sn' Hsn) as [_ [-> _]]. simpl. f_equal. apply (LT (mkS s u p)). left; reflexivity.
  - intros sn' Hsn. rewrite app_assoc in Hsn. apply in_app_iff in Hsn. destruct Hsn as [Hsn|Hsn].
    + destruct (QV sn') as [Q1 [Q2 Q3]]; [right; assumption|]. repeat split; auto.
    + destruct (B3 sn' Hsn) as [E1 [E2 [E3 [E4 E5]]]]. rewrite E1, E2. repeat split; auto.
      * econstructor; [exact Wp | apply Hos; assumption | apply Hlt; assumption].
      * unfold vis'. rewrite sget_aset, N.eqb_refl. apply A. right. auto.
  - intros s0 n v K R L. apply Mono. eapply M2; eauto.
  - intros s0 u0 K Hu0. unfold vis' in Hu0. rewrite sget_aset in Hu0.
    destruct (N.eqb_spec s0 s) as [->|Hne].
    + apply A in Hu0. destruct Hu0 as [Hold|[Hin Hl]].
      * destruct (M3 s u0 K Hold) as [[sn' [[<-|Hq] [E1 E2]]]|F].
        -- simpl in *. subst u0. right. assumption.
        -- left. exists sn'. split; [|auto]. rewrite app_assoc. apply in_app_iff. left. assumption.
        -- right. eapply finished_mono; eauto.
      * destruct (in_dec N.eq_dec u0 (sget vis s)) as [Hold|Hnew].
        -- destruct (M3 s u0 K Hold) as [[sn' [[<-|Hq] [E1 E2]]]|F].
           ++ simpl in *. subst u0. right. assumption.
           ++ left. exists sn'. split; [|auto]. rewrite app_assoc. apply in_app_iff. left. assumption.
           ++ right. eapply finished_mono; eauto.
        -- destruct (B4 u0 Hin Hl Hnew) as [sn' [Q1 [Q2 Q3]]]. left. exists sn'.
           split; [|auto]. apply in_app_iff. right. apply in_app_iff. right. assumption.
    + destruct (M3 s0 u0 K Hu0) as [[sn' [[<-|Hq] [E1 E2]]]|F].
      * simpl in E1. congruence.
      * left. exists sn'. split; [|auto]. rewrite app_assoc. apply in_app_iff. left. assumption.
      * right. eapply finished_mono; eauto.
  - exact M4.
  - intros s0 n u0 K R E. destruct (M5 s0 n u0 K R E) as [[sn' [[<-|Hq] [E1 E2]]]|F].
    + simpl in *. subst. right. assumption.
    + left. exists sn'. auto.
    + right. eapply finished_mono; eauto.
  - destruct VW as [V1 V2 V3]. constructor.
    + unfold vis'. rewrite keys_aset_in; [assumption|]. rewrite V1. assumption.
    + intros s0. unfold vis'. rewrite sget_aset. destruct (N.eqb s0 s); [apply C|]; apply V2.
    + intros s0 x Hx. unfold vis' in Hx. rewrite sget_aset in Hx. destruct (N.eqb s0 s).
      * apply A in Hx. destruct Hx as [Hx|[Hx _]]; [eapply V3; eauto|].
        eapply T. apply Hos. eassumption.
      * eapply V3; eauto.
Qed.



(** * fuel accounting *)

Definition vtotal (vis : sets) : nat := list_sum (map (fun e => length (snd e)) vis).

Lemma vtotal_aset : forall vis s l, In s (map fst vis) ->
  vtotal (aset vis s l) + length (sget vis s) = vtotal vis + length l.
Proof.
  unfold vtotal, sget. induction vis as [|[k0 l0] r IH]; simpl; intros s l H; [contradiction|].
  destruct (N.eqb_spec s k0).
  - simpl. lia.
  - simpl. destruct H as [H|H]; [congruence|]. specialize (IH s l H). lia.
Qed.

Lemma vtotal_keys : forall vis, NoDup (map fst vis) ->
  vtotal vis = list_sum (map (fun k => length (sget vis k)) (map fst vis)).
Proof.
  unfold vtotal, sget. induction vis as [|[k0 l0] r IH]; simpl; intros Hn; [reflexivity|].
  inversion Hn; subst. rewrite N.eqb_refl. f_equal. rewrite (IH H2).
  f_equal. apply map_ext_in. intros k Hk. destruct (N.eqb_spec k k0); [subst; contradiction | reflexivity].
Qed.

Lemma list_sum_bound : forall (f : name -> nat) b l,
  (forall x, In x l -> f x <= b) -> list_sum (map f l) <= length l * b.
Proof.
  induction l as [|a r IH]; simpl; intros H; [lia|].
  assert (f a <= b) by (apply H; auto). assert (list_sum (map f r) <= length r * b) by (apply IH; auto). lia.
Qed.

Lemma vtotal_bound : forall vis, vwf vis -> vtotal vis <= length g * length g.
Proof.
  intros vis [V1 V2 V3]. rewrite vtotal_keys by (rewrite V1; exact W).
  rewrite V1. rewrite <- (length_keys g) at 1.
  apply list_sum_bound. intros x _. rewrite <- length_keys. apply NoDup_incl_length; auto.
Qed.

(** * the search *)

Lemma end_free : forall k vis, sinv k [] [] vis ->
  forall m n w, In m (keys g) -> rwalk m n w -> ~ edge g w m.
Proof.
  intros k vis I m n w Km R.
  assert (Hw : In w (sget vis m)).
  { induction R.
    - apply (m2 _ _ _ _ I m 0 m Km (rw0 m)). apply (q_pos _ _ _ _ I).
    - destruct (m3 _ _ _ _ I m u Km IHR) as [[sn [[] _]]|[_ F]]. apply F; assumption. }
  destruct (m3 _ _ _ _ I m w Km Hw) as [[sn [[] _]]|[F _]]. assumption.
Qed.

Lemma search_correct : forall fuel pt vis k Tq B,
  sinv k Tq B vis ->
  length (Tq ++ B) + length g * length g < fuel + vtotal vis ->
  match search sh g fuel pt vis (Tq ++ B) with
  | SFound c => closed_walk g c /\
                (forall m n w, In m (keys g) -> rwalk m n w -> edge g w m -> length c <= S n)
  | SNone => forall m n w, In m (keys g) -> rwalk m n w -> ~ edge g w m
  | SFuel => False
  end.
Proof.
  induction fuel as [|f IH]; intros pt vis k Tq B I Hf.
  - destruct (Tq ++ B) as [|sn rest] eqn:E.
    + simpl. apply app_eq_nil in E. destruct E; subst. eapply end_free; eauto.
    + simpl in Hf. pose proof (vtotal_bound vis (q_vwf _ _ _ _ I)). lia.
  - assert (Step : forall k sn Tq' B vis pt, sinv k (sn :: Tq') B vis ->
              length ((sn :: Tq') ++ B) + length g * length g < S f + vtotal vis ->
              match search sh g (S f) pt vis ((sn :: Tq') ++ B) with
              | SFound c => closed_walk g c /\
                  (forall m n w, In m (keys g) -> rwalk m n w -> edge g w m -> length c <= S n)
              | SNone => forall m n w, In m (keys g) -> rwalk m n w -> ~ edge g w m
              | SFuel => False
              end).
    { clear k Tq B I Hf vis pt. intros k sn Tq' B vis pt I Hf.
      change ((sn :: Tq') ++ B) with (sn :: (Tq' ++ B)) in *. cbn [search].
      set (os := sh (tk 4 pt 0) (outs g (s_this sn))).
      assert (Hos : forall x, In x os <-> edge g (s_this sn) x).
      { intros x. unfold os. rewrite In_sh by assumption. apply In_outs. }
      destruct (q_valid _ _ _ _ I sn (or_introl eq_refl)) as [Wp [Hu Ks]].
      destruct (memb (s_start sn) os) eqn:Em.
      - apply memb_In in Em. apply Hos in Em. split.
        + eapply wpath_closed; eauto.
        + intros m n w Km R E. rewrite rev_length.
          rewrite (q_lenT _ _ _ _ I sn (or_introl eq_refl)).
          destruct (Nat.lt_ge_cases (S n) k) as [L|L]; [|assumption].
          exfalso. eapply (m4 _ _ _ _ I); eauto.
      - apply memb_false in Em.
        destruct (scan_outs (s_start sn) (s_path sn) os (sget vis (s_start sn)) []) as [vs' new] eqn:Es.
        rewrite <- app_assoc. apply IH with (k := k).
        + eapply sinv_step; eauto. intros E. apply Em. apply Hos. assumption.
        + destruct (scan_spec _ _ _ _ _ _ _ Es) as [_ [[add [B1 [B2 _]]] _]]. simpl in B1. subst add.
          assert (Hk : In (s_start sn) (map fst vis)) by (rewrite (v_keys _ (q_vwf _ _ _ _ I)); assumption).
          pose proof (vtotal_aset vis (s_start sn) vs' Hk) as Ht.
          rewrite !app_length in *. simpl in Hf. rewrite app_length in Hf. lia. }
    destruct Tq as [|sn Tq'].
    + destruct B as [|sn B'].
      * simpl. eapply end_free; eauto.
      * apply sinv_shift in I. specialize (Step _ _ _ _ _ pt I).
        rewrite app_nil_r in Step. apply Step. simpl in *. lia.
    + apply (Step k); assumption.
Qed.

Lemma sinv_init :
  sinv 1 (map (fun k => mkS k k [k]) (sh (tk 3 0 0) (keys g))) [] (map (fun k => (k, [k])) (keys g)).
Proof.
  set (vis0 := map (fun k => (k, [k])) (keys g)).
  assert (G1 : forall s, In s (keys g) -> sget vis0 s = [s]).
  { intros s Hs. unfold sget, vis0. apply (aget_map_const [] (fun k => [k])). assumption. }
  assert (G2 : forall s, ~ In s (keys g) -> sget vis0 s = []).
  { intros s Hs. unfold sget, vis0. apply (aget_map_notin [] (fun k => [k])). assumption. }
  assert (Q : forall s, In s (keys g) -> inq s s (map (fun k => mkS k k [k]) (sh (tk 3 0 0) (keys g)))).
  { intros s Hs. exists (mkS s s [s]). split; [|auto]. apply in_map_iff. exists s. split; [reflexivity|].
    apply In_sh; assumption. }
  constructor.
  - lia.
  - intros sn Hsn. apply in_map_iff in Hsn. destruct Hsn as [x [<- _]]. reflexivity.
  - intros sn [].
  - intros sn Hsn. rewrite app_nil_r in Hsn. apply in_map_iff in Hsn. destruct Hsn as [x [<- Hx]].
    apply In_sh in Hx; [|assumption]. simpl. rewrite G1 by assumption. repeat split; [constructor | left; reflexivity | assumption].
  - intros s n v Ks R L. assert (n = 0) by lia. subst. inversion R; subst. rewrite G1 by assumption. left; reflexivity.
  - intros s u Ks Hu. rewrite G1 in Hu by assumption. destruct Hu as [<-|[]]. left. rewrite app_nil_r. apply Q. assumption.
  - intros s n u Ks R L. lia.
  - intros s n u Ks R E. assert (n = 0) by lia. subst. inversion R; subst. left. apply Q. assumption.
  - constructor.
    + unfold vis0. rewrite map_map. simpl. apply map_id.
    + intros s. destruct (in_dec N.eq_dec s (keys g)); [rewrite G1 by assumption | rewrite G2 by assumption]; repeat constructor. intros [].
    + intros s x Hx. destruct (in_dec N.eq_dec s (keys g)); [rewrite G1 in Hx by assumption | rewrite G2 in Hx by assumption].
      * destruct Hx as [<-|[]]. assumption.
      * contradiction.
Qed.

Theorem min_circle_spec :
  match min_circle sh g with
  | SFound c => closed_walk g c /\ forall c', closed_walk g c' -> length c <= length c'
  | SNone => acyclic g
  | SFuel => False
  end.
Proof.
  unfold min_circle.
  pose proof (search_correct (circle_fuel g) 0%N _ 1 _ [] sinv_init) as H.
  rewrite app_nil_r in H.
  assert (Hf : length (map (fun k => mkS k k [k]) (sh (tk 3 0 0) (keys g))) + length g * length g
               < circle_fuel g + vtotal (map (fun k => (k, [k])) (keys g))).
  { rewrite map_length, length_sh by assumption. rewrite length_keys. unfold circle_fuel. lia. }
  specialize (H Hf).
  destruct (search sh g (circle_fuel g) 0%N _ _) as [c| |].
  - destruct H as [H1 H2]. split; [assumption|]. intros c' Hc'.
    destruct (closed_walk_restricted c' Hc') as [m [n [w [Km [R [E L]]]]]].
    specialize (H2 m n w Km R E). lia.
  - intros u Hp. apply path_chain in Hp. destruct Hp as [l Hl].
    assert (Hc : closed_walk g (u :: l)) by exact Hl.
    destruct (closed_walk_restricted _ Hc) as [m [n [w [Km [R [E L]]]]]].
    exact (H m n w Km R E).
  - assumption.
Qed.

End Circle.
