(** Round 3: layout.go [RevLayout] - lay the REVERSED graph out, then mirror
    the view ([MapView.Reverse]: X := Width - 1 - X).  Model and proof that
    the result is again a layout of the graph itself: inside width x height,
    no two nodes on one coordinate, every edge of [g] strictly left to right. *)
From Coq Require Import List NArith ZArith Bool Arith Lia Permutation.
From Verif Require Import Dag.Model Dag.Facts Dag.LayoutProofs Dag.ReverseProofs Dag.OpsProofs Dag.Summary.
Import ListNotations.

(** MapView.Reverse on the coordinates *)
Definition mirror (v : view) : view :=
  mkV (map (fun e => (fst e, (v_width v - 1 - fst (snd e), snd (snd e)))) (v_nodes v))
      (v_width v) (v_height v).

(** RevLayout: [Layout(g.Reverse())], then [v.Reverse()] *)
Definition rev_layout (P : lparams) (sh : N -> list name -> list name) (g : graph) : option view :=
  match new_map sh (rev_graph sh g) with
  | MOk m => match layout_map P m with VwOk v => Some (mirror v) | _ => None end
  | MErr _ => None
  end.

Lemma aget_map_snd {A B} (d : A) (f : A -> B) (l : list (name * A)) k :
  aget (f d) (map (fun e => (fst e, f (snd e))) l) k = f (aget d l k).
Proof.
  induction l as [|[k0 x] r IH]; simpl; [reflexivity|].
  destruct (N.eqb k k0); [reflexivity | exact IH].
Qed.

Lemma vx_mirror v k : In k (map fst (v_nodes v)) -> vx (mirror v) k = v_width v - 1 - vx v k.
Proof.
  intros Hk. unfold vx, mirror. cbn [v_nodes].
  induction (v_nodes v) as [|[k0 [x y]] r IH]; simpl in *; [contradiction|].
  destruct (N.eqb_spec k k0); [reflexivity|]. apply IH. destruct Hk; [congruence | assumption].
Qed.

Lemma vy_mirror v k : In k (map fst (v_nodes v)) -> vy (mirror v) k = vy v k.
Proof.
  intros Hk. unfold vy, mirror. cbn [v_nodes].
  induction (v_nodes v) as [|[k0 [x y]] r IH]; simpl in *; [contradiction|].
  destruct (N.eqb_spec k k0); [reflexivity|]. apply IH. destruct Hk; [congruence | assumption].
Qed.

Section Rev.
  Variable P : lparams.
  Hypothesis POK : params_ok P = true.
  Variable sh : N -> list name -> list name.
  Hypothesis O : perm_oracle sh.
  Variable g : graph.
  Hypothesis W : wf g.

  Lemma rev_edge u v : edge (rev_graph sh g) v u <-> edge g u v.
  Proof.
    unfold edge. pose proof (s_reverse_edges sh O g W u v) as C.
    rewrite (count_occ_In N.eq_dec), (count_occ_In N.eq_dec (adj g u)). rewrite C. tauto.
  Qed.

  Lemma rev_path a b : path (rev_graph sh g) a b -> path g b a.
  Proof.
    intros p. induction p as [a b e | a w b e p IH].
    - apply path1. apply rev_edge. exact e.
    - eapply path_snoc; [exact IH | apply rev_edge; exact e].
  Qed.

  Lemma rev_accepted : targets_exist g -> acyclic g ->
    wf (rev_graph sh g) /\ targets_exist (rev_graph sh g) /\ acyclic (rev_graph sh g).
  Proof.
    intros T A. destruct (rev_graph_spec sh O g W) as [_ [K C]]. split; [exact C|]. split.
    - intros v u H. apply rev_edge in H. apply K. left. eapply edge_key; exact H.
    - intros a p. apply (A a). apply rev_path. exact p.
  Qed.

  (** For every accepted graph RevLayout returns a view in which every node
      of [g] lies inside width x height, no two nodes of [g] share a
      coordinate, and every edge of [g] goes strictly left to right. *)
  Theorem rev_layout_ok : targets_exist g -> acyclic g ->
    exists v, rev_layout P sh g = Some v /\
      (forall k, In k (keys g) -> vx v k < v_width v /\ (0 <= vy v k < v_height v)%Z) /\
      (forall a b, In a (keys g) -> In b (keys g) -> a <> b -> (vx v a, vy v a) <> (vx v b, vy v b)) /\
      (forall u w, edge g u w -> vx v u < vx v w).
  Proof.
    intros T A. destruct (rev_accepted T A) as [Wr [Tr Ar]].
    destruct (rev_graph_spec sh O g W) as [_ [K _]].
    assert (Hc : exists ls, check_dag sh (rev_graph sh g) = VOk ls)
      by (apply (s_check_iff sh O _ Wr); split; assumption).
    destruct Hc as [ls Hls].
    unfold rev_layout, new_map. rewrite Hls.
    destruct (build_alls sh (rev_graph sh g) ls) as [ai ao] eqn:Eb.
    set (m := mkMap (rev_graph sh g) ls ai ao).
    assert (Em : new_map sh (rev_graph sh g) = MOk m) by (unfold new_map; rewrite Hls, Eb; reflexivity).
    destruct (s_layout P POK sh O _ Wr m Em) as [v [Ev [Hw [Hk [Hb [Hd He]]]]]].
    rewrite Ev. exists (mirror v).
    assert (KK : forall k, In k (keys g) -> In k (keys (rev_graph sh g))) by (intros k H; apply K; tauto).
    assert (KV : forall k, In k (keys g) -> In k (map fst (v_nodes v))) by (intros k H; rewrite Hk; auto).
    split; [reflexivity|]. split; [|split].
    - intros k Hkk. rewrite vx_mirror, vy_mirror by auto. cbn [mirror v_width v_height].
      destruct (Hb k (KK k Hkk)) as [B1 B2]. split; [lia|]. exact B2.
    - intros a b Ha Hbb Hab. rewrite !vx_mirror, !vy_mirror by auto.
      pose proof (Hd a b (KK a Ha) (KK b Hbb) Hab) as D.
      destruct (Hb a (KK a Ha)) as [Ba _]. destruct (Hb b (KK b Hbb)) as [Bb _].
      intros Eq. apply D. injection Eq as E1 E2. assert (E3 : vx v a = vx v b) by lia. rewrite E3, E2. reflexivity.
    - intros u w E.
      assert (Hu : In u (keys g)) by (eapply edge_key; exact E).
      assert (Hw' : In w (keys g)) by (apply (T u w E)).
      rewrite !vx_mirror by auto.
      pose proof (He w u (proj2 (rev_edge u w) E)) as L.
      destruct (Hb u (KK u Hu)) as [Bu _]. lia.
  Qed.
End Rev.
