(** CheckDAG / the error paths of NewMap: the verdict is exact. *)
From Coq Require Import List NArith Bool Arith Lia Permutation.
From Verif Require Import Dag.Model Dag.Facts Dag.KahnProofs Dag.CircleProofs.
Import ListNotations.

Section Check.
Variable sh : N -> list name -> list name.
Hypothesis sh_perm : forall t l, Permutation (sh t l) l.
Variable g : graph.
Hypothesis W : wf g.

Definition covers (ls : list (list name)) : Prop := forall v, In v (keys g) -> In v (concat ls).

Theorem check_dag_spec :
  match check_dag sh g with
  | VOk ls => targets_exist g /\ acyclic g /\ layered g ls /\ covers ls
  | VMissing => ~ targets_exist g
  | VCircle c => targets_exist g /\ closed_walk g c /\
                 forall c', closed_walk g c' -> length c <= length c'
  | VPanic => False
  | VFuel => False
  end.
Proof.
  unfold check_dag. destruct (targets_ok g) eqn:Et; simpl.
  - apply (targets_ok_spec g W) in Et.
    destruct (make_layers_layered sh sh_perm g W Et) as [ls [E L]]. rewrite E.
    destruct (left_nodes g ls) as [|x r] eqn:El.
    + split; [assumption|]. split; [eapply accepted_acyclic; eauto|]. split; [assumption|].
      unfold covers. apply left_nil_all. assumption.
    + assert (Hne : left_nodes g ls <> []) by (rewrite El; discriminate).
      assert (exists y, path g y y) as [y Hy] by (eapply rejected_cycle; eauto).
      pose proof (min_circle_spec sh sh_perm g W Et) as M.
      destruct (min_circle sh g) as [c| |].
      * destruct M as [M1 M2]. destruct c as [|a c']; [contradiction|]. auto.
      * exact (M y Hy).
      * assumption.
  - intros Ht. apply (targets_ok_spec g W) in Ht. congruence.
Qed.

Theorem check_dag_iff :
  (exists ls, check_dag sh g = VOk ls) <-> targets_exist g /\ acyclic g.
Proof.
  pose proof check_dag_spec as S. split.
  - intros [ls E]. rewrite E in S. tauto.
  - intros [Ht Ha]. destruct (check_dag sh g) as [ls| |c| |]; try contradiction; eauto.
    destruct S as [_ [S _]]. destruct c as [|a r]; [contradiction|].
    exfalso. apply (Ha a). eapply closed_walk_path; eauto. left; reflexivity.
Qed.

Theorem check_dag_never_panics : check_dag sh g <> VPanic /\ check_dag sh g <> VFuel.
Proof.
  pose proof check_dag_spec as S.
  split; intros E; rewrite E in S; assumption.
Qed.

End Check.
