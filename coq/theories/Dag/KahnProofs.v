(** makeLayers (Kahn layering with hit counts): invariants and results. *)
From Coq Require Import List NArith Bool Arith Lia Permutation.
From Verif Require Import Dag.Model Dag.Facts.
Import ListNotations.

(** * counting *)

Lemma filter_length_le : forall {A} (p : A -> bool) l, length (filter p l) <= length l.
Proof. induction l; simpl; [lia|]. destruct (p a); simpl; lia. Qed.

(** For duplicate-free [l] inside duplicate-free [ks], the elements of [ks]
    that satisfy [p] number at least those of [l], with equality exactly when
    all of them are in [l]. *)
Lemma count_sub : forall (p : name -> bool) (l ks : list name),
  NoDup l -> NoDup ks -> incl l ks ->
  length (filter p l) <= length (filter p ks) /\
  (length (filter p l) = length (filter p ks) <->
   forall u, In u ks -> p u = true -> In u l).
Proof.
  intros p l ks Nl Nk I.
  assert (I' : incl (filter p l) (filter p ks)).
  { intros x Hx. apply filter_In in Hx. apply filter_In. split; [apply I|]; tauto. }
  assert (Nl' : NoDup (filter p l)) by (apply NoDup_filter; assumption).
  assert (Nk' : NoDup (filter p ks)) by (apply NoDup_filter; assumption).
  split; [apply NoDup_incl_length; assumption|].
  split.
  - intros E u Hu Hp.
    assert (H : In u (filter p l)).
    { assert (I2 : incl (filter p ks) (filter p l)) by (apply NoDup_length_incl; [assumption | lia | assumption]).
      apply I2. apply filter_In; auto. }
    apply filter_In in H. tauto.
  - intros H. apply Nat.le_antisymm; [apply NoDup_incl_length; assumption|].
    apply NoDup_incl_length; [assumption|].
    intros x Hx. apply filter_In in Hx. apply filter_In. split; [apply H|]; tauto.
Qed.

(** * generic list facts *)

Lemma in_concat_nth : forall (ls : list (list name)) v,
  In v (concat ls) <-> exists i, i < length ls /\ In v (nth i ls []).
Proof.
  induction ls as [|l r IH]; intros v; simpl.
  - split; [tauto | intros [i [H _]]; lia].
  - rewrite in_app_iff, IH. split.
    + intros [H|[i [H1 H2]]]; [exists 0; split; [lia | assumption] | exists (S i); split; [lia | assumption]].
    + intros [[|i] [H1 H2]]; [left; assumption | right; exists i; split; [lia | assumption]].
Qed.

Lemma nth_in_concat : forall (ls : list (list name)) i v, In v (nth i ls []) -> In v (concat ls).
Proof.
  intros ls i v H. apply in_concat_nth. exists i. split; [|assumption].
  destruct (Nat.lt_ge_cases i (length ls)); [assumption|].
  rewrite nth_overflow in H by assumption. contradiction.
Qed.

Lemma nodup_concat_unique : forall (ls : list (list name)) i j v,
  NoDup (concat ls) -> In v (nth i ls []) -> In v (nth j ls []) -> i = j.
Proof.
  induction ls as [|l r IH]; intros i j v Hn Hi Hj.
  - destruct i; contradiction.
  - simpl in Hn. apply NoDup_app_iff in Hn. destruct Hn as [N1 [N2 N3]].
    destruct i as [|i], j as [|j]; simpl in Hi, Hj.
    + reflexivity.
    + exfalso. apply (N3 v Hi). eapply nth_in_concat; eauto.
    + exfalso. apply (N3 v Hj). eapply nth_in_concat; eauto.
    + f_equal. eapply IH; eauto.
Qed.

Lemma forallb_false_witness : forall (p : name -> bool) l,
  forallb p l = false -> exists x, In x l /\ p x = false.
Proof.
  induction l as [|a r IH]; simpl; intros H; [discriminate|].
  destruct (p a) eqn:E.
  - destruct (IH H) as [x [H1 H2]]. exists x. auto.
  - exists a. auto.
Qed.

Lemma dup_split : forall l : list name, ~ NoDup l ->
  exists x l1 l2 l3, l = l1 ++ x :: l2 ++ x :: l3.
Proof.
  induction l as [|a r IH]; intros H.
  - exfalso. apply H. constructor.
  - destruct (in_dec N.eq_dec a r) as [Hin|Hn].
    + apply in_split in Hin. destruct Hin as [l2 [l3 E]]. exists a, [], l2, l3. simpl. rewrite E. reflexivity.
    + assert (Hr : ~ NoDup r) by (intros Hr; apply H; constructor; assumption).
      destruct (IH Hr) as [x [l1 [l2 [l3 E]]]]. exists x, (a :: l1), l2, l3. simpl. rewrite E. reflexivity.
Qed.

Lemma index_layers_get : forall (ls : list (list name)) base i v,
  NoDup (concat ls) -> In v (nth i ls []) -> aget 0 (index_layers ls base) v = base + i.
Proof.
  induction ls as [|l r IH]; intros base i v Hn Hi.
  - destruct i; contradiction.
  - simpl in Hn. apply NoDup_app_iff in Hn. destruct Hn as [N1 [N2 N3]].
    simpl.
    assert (G : forall (l0 : list name) rest, In v l0 ->
                 aget 0 (map (fun v => (v, base)) l0 ++ rest) v = base).
    { induction l0 as [|a l0 IHl]; simpl; intros rest Hv; [contradiction|].
      destruct (N.eqb_spec v a); [reflexivity|]. apply IHl. destruct Hv; [congruence | assumption]. }
    assert (G2 : forall (l0 : list name) rest, ~ In v l0 ->
                 aget 0 (map (fun v => (v, base)) l0 ++ rest) v = aget 0 rest v).
    { induction l0 as [|a l0 IHl]; simpl; intros rest Hv; [reflexivity|].
      destruct (N.eqb_spec v a); [subst; tauto|]. apply IHl. tauto. }
    destruct i as [|i]; simpl in Hi.
    + rewrite G by assumption. lia.
    + rewrite G2.
      * rewrite (IH (S base) i v N2 Hi). lia.
      * intros Hv. apply (N3 v Hv). eapply nth_in_concat; eauto.
Qed.

Lemma nth_app_nil : forall (ls : list (list name)) i, nth i (ls ++ [[]]) [] = nth i ls [].
Proof.
  intros. destruct (Nat.lt_ge_cases i (length ls)).
  - apply app_nth1. assumption.
  - rewrite app_nth2 by assumption. rewrite (nth_overflow ls) by assumption.
    destruct (i - length ls) as [|[|d]]; reflexivity.
Qed.

Section Kahn.
Variable sh : N -> list name -> list name.
Hypothesis sh_perm : forall t l, Permutation (sh t l) l.
Variable g : graph.
Hypothesis W : wf g.
Hypothesis T : targets_exist g.

Let P (v u : name) : bool := memb v (adj g u).   (* edge u -> v *)
Let need (v : name) : nat := length (ins g v).

Lemma P_edge : forall v u, P v u = true <-> edge g u v.
Proof. intros. unfold P. apply memb_In. Qed.

Lemma need_filter : forall v, need v = length (filter (P v) (keys g)).
Proof. reflexivity. Qed.

(** ** hit_all *)

Lemma hit_all_spec : forall hits nh nx nh' nx',
  hit_all g hits nh nx = (nh', nx') ->
  (forall v, aget 0 nh' v = aget 0 nh v + count_occ N.eq_dec hits v) /\
  (forall v, In v nx' <->
             In v nx \/ (aget 0 nh v < need v <= aget 0 nh v + count_occ N.eq_dec hits v)).
Proof.
  induction hits as [|h r IH]; intros nh nx nh' nx' H; cbn [hit_all] in H.
  - inversion H; subst. split; intros v; simpl; [lia|]. split; [tauto|]. intros [?|?]; [assumption|lia].
  - apply IH in H. destruct H as [H1 H2]. split; intros v.
    + rewrite H1, aget_aset. cbn [count_occ]. destruct (N.eq_dec h v) as [e|n].
      * subst. rewrite N.eqb_refl. lia.
      * destruct (N.eqb_spec v h); [congruence | lia].
    + rewrite H2, aget_aset. cbn [count_occ]. destruct (N.eq_dec h v) as [e|n].
      * subst h. rewrite N.eqb_refl. fold (need v).
        destruct (Nat.eqb_spec (S (aget 0 nh v)) (need v)).
        -- rewrite in_app_iff. simpl. split.
           ++ intros [[?|[?|[]]]|?]; [tauto | right; lia | right; lia].
           ++ intros [?|?]; [tauto | left; right; left; reflexivity].
        -- split.
           ++ intros [?|?]; [tauto | right; lia].
           ++ intros [?|?]; [tauto | right; lia].
      * destruct (N.eqb_spec v h); [congruence|].
        destruct (Nat.eqb (S (aget 0 nh h)) (length (ins g h))).
        -- rewrite in_app_iff. simpl. split.
           ++ intros [[?|[?|[]]]|?]; [tauto | congruence | tauto].
           ++ intros [?|?]; tauto.
        -- tauto.
Qed.

Lemma hit_all_nodup : forall hits nh nx nh' nx',
  hit_all g hits nh nx = (nh', nx') ->
  NoDup nx -> (forall v, In v nx -> need v <= aget 0 nh v) -> NoDup nx'.
Proof.
  induction hits as [|h r IH]; intros nh nx nh' nx' H Nn Hf; cbn [hit_all] in H.
  - inversion H; subst. assumption.
  - eapply IH; [exact H | |].
    + fold (need h). destruct (Nat.eqb_spec (S (aget 0 nh h)) (need h)); [|assumption].
      apply NoDup_snoc; [assumption|]. intros Hin. apply Hf in Hin. lia.
    + intros v Hv. rewrite aget_aset. fold (need h) in Hv.
      destruct (N.eqb_spec v h).
      * subst. destruct (Nat.eqb_spec (S (aget 0 nh h)) (need h)).
        -- lia.
        -- apply Hf in Hv. lia.
      * destruct (Nat.eqb_spec (S (aget 0 nh h)) (need h)).
        -- apply in_app_iff in Hv. simpl in Hv. destruct Hv as [Hv|[Hv|[]]]; [auto | congruence].
        -- auto.
Qed.

(** ** the hits of one round, counted per target *)

Lemma count_outs : forall t u v,
  count_occ N.eq_dec (sh t (outs g u)) v = if P v u then 1 else 0.
Proof.
  intros.
  assert (E : count_occ N.eq_dec (sh t (outs g u)) v = count_occ N.eq_dec (outs g u) v).
  { apply Permutation_count_occ. apply sh_perm. }
  rewrite E. destruct (P v u) eqn:Hp.
  - apply P_edge in Hp. apply (proj1 (NoDup_count_occ' N.eq_dec _) (NoDup_outs g u)).
    apply In_outs. assumption.
  - apply count_occ_not_In. intros H. apply In_outs in H. apply P_edge in H. congruence.
Qed.

Lemma count_hits : forall cur v,
  count_occ N.eq_dec (layer_hits sh g cur) v = length (filter (P v) cur).
Proof.
  induction cur as [|u r IH]; intros v; simpl; [reflexivity|].
  rewrite count_occ_app, IH, count_outs. destruct (P v u); simpl; lia.
Qed.

Lemma In_hits : forall cur v, In v (layer_hits sh g cur) <-> exists u, In u cur /\ edge g u v.
Proof.
  intros. unfold layer_hits. rewrite in_flat_map. split; intros [u [H1 H2]]; exists u; split; auto.
  - apply In_sh in H2; [|assumption]. apply In_outs in H2. assumption.
  - apply In_sh; [assumption|]. apply In_outs. assumption.
Qed.

(** ** the loop invariant *)

Definition all_ins_in (v : name) (l : list name) : Prop := forall u, edge g u v -> In u l.

(** layers as a list of lists: [acc] holds the finished layers, [cur] the one
    being built *)
Record inv (acc : list (list name)) (cur : list name) (nh : cnt) : Prop := {
  i_nodup : NoDup (concat acc ++ cur);
  i_cnt : forall v, aget 0 nh v = length (filter (P v) (concat acc));
  i_ready : forall v, In v (concat acc ++ cur) <-> In v (keys g) /\ all_ins_in v (concat acc);
  i_before : forall i v u, In v (nth i acc []) -> edge g u v -> exists j, j < i /\ In u (nth j acc []);
  i_tight : forall k v, In v (nth (S k) (acc ++ [cur]) []) -> exists u, edge g u v /\ In u (nth k (acc ++ [cur]) []);
  i_first : forall v, In v (nth 0 (acc ++ [cur]) []) -> forall u, ~ edge g u v;
  i_nonempty : forall l, In l acc -> l <> [];
}.

Lemma cnt_full : forall v l, NoDup l -> incl l (keys g) ->
  length (filter (P v) l) <= need v /\
  (length (filter (P v) l) = need v <-> all_ins_in v l).
Proof.
  intros v l Nl I. destruct (count_sub (P v) l (keys g) Nl W I) as [H1 H2].
  split; [exact H1|]. rewrite need_filter, H2. unfold all_ins_in. split.
  - intros H u E. apply H; [eapply edge_key; eauto | apply P_edge; assumption].
  - intros H u Hu Hp. apply H. apply P_edge. assumption.
Qed.



Lemma inv_init : inv [] (sh (tk 1 0 0) (sources g)) [].
Proof.
  assert (S1 : forall v, In v (sh (tk 1 0 0) (sources g)) <-> In v (keys g) /\ ins g v = []).
  { intros v. rewrite In_sh by assumption. unfold sources. rewrite filter_In.
    destruct (ins g v); split; intros [? ?]; split; auto; discriminate. }
  constructor; simpl.
  - apply NoDup_sh; [assumption|]. apply NoDup_filter. exact W.
  - reflexivity.
  - intros v. rewrite S1. split; intros [K H]; split; auto.
    + intros u E. apply In_ins in E. rewrite H in E. contradiction.
    + destruct (ins g v) as [|u r] eqn:E; [reflexivity|].
      exfalso. apply (H u). apply In_ins. rewrite E. left; reflexivity.
  - intros i v u H. destruct i; contradiction.
  - intros k v H. destruct k; contradiction.
  - intros v H u E. apply S1 in H. destruct H as [_ H]. apply In_ins in E. rewrite H in E. contradiction.
  - tauto.
Qed.

Lemma inv_step : forall acc cur nh nh' next,
  inv acc cur nh -> cur <> [] ->
  hit_all g (layer_hits sh g cur) nh [] = (nh', next) ->
  inv (acc ++ [cur]) next nh'.
Proof.
  intros acc cur nh nh' next I Hne H.
  destruct (hit_all_spec _ _ _ _ _ H) as [H1 H2].
  pose proof (hit_all_nodup _ _ _ _ _ H (NoDup_nil _)) as Nnext.
  assert (Nnext' : NoDup next) by (apply Nnext; intros v []).
  clear Nnext.
  assert (C : concat (acc ++ [cur]) = concat acc ++ cur).
  { rewrite concat_app. simpl. rewrite app_nil_r. reflexivity. }
  set (proc := concat acc) in *. set (proc' := proc ++ cur).
  destruct I as [In1 In2 In3 In4 In5 In6 In7].
  assert (Ikeys : incl proc' (keys g)).
  { intros v Hv. apply In3 in Hv. tauto. }
  assert (Iproc : incl proc (keys g)).
  { intros v Hv. apply Ikeys. unfold proc'. apply in_app_iff. left; assumption. }
  assert (Nproc : NoDup proc) by (apply NoDup_app_iff in In1; tauto).
  (* counts after the round *)
  assert (Hcnt : forall v, aget 0 nh' v = length (filter (P v) proc')).
  { intros v. rewrite H1, In2, count_hits. unfold proc'. rewrite filter_app, app_length. reflexivity. }
  (* who is in next *)
  assert (Hnext : forall v, In v next <-> ~ all_ins_in v proc /\ all_ins_in v proc').
  { intros v. rewrite H2. simpl.
    destruct (cnt_full v proc Nproc Iproc) as [A1 A2].
    destruct (cnt_full v proc' In1 Ikeys) as [B1 B2].
    rewrite <- H1, Hcnt, In2. fold proc. split.
    - intros [[]|[L1 L2]]. split.
      + intros F. apply A2 in F. lia.
      + apply B2. lia.
    - intros [F1 F2]. right. apply B2 in F2. split; [|lia].
      destruct (Nat.eq_dec (length (filter (P v) proc)) (need v)) as [e|n]; [|lia].
      apply A2 in e. contradiction. }
  assert (Hnext_pred : forall v, In v next -> exists u, In u cur /\ edge g u v).
  { intros v Hv. apply H2 in Hv. destruct Hv as [[]|[L1 L2]].
    assert (0 < count_occ N.eq_dec (layer_hits sh g cur) v) by lia.
    apply count_occ_In in H0. apply In_hits in H0. exact H0. }
  constructor.
  - (* NoDup *)
    rewrite C. fold proc'.
    apply NoDup_app_iff. repeat split; auto.
    intros v Hv Hn. apply Hnext in Hn. destruct Hn as [F _]. apply F. apply In3. assumption.
  - intros v. rewrite C. apply Hcnt.
  - intros v. rewrite C. fold proc'. rewrite in_app_iff. split.
    + intros [Hv|Hv].
      * apply In3 in Hv. destruct Hv as [K A]. split; [assumption|].
        intros u E. unfold proc'. apply in_app_iff. left. apply A. assumption.
      * pose proof Hv as Hv'. apply Hnext in Hv. split; [|tauto].
        destruct (Hnext_pred v Hv') as [u [_ E]]. eapply T; eauto.
    + intros [K A].
      destruct (cnt_full v proc Nproc Iproc) as [A1 A2].
      destruct (Nat.eq_dec (length (filter (P v) proc)) (need v)) as [e|n].
      * left. apply In3. split; [assumption|]. apply A2. assumption.
      * right. apply Hnext. split; [|assumption]. intros F. apply A2 in F. contradiction.
  - (* before *)
    intros i v u Hv E.
    destruct (Nat.lt_ge_cases i (length acc)) as [Hi|Hi].
    + rewrite app_nth1 in Hv by assumption.
      destruct (In4 i v u Hv E) as [j [Hj Hu]]. exists j. split; [assumption|].
      rewrite app_nth1 by lia. assumption.
    + rewrite app_nth2 in Hv by assumption.
      destruct (i - length acc) as [|d] eqn:Ed; [|destruct d; contradiction].
      simpl in Hv.
      assert (Hu : In u proc).
      { assert (Hv' : In v (proc ++ cur)) by (apply in_app_iff; right; assumption).
        apply In3 in Hv'. destruct Hv' as [_ A]. apply A. assumption. }
      apply in_concat_nth in Hu. destruct Hu as [j [Hj Hu]]. exists j. split; [lia|].
      rewrite app_nth1 by assumption. assumption.
  - (* tight *)
    intros k v Hv.
    destruct (Nat.lt_ge_cases (S k) (length (acc ++ [cur]))) as [Hi|Hi].
    + rewrite app_nth1 in Hv by assumption.
      destruct (In5 k v Hv) as [u [E Hu]]. exists u. split; [assumption|].
      rewrite app_nth1; [assumption|]. lia.
    + rewrite app_nth2 in Hv by assumption.
      assert (Hk : S k = length (acc ++ [cur])).
      { destruct (Nat.eq_dec (S k) (length (acc ++ [cur]))); [assumption|].
        exfalso. rewrite (nth_overflow [next]) in Hv; [contradiction|]. change (length [next]) with 1. lia. }
      rewrite Hk, Nat.sub_diag in Hv. simpl in Hv.
      destruct (Hnext_pred v Hv) as [u [Hu E]]. exists u. split; [assumption|].
      rewrite app_length in Hk. simpl in Hk.
      rewrite app_nth1 by (rewrite app_length; simpl; lia).
      rewrite app_nth2 by lia. replace (k - length acc) with 0 by lia. assumption.
  - (* first *)
    intros v Hv. apply In6. destruct acc as [|a acc']; simpl in *; assumption.
  - (* nonempty *)
    intros l Hl. apply in_app_iff in Hl. destruct Hl as [Hl|[<-|[]]]; auto.
Qed.

(** ** the loop runs to completion within its fuel *)

Lemma inv_keys : forall acc cur nh, inv acc cur nh -> incl (concat acc ++ cur) (keys g).
Proof. intros acc cur nh I v Hv. apply (i_ready _ _ _ I) in Hv. tauto. Qed.

Lemma layers_loop_inv : forall fuel cur nh acc,
  inv acc cur nh -> length g <= fuel + length (concat acc) ->
  exists ls nh', layers_loop sh g fuel cur nh acc = Some ls /\ inv ls [] nh'.
Proof.
  induction fuel as [|f IH]; intros cur nh acc I Hf.
  - destruct cur as [|c r]; simpl.
    + exists acc, nh. split; [reflexivity | assumption].
    + exfalso.
      pose proof (NoDup_incl_length (i_nodup _ _ _ I) (inv_keys _ _ _ I)) as L.
      rewrite app_length, length_keys in L. simpl in L. lia.
  - destruct cur as [|c r].
    + simpl. exists acc, nh. split; [reflexivity | assumption].
    + cbn [layers_loop].
      destruct (hit_all g (layer_hits sh g (c :: r)) nh []) as [nh' next] eqn:E.
      apply IH.
      * eapply inv_step; [exact I | discriminate | exact E].
      * rewrite concat_app, app_length. simpl. rewrite app_nil_r. simpl. lia.
Qed.

(** what makeLayers returns *)
Record layered (ls : list (list name)) : Prop := {
  l_nodup : NoDup (concat ls);
  l_ready : forall v, In v (concat ls) <-> In v (keys g) /\ all_ins_in v (concat ls);
  l_before : forall i v u, In v (nth i ls []) -> edge g u v -> exists j, j < i /\ In u (nth j ls []);
  l_tight : forall k v, In v (nth (S k) ls []) -> exists u, edge g u v /\ In u (nth k ls []);
  l_first : forall v, In v (nth 0 ls []) -> forall u, ~ edge g u v;
  l_nonempty : forall l, In l ls -> l <> [];
}.


Lemma inv_layered : forall ls nh, inv ls [] nh -> layered ls.
Proof.
  intros ls nh [I1 I2 I3 I4 I5 I6 I7]. rewrite app_nil_r in *.
  constructor; auto.
  - intros k v Hv. rewrite <- nth_app_nil in Hv. destruct (I5 k v Hv) as [u [E Hu]].
    rewrite nth_app_nil in Hu. eauto.
  - intros v Hv. apply I6. rewrite nth_app_nil. assumption.
Qed.

Theorem make_layers_layered : exists ls, make_layers sh g = Some ls /\ layered ls.
Proof.
  unfold make_layers.
  destruct (layers_loop_inv (length g) _ _ _ inv_init) as [ls [nh' [E I]]]; [simpl; lia|].
  exists ls. split; [exact E | eapply inv_layered; eauto].
Qed.

(** ** consequences of [layered] *)


Lemma layered_path_before : forall ls, layered ls ->
  forall u v, path g u v -> forall i, In v (nth i ls []) -> exists j, j < i /\ In u (nth j ls []).
Proof.
  intros ls L u v Hp. induction Hp; intros i Hi.
  - eapply l_before; eauto.
  - destruct (IHHp i Hi) as [j [Hj Hw]].
    destruct (l_before _ L j w u Hw H) as [j' [Hj' Hu]]. exists j'. split; [lia | assumption].
Qed.

Lemma left_nil_all : forall ls, left_nodes g ls = [] <-> forall v, In v (keys g) -> In v (concat ls).
Proof.
  intros ls. unfold left_nodes. split.
  - intros H v Hv. destruct (memb v (concat ls)) eqn:E; [apply memb_In; assumption|].
    exfalso. assert (In v (filter (fun k => negb (memb k (concat ls))) (keys g))).
    { apply filter_In. rewrite E. auto. }
    rewrite H in H0. contradiction.
  - intros H. destruct (filter _ (keys g)) as [|x r] eqn:E; [reflexivity|].
    exfalso. assert (Hx : In x (filter (fun k => negb (memb k (concat ls))) (keys g))) by (rewrite E; left; reflexivity).
    apply filter_In in Hx. destruct Hx as [Hk Hm]. apply H in Hk. apply memb_In in Hk.
    rewrite Hk in Hm. discriminate.
Qed.

Lemma accepted_acyclic : forall ls, layered ls -> left_nodes g ls = [] -> acyclic g.
Proof.
  intros ls L H u Hp. rewrite left_nil_all in H.
  assert (Hu : In u (concat ls)) by (apply H; eapply path_start_key; eauto).
  apply in_concat_nth in Hu. destruct Hu as [i [_ Hi]].
  destruct (layered_path_before ls L u u Hp i Hi) as [j [Hj Hu]].
  assert (i = j) by (eapply nodup_concat_unique; eauto using l_nodup). lia.
Qed.


Lemma left_pred : forall ls, layered ls -> forall v, In v (left_nodes g ls) ->
  exists u, In u (left_nodes g ls) /\ edge g u v.
Proof.
  intros ls L v Hv. unfold left_nodes in *. apply filter_In in Hv. destruct Hv as [K M].
  destruct (forallb (fun u => memb u (concat ls)) (ins g v)) eqn:E.
  - exfalso. assert (In v (concat ls)).
    { apply (l_ready _ L). split; [assumption|]. intros u Hu.
      rewrite forallb_forall in E. apply memb_In. apply E. apply In_ins. assumption. }
    apply memb_In in H. rewrite H in M. discriminate.
  - apply forallb_false_witness in E. destruct E as [u [H1 H2]]. exists u.
    split; [|apply In_ins; assumption].
    apply filter_In. split; [eapply ins_keys; eauto | rewrite H2; reflexivity].
Qed.

(** ** a non-empty set in which every node has a predecessor holds a cycle *)


Lemma back_walk : forall S : list name,
  (forall v, In v S -> exists u, In u S /\ edge g u v) ->
  forall n v, In v S ->
  exists w, length w = n /\ incl (w ++ [v]) S /\ chain g (w ++ [v]).
Proof.
  intros S HS. induction n as [|n IH]; intros v Hv.
  - exists []. simpl. repeat split; auto. intros x [<-|[]]. assumption.
  - destruct (IH v Hv) as [w [Hl [Hi Hc]]].
    destruct (w ++ [v]) as [|x r] eqn:E.
    + destruct w; discriminate.
    + assert (Hx : In x S) by (apply Hi; left; reflexivity).
      destruct (HS x Hx) as [u [Hu Eu]].
      exists (u :: w). simpl. rewrite E. repeat split.
      * lia.
      * intros y [<-|Hy]; [assumption | apply Hi; assumption].
      * assumption.
      * assumption.
Qed.

Lemma pred_closed_cycle : forall S : list name, S <> [] ->
  (forall v, In v S -> exists u, In u S /\ edge g u v) ->
  exists x, In x S /\ path g x x.
Proof.
  intros S Hne HS. destruct S as [|v0 S'] eqn:ES; [congruence|]. rewrite <- ES in *.
  assert (Hv0 : In v0 S) by (rewrite ES; left; reflexivity).
  destruct (back_walk S HS (length S) v0 Hv0) as [w [Hl [Hi Hc]]].
  assert (Hd : ~ NoDup (w ++ [v0])).
  { intros Hn. pose proof (NoDup_incl_length Hn Hi) as L. rewrite app_length in L. simpl in L. lia. }
  destruct (dup_split _ Hd) as [x [l1 [l2 [l3 E]]]].
  exists x. split.
  - apply Hi. rewrite E. apply in_app_iff. right. left. reflexivity.
  - rewrite E in Hc. apply chain_split_r in Hc.
    replace (x :: l2 ++ x :: l3) with ((x :: l2 ++ [x]) ++ l3) in Hc
      by (simpl; rewrite <- app_assoc; reflexivity).
    apply chain_split_l in Hc. apply chain_path in Hc. assumption.
Qed.

Lemma rejected_cycle : forall ls, layered ls -> left_nodes g ls <> [] -> exists x, path g x x.
Proof.
  intros ls L H. destruct (pred_closed_cycle _ H (left_pred ls L)) as [x [_ Hx]]. eauto.
Qed.

(** ** layer numbers *)


(** ** the layering is unique: it does not depend on the iteration order *)

Lemma layered_sub : forall ls1 ls2, layered ls1 -> layered ls2 ->
  forall i v, In v (nth i ls1 []) -> In v (nth i ls2 []).
Proof.
  intros ls1 ls2 L1 L2 i. induction i as [i IH] using lt_wf_ind. intros v Hv.
  assert (Hv2 : In v (concat ls2)).
  { apply (l_ready _ L2). split.
    - apply (l_ready _ L1). eapply nth_in_concat; eauto.
    - intros u E. destruct (l_before _ L1 i v u Hv E) as [j [Hj Hu]].
      eapply nth_in_concat. apply (IH j Hj u Hu). }
  apply in_concat_nth in Hv2. destruct Hv2 as [k [_ Hk]].
  assert (Hge : i <= k).
  { destruct i as [|i']; [lia|].
    destruct (l_tight _ L1 i' v Hv) as [u [E Hu]].
    apply (IH i' (Nat.lt_succ_diag_r i')) in Hu.
    destruct (l_before _ L2 k v u Hk E) as [j [Hj Hu']].
    assert (i' = j) by (eapply nodup_concat_unique; [apply (l_nodup _ L2) | eassumption | eassumption]). lia. }
  assert (Hle : k <= i).
  { destruct k as [|k']; [lia|].
    destruct (l_tight _ L2 k' v Hk) as [u [E Hu]].
    destruct (l_before _ L1 i v u Hv E) as [j [Hj Hu']].
    apply (IH j Hj) in Hu'.
    assert (k' = j) by (eapply nodup_concat_unique; [apply (l_nodup _ L2) | eassumption | eassumption]). lia. }
  assert (k = i) by lia. subst. assumption.
Qed.

Lemma layered_unique : forall ls1 ls2, layered ls1 -> layered ls2 ->
  length ls1 = length ls2 /\ forall i v, In v (nth i ls1 []) <-> In v (nth i ls2 []).
Proof.
  intros ls1 ls2 L1 L2.
  assert (Len : forall la lb, layered la -> layered lb -> length la <= length lb).
  { intros la lb La Lb. destruct (Nat.le_gt_cases (length la) (length lb)) as [|Hgt]; [assumption|].
    exfalso.
    assert (Hin : In (nth (length lb) la []) la) by (apply nth_In; assumption).
    pose proof (l_nonempty _ La _ Hin) as Hne.
    destruct (nth (length lb) la []) as [|x r] eqn:E; [congruence|].
    assert (Hx : In x (nth (length lb) la [])) by (rewrite E; left; reflexivity).
    apply (layered_sub la lb La Lb) in Hx. rewrite nth_overflow in Hx by lia. contradiction. }
  split.
  - apply Nat.le_antisymm; apply Len; assumption.
  - intros i v. split; apply layered_sub; assumption.
Qed.

End Kahn.
