(** Round 3: LayoutMap on a Map object that has been through other calls.

    [LayoutMap(m)] reads the node sets of the Map's CURRENT orientation and
    the layer numbers the Map CURRENTLY holds - the Kahn layers after NewMap,
    the pushed layers after an earlier LayoutMap, the mirrored ones
    ([Nlayer - 1 - layer]) after [Map.Reverse].  [layout_from P m L0] is
    LayoutMap started from the layer numbers [L0]; [layout_map P m] is the
    case [L0 = m_lay0 m].  Whatever valid layer numbers it starts from
    ([pinv]: critical edges strictly increasing, below Nlayer), the result is
    a layout of the current orientation. *)
From Coq Require Import List NArith ZArith Bool Arith Lia Permutation.
From Verif Require Import Dag.Model Dag.Ops Dag.Facts Dag.PushProofs Dag.LayoutProofs.
Import ListNotations.

Lemma layout_from_lay0 P m : layout_from P m (m_lay0 m) = layout_map P m.
Proof. reflexivity. Qed.

Section From.
Variable P : lparams.
Hypothesis POK : params_ok P = true.
Variable m : dmap.
Hypothesis Acc : accepted m.
Let g := m_g m.

Theorem layout_from_ok : forall L0, pinv m L0 ->
  exists v, layout_from P m L0 = VwOk v /\
    v_width v = m_nlayer m /\
    map fst (v_nodes v) = keys g /\
    (forall k, In k (keys g) -> vx v k < v_width v /\ (0 <= vy v k < v_height v)%Z) /\
    (forall a b, In a (keys g) -> In b (keys g) -> a <> b -> (vx v a, vy v a) <> (vx v b, vy v b)) /\
    (forall u w, edge g u w -> vx v u < vx v w) /\
    (* the layer numbers the Map holds afterwards are valid again *)
    pinv m (map (fun k => (k, vx v k)) (keys g)).
Proof.
  intros L0 PI0. unfold layout_from.
  destruct (push_all_ok m Acc (rev (sorted_nodes P m L0)) L0 PI0) as [L [EL PI]].
  { intros u Hu. apply in_rev in Hu. unfold sorted_nodes in Hu. apply In_sort_by in Hu. assumption. }
  rewrite EL.
  destruct (sorted_layers_some P m Acc L PI) as [sl [Es [Ns Is]]]. rewrite Es.
  destruct (place_all_ok P POK m L PI (concat sl) [] _ (linv_init m L) Ns) as [st [Ep I]].
  { intros n Hn. split; [tauto | apply Is; assumption]. }
  rewrite Ep. rewrite app_nil_r in I.
  eexists. split; [reflexivity|].
  set (ymin := l_ymin st).
  set (nodes := map (fun k => (k, (lget L k, (yget (l_y st) k - ymin)%Z))) (keys (m_g m))).
  set (ymax := fold_left (fun a e => if Z.ltb a (snd (snd e)) then snd (snd e) else a) nodes 0%Z).
  assert (Placed : forall k, In k (keys g) -> In k (rev (concat sl))).
  { intros k Hk. apply -> in_rev. apply Is. assumption. }
  assert (Get : forall k, In k (keys g) ->
            aget (0, 0%Z) nodes k = (lget L k, (yget (l_y st) k - ymin)%Z)).
  { intros k Hk. unfold nodes.
    apply (aget_map_const (0, 0%Z) (fun k => (lget L k, (yget (l_y st) k - ymin)%Z))). assumption. }
  simpl. split; [reflexivity|]. split.
  { unfold nodes. rewrite map_map. simpl. apply map_id. }
  split; [|split; [|split]].
  - intros k Hk. unfold vx, vy. simpl. fold nodes. rewrite (Get k Hk). simpl. split.
    + apply (p_bound m L PI). assumption.
    + pose proof (li_ymin m L _ _ I k (Placed k Hk)). fold ymin in H.
      destruct (fold_max_ge nodes 0%Z) as [_ B]. fold ymax in B.
      assert (He : In (k, (lget L k, (yget (l_y st) k - ymin)%Z)) nodes).
      { unfold nodes. apply in_map_iff. exists k. auto. }
      specialize (B _ He). simpl in B. lia.
  - intros a b Ha Hb Hab. unfold vx, vy. simpl. fold nodes. rewrite (Get a Ha), (Get b Hb). simpl.
    intros E. inversion E.
    apply (li_distinct m L _ _ I a b (Placed a Ha) (Placed b Hb) Hab H0). lia.
  - intros u w E. unfold vx. simpl. fold nodes.
    rewrite (Get u), (Get w); simpl.
    + apply (pinv_edge m Acc L PI). assumption.
    + eapply (a_targets m Acc). eassumption.
    + eapply edge_key. eassumption.
  - assert (LG : forall k, In k (keys g) ->
        lget (map (fun k0 => (k0, vx (mkV nodes (m_nlayer m) (ymax + 1)%Z) k0)) (keys g)) k = lget L k).
    { intros k Hk. unfold lget.
      rewrite (aget_map_const 0 (fun k0 => vx (mkV nodes (m_nlayer m) (ymax + 1)%Z) k0)) by assumption.
      unfold vx. simpl. fold nodes. rewrite (Get k Hk). reflexivity. }
    constructor.
    + intros u v C. rewrite !LG.
      * apply (p_crit m L PI). assumption.
      * eapply crit_key; eassumption.
      * eapply edge_key. eapply crit_edge; eassumption.
    + intros v Hv. rewrite LG by assumption. apply (p_bound m L PI). assumption.
Qed.
End From.

(** [Map.Reverse] keeps the layer numbers valid: if [L] is valid for the Map
    [m] and [m'] is the Map of the opposite orientation (critical edges
    reversed, same number of layers, same nodes), then the mirrored numbers
    [nl - 1 - L] are valid for [m']. *)
Lemma mirror_pinv (m m' : dmap) (L L' : lays) :
  m_nlayer m' = m_nlayer m ->
  (forall v, In v (keys (m_g m')) -> In v (keys (m_g m))) ->
  (forall u v, In v (m_crit_outs m' u) -> In u (m_crit_outs m v) /\ In u (keys (m_g m')) /\ In v (keys (m_g m'))) ->
  (forall v, In v (keys (m_g m')) -> lget L' v = m_nlayer m - 1 - lget L v) ->
  pinv m L -> pinv m' L'.
Proof.
  intros Hn Hk Hc HL PI. constructor.
  - intros u v C. destruct (Hc u v C) as [C' [Ku Kv]].
    rewrite (HL u Ku), (HL v Kv).
    pose proof (p_crit m L PI v u C') as Lt.
    pose proof (p_bound m L PI u (Hk u Ku)) as Bu.
    pose proof (p_bound m L PI v (Hk v Kv)) as Bv. lia.
  - intros v Kv. rewrite (HL v Kv), Hn.
    pose proof (p_bound m L PI v (Hk v Kv)) as Bv. lia.
Qed.

(** * findY: the probe needs no bound (round 3, seeded change C19-g)

    At most [length tak] rows are taken, the probe visits the pairwise
    distinct rows [yavg], [yavg+1], ... on its way out, so it ends within
    [length tak + 1] offsets - for ANY layer width - and the row it returns
    has just been tested free. *)
Theorem findY_probe_terminates_within_width : forall tak yavg,
  exists y, find_y (S (length tak)) tak yavg 0 = Some y /\ zmem y tak = false.
Proof.
  intros tak yavg. destruct (find_y (S (length tak)) tak yavg 0) as [y|] eqn:E.
  - exists y. split; [reflexivity | eapply find_y_free; exact E].
  - exfalso. eapply find_y_total; exact E.
Qed.

(** more fuel changes nothing: the unbounded loop of the source *)
Lemma find_y_more_fuel : forall f tak yavg off y,
  find_y f tak yavg off = Some y -> forall f', f <= f' -> find_y f' tak yavg off = Some y.
Proof.
  induction f as [|f IH]; intros tak yavg off y H f' Hle; [discriminate|].
  destruct f' as [|f']; [lia|]. cbn [find_y] in *.
  destruct (negb (zmem (yavg + off) tak)); [exact H|].
  destruct (negb (zmem (yavg - off) tak)); [exact H|].
  apply (IH _ _ _ _ H). lia.
Qed.

(** A probe bounded at [b] offsets with an unchecked fall-back is refuted:
    with the rows 0, 1, -1, 2 taken (|offset| < 2 exhausted) and bound 2 it
    hands out row 2 - a taken row; the unbounded probe returns -2. *)
Lemma bounded_probe_refuted :
  let tak := [0; 1; -1; 2]%Z in
  find_y_bounded 2 tak 0 0 = 2%Z /\ zmem 2 tak = true /\
  find_y (S (length tak)) tak 0 0 = Some (-2)%Z.
Proof. vm_compute. repeat split; reflexivity. Qed.
