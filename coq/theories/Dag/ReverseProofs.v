(** Graph.Reverse: edges are reversed with their multiplicity, targets that
    are not nodes become nodes, reversing twice gives the edge lists back
    (sorted). *)
From Coq Require Import List NArith Bool Arith Lia Permutation Sorted.
From Verif Require Import Dag.Model Dag.Facts.
Import ListNotations.

Notation cnt_occ := (count_occ N.eq_dec).

(** * sort_names is canonical *)

Lemma insert_hdrel : forall a x l, HdRel N.le a l -> (a <= x)%N -> HdRel N.le a (insert_by N.ltb x l).
Proof.
  intros a x [|y r] H L; simpl.
  - constructor. assumption.
  - destruct (N.ltb x y); constructor; [assumption|]. inversion H; subst. assumption.
Qed.

Lemma insert_sorted : forall x l, Sorted N.le l -> Sorted N.le (insert_by N.ltb x l).
Proof.
  induction l as [|y r IH]; intros H; simpl.
  - repeat constructor.
  - destruct (N.ltb_spec x y).
    + constructor; [assumption|]. constructor. lia.
    + inversion H; subst. constructor; [apply IH; assumption|].
      apply insert_hdrel; assumption.
Qed.

Lemma sort_names_sorted : forall l, Sorted N.le (sort_names l).
Proof.
  induction l as [|x r IH]; simpl; [constructor|]. apply insert_sorted. exact IH.
Qed.

Lemma sorted_perm_eq : forall l1 l2 : list name,
  Sorted N.le l1 -> Sorted N.le l2 -> Permutation l1 l2 -> l1 = l2.
Proof.
  induction l1 as [|x r1 IH]; intros l2 S1 S2 P.
  - apply Permutation_nil in P. subst. reflexivity.
  - destruct l2 as [|y r2]; [apply Permutation_sym, Permutation_nil in P; discriminate|].
    apply Sorted_StronglySorted in S1; [|intros a b c; apply N.le_trans].
    apply Sorted_StronglySorted in S2; [|intros a b c; apply N.le_trans].
    inversion S1; subst. inversion S2; subst.
    assert (x = y).
    { assert (Hx : In x (y :: r2)) by (eapply Permutation_in; [exact P | left; reflexivity]).
      assert (Hy : In y (x :: r1)) by (eapply Permutation_in; [symmetry; exact P | left; reflexivity]).
      rewrite Forall_forall in H2, H4.
      destruct Hx as [->|Hx]; [reflexivity|]. destruct Hy as [->|Hy]; [reflexivity|].
      specialize (H2 _ Hy). specialize (H4 _ Hx). lia. }
    subst y. f_equal. apply IH.
    + apply StronglySorted_Sorted. assumption.
    + apply StronglySorted_Sorted. assumption.
    + eapply Permutation_cons_inv. exact P.
Qed.

Lemma sort_names_perm_eq : forall l1 l2, Permutation l1 l2 -> sort_names l1 = sort_names l2.
Proof.
  intros l1 l2 P. apply sorted_perm_eq; try apply sort_names_sorted.
  unfold sort_names. rewrite !sort_by_perm. assumption.
Qed.

Lemma sort_names_count : forall l x, cnt_occ (sort_names l) x = cnt_occ l x.
Proof. intros. apply Permutation_count_occ. unfold sort_names. apply sort_by_perm. Qed.

(** * the accumulation *)

Definition radd (r : graph) (t n : name) : graph := aset r t (aget [] r t ++ [n]).

Lemma radd_get : forall r t n t' m,
  cnt_occ (aget [] (radd r t n) t') m =
  cnt_occ (aget [] r t') m + (if N.eqb t' t && N.eqb m n then 1 else 0).
Proof.
  intros. unfold radd. rewrite aget_aset. destruct (N.eqb_spec t' t); simpl.
  - subst. rewrite count_occ_app. cbn [count_occ].
    destruct (N.eqb_spec m n) as [->|Hne]; [destruct (N.eq_dec n n); cbn; [reflexivity | congruence] | destruct (N.eq_dec n m); cbn; [congruence | reflexivity]].
  - lia.
Qed.

Lemma radd_keys : forall r t n k, In k (map fst (radd r t n)) <-> In k (map fst r) \/ k = t.
Proof.
  intros r t n. unfold radd. generalize (aget [] r t ++ [n]) as v.
  induction r as [|[k0 l0] r' IH]; intros v k; simpl.
  - intuition.
  - destruct (N.eqb_spec t k0); simpl.
    + subst. intuition.
    + rewrite IH. intuition.
Qed.

Lemma aset_keys : forall (r : graph) t v k, In k (map fst (aset r t v)) <-> In k (map fst r) \/ k = t.
Proof.
  induction r as [|[k0 l0] r' IH]; intros t v k; simpl.
  - intuition.
  - destruct (N.eqb_spec t k0); simpl.
    + subst. intuition.
    + rewrite IH. intuition.
Qed.

Lemma aset_nodup : forall (r : graph) t v, NoDup (map fst r) -> NoDup (map fst (aset r t v)).
Proof.
  induction r as [|[k0 l0] r' IH]; intros t v H; simpl.
  - repeat constructor. intros [].
  - inversion H; subst. destruct (N.eqb_spec t k0); simpl.
    + subst. constructor; assumption.
    + constructor; [|apply IH; assumption].
      intros Hin. apply aset_keys in Hin. destruct Hin as [Hin|Hin]; [contradiction | congruence].
Qed.

Lemma inner_spec : forall n (l : list name) (r : graph),
  let r' := fold_left (fun r t => radd r t n) l r in
  (forall t m, cnt_occ (aget [] r' t) m =
               cnt_occ (aget [] r t) m + (if N.eqb m n then cnt_occ l t else 0)) /\
  (forall k, In k (map fst r') <-> In k (map fst r) \/ In k l) /\
  (NoDup (map fst r) -> NoDup (map fst r')).
Proof.
  intros n. induction l as [|t0 l' IH]; intros r; simpl.
  - split; [|split]; intros; [destruct (N.eqb m n); lia | tauto | assumption].
  - destruct (IH (radd r t0 n)) as [A [B C]]. split; [|split].
    + intros t m. rewrite A, radd_get.
      destruct (N.eqb_spec m n); simpl.
      * cbn [count_occ]. destruct (N.eqb_spec t t0) as [->|Hne]; simpl;
          [destruct (N.eq_dec t0 t0); cbn; [lia | congruence] | destruct (N.eq_dec t0 t); cbn; [congruence | lia]].
      * rewrite andb_false_r. lia.
    + intros k. rewrite B. unfold radd. rewrite aset_keys. intuition.
    + intros H. apply C. unfold radd. apply aset_nodup. assumption.
Qed.

Lemma outer_spec : forall g (ks : list name) (r : graph), NoDup ks ->
  let r' := fold_left (fun r n => fold_left (fun r t => radd r t n) (adj g n) r) ks r in
  (forall t m, cnt_occ (aget [] r' t) m =
               cnt_occ (aget [] r t) m + (if memb m ks then cnt_occ (adj g m) t else 0)) /\
  (forall k, In k (map fst r') <-> In k (map fst r) \/ exists n, In n ks /\ In k (adj g n)) /\
  (NoDup (map fst r) -> NoDup (map fst r')).
Proof.
  intros g. induction ks as [|n ks' IH]; intros r Hn; simpl.
  - split; [|split]; intros; [lia | | assumption]. split; [tauto | intros [?|[n [[] _]]]; assumption].
  - inversion Hn; subst.
    destruct (inner_spec n (adj g n) r) as [A [B C]].
    destruct (IH (fold_left (fun r t => radd r t n) (adj g n) r) H2) as [A' [B' C']].
    split; [|split].
    + intros t m. rewrite A', A. destruct (N.eqb_spec m n).
      * subst. apply memb_false in H1. rewrite H1. lia.
      * lia.
    + intros k. rewrite B', B. split.
      * intros [[?|?]|[n' [? ?]]]; eauto 6.
      * intros [?|[n' [[<-|?] ?]]]; eauto 6.
    + intros H. apply C', C. assumption.
Qed.

(** * Reverse *)

Section Rev.
Variable sh : N -> list name -> list name.
Hypothesis sh_perm : forall t l, Permutation (sh t l) l.

Lemma adj_map_sort : forall (r : graph) t,
  adj (map (fun e => (fst e, sort_names (snd e))) r) t =
  if memb t (map fst r) then sort_names (aget [] r t) else [].
Proof.
  induction r as [|[k0 l0] r' IH]; intros t; simpl; [reflexivity|].
  destruct (N.eqb_spec t k0); [reflexivity | apply IH].
Qed.

Lemma aget_notin_nil : forall (r : graph) t, ~ In t (map fst r) -> aget [] r t = [].
Proof.
  induction r as [|[k0 l0] r' IH]; intros t H; simpl; [reflexivity|].
  destruct (N.eqb_spec t k0); [subst; simpl in H; tauto | apply IH; simpl in H; tauto].
Qed.

Lemma rev_graph_spec : forall g, wf g ->
  (forall u v, cnt_occ (adj (rev_graph sh g) v) u = cnt_occ (adj g u) v) /\
  (forall k, In k (keys (rev_graph sh g)) <-> In k (keys g) \/ exists u, edge g u k) /\
  wf (rev_graph sh g).
Proof.
  intros g Wg. unfold rev_graph.
  set (r0 := map (fun k => (k, @nil name)) (keys g)).
  set (ks := sh (tk 8 0 0) (keys g)).
  assert (K0 : map fst r0 = keys g) by (unfold r0; rewrite map_map; simpl; apply map_id).
  assert (Hn : NoDup ks) by (apply NoDup_sh; assumption).
  assert (Hks : forall x, In x ks <-> In x (keys g)) by (intros x; apply In_sh; assumption).
  destruct (outer_spec g ks r0 Hn) as [A [B C]].
  change (fold_left (fun r n => fold_left (fun r t => aset r t (aget [] r t ++ [n])) (adj g n) r) ks r0)
    with (fold_left (fun r n => fold_left (fun r t => radd r t n) (adj g n) r) ks r0).
  set (r1 := fold_left (fun r n => fold_left (fun r t => radd r t n) (adj g n) r) ks r0) in *.
  assert (G0 : forall t, aget [] r0 t = []).
  { intros t. unfold r0. destruct (in_dec N.eq_dec t (keys g)).
    - apply (aget_map_const [] (fun _ => [])). assumption.
    - apply (aget_map_notin [] (fun _ => [])). assumption. }
  assert (Cnt : forall t m, cnt_occ (aget [] r1 t) m = cnt_occ (adj g m) t).
  { intros t m. rewrite A, G0. change (cnt_occ [] m) with 0. rewrite Nat.add_0_l.
    destruct (memb m ks) eqn:E; [reflexivity|].
    apply memb_false in E. rewrite Hks in E. rewrite (adj_notkey g m E). reflexivity. }
  split; [|split].
  - intros u v. rewrite adj_map_sort. destruct (memb v (map fst r1)) eqn:E.
    + rewrite sort_names_count. apply Cnt.
    + apply memb_false in E. rewrite <- Cnt. rewrite aget_notin_nil by assumption. reflexivity.
  - intros k. unfold keys. rewrite map_map. simpl. fold (keys g). rewrite B, K0. split.
    + intros [?|[n [H1 H2]]]; [tauto|]. right. exists n. exact H2.
    + intros [?|[u E]]; [tauto|]. right. exists u. split; [|exact E].
      apply Hks. eapply edge_key; eauto.
  - unfold wf, keys. rewrite map_map. simpl. apply C. rewrite K0. assumption.
Qed.

Theorem rev_rev_edges : forall g, wf g ->
  forall u, adj (rev_graph sh (rev_graph sh g)) u = sort_names (adj g u).
Proof.
  intros g Wg u.
  destruct (rev_graph_spec g Wg) as [A [B C]].
  destruct (rev_graph_spec _ C) as [A' [B' C']].
  assert (P : Permutation (adj (rev_graph sh (rev_graph sh g)) u) (adj g u)).
  { apply (Permutation_count_occ N.eq_dec). intros v. rewrite A', A. reflexivity. }
  assert (S : Sorted N.le (adj (rev_graph sh (rev_graph sh g)) u)).
  { unfold rev_graph at 1. rewrite adj_map_sort. destruct (memb u _); [apply sort_names_sorted | constructor]. }
  apply sorted_perm_eq; [assumption | apply sort_names_sorted|].
  rewrite P. symmetry. unfold sort_names. apply sort_by_perm.
Qed.

Theorem rev_rev_keys : forall g, wf g ->
  forall k, In k (keys (rev_graph sh (rev_graph sh g))) <-> In k (keys g) \/ exists u, edge g u k.
Proof.
  intros g Wg k.
  destruct (rev_graph_spec g Wg) as [A [B C]].
  destruct (rev_graph_spec _ C) as [A' [B' C']].
  rewrite B', B. split.
  - intros [?|[u E]]; [assumption|].
    (* an edge u -> k of the reversed graph is an edge k -> u of g *)
    left. unfold edge in E. apply (count_occ_In N.eq_dec) in E. rewrite A in E.
    apply (count_occ_In N.eq_dec) in E. eapply edge_key; exact E.
  - tauto.
Qed.

End Rev.
