(** buildAlls / isCrit: AllIns and AllOuts are exactly reachability, the
    critical edges exactly the transitive reduction. *)
From Coq Require Import List NArith Bool Arith Lia Permutation.
From Verif Require Import Dag.Model Dag.Facts Dag.KahnProofs.
Import ListNotations.

Section Closure.
Variable sh : N -> list name -> list name.
Hypothesis sh_perm : forall t l, Permutation (sh t l) l.
Variable g : graph.
Hypothesis W : wf g.
Hypothesis T : targets_exist g.

(** ** the inner loops, as sets *)

Lemma link_fold_spec : forall o (is : list name) (st : sets * sets),
  let st' := fold_left (fun st i => link st i o) is st in
  (forall v w, In w (sget (fst st') v) <-> In w (sget (fst st) v) \/ (v = o /\ In w is)) /\
  (forall u x, In x (sget (snd st') u) <-> In x (sget (snd st) u) \/ (x = o /\ In u is)).
Proof.
  intros o. induction is as [|i r IH]; intros st; simpl.
  - split; intros; tauto.
  - destruct (IH (link st i o)) as [A B]. split.
    + intros v w. rewrite A. unfold link; simpl. rewrite In_sget_sadd. intuition (subst; auto).
    + intros u x. rewrite B. unfold link; simpl. rewrite In_sget_sadd.
      split; [intros [[?|[? ?]]|[? ?]] | intros [?|[? [?|?]]]]; subst; auto.
Qed.

Lemma alls_out_spec : forall (st : sets * sets) p o,
  let st' := alls_out sh st p o in
  (forall v w, In w (sget (fst st') v) <->
               In w (sget (fst st) v) \/ (v = o /\ (In w (sget (fst st) p) \/ w = p))) /\
  (forall u x, In x (sget (snd st') u) <->
               In x (sget (snd st) u) \/ (x = o /\ (In u (sget (fst st) p) \/ u = p))).
Proof.
  intros st p o. unfold alls_out.
  destruct (link_fold_spec o (sh (tk 6 p o) (sget (fst st) p)) st) as [A B].
  simpl. split.
  - intros v w. unfold link at 1; simpl. rewrite In_sget_sadd, A, In_sh by assumption. tauto.
  - intros u x. unfold link at 1; simpl. rewrite In_sget_sadd, B, In_sh by assumption.
    split; [intros [[?|[? ?]]|[? ?]] | intros [?|[? [?|?]]]]; subst; auto.
Qed.

Lemma alls_fold_spec : forall p (os : list name) (st : sets * sets),
  ~ In p os ->
  let st' := fold_left (fun st o => alls_out sh st p o) os st in
  (forall v w, In w (sget (fst st') v) <->
               In w (sget (fst st) v) \/ (In v os /\ (In w (sget (fst st) p) \/ w = p))) /\
  (forall u x, In x (sget (snd st') u) <->
               In x (sget (snd st) u) \/ (In x os /\ (In u (sget (fst st) p) \/ u = p))).
Proof.
  intros p. induction os as [|o r IH]; intros st Hp; simpl.
  - split; intros; tauto.
  - assert (Hp' : ~ In p r) by (intros H; apply Hp; right; assumption).
    assert (Hop : o <> p) by (intros ->; apply Hp; left; reflexivity).
    destruct (IH (alls_out sh st p o) Hp') as [A B].
    destruct (alls_out_spec st p o) as [C D].
    assert (Keep : forall w, In w (sget (fst (alls_out sh st p o)) p) <-> In w (sget (fst st) p)).
    { intros w. rewrite C. split; [intros [?|[? _]]; [assumption | congruence] | tauto]. }
    split.
    + intros v w. rewrite A, C, Keep. split.
      * intros [[?|[-> ?]]|[? ?]]; auto.
      * intros [?|[[<-|?] ?]]; auto.
    + intros u x. rewrite B, D, Keep. split.
      * intros [[?|[-> ?]]|[? ?]]; auto.
      * intros [?|[[<-|?] ?]]; auto.
Qed.

(** ** the invariant over processed nodes *)

Definition J (proc : list name) (st : sets * sets) : Prop :=
  (forall v w, In w (sget (fst st) v) <->
               exists p, In p proc /\ edge g p v /\ (w = p \/ path g w p)) /\
  (forall u v, In v (sget (snd st) u) <-> In u (sget (fst st) v)).

Lemma J_equiv : forall p1 p2 st, (forall x, In x p1 <-> In x p2) -> J p1 st -> J p2 st.
Proof.
  intros p1 p2 st E [A B]. split; [|exact B].
  intros v w. rewrite A. split; intros [p [H1 H2]]; exists p; split; auto; apply E; assumption.
Qed.

Lemma J_step : forall proc st p,
  J proc st -> (forall q, edge g q p -> In q proc) -> ~ edge g p p ->
  J (proc ++ [p]) (alls_node sh g st p).
Proof.
  intros proc st p [A B] Hall Hself. unfold alls_node.
  assert (Hp : ~ In p (sh (tk 5 p 0) (outs g p))).
  { rewrite In_sh by assumption. rewrite In_outs. assumption. }
  destruct (alls_fold_spec p _ st Hp) as [C D].
  assert (Hos : forall v, In v (sh (tk 5 p 0) (outs g p)) <-> edge g p v).
  { intros v. rewrite In_sh by assumption. apply In_outs. }
  assert (Hai : forall w, In w (sget (fst st) p) <-> path g w p).
  { intros w. rewrite A. split.
    - intros [q [H1 [H2 [->|H3]]]]; [constructor; assumption | eapply path_snoc; eauto].
    - intros Hw. apply path_last in Hw. destruct Hw as [E|[q [P E]]].
      + exists w. auto.
      + exists q. auto. }
  split.
  - intros v w. rewrite C, A, Hos, Hai. split.
    + intros [[q [H1 [H2 H3]]]|[E H]].
      * exists q. split; [apply in_app_iff; left; assumption | auto].
      * exists p. split; [apply in_app_iff; right; left; reflexivity|]. split; [assumption|]. tauto.
    + intros [q [H1 [H2 H3]]]. apply in_app_iff in H1. destruct H1 as [H1|[<-|[]]].
      * left. exists q. auto.
      * right. split; [assumption|]. tauto.
  - intros u v. rewrite D, C, B. tauto.
Qed.

Lemma J_init : J [] (empty_sets g, empty_sets g).
Proof.
  assert (E : forall v, sget (empty_sets g) v = []).
  { intros v. unfold sget, empty_sets.
    destruct (in_dec N.eq_dec v (keys g)).
    - apply (aget_map_const [] (fun _ => [])). assumption.
    - apply (aget_map_notin [] (fun _ => [])). assumption. }
  split; simpl; intros.
  - rewrite E. split; [contradiction | intros [p [[] _]]].
  - rewrite !E. tauto.
Qed.

Variable ls : list (list name).
Hypothesis L : layered g ls.
Hypothesis Cov : forall v, In v (keys g) -> In v (concat ls).

Lemma no_self_loop : forall p, ~ edge g p p.
Proof.
  intros p E. assert (Hp : In p (concat ls)) by (apply Cov; eapply edge_key; eauto).
  apply in_concat_nth in Hp. destruct Hp as [i [_ Hi]].
  destruct (l_before _ _ L i p p Hi E) as [j [Hj Hp]].
  assert (i = j) by (eapply nodup_concat_unique; [apply (l_nodup g ls L) | eassumption | eassumption]). lia.
Qed.

Lemma J_layer : forall done l rest, ls = done ++ l :: rest ->
  forall l2 l1 st, l = l1 ++ l2 -> J (concat done ++ l1) st ->
  J (concat done ++ l) (fold_left (alls_node sh g) l2 st).
Proof.
  intros done l rest E. induction l2 as [|p r IH]; intros l1 st El Hj; simpl.
  - rewrite app_nil_r in El. subst l1. assumption.
  - apply (IH (l1 ++ [p])).
    + rewrite <- app_assoc. assumption.
    + rewrite app_assoc. apply J_step; [assumption | | apply no_self_loop].
      intros q Eq. apply in_app_iff. left.
      assert (Hp : In p (nth (length done) ls [])).
      { rewrite E, app_nth2 by lia. rewrite Nat.sub_diag. simpl. rewrite El. apply in_app_iff. right. left. reflexivity. }
      destruct (l_before _ _ L _ p q Hp Eq) as [j [Hj' Hq]].
      rewrite E, app_nth1 in Hq by assumption. eapply nth_in_concat; eauto.
Qed.

Lemma J_layers : forall rest done st, ls = done ++ rest -> J (concat done) st ->
  J (concat ls) (fold_left (fun st layer => fold_left (alls_node sh g) layer st) rest st).
Proof.
  induction rest as [|l r IH]; intros done st E Hj; simpl.
  - rewrite app_nil_r in E. subst. assumption.
  - apply (IH (done ++ [l])).
    + rewrite <- app_assoc. assumption.
    + rewrite concat_app. simpl. rewrite app_nil_r.
      apply (J_layer done l r E l [] st); [reflexivity | rewrite app_nil_r; assumption].
Qed.

Theorem build_alls_reach :
  let '(ai, ao) := build_alls sh g ls in
  (forall u v, In u (sget ai v) <-> path g u v) /\
  (forall u v, In v (sget ao u) <-> path g u v).
Proof.
  unfold build_alls.
  pose proof (J_layers ls [] _ eq_refl J_init) as [A B].
  destruct (fold_left _ ls _) as [ai ao]. simpl in *.
  assert (G : forall u v, In u (sget ai v) <-> path g u v).
  { intros u v. rewrite A. split.
    - intros [p [_ [E [->|P]]]]; [constructor; assumption | eapply path_snoc; eauto].
    - intros P. apply path_last in P. destruct P as [E|[q [P E]]].
      + exists u. split; [apply Cov; eapply edge_key; eauto | auto].
      + exists q. split; [apply Cov; eapply edge_key; eauto | auto]. }
  split; [exact G|]. intros u v. rewrite B. apply G.
Qed.

End Closure.

(** ** critical edges *)

Section Crit.
Variable g : graph.
Variable ao : sets.
Hypothesis Hao : forall u v, In v (sget ao u) <-> path g u v.
Hypothesis Acy : acyclic g.

Lemma is_crit_spec : forall u v,
  is_crit ao u v = true <-> ~ exists w, path g u w /\ path g w v.
Proof.
  intros u v. unfold is_crit. rewrite forallb_forall. split.
  - intros H [w [P1 P2]]. apply Hao in P1. specialize (H w P1).
    apply orb_true_iff in H. destruct H as [H|H].
    + apply N.eqb_eq in H. subst. exact (Acy v P2).
    + apply negb_true_iff, memb_false in H. apply H. apply Hao. assumption.
  - intros H w Hw. apply Hao in Hw. apply orb_true_iff.
    destruct (N.eqb_spec w v); [left; reflexivity | right].
    apply negb_true_iff, memb_false. intros Hv. apply Hao in Hv. apply H. eauto.
Qed.

Theorem crit_outs_spec : forall u v,
  In v (crit_outs g ao u) <-> edge g u v /\ ~ exists w, path g u w /\ path g w v.
Proof.
  intros. unfold crit_outs. rewrite filter_In, In_outs, is_crit_spec. tauto.
Qed.

Theorem crit_ins_spec : forall u v,
  In u (crit_ins g ao v) <-> edge g u v /\ ~ exists w, path g u w /\ path g w v.
Proof.
  intros. unfold crit_ins. rewrite filter_In, In_ins, is_crit_spec. tauto.
Qed.

(** a non-critical edge is bridged *)
Lemma not_crit_witness : forall u v,
  is_crit ao u v = false -> exists w, path g u w /\ path g w v.
Proof.
  intros u v H. unfold is_crit in H. apply forallb_false_witness in H.
  destruct H as [w [H1 H2]]. apply orb_false_iff in H2. destruct H2 as [_ H2].
  apply negb_false_iff, memb_In in H2. exists w. split; apply Hao; assumption.
Qed.

End Crit.
