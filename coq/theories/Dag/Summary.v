(** The statements of C19 in their final form, assembled from the proof
    files.  Props/C19.v closes each theorem with one of these. *)
From Coq Require Import List NArith ZArith Bool Arith Lia Permutation.
From Verif Require Import Dag.Model Dag.Facts Dag.KahnProofs Dag.CircleProofs Dag.CheckProofs
     Dag.ClosureProofs Dag.PushProofs Dag.MapProofs Dag.LayoutProofs Dag.ReverseProofs Dag.TopoProofs.
Import ListNotations.

(** Go's map iteration order: any function returning a permutation. *)
Definition perm_oracle (sh : N -> list name -> list name) : Prop :=
  forall t l, Permutation (sh t l) l.

Lemma sh_id_oracle : perm_oracle sh_id.
Proof. exact sh_id_perm. Qed.
Lemma sh_rev_oracle : perm_oracle sh_rev.
Proof. exact sh_rev_perm. Qed.

Section S.
Variable P : lparams.
Hypothesis POK : params_ok P = true.
Variable sh : N -> list name -> list name.
Hypothesis O : perm_oracle sh.
Variable g : graph.
Hypothesis W : wf g.

Lemma s_check_iff : (exists ls, check_dag sh g = VOk ls) <-> targets_exist g /\ acyclic g.
Proof. exact (check_dag_iff sh O g W). Qed.

Lemma s_check_total : check_dag sh g <> VPanic /\ check_dag sh g <> VFuel.
Proof. exact (check_dag_never_panics sh O g W). Qed.

Lemma s_missing_iff : check_dag sh g = VMissing <-> ~ targets_exist g.
Proof.
  pose proof (check_dag_spec sh O g W) as S. split.
  - intros E. rewrite E in S. assumption.
  - intros H. destruct (check_dag sh g) as [ls| |c| |]; try reflexivity; try contradiction; exfalso; tauto.
Qed.

Lemma s_circle_iff : (exists c, check_dag sh g = VCircle c) <-> targets_exist g /\ ~ acyclic g.
Proof.
  pose proof (check_dag_spec sh O g W) as S. split.
  - intros [c E]. rewrite E in S. destruct S as [S1 [S2 _]]. split; [assumption|].
    intros A. destruct c as [|a r]; [contradiction|].
    apply (A a). eapply closed_walk_path; eauto. left; reflexivity.
  - intros [Ht Hn]. destruct (check_dag sh g) as [ls| |c| |]; try contradiction; eauto; exfalso; tauto.
Qed.

Lemma s_circle : forall c, check_dag sh g = VCircle c ->
  closed_walk g c /\ forall c', closed_walk g c' -> length c <= length c'.
Proof.
  intros c E. pose proof (check_dag_spec sh O g W) as S. rewrite E in S. tauto.
Qed.

Lemma s_layers : forall ls, check_dag sh g = VOk ls ->
  NoDup (concat ls) /\
  (forall v, In v (keys g) <-> exists i, i < length ls /\ In v (nth i ls [])) /\
  (forall i v u, In v (nth i ls []) -> edge g u v -> exists j, j < i /\ In u (nth j ls [])) /\
  (forall k v, In v (nth (S k) ls []) -> exists u, edge g u v /\ In u (nth k ls [])) /\
  (forall v, In v (nth 0 ls []) -> forall u, ~ edge g u v) /\
  (forall l, In l ls -> l <> []).
Proof.
  intros ls E. pose proof (check_dag_spec sh O g W) as S. rewrite E in S.
  destruct S as [_ [_ [L C]]]. destruct L as [L1 L2 L3 L4 L5 L6].
  split; [assumption|]. split; [|auto].
  intros v. rewrite <- in_concat_nth. split; [apply C|]. intros H. apply L2 in H. tauto.
Qed.

Lemma s_closure : forall m, new_map sh g = MOk m ->
  m_g m = g /\
  (forall u v, In u (sget (m_ai m) v) <-> path g u v) /\
  (forall u v, In v (sget (m_ao m) u) <-> path g u v).
Proof.
  intros m E. pose proof (new_map_spec sh O g W) as S. rewrite E in S.
  destruct S as [Eg A]. split; [assumption|]. rewrite <- Eg. split; [apply (a_ai m A) | apply (a_ao m A)].
Qed.

Lemma s_crit : forall m, new_map sh g = MOk m ->
  forall u v,
  (In v (m_crit_outs m u) <-> edge g u v /\ ~ exists w, path g u w /\ path g w v) /\
  (In u (m_crit_ins m v) <-> edge g u v /\ ~ exists w, path g u w /\ path g w v).
Proof.
  intros m E u v. pose proof (new_map_spec sh O g W) as S. rewrite E in S.
  destruct S as [Eg A]. rewrite <- Eg. unfold m_crit_outs, m_crit_ins. split.
  - apply (crit_outs_spec (m_g m) (m_ao m) (a_ao m A) (a_acyclic m A)).
  - apply (crit_ins_spec (m_g m) (m_ao m) (a_ao m A) (a_acyclic m A)).
Qed.

Lemma s_push : forall m, new_map sh g = MOk m ->
  exists L, push_tight P m = POk L /\
    (forall u v, edge g u v -> lget L u < lget L v) /\
    (forall v, In v (keys g) -> lget L v < m_nlayer m).
Proof.
  intros m E. pose proof (new_map_spec sh O g W) as S. rewrite E in S.
  destruct S as [Eg A]. destruct (push_tight_ok P m A) as [L [EL PI]].
  exists L. split; [assumption|]. rewrite <- Eg. split.
  - apply (pinv_edge m A L PI).
  - apply (p_bound m L PI).
Qed.

Lemma s_layout : forall m, new_map sh g = MOk m ->
  exists v, layout_map P m = VwOk v /\
    v_width v = m_nlayer m /\
    map fst (v_nodes v) = keys g /\
    (forall k, In k (keys g) -> vx v k < v_width v /\ (0 <= vy v k < v_height v)%Z) /\
    (forall a b, In a (keys g) -> In b (keys g) -> a <> b -> (vx v a, vy v a) <> (vx v b, vy v b)) /\
    (forall u w, edge g u w -> vx v u < vx v w).
Proof.
  intros m E. pose proof (new_map_spec sh O g W) as S. rewrite E in S.
  destruct S as [Eg A]. rewrite <- Eg. apply layout_map_ok; assumption.
Qed.

Lemma s_reverse_twice :
  (forall u, adj (rev_graph sh (rev_graph sh g)) u = sort_names (adj g u)) /\
  (forall k, In k (keys (rev_graph sh (rev_graph sh g))) <-> In k (keys g) \/ exists u, edge g u k) /\
  wf (rev_graph sh (rev_graph sh g)).
Proof.
  split; [apply (rev_rev_edges sh O g W)|]. split; [apply (rev_rev_keys sh O g W)|].
  destruct (rev_graph_spec sh O g W) as [_ [_ C]].
  destruct (rev_graph_spec sh O _ C) as [_ [_ C']]. assumption.
Qed.

Lemma s_reverse_edges : forall u v,
  count_occ N.eq_dec (adj (rev_graph sh g) v) u = count_occ N.eq_dec (adj g u) v.
Proof. destruct (rev_graph_spec sh O g W) as [A _]. exact A. Qed.

End S.

(** The iteration order does not influence the verdict class nor the length
    of the reported cycle. *)
Lemma s_order_irrelevant : forall sh1 sh2 g, perm_oracle sh1 -> perm_oracle sh2 -> wf g ->
  match check_dag sh1 g, check_dag sh2 g with
  | VOk _, VOk _ => True
  | VMissing, VMissing => True
  | VCircle c1, VCircle c2 => length c1 = length c2
  | _, _ => False
  end.
Proof.
  intros sh1 sh2 g O1 O2 W.
  pose proof (check_dag_spec sh1 O1 g W) as S1. pose proof (check_dag_spec sh2 O2 g W) as S2.
  destruct (check_dag sh1 g) as [l1| |c1| |], (check_dag sh2 g) as [l2| |c2| |]; try tauto.
  - destruct S1 as [_ [A _]], S2 as [_ [C _]]. destruct c2 as [|a r]; [contradiction|].
    apply (A a). eapply closed_walk_path; eauto. left; reflexivity.
  - destruct S2 as [_ [A _]], S1 as [_ [C _]]. destruct c1 as [|a r]; [contradiction|].
    apply (A a). eapply closed_walk_path; eauto. left; reflexivity.
  - destruct S1 as [_ [A1 B1]], S2 as [_ [A2 B2]].
    apply Nat.le_antisymm; [apply B1 | apply B2]; assumption.
Qed.

(** ... nor the layers. *)
Lemma s_layers_unique : forall sh1 sh2 g, perm_oracle sh1 -> perm_oracle sh2 -> wf g ->
  forall l1 l2, check_dag sh1 g = VOk l1 -> check_dag sh2 g = VOk l2 ->
  length l1 = length l2 /\ forall i v, In v (nth i l1 []) <-> In v (nth i l2 []).
Proof.
  intros sh1 sh2 g O1 O2 W l1 l2 E1 E2.
  pose proof (check_dag_spec sh1 O1 g W) as S1. pose proof (check_dag_spec sh2 O2 g W) as S2.
  rewrite E1 in S1. rewrite E2 in S2.
  destruct S1 as [_ [_ [L1 _]]], S2 as [_ [_ [L2 _]]].
  eapply layered_unique; eauto.
Qed.

(** TopoSort / SortedNodes *)
Lemma s_topo : forall P, layer_first (p_by_layer P) = true ->
  forall sh, perm_oracle sh -> forall g, wf g ->
  forall m, new_map sh g = MOk m ->
  Permutation (sorted_nodes P m (m_lay0 m)) (keys g) /\
  forall l1 v l2 u, sorted_nodes P m (m_lay0 m) = l1 ++ v :: l2 -> edge g u v -> In u l1.
Proof.
  intros P LF sh O g W m E. pose proof (new_map_spec sh O g W) as S. rewrite E in S.
  destruct S as [Eg A]. rewrite <- Eg. apply (sorted_nodes_topological P LF m A).
Qed.
