(** LayoutMap: slot reservation gives distinct coordinates inside the
    reported width and height, and every edge goes strictly left to right. *)
From Coq Require Import List NArith ZArith Bool Arith Lia Permutation.
From Verif Require Import Dag.Model Dag.Facts Dag.KahnProofs Dag.ClosureProofs Dag.PushProofs.
Import ListNotations.

(** * slots *)

Lemma zmem_In : forall y l, zmem y l = true <-> In y l.
Proof.
  induction l as [|z r IH]; simpl; [split; [discriminate | tauto]|].
  destruct (Z.eqb_spec y z); [subst; tauto|]. rewrite IH. split; [tauto | intros [?|?]; [congruence | assumption]].
Qed.

Lemma zmem_false : forall y l, zmem y l = false <-> ~ In y l.
Proof. intros. rewrite <- zmem_In. destruct (zmem y l); split; congruence. Qed.

Lemma take_slot_length : forall slots i zs, length (take_slot slots i zs) = length slots.
Proof. induction slots as [|t r IH]; intros [|i] zs; simpl; auto. Qed.

Lemma take_slot_mono : forall slots i zs j y,
  In y (nth j slots []) -> In y (nth j (take_slot slots i zs) []).
Proof.
  induction slots as [|t r IH]; intros i zs j y H; [destruct i; exact H|].
  destruct i as [|i], j as [|j]; simpl in *; auto.
  apply in_app_iff. right. assumption.
Qed.

Lemma take_slot_in : forall slots i zs y, i < length slots -> In y zs ->
  In y (nth i (take_slot slots i zs) []).
Proof.
  induction slots as [|t r IH]; intros i zs y Hi Hy; simpl in Hi; [lia|].
  destruct i as [|i]; simpl.
  - apply in_app_iff. left. assumption.
  - apply IH; [lia | assumption].
Qed.

Lemma take_slot_other : forall slots i zs j, j <> i -> nth j (take_slot slots i zs) [] = nth j slots [].
Proof.
  induction slots as [|t r IH]; intros i zs j H; [destruct i; reflexivity|].
  destruct i as [|i], j as [|j]; simpl; auto; lia.
Qed.

Lemma fold_take_mono : forall (is : list nat) zs slots j y,
  In y (nth j slots []) -> In y (nth j (fold_left (fun s i => take_slot s i zs) is slots) []).
Proof.
  induction is as [|i r IH]; intros zs slots j y H; simpl; [assumption|].
  apply IH. apply take_slot_mono. assumption.
Qed.

Lemma fold_take_length : forall (is : list nat) zs slots,
  length (fold_left (fun s i => take_slot s i zs) is slots) = length slots.
Proof.
  induction is as [|i r IH]; intros zs slots; simpl; [reflexivity|].
  rewrite IH. apply take_slot_length.
Qed.

(** * findY / snapNearBy *)

Lemma find_y_free : forall fuel tak yavg off y,
  find_y fuel tak yavg off = Some y -> zmem y tak = false.
Proof.
  induction fuel as [|f IH]; intros tak yavg off y H; simpl in H; [discriminate|].
  destruct (zmem (yavg + off) tak) eqn:E1; simpl in H; [|inversion H; subst; assumption].
  destruct (zmem (yavg - off) tak) eqn:E2; simpl in H; [|inversion H; subst; assumption].
  eapply IH; eauto.
Qed.

Lemma find_y_none : forall fuel tak yavg off,
  find_y fuel tak yavg off = None ->
  forall i, i < fuel -> zmem (yavg + off + Z.of_nat i) tak = true.
Proof.
  induction fuel as [|f IH]; intros tak yavg off H i Hi; [lia|].
  simpl in H.
  destruct (zmem (yavg + off) tak) eqn:E1; simpl in H; [|discriminate].
  destruct (zmem (yavg - off) tak) eqn:E2; simpl in H; [|discriminate].
  destruct i as [|i].
  - simpl. rewrite Z.add_0_r. assumption.
  - specialize (IH _ _ _ H i ltac:(lia)).
    replace (yavg + off + Z.of_nat (S i))%Z with (yavg + (off + 1) + Z.of_nat i)%Z by lia. assumption.
Qed.

Lemma find_y_total : forall tak yavg off, find_y (S (length tak)) tak yavg off <> None.
Proof.
  intros tak yavg off H.
  pose proof (find_y_none _ _ _ _ H) as F.
  set (l := map (fun i => (yavg + off + Z.of_nat i)%Z) (seq 0 (S (length tak)))).
  assert (Nl : NoDup l).
  { unfold l. apply FinFun.Injective_map_NoDup; [|apply seq_NoDup].
    intros a b E. lia. }
  assert (Il : incl l tak).
  { intros y Hy. unfold l in Hy. apply in_map_iff in Hy. destruct Hy as [i [<- Hi]].
    apply in_seq in Hi. apply zmem_In. apply F. lia. }
  pose proof (NoDup_incl_length Nl Il) as Len. unfold l in Len.
  rewrite map_length, seq_length in Len. lia.
Qed.

Lemma snap_rules_free : forall rs tak y, snap_ok rs = true -> zmem y tak = false ->
  zmem (snap_rules tak y rs) tak = false.
Proof.
  induction rs as [|r rest IH]; intros tak y Hok Hy; simpl; [assumption|].
  simpl in Hok. apply andb_true_iff in Hok. destruct Hok as [Hr Hrest].
  destruct (rule_holds tak y r) eqn:Eh; [|apply IH; assumption].
  apply existsb_exists in Hr. destruct Hr as [[off want] [Hin Hc]]. simpl in Hc.
  apply andb_true_iff in Hc. destruct Hc as [Hoff Hw].
  apply Z.eqb_eq in Hoff. apply negb_true_iff in Hw. subst.
  unfold rule_holds in Eh. rewrite forallb_forall in Eh. specialize (Eh _ Hin). simpl in Eh.
  destruct (zmem (y + sn_move r) tak); [discriminate | reflexivity].
Qed.

(** * concat of disjoint buckets *)

Lemma NoDup_concat_map : forall (f : nat -> list name) (l : list nat),
  NoDup l -> (forall i, NoDup (f i)) ->
  (forall i j v, In v (f i) -> In v (f j) -> i = j) ->
  NoDup (concat (map f l)).
Proof.
  intros f. induction l as [|a r IH]; intros Hn Hf Hd; simpl; [constructor|].
  inversion Hn; subst. apply NoDup_app_iff. split; [apply Hf|]. split; [apply IH; assumption|].
  intros x Hx Hc. apply in_concat in Hc. destruct Hc as [lx [K1 K2]].
  apply in_map_iff in K1. destruct K1 as [j [<- Hj]].
  assert (a = j) by (eapply Hd; eauto). subst. contradiction.
Qed.

Section Layout.
Variable P : lparams.
Hypothesis POK : params_ok P = true.
Variable m : dmap.
Hypothesis Acc : accepted m.
Let g := m_g m.
Let nl := m_nlayer m.

Variable L : lays.
Hypothesis PI : pinv m L.

Lemma sorted_layers_some : exists sl, sorted_layers P m L = Some sl /\
  NoDup (concat sl) /\ (forall v, In v (concat sl) <-> In v (keys g)).
Proof.
  unfold sorted_layers. fold g. fold nl.
  assert (Hb : forallb (fun v => Nat.ltb (lget L v) nl) (keys g) = true).
  { apply forallb_forall. intros v Hv. apply Nat.ltb_lt. apply (p_bound m L PI). assumption. }
  rewrite Hb. eexists. split; [reflexivity|]. split.
  - apply NoDup_concat_map.
    + apply seq_NoDup.
    + intros i. apply NoDup_sort_by. apply NoDup_filter. apply (a_wf m Acc).
    + intros i j v Hi Hj. apply In_sort_by in Hi. apply In_sort_by in Hj.
      apply filter_In in Hi. apply filter_In in Hj.
      destruct Hi as [_ Hi]. destruct Hj as [_ Hj].
      apply Nat.eqb_eq in Hi. apply Nat.eqb_eq in Hj. congruence.
  - intros v. rewrite in_concat. split.
    + intros [l [H1 H2]]. apply in_map_iff in H1. destruct H1 as [i [<- _]].
      apply In_sort_by in H2. apply filter_In in H2. tauto.
    + intros Hv. exists (sort_by (by_ncrit_lt P m L) (filter (fun v0 => Nat.eqb (lget L v0) (lget L v)) (keys g))).
      split.
      * apply in_map_iff. exists (lget L v). split; [reflexivity|]. apply in_seq.
        pose proof (p_bound m L PI v Hv). fold nl in H. lia.
      * apply In_sort_by. apply filter_In. split; [assumption | apply Nat.eqb_refl].
Qed.

(** * placing *)

Record linv (placed : list name) (st : lstate) : Prop := {
  li_len : length (l_slots st) = nl;
  li_taken : forall a, In a placed -> In (yget (l_y st) a) (nth (lget L a) (l_slots st) []);
  li_ymin : forall a, In a placed -> (l_ymin st <= yget (l_y st) a)%Z;
  li_ymin0 : (l_ymin st <= 0)%Z;
  li_distinct : forall a b, In a placed -> In b placed -> a <> b -> lget L a = lget L b ->
                yget (l_y st) a <> yget (l_y st) b;
}.

Lemma place_step : forall placed st n, linv placed st -> ~ In n placed -> In n (keys g) ->
  exists st', place P m L st n = LOk st' /\ linv (n :: placed) st'.
Proof.
  intros placed st n [I1 I2 I3 I4 I5] Hn Kn. unfold place.
  set (x := lget L n). set (tak := nth x (l_slots st) []).
  assert (Hx : x < length (l_slots st)).
  { rewrite I1. apply (p_bound m L PI). assumption. }
  destruct (find_y (S (length tak)) tak (avg_crit_in_y m (l_y st) n) 0) as [y0|] eqn:Ef.
  2:{ exfalso. revert Ef. apply find_y_total. }
  assert (Hsnap : snap_ok (p_snap P) = true /\ reserve_ok (p_reserve P) = true).
  { unfold params_ok in POK. rewrite !andb_true_iff in POK. tauto. }
  destruct Hsnap as [Hsnap Hres].
  apply find_y_free in Ef. apply (snap_rules_free (p_snap P) _ _ Hsnap) in Ef.
  fold (snap_near_by P tak y0) in Ef.
  set (y := snap_near_by P tak y0) in *.
  assert (Hy : In y (map (fun o => (y + o)%Z) (p_reserve P))).
  { unfold reserve_ok in Hres. apply existsb_exists in Hres. destruct Hres as [o [Ho Eo]].
    apply Z.eqb_eq in Eo. subst o. apply in_map_iff. exists 0%Z. split; [lia | assumption]. }
  apply zmem_false in Ef.
  eexists. split; [reflexivity|].
  set (slots1 := take_slot (l_slots st) x (map (fun o => (y + o)%Z) (p_reserve P))).
  assert (Yn : forall a, yget (aset (l_y st) n y) a = if N.eqb a n then y else yget (l_y st) a).
  { intros a. unfold yget. apply aget_aset. }
  assert (Mono : forall j z, In z (nth j (l_slots st) []) ->
            In z (nth j (fold_left (fun s i => take_slot s i [y])
                           (seq (S x) (crit_out_max_layer m L n - S x)) slots1) [])).
  { intros j z Hz. apply fold_take_mono. unfold slots1. apply take_slot_mono. assumption. }
  constructor; simpl.
  - rewrite fold_take_length. unfold slots1. rewrite take_slot_length. assumption.
  - intros a [<-|Ha].
    + rewrite Yn, N.eqb_refl. apply fold_take_mono. unfold slots1. fold x.
      apply take_slot_in; assumption.
    + rewrite Yn. destruct (N.eqb_spec a n); [subst; contradiction|]. apply Mono. apply I2. assumption.
  - intros a [<-|Ha]; rewrite Yn.
    + rewrite N.eqb_refl. destruct (Z.ltb_spec y (l_ymin st)); lia.
    + destruct (N.eqb_spec a n); [subst; contradiction|].
      specialize (I3 a Ha). destruct (Z.ltb_spec y (l_ymin st)); lia.
  - destruct (Z.ltb_spec y (l_ymin st)); lia.
  - intros a b Ha Hb Hab Hl. rewrite !Yn.
    destruct Ha as [<-|Ha], Hb as [<-|Hb].
    + congruence.
    + rewrite N.eqb_refl. destruct (N.eqb_spec b n); [subst; contradiction|].
      intros E. apply Ef. unfold tak, x. rewrite Hl, E. apply I2. assumption.
    + rewrite N.eqb_refl. destruct (N.eqb_spec a n); [subst; contradiction|].
      intros E. apply Ef. unfold tak, x. rewrite <- Hl, <- E. apply I2. assumption.
    + destruct (N.eqb_spec a n); [subst; contradiction|].
      destruct (N.eqb_spec b n); [subst; contradiction|]. apply I5; assumption.
Qed.

Lemma place_all_ok : forall nodes placed st, linv placed st -> NoDup nodes ->
  (forall n, In n nodes -> ~ In n placed /\ In n (keys g)) ->
  exists st', place_all P m L st nodes = LOk st' /\
              linv (rev nodes ++ placed) st'.
Proof.
  induction nodes as [|n r IH]; intros placed st I Hn Hk; simpl.
  - exists st. auto.
  - inversion Hn; subst. destruct (Hk n (or_introl eq_refl)) as [K1 K2].
    destruct (place_step placed st n I K1 K2) as [st1 [E1 I1]]. rewrite E1.
    destruct (IH (n :: placed) st1 I1 H2) as [st' [E' I']].
    + intros x Hx. destruct (Hk x (or_intror Hx)) as [K3 K4]. split; [|assumption].
      intros [<-|Hp]; contradiction.
    + exists st'. split; [assumption|]. rewrite <- app_assoc. simpl. assumption.
Qed.

Lemma linv_init : linv [] (mkL (repeat [] nl) [] 0%Z).
Proof.
  constructor; simpl.
  - apply repeat_length.
  - intros a [].
  - intros a [].
  - lia.
  - intros a b [].
Qed.

End Layout.

(** * the view *)

Definition vx (v : view) (k : name) : nat := fst (aget (0, 0%Z) (v_nodes v) k).
Definition vy (v : view) (k : name) : Z := snd (aget (0, 0%Z) (v_nodes v) k).

Lemma fold_max_ge : forall (l : list (name * (nat * Z))) a0,
  let mx := fold_left (fun a e => if Z.ltb a (snd (snd e)) then snd (snd e) else a) l a0 in
  (a0 <= mx)%Z /\ forall e, In e l -> (snd (snd e) <= mx)%Z.
Proof.
  induction l as [|e r IH]; intros a0; simpl.
  - split; [lia | intros e []].
  - destruct (IH (if Z.ltb a0 (snd (snd e)) then snd (snd e) else a0)) as [A B].
    destruct (Z.ltb_spec a0 (snd (snd e))); split; try lia.
    + intros e' [<-|He']; [lia | apply B; assumption].
    + intros e' [<-|He']; [lia | apply B; assumption].
Qed.

Section View.
Variable P : lparams.
Hypothesis POK : params_ok P = true.
Variable m : dmap.
Hypothesis Acc : accepted m.
Let g := m_g m.

Theorem layout_map_ok :
  exists v, layout_map P m = VwOk v /\
    v_width v = m_nlayer m /\
    map fst (v_nodes v) = keys g /\
    (forall k, In k (keys g) -> vx v k < v_width v /\ (0 <= vy v k < v_height v)%Z) /\
    (forall a b, In a (keys g) -> In b (keys g) -> a <> b -> (vx v a, vy v a) <> (vx v b, vy v b)) /\
    (forall u w, edge g u w -> vx v u < vx v w).
Proof.
  unfold layout_map.
  destruct (push_tight_ok P m Acc) as [L [EL PI]]. rewrite EL.
  destruct (sorted_layers_some P m Acc L PI) as [sl [Es [Ns Is]]]. rewrite Es.
  destruct (place_all_ok P POK m L PI (concat sl) [] _ (linv_init m L) Ns) as [st [Ep I]].
  { intros n Hn. split; [tauto | apply Is; assumption]. }
  rewrite Ep. rewrite app_nil_r in I.
  eexists. split; [reflexivity|].
  set (ymin := l_ymin st).
  set (nodes := map (fun k => (k, (lget L k, (yget (l_y st) k - ymin)%Z))) (keys (m_g m))).
  set (ymax := fold_left (fun a e => if Z.ltb a (snd (snd e)) then snd (snd e) else a) nodes 0%Z).
  assert (Placed : forall k, In k (keys g) -> In k (rev (concat sl))).
  { intros k Hk. apply -> in_rev. apply Is. assumption. }
  assert (Get : forall k, In k (keys g) ->
            aget (0, 0%Z) nodes k = (lget L k, (yget (l_y st) k - ymin)%Z)).
  { intros k Hk. unfold nodes.
    apply (aget_map_const (0, 0%Z) (fun k => (lget L k, (yget (l_y st) k - ymin)%Z))). assumption. }
  simpl. split; [reflexivity|]. split.
  { unfold nodes. rewrite map_map. simpl. apply map_id. }
  split; [|split].
  - intros k Hk. unfold vx, vy. simpl. fold nodes. rewrite (Get k Hk). simpl. split.
    + apply (p_bound m L PI). assumption.
    + pose proof (li_ymin m L _ _ I k (Placed k Hk)). fold ymin in H.
      destruct (fold_max_ge nodes 0%Z) as [_ B]. fold ymax in B.
      assert (He : In (k, (lget L k, (yget (l_y st) k - ymin)%Z)) nodes).
      { unfold nodes. apply in_map_iff. exists k. auto. }
      specialize (B _ He). simpl in B. lia.
  - intros a b Ha Hb Hab. unfold vx, vy. simpl. fold nodes. rewrite (Get a Ha), (Get b Hb). simpl.
    intros E. inversion E.
    apply (li_distinct m L _ _ I a b (Placed a Ha) (Placed b Hb) Hab H0). lia.
  - intros u w E. unfold vx. simpl. fold nodes.
    rewrite (Get u), (Get w); simpl.
    + apply (pinv_edge m Acc L PI). assumption.
    + eapply (a_targets m Acc). eassumption.
    + eapply edge_key. eassumption.
Qed.

End View.
