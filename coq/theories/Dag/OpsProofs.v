(** Proofs about Dag/Ops.v: what Remove / SubGraph / Rename / Closure return,
    stated on edges, and that the checker's verdict carries over: a
    sub-graph of an accepted graph is accepted, so [Closure] never reaches its
    [panic(err)] for names that are nodes. *)
From Coq Require Import List NArith ZArith Bool Arith Lia Permutation.
From Verif Require Import Dag.Model Dag.Facts Dag.Ops Dag.Summary.
Import ListNotations.

(** * Entries filtered by key, lists transformed *)

Definition restrict (P : name -> bool) (F : list name -> list name) (g : graph) : graph :=
  map (fun e => (fst e, F (snd e))) (filter (fun e => P (fst e)) g).

Lemma keys_restrict P F g : keys (restrict P F g) = filter P (keys g).
Proof.
  unfold restrict, keys. induction g as [|[k l] r IH]; simpl; [reflexivity|].
  destruct (P k); simpl; rewrite IH; reflexivity.
Qed.

Lemma adj_restrict P F g u :
  F [] = [] -> adj (restrict P F g) u = if P u then F (adj g u) else [].
Proof.
  intros HF. unfold restrict. induction g as [|[k l] r IH]; simpl.
  - destruct (P u); [symmetry; exact HF | reflexivity].
  - destruct (P k) eqn:Pk; simpl.
    + destruct (N.eqb_spec u k); [subst; rewrite Pk; reflexivity | exact IH].
    + destruct (N.eqb_spec u k); [subst; rewrite IH, Pk; reflexivity | exact IH].
Qed.

Lemma wf_restrict P F g : wf g -> wf (restrict P F g).
Proof. unfold wf. rewrite keys_restrict. apply NoDup_filter. Qed.

Lemma g_remove_restrict g x :
  g_remove g x = restrict (fun k => negb (N.eqb k x)) (filter (fun v => negb (N.eqb v x))) g.
Proof. reflexivity. Qed.

Lemma g_subgraph_restrict f g :
  g_subgraph f g = restrict f (filter (sub_hit f g)) g.
Proof. reflexivity. Qed.

(** * Remove *)

Lemma remove_keys g x : keys (g_remove g x) = filter (fun k => negb (N.eqb k x)) (keys g).
Proof. rewrite g_remove_restrict. apply keys_restrict. Qed.

Lemma remove_wf g x : wf g -> wf (g_remove g x).
Proof. rewrite g_remove_restrict. apply wf_restrict. Qed.

Lemma remove_edge g x u v :
  edge (g_remove g x) u v <-> u <> x /\ v <> x /\ edge g u v.
Proof.
  unfold edge. rewrite g_remove_restrict, adj_restrict by reflexivity.
  destruct (N.eqb_spec u x); simpl.
  - split; [intros [] | intros [H _]; contradiction].
  - rewrite filter_In. destruct (N.eqb_spec v x); simpl; split; try tauto.
    intros [_ H]. discriminate.
Qed.

(** * SubGraph *)

Lemma subgraph_keys f g : keys (g_subgraph f g) = filter f (keys g).
Proof. rewrite g_subgraph_restrict. apply keys_restrict. Qed.

Lemma subgraph_wf f g : wf g -> wf (g_subgraph f g).
Proof. rewrite g_subgraph_restrict. apply wf_restrict. Qed.

Lemma subgraph_edge f g u v :
  edge (g_subgraph f g) u v <-> f u = true /\ In v (keys g) /\ f v = true /\ edge g u v.
Proof.
  unfold edge. rewrite g_subgraph_restrict, adj_restrict by reflexivity.
  destruct (f u); simpl.
  - rewrite filter_In. unfold sub_hit. rewrite andb_true_iff, is_key_In. tauto.
  - split; [intros [] | intros [H _]; discriminate].
Qed.

(** The result of SubGraph never has a dangling target, whatever the input. *)
Lemma subgraph_targets_exist f g : targets_exist (g_subgraph f g).
Proof.
  intros u v H. apply subgraph_edge in H. destruct H as [_ [Hk [Hf _]]].
  rewrite subgraph_keys. apply filter_In. split; assumption.
Qed.

(** * Verdicts carry over to sub-graphs *)

Lemma path_mono g g' :
  (forall u v, edge g' u v -> edge g u v) -> forall u v, path g' u v -> path g u v.
Proof.
  intros H u v p. induction p as [u v e | u w v e p IH].
  - apply path1. apply H. exact e.
  - eapply pathS; [apply H; exact e | exact IH].
Qed.

Lemma acyclic_mono g g' :
  (forall u v, edge g' u v -> edge g u v) -> acyclic g -> acyclic g'.
Proof. intros H A u p. apply (A u). eapply path_mono; eauto. Qed.

Lemma subgraph_acyclic f g : acyclic g -> acyclic (g_subgraph f g).
Proof. apply acyclic_mono. intros u v H. apply subgraph_edge in H. tauto. Qed.

Lemma remove_acyclic g x : acyclic g -> acyclic (g_remove g x).
Proof. apply acyclic_mono. intros u v H. apply remove_edge in H. tauto. Qed.

Lemma remove_targets_exist g x : targets_exist g -> targets_exist (g_remove g x).
Proof.
  intros T u v H. apply remove_edge in H. destruct H as [_ [Hv He]].
  rewrite remove_keys. apply filter_In. split; [apply (T u v He)|].
  destruct (N.eqb_spec v x); [contradiction | reflexivity].
Qed.

Section Verdict.
  Variable sh : N -> list name -> list name.
  Hypothesis O : perm_oracle sh.

  (** CheckDAG accepts every SubGraph of a graph without cycles - dangling
      targets of the input do not matter, SubGraph drops them. *)
  Theorem subgraph_accepted f g :
    wf g -> acyclic g -> exists ls, check_dag sh (g_subgraph f g) = VOk ls.
  Proof.
    intros W A. apply (s_check_iff sh O _ (subgraph_wf f g W)).
    split; [apply subgraph_targets_exist | apply subgraph_acyclic; exact A].
  Qed.

  (** CheckDAG accepts every Remove of an accepted graph. *)
  Theorem remove_accepted g x :
    wf g -> (exists ls, check_dag sh g = VOk ls) -> exists ls, check_dag sh (g_remove g x) = VOk ls.
  Proof.
    intros W H. apply (s_check_iff sh O g W) in H. destruct H as [T A].
    apply (s_check_iff sh O _ (remove_wf g x W)).
    split; [apply remove_targets_exist; exact T | apply remove_acyclic; exact A].
  Qed.

  (** Removing a node can only cure a graph: a cycle of the result is a
      cycle of the input. *)
  Theorem remove_circle g x c :
    wf g -> check_dag sh (g_remove g x) = VCircle c -> ~ acyclic g.
  Proof.
    intros W E A.
    assert (H : exists c, check_dag sh (g_remove g x) = VCircle c) by eauto.
    apply (s_circle_iff sh O _ (remove_wf g x W)) in H. destruct H as [_ H].
    apply H. apply remove_acyclic. exact A.
  Qed.
End Verdict.

(** * Rename *)

Lemma rename_ok_keys rn err g g' :
  g_rename rn err g = RnOk g' -> keys g' = map rn (keys g).
Proof.
  unfold g_rename. destruct (existsb err (keys g)); [discriminate|].
  destruct (forallb _ g); [|discriminate]. intros [= <-].
  unfold keys. rewrite !map_map. reflexivity.
Qed.

(** An error from the callback - with or without a name next to it - ends
    the call before anything is built. *)
Lemma rename_callback_error rn err g k :
  In k (keys g) -> err k = true -> g_rename rn err g = RnErrF.
Proof.
  intros Hk He. unfold g_rename.
  assert (H : existsb err (keys g) = true) by (apply existsb_exists; eauto).
  rewrite H. reflexivity.
Qed.

Lemma rename_missing_iff rn err g :
  wf g -> (forall k, In k (keys g) -> err k = false) ->
  (g_rename rn err g = RnMissing <-> ~ targets_exist g).
Proof.
  intros W He. unfold g_rename.
  assert (H : existsb err (keys g) = false).
  { destruct (existsb err (keys g)) eqn:E; [|reflexivity].
    apply existsb_exists in E. destruct E as [k [Hk Ek]]. rewrite (He k Hk) in Ek. discriminate. }
  rewrite H. pose proof (targets_ok_spec g W) as T. unfold targets_ok in T.
  destruct (forallb (fun e => forallb (is_key g) (snd e)) g).
  - split; [discriminate | intros N; exfalso; apply N; apply T; reflexivity].
  - split; [intros _ N; apply T in N; discriminate | reflexivity].
Qed.

(** With an injective callback the edges are exactly the images of the edges. *)
Lemma adj_rename_inj rn (g : graph) u :
  (forall a b, In a (keys g) -> In b (keys g) -> rn a = rn b -> a = b) ->
  In u (keys g) ->
  adj (map (fun e => (rn (fst e), sort_names (map rn (snd e)))) g) (rn u)
  = sort_names (map rn (adj g u)).
Proof.
  induction g as [|[k l] r IH]; simpl; intros Inj Hu; [contradiction|].
  destruct (N.eqb_spec u k).
  - subst. rewrite N.eqb_refl. reflexivity.
  - destruct (N.eqb_spec (rn u) (rn k)) as [E|E].
    + exfalso. apply n. apply Inj; [assumption | left; reflexivity | exact E].
    + apply IH.
      * intros a b Ha Hb. apply Inj; right; assumption.
      * destruct Hu; [congruence | assumption].
Qed.

Theorem rename_edge_inj rn err g g' u v :
  wf g -> g_rename rn err g = RnOk g' ->
  (forall a b, In a (keys g) -> In b (keys g) -> rn a = rn b -> a = b) ->
  In u (keys g) -> In v (keys g) ->
  (edge g' (rn u) (rn v) <-> edge g u v).
Proof.
  intros W E Inj Hu Hv. unfold g_rename in E.
  destruct (existsb err (keys g)); [discriminate|].
  destruct (forallb (fun e => forallb (is_key g) (snd e)) g) eqn:T; [|discriminate].
  injection E as <-. unfold edge. rewrite (adj_rename_inj rn g u Inj Hu).
  unfold sort_names. rewrite In_sort_by, in_map_iff.
  assert (TE : targets_exist g) by (apply (targets_ok_spec g W); exact T).
  split.
  - intros [w [Ew Hw]]. assert (w = v); [|subst; exact Hw].
    apply Inj; [apply (TE u w Hw) | exact Hv | exact Ew].
  - intros H. exists v. split; [reflexivity | exact H].
Qed.

(** * Closure *)

Lemma adj_tabulate (h : name -> list name) S u :
  adj (map (fun k => (k, h k)) S) u = if memb u S then h u else [].
Proof.
  induction S as [|k r IH]; simpl; [reflexivity|].
  destruct (N.eqb_spec u k); [subst; reflexivity | exact IH].
Qed.

Lemma closure_graph_keys m nodes : keys (closure_graph m nodes) = closure_set m nodes.
Proof. unfold closure_graph, keys. rewrite map_map. simpl. apply map_id. Qed.

Lemma closure_graph_edge m nodes u v :
  edge (closure_graph m nodes) u v <->
  In u (closure_set m nodes) /\ In v (closure_set m nodes) /\ edge (m_g m) u v.
Proof.
  unfold edge, closure_graph. rewrite adj_tabulate.
  destruct (memb u (closure_set m nodes)) eqn:E.
  - apply memb_In in E. rewrite filter_In, memb_In, In_outs. unfold edge. tauto.
  - apply memb_false in E. split; [intros [] | tauto].
Qed.

Lemma In_flat_map_sget s nodes x :
  In x (flat_map (sget s) nodes) <-> exists a, In a nodes /\ In x (sget s a).
Proof. apply in_flat_map. Qed.

Section Closure.
  Variable sh : N -> list name -> list name.
  Hypothesis O : perm_oracle sh.
  Variable g : graph.
  Hypothesis W : wf g.
  Variable m : dmap.
  Hypothesis E : new_map sh g = MOk m.

  (** The node set: the given nodes and everything strictly between two of
      them (an ancestor of one and a descendant of one). *)
  Theorem closure_set_spec nodes v :
    In v (closure_set m nodes) <->
    In v (keys g) /\
    (In v nodes \/ ((exists a, In a nodes /\ path g v a) /\ (exists b, In b nodes /\ path g b v))).
  Proof.
    destruct (s_closure sh O g W m E) as [Eg [Hai Hao]].
    unfold closure_set. rewrite filter_In, Eg, orb_true_iff, andb_true_iff, !memb_In, !In_flat_map_sget.
    split; intros [Hk H]; (split; [exact Hk|]).
    - destruct H as [H|[[a [Ha Hx]] [b [Hb Hy]]]]; [left; exact H | right].
      split; [exists a; split; [exact Ha | apply Hai; exact Hx]
             | exists b; split; [exact Hb | apply Hao; exact Hy]].
    - destruct H as [H|[[a [Ha Hx]] [b [Hb Hy]]]]; [left; exact H | right].
      split; [exists a; split; [exact Ha | apply Hai; exact Hx]
             | exists b; split; [exact Hb | apply Hao; exact Hy]].
  Qed.

  Lemma new_map_accepted : targets_exist g /\ acyclic g.
  Proof.
    apply (s_check_iff sh O g W). unfold new_map in E.
    destruct (check_dag sh g) as [ls| |c| |]; try discriminate. eauto.
  Qed.

  (** For names that are nodes, Closure returns a map: the [panic(err)]
      after its NewMap is unreachable. *)
  Theorem closure_never_panics nodes :
    forallb (is_key g) nodes = true ->
    exists m', closure sh m nodes = Some (MOk m') /\ m_g m' = closure_graph m nodes.
  Proof.
    intros Hn. destruct (s_closure sh O g W m E) as [Eg _].
    destruct new_map_accepted as [T A].
    unfold closure. rewrite Eg, Hn.
    assert (Wc : wf (closure_graph m nodes)).
    { unfold wf. rewrite closure_graph_keys. unfold closure_set. apply NoDup_filter. rewrite Eg. exact W. }
    assert (Hc : exists ls, check_dag sh (closure_graph m nodes) = VOk ls).
    { apply (s_check_iff sh O _ Wc). split.
      - intros u v H. apply closure_graph_edge in H. rewrite closure_graph_keys. tauto.
      - eapply acyclic_mono; [|exact A]. intros u v H. apply closure_graph_edge in H.
        rewrite Eg in H. tauto. }
    destruct Hc as [ls Hls]. unfold new_map. rewrite Hls.
    destruct (build_alls sh (closure_graph m nodes) ls) as [ai ao].
    eexists. split; reflexivity.
  Qed.

  Theorem closure_unknown_name_panics nodes :
    forallb (is_key g) nodes = false -> closure sh m nodes = None.
  Proof.
    intros Hn. destruct (s_closure sh O g W m E) as [Eg _].
    unfold closure. rewrite Eg, Hn. reflexivity.
  Qed.
End Closure.

(** * Reverse has no hidden state (seeded change C19-i) *)

(** Whatever the caller did to the graph before - edits, earlier Reverse
    calls - every [Reverse] answers the reverse of the graph's content at
    that moment. *)
Theorem reverse_of_current_content sh : forall ops g,
  run_gops sh g (ops ++ [GReverse]) =
  run_gops sh g ops ++ [rev_graph sh (fold_left (fun g o => match o with GEdit f => f g | GReverse => g end) ops g)].
Proof.
  induction ops as [|o r IH]; intros g; [reflexivity|].
  destruct o as [f|]; cbn [app run_gops fold_left]; [apply IH|]. rewrite IH. reflexivity.
Qed.

(** earlier Reverse calls change nothing for later ones *)
Theorem reverse_calls_do_not_matter sh : forall ops g,
  run_gops sh g (GReverse :: ops) = rev_graph sh g :: run_gops sh g ops.
Proof. reflexivity. Qed.

(** A cached reverse is refuted: a -> b, Reverse, then the caller adds the
    edge b -> a ... here: replaces the content by b -> a; the second Reverse
    still answers the reverse of the OLD content. *)
Lemma cached_reverse_refuted :
  let g0 := [(0, [1]); (1, [])]%N in
  let edit := GEdit (fun _ => [(0, []); (1, [0])]%N) in
  run_gops_cached sh_id g0 None [GReverse; edit; GReverse] = [[(0, []); (1, [0])]; [(0, []); (1, [0])]]%N /\
  run_gops sh_id g0 [GReverse; edit; GReverse] = [[(0, []); (1, [0])]; [(0, [1]); (1, [])]]%N.
Proof. vm_compute. split; reflexivity. Qed.

(** * The checker's answer depends on the graph argument only (seeded change C19-j) *)

(** Two calls on the same graph - whatever differs between two runs of the
    model is the iteration oracle - give the same verdict class and the same
    cycle length, and a reported cycle is a closed walk of the caller's own
    graph: no other call, no earlier call, no package state enters. *)
Theorem answer_depends_on_graph_only : forall sh1 sh2 g,
  perm_oracle sh1 -> perm_oracle sh2 -> wf g ->
  match check_dag sh1 g, check_dag sh2 g with
  | VOk _, VOk _ => True
  | VMissing, VMissing => True
  | VCircle c1, VCircle c2 => length c1 = length c2 /\ closed_walk g c1 /\ closed_walk g c2
  | _, _ => False
  end.
Proof.
  intros sh1 sh2 g O1 O2 W.
  pose proof (s_order_irrelevant sh1 sh2 g O1 O2 W) as H.
  pose proof (s_circle sh1 O1 g W) as C1. pose proof (s_circle sh2 O2 g W) as C2.
  destruct (check_dag sh1 g) as [| |c1| |], (check_dag sh2 g) as [| |c2| |]; try exact H.
  split; [exact H|]. split; [apply (C1 c1 eq_refl) | apply (C2 c2 eq_refl)].
Qed.

(** A queue whose backing store is shared by two searches: the search of the
    ring 0 -> 1 -> 0 has queued [0; 1]; another search (ring 7 -> 8 -> 7)
    resets the store and queues [7; 8]; the first search now dequeues 7 - no
    node of its graph. *)
Lemma shared_queue_refuted :
  dequeue_shared [0; 1]%N [7; 8]%N 0 = Some 7%N /\
  ~ In 7%N (keys [(0, [1]); (1, [0])]%N) /\
  nth_error [0; 1]%N 0 = Some 0%N.
Proof.
  split; [reflexivity|]. split; [|reflexivity]. cbn. intros [H|[H|[]]]; discriminate.
Qed.
