(** The search of dags/circle.go as it was before the repair (commit 9ad6097):
    the visited set of a start was consulted but never extended, so the queue
    held one entry per walk instead of one per (start, node).  Kept to show,
    inside Coq, the defect the repair removes: on a 20-node graph the legacy
    search exhausts the budget of n + n^2 dequeues within which the repaired
    search is proved to finish on every graph (C19_check_total). *)
From Coq Require Import List NArith Bool Arith.
From Verif Require Import Dag.Model.
Import ListNotations.

Fixpoint scan_outs_legacy (start : name) (path : list name) (os : list name)
         (vs : list name) (new : list snode) : list snode :=
  match os with
  | [] => new
  | v :: r =>
      if memb v vs then scan_outs_legacy start path r vs new
      else if N.ltb v start then scan_outs_legacy start path r vs new
      else scan_outs_legacy start path r vs (new ++ [mkS start v (v :: path)])
  end.

Fixpoint search_legacy (g : graph) (fuel : nat) (vis : sets) (queue : list snode) : sres :=
  match queue with
  | [] => SNone
  | sn :: rest =>
      match fuel with
      | O => SFuel
      | S f =>
          let os := outs g (s_this sn) in
          if memb (s_start sn) os then SFound (rev (s_path sn))
          else search_legacy g f vis
                 (rest ++ scan_outs_legacy (s_start sn) (s_path sn) os (sget vis (s_start sn)) [])
      end
  end.

Definition min_circle_legacy (g : graph) (fuel : nat) : sres :=
  search_legacy g fuel (map (fun k => (k, [k])) (keys g)) (map (fun k => mkS k k [k]) (keys g)).

(** a complete DAG on nodes 0..k-1 next to a ring on k..2k+1 *)
Definition blow (k : nat) : graph :=
  map (fun i => (N.of_nat i, map N.of_nat (seq (S i) (k - S i)))) (seq 0 k) ++
  map (fun i => (N.of_nat (k + i), [N.of_nat (k + (S i) mod (k + 2))])) (seq 0 (k + 2)).

Local Open Scope N_scope.

(** same budget, same graph: the repaired search reports the ring ... *)
Example blow9_fixed :
  min_circle sh_id (blow 9) = SFound [9; 10; 11; 12; 13; 14; 15; 16; 17; 18; 19].
Proof. vm_compute. reflexivity. Qed.

(** ... the legacy search does not get there within n + n^2 dequeues ... *)
Example blow9_legacy_refuted : min_circle_legacy (blow 9) (circle_fuel (blow 9)) = SFuel.
Proof. vm_compute. reflexivity. Qed.

(** ... although it would eventually (it needs 2 067 dequeues for these 20
    nodes; the number doubles with every node added to the DAG part). *)
Example blow9_legacy_eventually :
  min_circle_legacy (blow 9) 2100 = SFound [9; 10; 11; 12; 13; 14; 15; 16; 17; 18; 19].
Proof. vm_compute. reflexivity. Qed.
