(** Round 3: the derived-graph entry points of shanhu.io/g/dags -
    graph.go [Remove], [SubGraph], [Rename] and closure.go [Closure].
    Definitions only; proofs in OpsProofs.v. *)
From Coq Require Import List NArith ZArith Bool Arith.
From Verif Require Import Dag.Model.
Import ListNotations.

(** [Graph.Remove(node)]: the node's entry and every occurrence of it in a
    list go; everything else (dangling names included) stays, in order. *)
Definition g_remove (g : graph) (x : name) : graph :=
  map (fun e => (fst e, filter (fun v => negb (N.eqb v x)) (snd e)))
      (filter (fun e => negb (N.eqb (fst e) x)) g).

(** [Graph.SubGraph(f)]: [hits] holds the KEYS that pass the filter; an
    entry survives if its key is a hit, a list element if it is a hit (so a
    name that is not a node never survives). *)
Definition sub_hit (f : name -> bool) (g : graph) (v : name) : bool := is_key g v && f v.
Definition g_subgraph (f : name -> bool) (g : graph) : graph :=
  map (fun e => (fst e, filter (sub_hit f g) (snd e))) (filter (fun e => f (fst e)) g).

(** [Graph.Rename(f)]: the callback is asked for every key first; any error
    ends the call with (nil, err) whatever else it returned.  Then every
    list is translated ("node missing in keys" for a name that is not a
    key) and sorted.  [rn] is the callback's answer per key. *)
Inductive rres := RnErrF | RnMissing | RnOk (g : graph).

Definition g_rename (rn : name -> name) (err : name -> bool) (g : graph) : rres :=
  if existsb err (keys g) then RnErrF
  else if forallb (fun e => forallb (is_key g) (snd e)) g then
    RnOk (map (fun e => (rn (fst e), sort_names (map rn (snd e)))) g)
  else RnMissing.

(** [Closure(m, nodes)]: the given nodes plus every node that is both an
    (indirect) input and an (indirect) output of given nodes; the induced
    graph on them goes through [NewMap] again.  A name that is not a node of
    the map is a panic. *)
Definition closure_set (m : dmap) (nodes : list name) : list name :=
  let ai := flat_map (sget (m_ai m)) nodes in
  let ao := flat_map (sget (m_ao m)) nodes in
  filter (fun k => memb k nodes || (memb k ai && memb k ao)) (keys (m_g m)).

Definition closure_graph (m : dmap) (nodes : list name) : graph :=
  let S := closure_set m nodes in
  map (fun k => (k, filter (fun v => memb v S) (outs (m_g m) k))) S.

Definition closure (sh : N -> list name -> list name) (m : dmap) (nodes : list name) : option mres :=
  if forallb (is_key (m_g m)) nodes then Some (new_map sh (closure_graph m nodes)) else None.
