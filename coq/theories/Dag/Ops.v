(** Round 3: the derived-graph entry points of shanhu.io/g/dags -
    graph.go [Remove], [SubGraph], [Rename] and closure.go [Closure].
    Definitions only; proofs in OpsProofs.v. *)
From Coq Require Import List NArith ZArith Bool Arith.
From Coq Require String.
From Verif Require Import Dag.Model.
Import ListNotations.

(** [Graph.Remove(node)]: the node's entry and every occurrence of it in a
    list go; everything else (dangling names included) stays, in order. *)
Definition g_remove (g : graph) (x : name) : graph :=
  map (fun e => (fst e, filter (fun v => negb (N.eqb v x)) (snd e)))
      (filter (fun e => negb (N.eqb (fst e) x)) g).

(** [Graph.SubGraph(f)]: [hits] holds the KEYS that pass the filter; an
    entry survives if its key is a hit, a list element if it is a hit (so a
    name that is not a node never survives). *)
Definition sub_hit (f : name -> bool) (g : graph) (v : name) : bool := is_key g v && f v.
Definition g_subgraph (f : name -> bool) (g : graph) : graph :=
  map (fun e => (fst e, filter (sub_hit f g) (snd e))) (filter (fun e => f (fst e)) g).

(** [Graph.Rename(f)]: the callback is asked for every key first; any error
    ends the call with (nil, err) whatever else it returned.  Then every
    list is translated ("node missing in keys" for a name that is not a
    key) and sorted.  [rn] is the callback's answer per key. *)
Inductive rres := RnErrF | RnMissing | RnOk (g : graph).

Definition g_rename (rn : name -> name) (err : name -> bool) (g : graph) : rres :=
  if existsb err (keys g) then RnErrF
  else if forallb (fun e => forallb (is_key g) (snd e)) g then
    RnOk (map (fun e => (rn (fst e), sort_names (map rn (snd e)))) g)
  else RnMissing.

(** [Closure(m, nodes)]: the given nodes plus every node that is both an
    (indirect) input and an (indirect) output of given nodes; the induced
    graph on them goes through [NewMap] again.  A name that is not a node of
    the map is a panic. *)
Definition closure_set (m : dmap) (nodes : list name) : list name :=
  let ai := flat_map (sget (m_ai m)) nodes in
  let ao := flat_map (sget (m_ao m)) nodes in
  filter (fun k => memb k nodes || (memb k ai && memb k ao)) (keys (m_g m)).

Definition closure_graph (m : dmap) (nodes : list name) : graph :=
  let S := closure_set m nodes in
  map (fun k => (k, filter (fun v => memb v S) (outs (m_g m) k))) S.

Definition closure (sh : N -> list name -> list name) (m : dmap) (nodes : list name) : option mres :=
  if forallb (is_key (m_g m)) nodes then Some (new_map sh (closure_graph m nodes)) else None.

(** * LayoutMap on a Map object that has been through other calls

    [LayoutMap(m)] reads the node sets of the Map's current orientation and
    the layer numbers the Map currently holds: the Kahn layers after NewMap,
    the pushed layers after an earlier LayoutMap, the mirrored ones after
    [Map.Reverse].  [layout_from P m L0] is LayoutMap started from the layer
    numbers [L0]; [layout_map P m = layout_from P m (m_lay0 m)]. *)
Definition layout_from (P : lparams) (m : dmap) (L0 : lays) : vres :=
  let nl := m_nlayer m in
  match push_all m L0 (rev (sorted_nodes P m L0)) with
  | PPanic => VwPanic
  | PFuel => VwFuel
  | POk L =>
      match sorted_layers P m L with
      | None => VwPanic
      | Some sl =>
          match place_all P m L (mkL (repeat [] nl) [] 0%Z) (concat sl) with
          | LFuel => VwFuel
          | LOk st =>
              let ymin := l_ymin st in
              let nodes := map (fun k => (k, (lget L k, (yget (l_y st) k - ymin)%Z)))
                               (keys (m_g m)) in
              let ymax := fold_left (fun a e => if Z.ltb a (snd (snd e)) then snd (snd e) else a)
                                    nodes 0%Z in
              VwOk (mkV nodes nl (ymax + 1)%Z)
          end
      end
  end.


(** [Map.Reverse] on the layer numbers *)
Definition mirror_lays (nl : nat) (L : lays) : lays := map (fun e => (fst e, nl - 1 - snd e)) L.


(** * The slot probe of layout.go [findY] as a skeleton (round 3, seeded change C19-g)

    [findY] looks for a free row around the average of the critical inputs:
    [offset := 0; for { if !tak[yavg+offset] { return yavg+offset };
    if !tak[yavg-offset] { return yavg-offset }; offset++ }].  Every row it
    hands out has just been tested against the per-layer taken map, and the
    loop has no other exit.  The translator re-reads exactly that: how the
    offset starts, whether the loop has an exit condition, the guarded
    returns of the body in order, the step, and every return that is NOT
    guarded by a test of the very row it returns. *)
Inductive fy_probe := FYPlus | FYMinus | FYOther (text : String.string).

Record fy_skel := mkFY {
  fy_init_zero : bool;
  fy_unbounded : bool;
  fy_probes : list fy_probe;
  fy_step : bool;
  fy_unchecked_returns : list String.string;
}.

Definition fy_probe_eqb (a b : fy_probe) : bool :=
  match a, b with FYPlus, FYPlus | FYMinus, FYMinus => true | _, _ => false end.

(** the skeleton [find_y] of Model.v follows *)
Definition fy_ok (s : fy_skel) : bool :=
  fy_init_zero s && fy_unbounded s && fy_step s &&
  match fy_probes s with
  | [a; b] => fy_probe_eqb a FYPlus && fy_probe_eqb b FYMinus
  | _ => false
  end &&
  match fy_unchecked_returns s with [] => true | _ => false end.

(** A probe that gives up after [bound] offsets and then hands out
    [yavg + bound] WITHOUT consulting the taken map (seeded change C19-g). *)
Fixpoint find_y_bounded (bound : nat) (tak : list Z) (yavg offset : Z) : Z :=
  match bound with
  | O => (yavg + offset)%Z
  | S b =>
      if negb (zmem (yavg + offset) tak) then (yavg + offset)%Z
      else if negb (zmem (yavg - offset) tak) then (yavg - offset)%Z
      else find_y_bounded b tak yavg (offset + 1)%Z
  end.

(** * Call sequences on ONE *Graph (round 3, seeded change C19-i)

    A [*Graph] is its [Nodes] map and nothing else: the caller may edit the
    map between calls, and [Reverse] is a function of the map's CURRENT
    content that hands back a graph built in the call.  [gs_cached] is a
    Graph that remembers the first reverse it built (the seeded change). *)
Inductive gop :=
| GEdit (f : graph -> graph)          (* the caller edits g.Nodes (or the map it gave to NewGraph) *)
| GReverse.                           (* g.Reverse(): the result is observed *)

(** deployed: no state besides the current content *)
Fixpoint run_gops (sh : N -> list name -> list name) (g : graph) (ops : list gop) : list graph :=
  match ops with
  | [] => []
  | GEdit f :: r => run_gops sh (f g) r
  | GReverse :: r => rev_graph sh g :: run_gops sh g r
  end.

(** a Graph that caches its first reverse and never invalidates it *)
Fixpoint run_gops_cached (sh : N -> list name -> list name) (g : graph) (cache : option graph)
  (ops : list gop) : list graph :=
  match ops with
  | [] => []
  | GEdit f :: r => run_gops_cached sh (f g) cache r
  | GReverse :: r =>
      match cache with
      | Some c => c :: run_gops_cached sh g cache r
      | None => let c := rev_graph sh g in c :: run_gops_cached sh g (Some c) r
      end
  end.

(** * A search queue shared between calls (round 3, seeded change C19-j)

    [minCircle]'s queue is a local of the call.  If its backing store were a
    package-level variable, a second search (another goroutine, its own
    graph) that resets the store to length 0 and appends its own start nodes
    while the first is between two dequeues makes the first search read the
    second one's entries: [shared_store_after qa qb] is what the first search
    finds in the store it believes to be its queue [qa]. *)
Definition shared_store_after (qa qb : list name) : list name := qb ++ skipn (length qb) qa.
Definition dequeue_shared (qa qb : list name) (pt : nat) : option name :=
  nth_error (shared_store_after qa qb) pt.
