(** NewMap: what an accepted graph's Map satisfies. *)
From Coq Require Import List NArith Bool Arith Lia Permutation.
From Verif Require Import Dag.Model Dag.Facts Dag.KahnProofs Dag.CircleProofs Dag.CheckProofs
     Dag.ClosureProofs Dag.PushProofs.
Import ListNotations.

Section NewMap.
Variable sh : N -> list name -> list name.
Hypothesis sh_perm : forall t l, Permutation (sh t l) l.
Variable g : graph.
Hypothesis W : wf g.

Theorem new_map_spec :
  match new_map sh g with
  | MOk m => m_g m = g /\ accepted m
  | MErr v => check_dag sh g = v /\ forall ls, v <> VOk ls
  end.
Proof.
  unfold new_map. pose proof (check_dag_spec sh sh_perm g W) as S.
  destruct (check_dag sh g) as [ls| |c| |] eqn:E; try (split; [reflexivity | discriminate]).
  destruct S as [Ht [Ha [Hl Hc]]].
  pose proof (build_alls_reach sh sh_perm g ls Hl Hc) as R.
  destruct (build_alls sh g ls) as [ai ao]. destruct R as [R1 R2].
  split; [reflexivity|]. constructor; simpl; auto.
Qed.

Theorem new_map_ok_iff :
  (exists m, new_map sh g = MOk m) <-> targets_exist g /\ acyclic g.
Proof.
  rewrite <- (check_dag_iff sh sh_perm g W). unfold new_map. split.
  - intros [m E]. destruct (check_dag sh g) as [ls| |c| |]; try discriminate. eauto.
  - intros [ls E]. rewrite E. destruct (build_alls sh g ls). eauto.
Qed.

End NewMap.
