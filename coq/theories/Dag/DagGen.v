(** Obligations on the objects regenerated from /repo/dags by gen/dags.go
    (Gen/DagsSrc.v).  Each is decided by computation; when the source changes
    shape the corresponding lemma stops checking.

    - [gen_params_ok]: the sort orders, the reserved slots and the snapNearBy
      arms of the current source satisfy the decidable predicate the layout
      theorems need ([params_ok]); the theorems of Props/C19.v are stated for
      [gen_params], i.e. for the code as it is now.
    - [frozen_*]: every other function the model follows has, up to white
      space and comments, the text the model was written against (the
      repaired code: visited marking in minCircle, memoised checkPush, pushNode
      skipping pushed nodes, names printed verbatim). *)
From Coq Require Import List ZArith String Bool.
From Verif Require Import Dag.Model Dag.Ops Gen.DagsSrc.
Import ListNotations.
Local Open Scope string_scope.

Lemma gen_nothing_unknown : gen_unknown = [].
Proof. reflexivity. Qed.

Lemma gen_params_ok : params_ok gen_params = true.
Proof. vm_compute. reflexivity. Qed.

(** the parameters of the code the model was first written against; used by
    the examples of Props/C19.v so that they do not depend on the current
    source (the theorems do: they are stated for [gen_params]) *)
Definition deployed_params : lparams :=
  mkP [(KLayer, true); (KName, true)]
      [(KNCritIns, false); (KNCritOuts, false); (KName, true)]
      [(-1)%Z; 0%Z; 1%Z]
      [mkSnap [((-2)%Z, true); ((-1)%Z, false)] (-1)%Z;
       mkSnap [((-1)%Z, false); (2%Z, true); (1%Z, false)] 1%Z].

Lemma deployed_params_ok : params_ok deployed_params = true.
Proof. vm_compute. reflexivity. Qed.

Lemma gen_layer_first : layer_first (p_by_layer gen_params) = true.
Proof. vm_compute. reflexivity. Qed.

Fixpoint sassoc (n : string) (l : list (string * string)) : option string :=
  match l with
  | [] => None
  | (k, v) :: r => if String.eqb n k then Some v else sassoc n r
  end.

Definition deployed_frozen : list (string * string) :=
  [ ("CheckDAG", "func(g *Graph) error { m, err := initMap(g) if err != nil { return err } _, err = m.makeLayers() return err }");
    ("initMap", "func(g *Graph) (*Map, error) { ret := new(Map) ret.Nodes = make(map[string]*MapNode) for name := range g.Nodes { ret.Nodes[name] = newMapNode(name) } ret.Nedge = 0 for in, outs := range g.Nodes { inNode := ret.Nodes[in] if inNode == nil { panic(""bug"") } for _, out := range outs { outNode, found := ret.Nodes[out] if !found { err := fmt.Errorf(""missing node %q for %q"", out, in) return nil, err } outNode.Ins[in] = inNode inNode.Outs[out] = outNode ret.Nedge++ } } return ret, nil }");
    ("NewMap", "func(g *Graph) (*Map, error) { ret, err := initMap(g) if err != nil { return nil, err } layers, err := ret.makeLayers() if err != nil { return nil, err } ret.Nlayer = len(layers) ret.buildAlls(layers) ret.buildCrits() return ret, nil }");
    ("Map.makeLayers", "func() ([][]*MapNode, error) { var ret [][]*MapNode var cur []*MapNode left := make(map[*MapNode]struct{}) for _, node := range m.Nodes { left[node] = struct{}{} } for _, node := range m.Nodes { if len(node.Ins) == 0 { cur = append(cur, node) } node.nhit = 0 } n := 0 for len(cur) > 0 { for _, node := range cur { node.layer = len(ret) delete(left, node) } ret = append(ret, cur) n += len(cur) var next []*MapNode for _, node := range cur { for _, out := range node.Outs { out.nhit++ if out.nhit == len(out.Ins) { next = append(next, out) } } } cur = next } if len(left) != 0 { circle := minCircle(m.Nodes) if len(circle) == 0 { panic(""should find a circle"") } msg := new(bytes.Buffer) fmt.Fprintf(msg, ""graph has circle: "") for i, node := range circle { if i != 0 { fmt.Fprintf(msg, ""->"") } fmt.Fprint(msg, node.Name) } return nil, errors.New(msg.String()) } return ret, nil }");
    ("Map.buildAlls", "func(layers [][]*MapNode) { for _, layer := range layers { for _, node := range layer { for _, out := range node.Outs { for _, in := range node.AllIns { out.AllIns[in.Name] = in in.AllOuts[out.Name] = out } out.AllIns[node.Name] = node node.AllOuts[out.Name] = out } } } }");
    ("isCrit", "func(from, to *MapNode) bool { for _, via := range from.AllOuts { if via == to { continue } if via.AllOuts[to.Name] != nil { return false } } return true }");
    ("Map.buildCrits", "func() { m.Ncrit = 0 for _, node := range m.Nodes { for _, out := range node.Outs { if !isCrit(node, out) { continue } node.CritOuts[out.Name] = out out.CritIns[node.Name] = node m.Ncrit++ } } }");
    ("Map.SortedNodes", "func() []*MapNode { var ret mapNodes for _, node := range m.Nodes { ret = append(ret, node) } sort.Sort(byLayer{ret}) return ret }");
    ("Map.SortedLayers", "func() [][]*MapNode { ret := make([][]*MapNode, m.Nlayer) for _, node := range m.Nodes { ret[node.layer] = append(ret[node.layer], node) } for _, layer := range ret { sort.Sort(byNcritOuts{layer}) } return ret }");
    ("traceCircle", "func(trace []*searchNode, snode *searchNode) []*MapNode { n := snode.length ret := make([]*MapNode, n) for i := 0; i < n; i++ { ret[n-1-i] = snode.this snode = snode.last } if snode != nil { panic(""bug"") } return ret }");
    ("minCircle", "func(nodes map[string]*MapNode) []*MapNode { var trace []*searchNode visited := make(map[string]map[string]bool) for _, node := range nodes { m := make(map[string]bool) m[node.Name] = true visited[node.Name] = m } for _, node := range nodes { trace = append(trace, &searchNode{ start: node, this: node, last: nil, length: 1, }) } pt := 0 for pt < len(trace) { snode := trace[pt] start := snode.start vmap := visited[start.Name] for name, out := range snode.this.Outs { if name == start.Name { return traceCircle(trace, snode) } if vmap[name] { continue } if name < start.Name { continue } vmap[name] = true trace = append(trace, &searchNode{ start: start, this: out, last: snode, length: snode.length + 1, }) } pt++ } return nil }");
    ("checkPush", "func( m *Map, node *MapNode, memo map[*MapNode]pushCheck, ) (able, worthy bool) { if c, found := memo[node]; found { return c.able, c.worthy } able, worthy = checkPushNode(m, node, memo) memo[node] = pushCheck{able, worthy} return able, worthy }");
    ("checkPushNode", "func( m *Map, node *MapNode, memo map[*MapNode]pushCheck, ) (able, worthy bool) { if node.layer == m.Nlayer-1 { return false, false } for _, out := range node.CritOuts { if out.layer > node.layer+1 { worthy = true continue } subAble, subWorthy := checkPush(m, out, memo) if !subAble { return false, false } if subWorthy { worthy = true } } return true, worthy }");
    ("pushWorthy", "func(m *Map, node *MapNode) bool { _, ret := checkPush(m, node, make(map[*MapNode]pushCheck)) return ret }");
    ("pushNode", "func(m *Map, node *MapNode, pushed map[string]*MapNode) { if pushed[node.Name] != nil { return } for _, out := range node.CritOuts { if out.layer > node.layer+1 { continue } pushNode(m, out, pushed) } pushed[node.Name] = node }");
    ("pushTight", "func(m *Map) { nodes := m.SortedNodes() n := len(nodes) for i := range nodes { node := nodes[n-1-i] for pushWorthy(m, node) { pushed := make(map[string]*MapNode) pushNode(m, node, pushed) for _, p := range pushed { p.layer++ if p.layer >= m.Nlayer { panic(""pushing to hard, increasing layers"") } } } } }");
    ("critOutMaxLayer", "func(n *MapNode) int { ret := n.layer for _, out := range n.CritOuts { if out.layer > ret { ret = out.layer } } return ret }");
    ("avgCritInY", "func(n *MapNode) int { nIn := len(n.CritIns) if nIn == 0 { return 0 } sum := 0 for _, in := range n.CritIns { sum += in.y } return (sum + nIn/2) / nIn }");
    ("LayoutMap", "func(m *Map) *MapView { pushTight(m) v := &MapView{ Nodes: make(map[string]*MapNodeView), } layers := m.SortedLayers() slotTaken := make([]map[int]bool, m.Nlayer) for i := range slotTaken { slotTaken[i] = make(map[int]bool) } ymin := 0 for _, layer := range layers { for _, node := range layer { x := node.layer node.x = x tak := slotTaken[x] node.y = findY(node, tak) snapNearBy(node, tak) y := node.y xmax := critOutMaxLayer(node) for i := x + 1; i < xmax; i++ { slotTaken[i][y] = true } if y < ymin { ymin = y } } } ymax := 0 for _, node := range m.Nodes { node.y -= ymin if node.y > ymax { ymax = node.y } v.Nodes[node.Name] = &MapNodeView{ Name: node.Name, X: node.x, Y: node.y, CritIns: makeNodeList(node.CritIns), CritOuts: makeNodeList(node.CritOuts), } } v.Width = m.Nlayer v.Height = ymax + 1 return v }");
    ("Graph.Reverse", "func() *Graph { ret := make(map[string][]string) for n := range g.Nodes { ret[n] = nil } for n, lst := range g.Nodes { for _, m := range lst { ret[m] = append(ret[m], n) } } for _, list := range ret { sort.Strings(list) } return &Graph{Nodes: ret} }") ].

Definition frozen_matches (n : string) : bool :=
  match sassoc n gen_frozen, sassoc n deployed_frozen with
  | Some a, Some b => String.eqb a b
  | _, _ => false
  end.

Lemma frozen_CheckDAG : frozen_matches "CheckDAG" = true.
Proof. vm_compute. reflexivity. Qed.

Lemma frozen_initMap : frozen_matches "initMap" = true.
Proof. vm_compute. reflexivity. Qed.

Lemma frozen_NewMap : frozen_matches "NewMap" = true.
Proof. vm_compute. reflexivity. Qed.

Lemma frozen_Map_makeLayers : frozen_matches "Map.makeLayers" = true.
Proof. vm_compute. reflexivity. Qed.

Lemma frozen_Map_buildAlls : frozen_matches "Map.buildAlls" = true.
Proof. vm_compute. reflexivity. Qed.

Lemma frozen_isCrit : frozen_matches "isCrit" = true.
Proof. vm_compute. reflexivity. Qed.

Lemma frozen_Map_buildCrits : frozen_matches "Map.buildCrits" = true.
Proof. vm_compute. reflexivity. Qed.

Lemma frozen_Map_SortedNodes : frozen_matches "Map.SortedNodes" = true.
Proof. vm_compute. reflexivity. Qed.

Lemma frozen_Map_SortedLayers : frozen_matches "Map.SortedLayers" = true.
Proof. vm_compute. reflexivity. Qed.

Lemma frozen_traceCircle : frozen_matches "traceCircle" = true.
Proof. vm_compute. reflexivity. Qed.

Lemma frozen_minCircle : frozen_matches "minCircle" = true.
Proof. vm_compute. reflexivity. Qed.

Lemma frozen_checkPush : frozen_matches "checkPush" = true.
Proof. vm_compute. reflexivity. Qed.

Lemma frozen_checkPushNode : frozen_matches "checkPushNode" = true.
Proof. vm_compute. reflexivity. Qed.

Lemma frozen_pushWorthy : frozen_matches "pushWorthy" = true.
Proof. vm_compute. reflexivity. Qed.

Lemma frozen_pushNode : frozen_matches "pushNode" = true.
Proof. vm_compute. reflexivity. Qed.

Lemma frozen_pushTight : frozen_matches "pushTight" = true.
Proof. vm_compute. reflexivity. Qed.

Lemma frozen_critOutMaxLayer : frozen_matches "critOutMaxLayer" = true.
Proof. vm_compute. reflexivity. Qed.

Lemma frozen_avgCritInY : frozen_matches "avgCritInY" = true.
Proof. vm_compute. reflexivity. Qed.

(** findY is no longer compared as text: its slot probe is extracted as a
    skeleton, and the obligation is what the layout theorem needs - the probe
    starts at the preferred row, has no exit other than a return guarded by
    a test of the very row it returns, and steps outward by one. *)
Lemma gen_findy_ok : fy_ok gen_findy = true.
Proof. vm_compute. reflexivity. Qed.

Lemma frozen_LayoutMap : frozen_matches "LayoutMap" = true.
Proof. vm_compute. reflexivity. Qed.

Lemma frozen_Graph_Reverse : frozen_matches "Graph.Reverse" = true.
Proof. vm_compute. reflexivity. Qed.

Lemma frozen_complete : map fst gen_frozen = map fst deployed_frozen.
Proof. vm_compute. reflexivity. Qed.

(** Graph has no field besides Nodes, and Reverse returns a graph built in
    the call without writing to its receiver (seeded change C19-i). *)
Lemma gen_graph_stateless : gen_graph_fields = ["Nodes"] /\ fst gen_reverse_fresh = true.
Proof. vm_compute. split; reflexivity. Qed.

(** Package dags declares no package-level variable: no state is shared
    between calls or between goroutines (seeded change C19-j). *)
Lemma gen_dags_no_package_state : gen_package_vars = [].
Proof. vm_compute. reflexivity. Qed.
