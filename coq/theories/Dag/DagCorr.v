(** Correspondence evaluator for C19: run the model on the graphs the harness
    fed to shanhu.io/g/dags and compare with what the real code returned. *)
From Coq Require Import List NArith ZArith Bool Arith.
From Verif Require Import Dag.Model Dag.Ops Gen.DagsSrc.
Import ListNotations.

Fixpoint leqb {A} (eqb : A -> A -> bool) (a b : list A) : bool :=
  match a, b with
  | [], [] => true
  | x :: a', y :: b' => eqb x y && leqb eqb a' b'
  | _, _ => false
  end.

Definition names_eqb := leqb N.eqb.

Record nobs := mkN {
  o_name : name;
  o_ins : list name; o_outs : list name;
  o_ai : list name; o_ao : list name;
  o_ci : list name; o_co : list name;
  o_vci : list name; o_vco : list name;      (* MapNodeView.CritIns/CritOuts *)
  o_x : nat; o_y : Z;
}.

Definition nobs_eqb (a b : nobs) : bool :=
  N.eqb (o_name a) (o_name b) &&
  names_eqb (o_ins a) (o_ins b) && names_eqb (o_outs a) (o_outs b) &&
  names_eqb (o_ai a) (o_ai b) && names_eqb (o_ao a) (o_ao b) &&
  names_eqb (o_ci a) (o_ci b) && names_eqb (o_co a) (o_co b) &&
  names_eqb (o_vci a) (o_vci b) && names_eqb (o_vco a) (o_vco b) &&
  Nat.eqb (o_x a) (o_x b) && Z.eqb (o_y a) (o_y b).

Inductive obs :=
| OMissing
| OCircle (len : nat)
| OOk (nedge ncrit nlayer : nat)
      (layers : list (list name))      (* Map.SortedLayers() before LayoutMap *)
      (topo : list name)               (* TopoSort *)
      (nodes : list nobs)              (* by name *)
      (width : nat) (height : Z)
| OBad (code : nat).                   (* model panic / out of fuel *)

Definition obs_eqb (a b : obs) : bool :=
  match a, b with
  | OMissing, OMissing => true
  | OCircle n, OCircle n' => Nat.eqb n n'
  | OOk e c l ls tp ns w h, OOk e' c' l' ls' tp' ns' w' h' =>
      Nat.eqb e e' && Nat.eqb c c' && Nat.eqb l l' &&
      leqb names_eqb ls ls' && names_eqb tp tp' && leqb nobs_eqb ns ns' &&
      Nat.eqb w w' && Z.eqb h h'
  | _, _ => false
  end.

(** is [c] a closed walk along edges of [g]? (the model's own answer is
    checked too, so a wrong path cannot hide behind its length) *)
Fixpoint chainb (g : graph) (c : list name) : bool :=
  match c with
  | [] => true
  | x :: r => match r with
              | [] => true
              | y :: _ => memb y (adj g x) && chainb g r
              end
  end.
Definition closedb (g : graph) (c : list name) : bool :=
  match c with
  | [] => false
  | x :: _ => chainb g (c ++ [x])
  end.

Definition model_obs (sh : N -> list name -> list name) (g : graph) : obs :=
  match new_map sh g with
  | MErr VMissing => OMissing
  | MErr (VCircle c) => if closedb g c then OCircle (length c) else OBad 3
  | MErr VPanic => OBad 1
  | MErr VFuel => OBad 2
  | MErr (VOk _) => OBad 4
  | MOk m =>
      match sorted_layers gen_params m (m_lay0 m), layout_map gen_params m with
      | Some sl, VwOk v =>
          let ks := sort_names (keys g) in
          OOk (nedge g) (ncrit g (m_ao m)) (m_nlayer m) sl
              (sorted_nodes gen_params m (m_lay0 m))
              (map (fun k =>
                      let xy := aget (0, 0%Z) (v_nodes v) k in
                      mkN k (sort_names (ins g k)) (sort_names (outs g k))
                          (sort_names (sget (m_ai m) k)) (sort_names (sget (m_ao m) k))
                          (sort_names (m_crit_ins m k)) (sort_names (m_crit_outs m k))
                          (sort_names (m_crit_ins m k)) (sort_names (m_crit_outs m k))
                          (fst xy) (snd xy)) ks)
              (v_width v) (v_height v)
      | None, _ => OBad 5
      | _, VwPanic => OBad 6
      | _, VwFuel => OBad 7
      end
  end.

Definition entry_eqb (a b : name * list name) : bool :=
  N.eqb (fst a) (fst b) && names_eqb (snd a) (snd b).

Definition entry_lt (a b : name * list name) : bool := N.ltb (fst a) (fst b).

(** Graph.Reverse twice, keys sorted for comparison *)
Definition rev2 (sh : N -> list name -> list name) (g : graph) : graph :=
  sort_by entry_lt (rev_graph sh (rev_graph sh g)).

Fixpoint mask_row (n : nat) (mask : N) (i j : nat) : list name :=
  match j with
  | O => []
  | S j' =>
      mask_row n mask i j' ++
      (if N.testbit mask (N.of_nat (i * n + j')) then [N.of_nat j'] else [])
  end.

Definition graph_of_mask (n : nat) (mask : N) : graph :=
  map (fun i => (N.of_nat i, mask_row n mask i n)) (seq 0 n).

(** * Round 3: Remove / SubGraph / Rename / Closure on the graph of the case *)

(** CheckDAG's verdict as a class: 0 ok, 1 missing, 2 circle, 9 other *)
Definition vclass (v : verdict) : N :=
  match v with VOk _ => 0 | VMissing => 1 | VCircle _ => 2 | _ => 9 end%N.

Record gobs := mkG { go_g : graph; go_v : N }.

Definition by_key (g : graph) : graph := sort_by entry_lt g.

Definition gobs_ok (sh : N -> list name -> list name) (g' : graph) (o : gobs) : bool :=
  leqb entry_eqb (by_key g') (go_g o) && N.eqb (vclass (check_dag sh g')) (go_v o).

(** A call sequence on ONE Map object: [Map.Reverse] mirrors the layer
    numbers the Map holds and swaps its orientation, [LayoutMap] lays out the
    current orientation starting from the layer numbers the Map holds and
    leaves the pushed ones behind. *)
Inductive sop :=
| SRev
| SLay (xy : list (name * (nat * Z))) (w : nat) (h : Z).

Definition xs_of (v : view) (ks : list name) : lays :=
  map (fun k => (k, fst (aget (0, 0%Z) (v_nodes v) k))) ks.

Definition view_eqb (v : view) (xy : list (name * (nat * Z))) (w : nat) (h : Z) : bool :=
  Nat.eqb (v_width v) w && Z.eqb (v_height v) h &&
  Nat.eqb (length (v_nodes v)) (length xy) &&
  forallb (fun e => let p := aget (0, 0%Z) (v_nodes v) (fst e) in
                    Nat.eqb (fst p) (fst (snd e)) && Z.eqb (snd p) (snd (snd e))) xy.

Fixpoint run_seq (P : lparams) (m mr : dmap) (flip : bool) (L : lays) (ops : list sop) : bool :=
  match ops with
  | [] => true
  | SRev :: r => run_seq P m mr (negb flip) (mirror_lays (m_nlayer m) L) r
  | SLay xy w h :: r =>
      match layout_from P (if flip then mr else m) L with
      | VwOk v => view_eqb v xy w h && run_seq P m mr flip (xs_of v (keys (m_g m))) r
      | _ => false
      end
  end.

(** steps on ONE *Graph, each with the graph's content at that moment (as the
    harness holds it): Reverse, Reverse twice, RevLayout's verdict *)
Inductive gstep :=
| GSRev (cur got : graph)
| GSRev2 (cur got : graph)
| GSLay (cur : graph) (v : N).

Definition gstep_ok (sh : N -> list name -> list name) (s : gstep) : bool :=
  match s with
  | GSRev cur got => leqb entry_eqb (by_key (rev_graph sh cur)) got
  | GSRev2 cur got => leqb entry_eqb (rev2 sh cur) got
  | GSLay cur v => N.eqb (vclass (check_dag sh (rev_graph sh cur))) v
  end.

Record opsobs := mkO {
  oo_rm : name; oo_rm_obs : gobs;
  oo_sub : list name; oo_sub_obs : gobs;
  oo_ren : list (name * name);          (* key -> new name *)
  oo_err : option name;                 (* the key whose callback returns an error *)
  oo_inj : bool;
  oo_ren_res : N;                       (* 0 a graph, 1 the callback's error, 2 "missing in keys" *)
  oo_ren_obs : gobs;
  oo_clo : list name;
  oo_clo_panic : bool;
  oo_clo_nodes : list nobs;             (* x, y, view lists unused *)
  oo_clo_n : nat * nat * nat;           (* Nedge, Ncrit, Nlayer *)
  oo_seq_rev : bool;                    (* the call sequence starts with RevLayout (else NewMap) *)
  oo_seq : list sop;                    (* then: Map.Reverse / LayoutMap with the view it returned *)
  oo_gseq : list gstep;                 (* calls on ONE *Graph that the caller edits in between *)
}.

Definition sets_eqb (a b : nobs) : bool :=
  N.eqb (o_name a) (o_name b) &&
  names_eqb (o_ins a) (o_ins b) && names_eqb (o_outs a) (o_outs b) &&
  names_eqb (o_ai a) (o_ai b) && names_eqb (o_ao a) (o_ao b) &&
  names_eqb (o_ci a) (o_ci b) && names_eqb (o_co a) (o_co b).

Definition map_sets (m : dmap) : list nobs :=
  let g := m_g m in
  map (fun k => mkN k (sort_names (ins g k)) (sort_names (outs g k))
                    (sort_names (sget (m_ai m) k)) (sort_names (sget (m_ao m) k))
                    (sort_names (m_crit_ins m k)) (sort_names (m_crit_outs m k)) [] [] 0 0%Z)
      (sort_names (keys g)).

Definition check_ops (sh : N -> list name -> list name) (g : graph) (oo : opsobs) : bool :=
  forallb (gstep_ok sh) (oo_gseq oo) &&
  gobs_ok sh (g_remove g (oo_rm oo)) (oo_rm_obs oo) &&
  gobs_ok sh (g_subgraph (fun k => memb k (oo_sub oo)) g) (oo_sub_obs oo) &&
  match g_rename (aget 0%N (oo_ren oo))
                 (fun k => match oo_err oo with Some e => N.eqb k e | None => false end) g with
  | RnErrF => N.eqb (oo_ren_res oo) 1
  | RnMissing => N.eqb (oo_ren_res oo) 2
  | RnOk g' => N.eqb (oo_ren_res oo) 0 &&
               (if oo_inj oo then gobs_ok sh g' (oo_ren_obs oo) else true)
  end &&
  match new_map sh g with
  | MOk m =>
      match closure sh m (oo_clo oo) with
      | None => oo_clo_panic oo
      | Some (MOk m') =>
          negb (oo_clo_panic oo) &&
          leqb sets_eqb (map_sets m') (oo_clo_nodes oo) &&
          (let '(e, c, l) := oo_clo_n oo in
           Nat.eqb (nedge (m_g m')) e && Nat.eqb (ncrit (m_g m') (m_ao m')) c && Nat.eqb (m_nlayer m') l)
      | Some (MErr _) => false
      end &&
      (* the call sequence on one Map object *)
      match oo_seq oo, new_map sh (rev_graph sh g) with
      | [], _ => true
      | ops, MOk mr =>
          if oo_seq_rev oo then
            match layout_from gen_params mr (m_lay0 mr) with
            | VwOk v => run_seq gen_params m mr false
                          (mirror_lays (m_nlayer m) (xs_of v (keys g))) ops
            | _ => false
            end
          else run_seq gen_params m mr false (m_lay0 m) ops
      | _, MErr _ => false
      end
  | MErr _ => true
  end.

Inductive ccase :=
| CGO (g : graph) (o : obs) (r2 : option graph) (oo : opsobs)
| CG (g : graph) (o : obs) (r2 : option graph)   (* r2 = None: equal to g *)
| CM (n : nat) (mask : N) (o : obs).             (* exhaustive families; r2 equal to g *)

Definition check_graph (g : graph) (o : obs) (r2 : graph) : bool :=
  obs_eqb (model_obs sh_id g) o &&
  leqb entry_eqb (rev2 sh_id g) r2 &&
  (* the other iteration order must give the same observables *)
  obs_eqb (model_obs sh_rev g) o && leqb entry_eqb (rev2 sh_rev g) r2.

Definition check_case (c : ccase) : bool :=
  match c with
  | CGO g o r2 oo => check_graph g o (match r2 with Some r => r | None => g end) &&
                     check_ops sh_id g oo && check_ops sh_rev g oo
  | CG g o r2 => check_graph g o (match r2 with Some r => r | None => g end)
  | CM n mask o => let g := graph_of_mask n mask in check_graph g o g
  end.

Fixpoint mismatches_from (i : nat) (cs : list ccase) : list nat :=
  match cs with
  | [] => []
  | c :: r => if check_case c then mismatches_from (S i) r
              else i :: mismatches_from (S i) r
  end.

Definition mismatches (cs : list ccase) : list nat := mismatches_from 0 cs.
