(** Obligations on what the translator regenerated from
    sniproxy/tls_hello_conn.go (Gen/HelloConsts.v).  Each is decided by
    computation; when the source changes, the [Lemma] stops checking. *)
From Coq Require Import List NArith Bool String Lia.
From Verif Require Import Lib.Bytes Sni.Wire Sni.Hello Sni.Handover Sni.HelloResult Sni.HelloDeadline Gen.HelloConsts.
Import ListNotations.
Local Open Scope N_scope.

(** The peek buffer holds a full plaintext TLS record (header + 2^14). *)
Lemma gen_cap_ok : header_len + max_plaintext <= gen_hello_buf_size.
Proof. vm_compute. discriminate. Qed.

(** bufio.NewReaderSize raises sizes below 16 to 16; the model takes the size
    as written, so it must not be in that range. *)
Lemma gen_cap_min : 16 <= gen_hello_buf_size.
Proof. vm_compute. discriminate. Qed.

Lemma gen_cap_ge5 : 5 <= gen_hello_buf_size.
Proof. vm_compute. discriminate. Qed.

Lemma gen_header_consts :
  gen_hello_header_len = header_len /\ gen_hello_handshake = rec_handshake.
Proof. split; reflexivity. Qed.

(** TLSHelloConn.Read hands bytes over from the peek buffer to the connection
    under a policy that loses nothing ([Sni/HandoverProofs.v]): it always reads
    through the bufio.Reader, or goes to the connection only when the buffer
    is empty. *)
Lemma gen_read_handover_transparent : handover_transparentb gen_read_handover = true.
Proof. vm_compute. reflexivity. Qed.

(** The *TLSHelloInfo that HelloInfo returns is a cell made by that call: not
    a part of a pooled object, not a package-level variable. *)
Lemma gen_hello_result_fresh : origin_freshb gen_hello_result_origin = true.
Proof. vm_compute. reflexivity. Qed.

(** tls_hello_conn.go makes no Set*Deadline call: sniffing leaves the
    connection's deadline state untouched. *)
Lemma gen_hello_no_deadline_calls : gen_hello_deadline_calls = [].
Proof. reflexivity. Qed.

Lemma gen_hello_result_origin_eq : gen_hello_result_origin = OFresh.
Proof. reflexivity. Qed.

Local Open Scope string_scope.

(** The bodies the model of Sni/Hello.v was written against. *)
Definition frozen_HelloInfo : string :=
  "{ const headerLen = 5 hdr, err := c.br.Peek(headerLen) if err != nil { return nil, err } const handshake = 0x16 if hdr[0] != handshake { return nil, fmt.Errorf(""not TLS: 0x%02x != 0x16"", hdr[0]) } recLen := int(hdr[3])<<8 | int(hdr[4]) helloBytes, err := c.br.Peek(headerLen + recLen) if err != nil { return nil, err } info := new(TLSHelloInfo) tls.Server( &headerConn{r: bytes.NewReader(helloBytes)}, nameSinkTLSConfig(info), ).Handshake() return info, nil }".

Definition frozen_Read : string := "{ return c.br.Read(buf) }".

Definition frozen_nameSink : string :=
  "{ getConfig := func(h *tls.ClientHelloInfo) (*tls.Config, error) { info.ServerName = h.ServerName info.ProtoCount = len(h.SupportedProtos) if info.ProtoCount > 0 { info.FirstProto = h.SupportedProtos[0] } return nil, nil } return &tls.Config{GetConfigForClient: getConfig} }".

Definition frozen_headerConn_Read : string := "{ return c.r.Read(p) }".
Definition frozen_headerConn_Write : string := "{ return 0, io.EOF }".

Definition hello_src_frozenb : bool :=
  String.eqb gen_hello_src_TLSHelloConn_HelloInfo frozen_HelloInfo
  && (String.eqb gen_hello_src_TLSHelloConn_Read frozen_Read
      || handover_eqb gen_read_handover HoWhenDrained)   (* Read is emitted as a policy, not frozen *)
  && String.eqb gen_hello_src_nameSinkTLSConfig frozen_nameSink
  && String.eqb gen_hello_src_headerConn_Read frozen_headerConn_Read
  && String.eqb gen_hello_src_headerConn_Write frozen_headerConn_Write.

Lemma gen_hello_src_frozen : hello_src_frozenb = true.
Proof. vm_compute. reflexivity. Qed.
