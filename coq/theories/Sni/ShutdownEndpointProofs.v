(** Proofs about the endpoint-side blocking model (Sni/ShutdownEndpoint.v). *)
From Coq Require Import List NArith Bool String Lia.
From Verif Require Import Sni.SchedSkel Sni.ShutdownEndpoint.
Import ListNotations.
Local Open Scope N_scope.

Ltac break_estep H :=
  repeat match type of H with
  | context [match ?e with _ => _ end] => let E := fresh "E" in destruct e eqn:E
  end; try discriminate; try (injection H as H; subst).

Lemma gete_sete_same t x l : gete t (sete t x l) = Some x.
Proof.
  induction l as [|[t' y] r IH]; cbn [sete gete].
  - now rewrite N.eqb_refl.
  - destruct (t =? t') eqn:E; cbn [gete]; rewrite ?N.eqb_refl, ?E; auto.
Qed.

Lemma gete_sete_other t t' x l : t <> t' -> gete t' (sete t x l) = gete t' l.
Proof.
  intros H. induction l as [|[k y] r IH]; cbn [sete gete].
  - destruct (t' =? t) eqn:E; [apply N.eqb_eq in E; congruence|reflexivity].
  - destruct (t =? k) eqn:E; cbn [gete].
    + apply N.eqb_eq in E. subst k.
      destruct (t' =? t) eqn:E2; [apply N.eqb_eq in E2; congruence|reflexivity].
    + destruct (t' =? k); [reflexivity|exact IH].
Qed.

Section Proofs.
Variable g : ecfg.
Notation estep := (estep g).
Notation eexec := (eexec g).

(** ** Flags only ever get set *)

Lemma flags_stable s a s' :
  estep s a = Some s' ->
  (sdone s = true -> sdone s' = true) /\ (eclosed s = true -> eclosed s' = true).
Proof.
  intros H. destruct a; cbn [ShutdownEndpoint.estep] in H; break_estep H;
    cbn [sdone eclosed set_thread]; split; auto.
Qed.

(** ** Own steps go forward, nobody else moves a thread *)

Lemma own_step_decreases s a s' t x :
  estep s a = Some s' -> is_own_step t a = true -> gete t (ethreads s) = Some x ->
  exists x', gete t (ethreads s') = Some x' /\ (emeasure x' < emeasure x)%nat /\
             e_kind x' = e_kind x.
Proof.
  intros H Ho Hx.
  destruct a; cbn [is_own_step] in Ho; try discriminate;
    apply N.eqb_eq in Ho; subst; cbn [ShutdownEndpoint.estep] in H; rewrite Hx in H; break_estep H;
    eexists; (split; [cbn [ethreads set_thread]; apply gete_sete_same|]);
    unfold emeasure, with_epc; cbn [e_pc e_kind];
    repeat match goal with E : e_pc _ = _ |- _ => rewrite E end;
    repeat match goal with E : e_kind _ = _ |- _ => rewrite E end;
    split; try lia; reflexivity.
Qed.

Lemma other_step_keeps s a s' t x :
  estep s a = Some s' -> is_own_step t a = false -> gete t (ethreads s) = Some x ->
  exists x', gete t (ethreads s') = Some x' /\ e_pc x' = e_pc x /\ e_kind x' = e_kind x /\
             (e_timer x = true -> e_timer x' = true).
Proof.
  intros H Ho Hx.
  destruct a as [t0 k|t0|t0 i|t0|t0|t0| |]; cbn [is_own_step] in Ho; cbn [ShutdownEndpoint.estep] in H.
  - destruct (gete t0 (ethreads s)) eqn:E; [discriminate|]. injection H as <-.
    exists x. cbn [ethreads set_thread]. rewrite gete_sete_other; [repeat split; auto|].
    intros ->. congruence.
  - apply N.eqb_neq in Ho. break_estep H; exists x; cbn [ethreads set_thread];
      rewrite gete_sete_other by congruence; repeat split; auto.
  - apply N.eqb_neq in Ho. break_estep H; exists x; cbn [ethreads set_thread];
      rewrite gete_sete_other by congruence; repeat split; auto.
  - apply N.eqb_neq in Ho. break_estep H; exists x; cbn [ethreads set_thread];
      rewrite gete_sete_other by congruence; repeat split; auto.
  - apply N.eqb_neq in Ho. break_estep H; exists x; cbn [ethreads set_thread];
      rewrite gete_sete_other by congruence; repeat split; auto.
  - (* ETimer *)
    destruct (N.eq_dec t0 t) as [->|Hne].
    + rewrite Hx in H. break_estep H; eexists; cbn [ethreads set_thread];
        rewrite gete_sete_same; cbn [e_pc e_kind e_timer]; repeat split; auto.
    + break_estep H; exists x; cbn [ethreads set_thread];
        rewrite gete_sete_other by congruence; repeat split; auto.
  - injection H as <-. exists x. cbn [ethreads]. repeat split; auto.
  - break_estep H. exists x. cbn [ethreads]. repeat split; auto.
Qed.

Fixpoint count_own (t : N) (acts : list eaction) : nat :=
  match acts with
  | [] => 0
  | a :: r => (if is_own_step t a then 1 else 0) + count_own t r
  end.

Theorem bounded_own_steps acts : forall s s' t x,
  eexec s acts = Some s' -> gete t (ethreads s) = Some x ->
  exists x', gete t (ethreads s') = Some x' /\ (emeasure x' + count_own t acts <= emeasure x)%nat.
Proof.
  induction acts as [|a r IH]; intros s s' t x H Hx; cbn [ShutdownEndpoint.eexec count_own] in *.
  - injection H as <-. exists x. split; [assumption|lia].
  - destruct (estep s a) as [s1|] eqn:E; [|discriminate].
    destruct (is_own_step t a) eqn:Eo.
    + destruct (own_step_decreases s a s1 t x E Eo Hx) as (x1 & G1 & G2 & _).
      destruct (IH s1 s' t x1 H G1) as (x' & G3 & G4). exists x'. split; [assumption|lia].
    + destruct (other_step_keeps s a s1 t x E Eo Hx) as (x1 & G1 & G2 & _).
      destruct (IH s1 s' t x1 H G1) as (x' & G3 & G4). exists x'. split; [assumption|].
      unfold emeasure in *. rewrite G2 in G4. lia.
Qed.

(** ** The exits *)

Hypothesis g_guarded : eguarded g = true.

Lemma eguarded_parts :
  In (ARecv "p.serveDone") (accept_arms g) /\ In (ARecv "p.closed") (accept_arms g) /\
  In (ARecv "timer.C") (close_arms g) /\ In (ARecv "p.serveDone") (close_arms g) /\
  In (ARecv "timer.C") (send_arms g) /\ In (ARecv "p.closed") (send_arms g).
Proof.
  unfold eguarded in g_guarded. repeat (apply andb_prop in g_guarded as [g_guarded ?]).
  repeat split; now apply has_arm_In.
Qed.

Lemma enabled_by s t x a :
  gete t (ethreads s) = Some x -> e_pc x = ESelect ->
  In a (arms_of g (e_kind x)) -> earm_ready g s x a = true -> eenabled g s t = true.
Proof.
  intros Hx Hp Hin Hr. unfold eenabled. rewrite Hx, Hp.
  apply existsb_exists. now exists a.
Qed.

(** Accept returns once the tunnel is gone or the endpoint is closed. *)
Theorem accept_exits s t x :
  gete t (ethreads s) = Some x -> e_kind x = KAccept -> e_pc x = ESelect ->
  sdone s = true \/ eclosed s = true -> eenabled g s t = true.
Proof.
  intros Hx Hk Hp [H|H]; destruct eguarded_parts as (A1 & A2 & _).
  - eapply enabled_by; try eassumption; [rewrite Hk; exact A1|]. cbn. exact H.
  - eapply enabled_by; try eassumption; [rewrite Hk; exact A2|]. cbn. exact H.
Qed.

(** Close's wait ends when the tunnel is gone or its timer has fired ... *)
Theorem close_exits s t x :
  gete t (ethreads s) = Some x -> e_kind x = KClose -> e_pc x = ESelect ->
  sdone s = true \/ e_timer x = true -> eenabled g s t = true.
Proof.
  intros Hx Hk Hp [H|H]; destruct eguarded_parts as (_ & _ & A3 & A4 & _).
  - eapply enabled_by; try eassumption; [rewrite Hk; exact A4|]. cbn. exact H.
  - eapply enabled_by; try eassumption; [rewrite Hk; exact A3|]. cbn. exact H.
Qed.

(** ... sendAccept's when the endpoint is closed or its timer has fired. *)
Theorem send_exits s t x :
  gete t (ethreads s) = Some x -> e_kind x = KSend -> e_pc x = ESelect ->
  eclosed s = true \/ e_timer x = true -> eenabled g s t = true.
Proof.
  intros Hx Hk Hp [H|H]; destruct eguarded_parts as (_ & _ & _ & _ & A5 & A6).
  - eapply enabled_by; try eassumption; [rewrite Hk; exact A6|]. cbn. exact H.
  - eapply enabled_by; try eassumption; [rewrite Hk; exact A5|]. cbn. exact H.
Qed.

(** The timer of a waiting Close or sendAccept can always fire, and then the
    thread is enabled. *)
Theorem timer_fires_then_enabled s t x :
  gete t (ethreads s) = Some x -> e_kind x <> KAccept -> e_pc x = ESelect ->
  exists s', estep s (ETimer t) = Some s' /\ eenabled g s' t = true.
Proof.
  intros Hx Hk Hp. cbn [ShutdownEndpoint.estep]. rewrite Hx, Hp.
  destruct (e_kind x) eqn:Ek; [congruence| |]; eexists; (split; [reflexivity|]).
  - eapply close_exits; [cbn [ethreads set_thread]; apply gete_sete_same|reflexivity|reflexivity|now right].
  - eapply send_exits; [cbn [ethreads set_thread]; apply gete_sete_same|reflexivity|reflexivity|now right].
Qed.

(** ** sync.Once: whoever waits for Do waits for a Close that is on its way *)

Definition once_inv (s : estate) : Prop :=
  match eonce s with
  | ORunning r => exists x, gete r (ethreads s) = Some x /\ e_kind x = KClose /\
                            (e_pc x = ESelect \/ e_pc x = EFinish)
  | _ => True
  end.

Lemma once_inv_step s a s' : once_inv s -> estep s a = Some s' -> once_inv s'.
Proof.
  unfold once_inv. intros Hi H.
  destruct a as [t0 k|t0|t0 i|t0|t0|t0| |]; cbn [ShutdownEndpoint.estep] in H.
  - destruct (gete t0 (ethreads s)) eqn:E; [discriminate|]. injection H as <-.
    cbn [eonce set_thread ethreads]. destruct (eonce s) as [|r|]; auto.
    destruct Hi as (x & G1 & G2). exists x. split; [|exact G2].
    rewrite gete_sete_other; [assumption|]. intros ->. congruence.
  - (* EOnce *)
    destruct (gete t0 (ethreads s)) as [x0|] eqn:E0; [|discriminate].
    destruct (e_kind x0) eqn:Ek; try discriminate. destruct (e_pc x0) eqn:Ep; try discriminate.
    destruct (eonce s) as [|r|] eqn:Eo; injection H as <-; cbn [eonce set_thread ethreads].
    + exists (with_epc x0 ESelect). rewrite gete_sete_same. unfold with_epc. cbn. repeat split; auto.
    + rewrite Eo. destruct Hi as (x & G1 & G2 & G3). exists x. split; [|split; assumption].
      rewrite gete_sete_other; [assumption|]. intros ->. rewrite E0 in G1. injection G1 as <-.
      rewrite Ep in G3. destruct G3; discriminate.
    + now rewrite Eo.
  - (* EArm *)
    destruct (gete t0 (ethreads s)) as [x0|] eqn:E0; [|discriminate].
    destruct (e_pc x0) eqn:Ep; try discriminate.
    destruct (nth_error _ i) as [a|]; [|discriminate].
    destruct (earm_ready g s x0 a); [|discriminate]. injection H as <-.
    assert (Eo : eonce (if is_send a then mkEState (sdone s) (eclosed s) (conn_closed s) (incoming s + 1) (eonce s) (ethreads s)
                        else if is_incoming_recv a then mkEState (sdone s) (eclosed s) (conn_closed s) (incoming s - 1) (eonce s) (ethreads s)
                        else s) = eonce s) by (destruct (is_send a), (is_incoming_recv a); reflexivity).
    assert (Et : ethreads (if is_send a then mkEState (sdone s) (eclosed s) (conn_closed s) (incoming s + 1) (eonce s) (ethreads s)
                        else if is_incoming_recv a then mkEState (sdone s) (eclosed s) (conn_closed s) (incoming s - 1) (eonce s) (ethreads s)
                        else s) = ethreads s) by (destruct (is_send a), (is_incoming_recv a); reflexivity).
    cbn [eonce set_thread ethreads]. rewrite Eo, Et. destruct (eonce s) as [|r|]; auto.
    destruct Hi as (x & G1 & G2 & G3). destruct (N.eq_dec t0 r) as [->|Hne].
    + rewrite E0 in G1. injection G1 as <-. eexists. rewrite gete_sete_same.
      unfold with_epc. cbn [e_kind e_pc]. rewrite G2. repeat split; auto.
    + exists x. rewrite gete_sete_other by assumption. repeat split; assumption.
  - (* EFin *)
    break_estep H; cbn; exact I.
  - (* EWake *)
    destruct (gete t0 (ethreads s)) as [x0|] eqn:E0; [|discriminate].
    destruct (e_pc x0) eqn:Ep; try discriminate. destruct (eonce s) eqn:Eo; try discriminate.
    injection H as <-. cbn [eonce set_thread]. now rewrite Eo.
  - (* ETimer *)
    destruct (gete t0 (ethreads s)) as [x0|] eqn:E0; [|discriminate].
    destruct (e_kind x0) eqn:Ek; try discriminate;
      destruct (e_pc x0) eqn:Ep; try discriminate; injection H as <-;
      cbn [eonce set_thread ethreads]; destruct (eonce s) as [|r|]; auto;
      destruct Hi as (x & G1 & G2 & G3);
      (destruct (N.eq_dec t0 r) as [->|Hne];
       [ rewrite E0 in G1; injection G1 as <-; try congruence; eexists; rewrite gete_sete_same;
         cbn [e_kind e_pc]; repeat split; auto
       | exists x; rewrite gete_sete_other by assumption; repeat split; assumption ]).
  - injection H as <-. cbn [eonce ethreads]. exact Hi.
  - break_estep H. cbn [eonce ethreads]. exact Hi.
Qed.

Lemma once_inv_exec acts : forall s s', once_inv s -> eexec s acts = Some s' -> once_inv s'.
Proof.
  induction acts as [|a r IH]; intros s s' Hi He; cbn [ShutdownEndpoint.eexec] in He.
  - now injection He as <-.
  - destruct (estep s a) as [s1|] eqn:E; [|discriminate].
    eapply IH; [|exact He]. eapply once_inv_step; eassumption.
Qed.

Theorem once_runner_on_its_way s r :
  ereachable g s -> eonce s = ORunning r ->
  exists x, gete r (ethreads s) = Some x /\ e_kind x = KClose /\
            (e_pc x = ESelect \/ e_pc x = EFinish).
Proof.
  intros [acts H] Ho. assert (Hi : once_inv s) by (eapply once_inv_exec; [|exact H]; exact I).
  unfold once_inv in Hi. now rewrite Ho in Hi.
Qed.

(** ** Every thread has an exit once the tunnel is gone *)

(** [can_exit]: the thread is enabled, or becomes enabled by its own timer. *)
Definition can_exit (s : estate) (t : N) : Prop :=
  eenabled g s t = true \/
  exists s', estep s (ETimer t) = Some s' /\ eenabled g s' t = true.

Theorem endpoint_threads_exit s t x :
  ereachable g s -> sdone s = true ->
  gete t (ethreads s) = Some x -> efinished x = false ->
  can_exit s t \/
  (e_pc x = EOnceWait /\ exists r, eonce s = ORunning r /\ r <> t /\ can_exit s r).
Proof.
  intros Hr Hs Hx Hf. unfold efinished in Hf.
  destruct (e_pc x) eqn:Ep; try discriminate.
  - left. left. unfold eenabled. now rewrite Hx, Ep.
  - (* waiting for the Once *)
    destruct (eonce s) as [|r|] eqn:Eo.
    + (* cannot be: somebody was running when this thread started to wait; kept simple *)
      right. exfalso.
      (* EOnceWait is only entered while ORunning, and ORunning only ends in ODone *)
      revert Hx Ep Eo. destruct Hr as [acts Hex]. revert Hex.
      assert (G : forall acts s0, (forall t x, gete t (ethreads s0) = Some x -> e_pc x = EOnceWait -> eonce s0 <> OFree) ->
                    forall s1, eexec s0 acts = Some s1 ->
                    forall t x, gete t (ethreads s1) = Some x -> e_pc x = EOnceWait -> eonce s1 <> OFree).
      { clear. induction acts as [|a r IH]; intros s0 H0 s1 He; cbn [ShutdownEndpoint.eexec] in He.
        - now injection He as <-.
        - destruct (estep s0 a) as [s2|] eqn:E; [|discriminate].
          apply (IH s2); [|exact He]. clear IH He s1.
          intros t x Hx Hp.
          destruct a as [t0 k|t0|t0 i|t0|t0|t0| |]; cbn [ShutdownEndpoint.estep] in E.
          + destruct (gete t0 (ethreads s0)) eqn:E0; [discriminate|]. injection E as <-.
            cbn [eonce set_thread ethreads] in *. destruct (N.eq_dec t0 t) as [->|Hne].
            * rewrite gete_sete_same in Hx. injection Hx as <-. cbn in Hp. destruct k; discriminate.
            * rewrite gete_sete_other in Hx by assumption. now apply (H0 t x).
          + destruct (gete t0 (ethreads s0)) as [x0|] eqn:E0; [|discriminate].
            destruct (e_kind x0); try discriminate. destruct (e_pc x0) eqn:Ep0; try discriminate.
            destruct (eonce s0) eqn:Eo; injection E as <-; cbn [eonce set_thread ethreads] in *;
              try rewrite Eo; try discriminate.
          + destruct (gete t0 (ethreads s0)) as [x0|] eqn:E0; [|discriminate].
            destruct (e_pc x0) eqn:Ep0; try discriminate.
            destruct (nth_error _ i) as [a|]; [|discriminate].
            destruct (earm_ready g s0 x0 a); [|discriminate]. injection E as <-.
            cbn [eonce set_thread ethreads] in *.
            destruct (N.eq_dec t0 t) as [->|Hne].
            * rewrite gete_sete_same in Hx. injection Hx as <-. cbn in Hp.
              destruct (e_kind x0); discriminate.
            * rewrite gete_sete_other in Hx by assumption.
              destruct (is_send a), (is_incoming_recv a); cbn [eonce ethreads] in *; now apply (H0 t x).
          + break_estep E. cbn [eonce set_thread]. discriminate.
          + destruct (gete t0 (ethreads s0)) as [x0|] eqn:E0; [|discriminate].
            destruct (e_pc x0); try discriminate. destruct (eonce s0) eqn:Eo; try discriminate.
            injection E as <-. cbn [eonce set_thread]. rewrite Eo. discriminate.
          + destruct (gete t0 (ethreads s0)) as [x0|] eqn:E0; [|discriminate].
            destruct (e_kind x0); try discriminate; destruct (e_pc x0) eqn:Ep0; try discriminate;
              injection E as <-; cbn [eonce set_thread ethreads] in *;
              (destruct (N.eq_dec t0 t) as [->|Hne];
               [ rewrite gete_sete_same in Hx; injection Hx as <-; cbn in Hp; discriminate
               | rewrite gete_sete_other in Hx by assumption; now apply (H0 t x) ]).
          + injection E as <-. cbn [eonce ethreads] in *. now apply (H0 t x).
          + break_estep E. cbn [eonce ethreads] in *. now apply (H0 t x). }
      intros Hex Hx Ep Eo. eapply (G acts einit); try eassumption.
      intros ? ? H. cbn in H. discriminate.
    + right. split; [reflexivity|]. exists r. split; [reflexivity|].
      destruct (once_runner_on_its_way s r Hr Eo) as (xr & G1 & G2 & G3).
      split.
      * intros ->. rewrite Hx in G1. injection G1 as <-. rewrite Ep in G3. destruct G3; discriminate.
      * left. destruct G3 as [G3|G3].
        -- eapply close_exits; try eassumption. now left.
        -- unfold eenabled. now rewrite G1, G3.
    + left. left. unfold eenabled. now rewrite Hx, Ep, Eo.
  - (* at the select *)
    left. destruct (e_kind x) eqn:Ek.
    + left. eapply accept_exits; try eassumption. now left.
    + left. eapply close_exits; try eassumption. now left.
    + right. apply (timer_fires_then_enabled s t x Hx); [congruence|assumption].
  - left. left. unfold eenabled. now rewrite Hx, Ep.
Qed.

End Proofs.
