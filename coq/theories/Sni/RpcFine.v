(** A finer-grained view of [transport.serve] and the reader than Sni/Rpc.v,
    to settle one question: can a reply be looked up BEFORE serve has
    recorded the call it answers?  (serve sends the request first and stores
    the call in [pending] afterwards; a fast peer's reply may reach the
    reader in between.)

    Here [ECall c true] of the coarse model is split into [FSend c] (the
    request is on the wire: from now on the peer may answer) and [FStore]
    (pending[c.id] = c), and [EReply f] into [FArrive f] (the reader has the
    frame and puts its fetch request on the pendingFetch channel) and
    [FServe] (serve takes the oldest fetch request and answers it).  What
    makes the window harmless is that both [FStore] and [FServe] are steps
    of the one serve goroutine: inside the select arm that sends, serve does
    not service fetches (frozen skeleton of transport.serve: the store
    follows the send in the same arm; fetches are a different arm of the
    same select).  In the model: [FServe] needs [in_send = None]. *)
From Coq Require Import List NArith Bool String.
From Verif Require Import Lib.Bytes Sni.Wire Sni.Rpc.
Import ListNotations.
Local Open Scope N_scope.

Inductive fevent :=
| FSend (c : pcall)       (* serve: took c off [calls], assigned the id, wrote the request *)
| FStore                  (* serve: recorded the call just sent in [pending] *)
| FArrive (f : bytes)     (* reader: has frame f, queues its fetch request *)
| FServe                  (* serve: services the oldest fetch request *)
| FOther (e : event).     (* any other event of the coarse model, by serve when idle *)

Record fstate := mkF {
  coarse : st;                 (* the coarse state, updated at FStore / FServe / FOther *)
  in_send : option pcall;      (* serve is between the send and the store of this call *)
  fetches : list bytes;        (* frames whose fetch request is queued *)
  sent : list N;               (* ghost: callers whose request is on the wire *)
  stored : list N              (* ghost: callers whose call has been recorded *)
}.

Definition finit : fstate := mkF init_st None [] [] [].

Section Fine.
Variable alloc_max idmod : N.

Definition is_call_event (e : event) : bool :=
  match e with ECall _ _ => true | EReply _ => true | _ => false end.

Definition fstep (s : fstate) (e : fevent) : option fstate :=
  match e with
  | FSend c =>
      match in_send s with
      | None => Some (mkF (coarse s) (Some c) (fetches s) (pc_caller c :: sent s) (stored s))
      | Some _ => None
      end
  | FStore =>
      match in_send s with
      | Some c => Some (mkF (step alloc_max idmod (coarse s) (ECall c true)) None (fetches s)
                            (sent s) (pc_caller c :: stored s))
      | None => None
      end
  | FArrive f => Some (mkF (coarse s) (in_send s) (fetches s ++ [f]) (sent s) (stored s))
  | FServe =>
      match in_send s, fetches s with
      | None, f :: r => Some (mkF (step alloc_max idmod (coarse s) (EReply f)) None r (sent s) (stored s))
      | _, _ => None
      end
  | FOther e =>
      match in_send s with
      | None => if is_call_event e then None
                else Some (mkF (step alloc_max idmod (coarse s) e) None (fetches s) (sent s) (stored s))
      | Some _ => None
      end
  end.

Fixpoint fexec (s : fstate) (tr : list fevent) : option fstate :=
  match tr with
  | [] => Some s
  | e :: r => match fstep s e with Some s' => fexec s' r | None => None end
  end.

(** The coarse history a fine execution amounts to: the call is recorded at
    [FStore], a reply is looked up at [FServe] (oldest fetch request first). *)
Fixpoint project (ins : option pcall) (fetchq : list bytes) (tr : list fevent) : list event :=
  match tr with
  | [] => []
  | FSend c :: r => project (Some c) fetchq r
  | FStore :: r =>
      match ins with Some c => ECall c true :: project None fetchq r | None => project None fetchq r end
  | FArrive f :: r => project ins (fetchq ++ [f]) r
  | FServe :: r => match fetchq with f :: q => EReply f :: project ins q r | [] => project ins [] r end
  | FOther e :: r => e :: project ins fetchq r
  end.

(** The fine execution computes exactly the coarse model's state on the
    projected history. *)
Lemma fine_refines_from tr : forall s s',
  fexec s tr = Some s' ->
  coarse s' = run_from alloc_max idmod (coarse s) (project (in_send s) (fetches s) tr).
Proof.
  induction tr as [|e r IH]; intros s s' H; cbn [fexec] in H.
  - injection H as <-. reflexivity.
  - destruct (fstep s e) as [s1|] eqn:E; [|discriminate].
    specialize (IH s1 s' H). rewrite IH. clear IH H.
    destruct e as [c| |f| |e]; cbn [fstep] in E; cbn [project].
    + destruct (in_send s); [discriminate|]. injection E as <-. reflexivity.
    + destruct (in_send s) as [c|]; [|discriminate]. injection E as <-. reflexivity.
    + injection E as <-. reflexivity.
    + destruct (in_send s); [discriminate|]. destruct (fetches s) as [|f q]; [discriminate|].
      injection E as <-. reflexivity.
    + destruct (in_send s); [discriminate|]. destruct (is_call_event e); [discriminate|].
      injection E as <-. reflexivity.
Qed.

Theorem fine_refines tr s :
  fexec finit tr = Some s -> coarse s = run alloc_max idmod (project None [] tr).
Proof. intros H. exact (fine_refines_from tr finit s H). Qed.

(** Between the send and the store serve is busy; otherwise every call whose
    request is on the wire has been recorded. *)
Definition send_inv (s : fstate) : Prop :=
  match in_send s with
  | None => sent s = stored s
  | Some c => sent s = pc_caller c :: stored s
  end.

Lemma send_inv_step s e s' : send_inv s -> fstep s e = Some s' -> send_inv s'.
Proof.
  unfold send_inv. intros Hi H.
  destruct e as [c| |f| |e]; cbn [fstep] in H; destruct (in_send s) as [c0|] eqn:Ein;
    try discriminate.
  - injection H as <-. cbn. now f_equal.
  - injection H as <-. cbn. assumption.
  - injection H as <-. cbn. first [assumption | now rewrite Ein].
  - injection H as <-. cbn. first [assumption | now rewrite Ein].
  - destruct (fetches s); [discriminate|]. injection H as <-. cbn. assumption.
  - destruct (is_call_event e); [discriminate|]. injection H as <-. cbn. assumption.
Qed.

Lemma send_inv_exec tr : forall s s', send_inv s -> fexec s tr = Some s' -> send_inv s'.
Proof.
  induction tr as [|e r IH]; intros s s' Hi H; cbn [fexec] in H.
  - now injection H as <-.
  - destruct (fstep s e) as [s1|] eqn:E; [|discriminate].
    eapply IH; [|exact H]. eapply send_inv_step; eassumption.
Qed.

(** A reply is never looked up before serve has recorded the call it
    answers: whenever serve services a fetch request, every call whose
    request has been written to the wire -- the only calls a peer can have
    answered -- is already in the table (or has been taken out of it again). *)
Theorem reply_never_before_pending tr s s' :
  fexec finit tr = Some s -> fstep s FServe = Some s' ->
  forall k, In k (sent s) -> In k (stored s).
Proof.
  intros H Hs k Hk.
  assert (Hi : send_inv s) by (eapply send_inv_exec; [|exact H]; reflexivity).
  unfold send_inv in Hi. cbn [fstep] in Hs.
  destruct (in_send s); [discriminate|]. cbn in Hi. now rewrite <- Hi.
Qed.

(** And the window exists: the reply can be AT the reader, its fetch request
    queued, while the call is not yet recorded -- it just cannot be serviced. *)
Theorem early_reply_waits c f :
  exists s, fexec finit [FSend c; FArrive f] = Some s /\
            fstep s FServe = None /\
            exists s1 s2, fstep s FStore = Some s1 /\ fstep s1 FServe = Some s2 /\
              coarse s2 = run alloc_max idmod [ECall c true; EReply f].
Proof.
  eexists. split; [reflexivity|]. split; [reflexivity|].
  eexists. eexists. split; [reflexivity|]. split; reflexivity.
Qed.

End Fine.
