(** Obligations of C04 on the skeleton regenerated from /repo's current
    source (Gen/TransportSkel.v): the configuration of the blocking model
    (Sni/Shutdown.v) is READ OFF the regenerated blocking points, and must be
    guarded; the functions the model's steps were written against have the
    frozen statement skeletons; the endpoint-side selects have an arm that is
    eventually ready. *)
From Coq Require Import List NArith Bool String.
From Verif Require Import Sni.SchedSkel Sni.Shutdown Sni.ShutdownEndpoint Sni.ShutdownCfg Gen.TransportSkel.
From Verif Require Import Sni.ShutdownClose.
Import ListNotations.
Local Open Scope string_scope.

(** Every blocking point of callers and reader has an arm on serveDone. *)
Lemma gen_cfg_guarded : guarded gen_cfg = true.
Proof. vm_compute. reflexivity. Qed.

(** The same, spelled out: which arms each select has. *)
Lemma gen_cfg_arms :
  enq_arms gen_cfg = [ARecv "ctx.Done()"; ARecv "tr.serveDone"; ASend "tr.calls"] /\
  wait_arms gen_cfg = [ARecv "ctx.Done()"; ARecv "done"; ARecv "tr.serveDone"] /\
  fsend_arms gen_cfg = [ASend "tr.pendingFetch"; ARecv "tr.serveDone"] /\
  frecv_arms gen_cfg = [ARecv "ch"; ARecv "tr.serveDone"] /\
  box_arms gen_cfg = [ARecv "ctx.Done()"; ARecv "b.closed"; ARecv "gone"; ARecv "b.ch"] /\
  calls_cap gen_cfg = 128%N /\ fetch_cap gen_cfg = 5%N.
Proof. vm_compute. repeat split. Qed.

(** handleMessage has exactly those two blocking points and call exactly one
    blocking select besides the non-blocking re-check of [done]. *)
Lemma gen_points_counted :
  List.length (points_of "transport.handleMessage" gen_transport_blocking) = 2%nat /\
  points_of "transport.call" gen_transport_blocking =
    [[ARecv "done"; ADefault]; [ARecv "ctx.Done()"; ARecv "done"; ARecv "tr.serveDone"]] /\
  List.length (points_of "transport.asyncCall" gen_transport_blocking) = 1%nat /\
  points_of "transport.shutdown" gen_transport_blocking = [[ARecv "ctx.Done()"; ARecv "tr.serveDone"]].
Proof. vm_compute. repeat split. Qed.

(** Tunnel operations run with a context that is never cancelled. *)
Lemma gen_tunnel_ctx_never : gen_tunnel_ctx = "context.TODO()".
Proof. reflexivity. Qed.

(** ** A select with an arm on a closed channel (or a timer) is ready *)

Definition select_ready (closed : string -> bool) (arms : list arm) : bool :=
  existsb (fun a => match a with ARecv ch => closed ch | ADefault => true | _ => false end) arms.

Lemma closed_arm_ready closed arms ch :
  has_arm (ARecv ch) arms = true -> closed ch = true -> select_ready closed arms = true.
Proof.
  intros H Hc. apply has_arm_In in H. unfold select_ready. apply existsb_exists.
  exists (ARecv ch). split; assumption.
Qed.

Definition first_point (fn : string) : list arm :=
  nth 0 (points_of fn gen_transport_blocking) [].

Definition last_point (fn : string) : list arm :=
  last (points_of fn gen_transport_blocking) [].

(** Endpoint side: Accept returns once the endpoint's serve loop has ended
    or the endpoint is closed; Close and sendAccept wait behind a timer;
    the side-connection mailbox waits behind the caller's context and its
    own closed channel. *)
Lemma gen_endpoint_guarded :
  has_arm (ARecv "p.serveDone") (first_point "Endpoint.Accept") = true /\
  has_arm (ARecv "p.closed") (first_point "Endpoint.Accept") = true /\
  has_arm (ARecv "timer.C") (first_point "Endpoint.Close") = true /\
  has_arm (ARecv "p.serveDone") (first_point "Endpoint.Close") = true /\
  has_arm (ARecv "timer.C") (first_point "Endpoint.sendAccept") = true /\
  has_arm (ARecv "p.closed") (first_point "Endpoint.sendAccept") = true /\
  has_arm (ARecv "ctx.Done()") (last_point "connMailBox.receive") = true /\
  has_arm (ARecv "b.closed") (last_point "connMailBox.receive") = true /\
  has_arm ADefault (first_point "connMailBox.deliver") = true /\
  has_arm (ARecv "tr.serveDone") (first_point "transport.shutdown") = true.
Proof. vm_compute. repeat split. Qed.

(** ** The frozen skeletons *)

Definition frozen_asyncCall : list string :=
  [ "0 if call.typ == msgShutdown";
      "1 decl var err = errAlreadyShutdown";
      "1 call tr.shutdownOnce.Do with closure";
      "2 close tr.shutdownSignal";
      "2 assign err = nil";
      "1 if err != nil";
      "2 return err";
      "0 else";
      "1 if tr.hasShutdown()";
      "2 return errAlreadyShutdown";
      "0 assign ex := newCallExchange(call)";
      "0 assign ctx := call.context";
      "0 select";
      "1 case ARecv ""ctx.Done()""";
      "2 return ctx.Err()";
      "1 case ARecv ""tr.serveDone""";
      "2 return io.ErrUnexpectedEOF";
      "1 case ASend ""tr.calls""";
      "0 return nil" ].

Lemma gen_asyncCall_frozen : skel_is gen_transport_skel "transport.asyncCall" frozen_asyncCall = true.
Proof. vm_compute. reflexivity. Qed.

Definition frozen_call : list string :=
  [ "0 assign done := make(chan struct{})";
      "0 decl var err error";
      "0 assign c := newTransportCall(ctx, t, req, resp)";
      "0 assign c.done = func";
      "1 assign err = e";
      "1 close done";
      "0 assign err := tr.asyncCall(c)";
      "0 if err != nil";
      "1 return err";
      "0 select";
      "1 case ARecv ""ctx.Done()""";
      "2 return ctx.Err()";
      "1 case ARecv ""done""";
      "1 case ARecv ""tr.serveDone""";
      "2 select";
      "3 case ARecv ""done""";
      "3 case ADefault";
      "4 return io.ErrUnexpectedEOF";
      "0 return err" ].

Lemma gen_call_frozen : skel_is gen_transport_skel "transport.call" frozen_call = true.
Proof. vm_compute. reflexivity. Qed.

Definition frozen_shutdown : list string :=
  [ "0 assign err := tr.call(ctx, msgShutdown, nil, nil)";
      "0 select";
      "1 case ARecv ""ctx.Done()""";
      "2 if err != nil";
      "3 return err";
      "2 return ctx.Err()";
      "1 case ARecv ""tr.serveDone""";
      "2 return err" ].

Lemma gen_shutdown_frozen : skel_is gen_transport_skel "transport.shutdown" frozen_shutdown = true.
Proof. vm_compute. reflexivity. Qed.

Definition frozen_hasShutdown : list string :=
  [ "0 select";
      "1 case ARecv ""tr.shutdownSignal""";
      "2 return true";
      "1 case ADefault";
      "2 return false" ].

Lemma gen_hasShutdown_frozen : skel_is gen_transport_skel "transport.hasShutdown" frozen_hasShutdown = true.
Proof. vm_compute. reflexivity. Qed.

Definition frozen_startShutdown : list string :=
  [ "0 go func";
      "1 assign ctx, cancel := context.WithTimeout(context.Background(), 3*time.Second)";
      "1 defer cancel()";
      "1 assign err := tr.shutdown(ctx)";
      "1 if err != nil" ].

Lemma gen_startShutdown_frozen : skel_is gen_transport_skel "transport.startShutdown" frozen_startShutdown = true.
Proof. vm_compute. reflexivity. Qed.

Definition frozen_newTunnel : list string :=
  [ "0 return &tunnel{ tr: tr, session: session, ctx: context.TODO(), }" ].

Lemma gen_newTunnel_frozen : skel_is gen_transport_skel "newTunnel" frozen_newTunnel = true.
Proof. vm_compute. reflexivity. Qed.

Definition frozen_tunnelClose : list string :=
  [ "0 assign req := &closeRequest{session: t.session}";
      "0 assign resp := new(closeResponse)";
      "0 assign err := t.tr.call(t.ctx, msgClose, req, resp)";
      "0 if err != nil";
      "1 return err";
      "0 return resp.err.toError()" ].

Lemma gen_tunnelClose_frozen : skel_is gen_transport_skel "tunnel.Close" frozen_tunnelClose = true.
Proof. vm_compute. reflexivity. Qed.

Definition frozen_clientClose : list string :=
  [ "0 assign ctx, cancel := context.WithTimeout(context.TODO(), 3*time.Second)";
      "0 defer cancel()";
      "0 assign err := c.tr.shutdown(ctx)";
      "0 call c.conn.Close()";
      "0 return err" ].

Lemma gen_clientClose_frozen : skel_is gen_transport_skel "endpointClient.Close" frozen_clientClose = true.
Proof. vm_compute. reflexivity. Qed.

Definition frozen_Accept : list string :=
  [ "0 select";
      "1 case ARecv ""p.incoming""";
      "2 return conn, nil";
      "1 case ARecv ""p.serveDone""";
      "2 if p.serveErr == nil";
      "3 return nil, io.EOF";
      "2 return nil, p.serveErr";
      "1 case ARecv ""p.closed""";
      "2 return nil, errEndpointClosed" ].

Lemma gen_Accept_frozen : skel_is gen_transport_skel "Endpoint.Accept" frozen_Accept = true.
Proof. vm_compute. reflexivity. Qed.

Definition frozen_EndpointClose : list string :=
  [ "0 assign err := errAlreadyClosed";
      "0 call p.closeOnce.Do with closure";
      "1 assign first := new(firstErr)";
      "1 call first.set(p.server.SendShutdownHint())";
      "1 assign timer := time.NewTimer(5 * time.Second)";
      "1 defer timer.Stop()";
      "1 select";
      "2 case ARecv ""timer.C""";
      "3 call first.set(errcode.TimeOutf(""graceful close timeout""))";
      "2 case ARecv ""p.serveDone""";
      "3 call first.set(p.serveErr)";
      "1 close p.closed";
      "1 call first.set(p.conn.Close())";
      "1 assign err = first.get()";
      "0 return err" ].

Lemma gen_EndpointClose_frozen : skel_is gen_transport_skel "Endpoint.Close" frozen_EndpointClose = true.
Proof. vm_compute. reflexivity. Qed.

Definition frozen_sendAccept : list string :=
  [ "0 assign timer := time.NewTimer(10 * time.Second)";
      "0 defer timer.Stop()";
      "0 select";
      "1 case ARecv ""timer.C""";
      "2 return errAcceptTimeout";
      "1 case ASend ""p.incoming""";
      "2 return nil";
      "1 case ARecv ""p.closed""";
      "2 return errEndpointClosed" ].

Lemma gen_sendAccept_frozen : skel_is gen_transport_skel "Endpoint.sendAccept" frozen_sendAccept = true.
Proof. vm_compute. reflexivity. Qed.

Definition frozen_EndpointServe : list string :=
  [ "0 assign p.serveErr = p.server.serve()";
      "0 close p.serveDone" ].

Lemma gen_EndpointServe_frozen : skel_is gen_transport_skel "Endpoint.serve" frozen_EndpointServe = true.
Proof. vm_compute. reflexivity. Qed.

Definition frozen_JoinConn : list string :=
  [ "0 decl var wg sync.WaitGroup";
      "0 defer wg.Wait()";
      "0 decl var closeOnce sync.Once";
      "0 assign closeAll = func";
      "1 call closeOnce.Do with closure";
      "2 call c1.Close()";
      "2 call c2.Close()";
      "0 defer closeAll()";
      "0 assign ctx, cancel := context.WithCancel(ctx)";
      "0 defer cancel()";
      "0 assign retErr := make(chan error, 3)";
      "0 call wg.Add(1)";
      "0 go func";
      "1 defer wg.Done()";
      "1 recv ctx.Done()";
      "1 send retErr";
      "1 call closeAll()";
      "0 decl var ioWait sync.WaitGroup";
      "0 assign join = func";
      "1 defer func";
      "2 call closeAll()";
      "2 call ioWait.Done()";
      "1 assign _, err := io.Copy(c1, c2)";
      "1 if err != nil";
      "2 send retErr";
      "0 call ioWait.Add(2)";
      "0 go join(c1, c2)";
      "0 go join(c2, c1)";
      "0 call ioWait.Wait()";
      "0 select";
      "1 case ARecv ""retErr""";
      "2 return err";
      "1 case ADefault";
      "2 return nil" ].

Lemma gen_JoinConn_frozen : skel_is gen_transport_skel "JoinConn" frozen_JoinConn = true.
Proof. vm_compute. reflexivity. Qed.

(** The side dial: Dial passes the transport's serveDone to the mailbox as [gone]. *)
Definition frozen_mailboxReceive : list string :=
  [ "0 select";
      "1 case ARecv ""ctx.Done()""";
      "2 return nil, ctx.Err()";
      "1 case ARecv ""b.closed""";
      "2 return nil, errcode.TimeOutf(""closed"")";
      "1 case ARecv ""gone""";
      "2 select";
      "3 case ARecv ""b.ch""";
      "4 return conn, nil";
      "3 case ADefault";
      "2 return nil, io.ErrUnexpectedEOF";
      "1 case ARecv ""b.ch""";
      "2 return conn, nil" ].

Lemma gen_mailboxReceive_frozen : skel_is gen_transport_skel "connMailBox.receive" frozen_mailboxReceive = true.
Proof. vm_compute. reflexivity. Qed.

Definition frozen_clientDial : list string :=
  [ "0 if !c.options.Siding";
      "1 assign req := &dialRequest{}";
      "1 assign resp := new(dialResponse)";
      "1 assign err := c.tr.call(ctx, msgDial, req, resp)";
      "1 if err != nil";
      "2 return nil, err";
      "1 if resp.err != nil";
      "2 return nil, resp.err";
      "1 return newTunnel(c.tr, resp.session), nil";
      "0 assign token, err := c.token()";
      "0 if err != nil";
      "1 return nil, errcode.Annotate(err, ""get side token"")";
      "0 call c.randMu.Lock()";
      "0 assign key := c.rand.Uint64()";
      "0 call c.randMu.Unlock()";
      "0 assign k := &sessionKey{ ID: c.ids.next(), Key: key, }";
      "0 assign box := c.office.newBox(k)";
      "0 defer box.discard()";
      "0 assign resp := new(dialResponse)";
      "0 if c.options.DialWithAddr";
      "1 assign req := &dialSide2Request{ session: k.ID, key: k.Key, token: token, tcpAddr: asAddr, }";
      "1 assign err := c.tr.call(ctx, msgDialSide2, req, resp)";
      "1 if err != nil";
      "2 return nil, err";
      "0 else";
      "1 assign req := &dialSideRequest{ session: k.ID, key: k.Key, token: token, }";
      "1 assign err := c.tr.call(ctx, msgDialSide, req, resp)";
      "1 if err != nil";
      "2 return nil, err";
      "0 if resp.err != nil";
      "1 return nil, resp.err";
      "0 return box.receive(ctx, c.tr.serveDone)" ].

Lemma gen_clientDial_frozen : skel_is gen_transport_skel "endpointClient.Dial" frozen_clientDial = true.
Proof. vm_compute. reflexivity. Qed.

(** ** The endpoint side *)

Lemma gen_ecfg_guarded : eguarded gen_ecfg = true.
Proof. vm_compute. reflexivity. Qed.

Lemma gen_ecfg_arms :
  accept_arms gen_ecfg = [ARecv "p.incoming"; ARecv "p.serveDone"; ARecv "p.closed"] /\
  close_arms gen_ecfg = [ARecv "timer.C"; ARecv "p.serveDone"] /\
  send_arms gen_ecfg = [ARecv "timer.C"; ASend "p.incoming"; ARecv "p.closed"].
Proof. vm_compute. repeat split. Qed.

Definition frozen_newEndpoint : list string :=
  [ "0 assign ep := &Endpoint{ conn: conn, addr: d.address(), server: newEndpointServer(conn, d, opt), serveDone: make(chan struct{}), incoming: make(chan net.Conn, 10), closed: make(chan struct{}), }";
      "0 call ep.server.setAccept(ep.sendAccept)";
      "0 go ep.serve()";
      "0 return ep" ].

Lemma gen_newEndpoint_frozen : skel_is gen_transport_skel "newEndpoint" frozen_newEndpoint = true.
Proof. vm_compute. reflexivity. Qed.

(** ** endpointClient.Close is bounded by its time-out (Sni/ShutdownClose.v)

    Every blocking point of transport.shutdown -- every select and every bare
    channel receive, on whatever path -- has an arm on the caller's context;
    endpointClient.Close and transport.startShutdown wait nowhere else; the
    context Close passes has a time-out and c.conn.Close() follows
    unconditionally ([gen_clientClose_frozen]). *)
Lemma gen_shutdown_points_timed : points_timed gen_clpoints = true.
Proof. vm_compute. reflexivity. Qed.

Lemma gen_close_waits_nowhere_else :
  points_of "endpointClient.Close" gen_transport_blocking = [] /\
  points_of "transport.startShutdown" gen_transport_blocking = [] /\
  gen_clpoints = [[ARecv "ctx.Done()"; ARecv "tr.serveDone"]].
Proof. vm_compute. repeat split. Qed.
