(** Proofs about the blocking model of the transport (Sni/Shutdown.v). *)
From Coq Require Import List NArith Bool String Lia.
From Verif Require Import Sni.SchedSkel Sni.Shutdown.
Import ListNotations.
Local Open Scope N_scope.

(** Split a hypothesis [step g s a = Some s'] along the matches of [step]. *)
Ltac break_step H :=
  repeat match type of H with
  | context [match ?e with _ => _ end] => let E := fresh "E" in destruct e eqn:E
  end; try discriminate; try (injection H as H; subst).

Lemma getc_setc_same c x l : getc c (setc c x l) = Some x.
Proof.
  induction l as [|[c' y] r IH]; cbn [setc getc].
  - now rewrite N.eqb_refl.
  - destruct (c =? c') eqn:E; cbn [getc]; rewrite ?N.eqb_refl, ?E; auto.
Qed.

Lemma getc_setc_other c c' x l : c <> c' -> getc c' (setc c x l) = getc c' l.
Proof.
  intros H. induction l as [|[k y] r IH]; cbn [setc getc].
  - destruct (c' =? c) eqn:E; [apply N.eqb_eq in E; congruence|reflexivity].
  - destruct (c =? k) eqn:E; cbn [getc].
    + apply N.eqb_eq in E. subst k.
      destruct (c' =? c) eqn:E2; [apply N.eqb_eq in E2; congruence|reflexivity].
    + destruct (c' =? k); [reflexivity|exact IH].
Qed.

Lemma mem_true c l : mem c l = true <-> In c l.
Proof.
  unfold mem. rewrite existsb_exists. split.
  - intros [x [Hx E]]. apply N.eqb_eq in E. now subst.
  - intros H. exists c. split; [assumption|apply N.eqb_refl].
Qed.

Lemma in_rem_other c c' l : c <> c' -> In c' l -> In c' (rem c l).
Proof.
  intros H. induction l as [|x r IH]; cbn [rem]; [tauto|].
  intros [->|Hin].
  - destruct (c =? c') eqn:E; [apply N.eqb_eq in E; congruence|now left].
  - destruct (c =? x); [now apply IH|right; now apply IH].
Qed.

Lemma in_rem c c' l : In c' (rem c l) -> In c' l.
Proof.
  induction l as [|x r IH]; cbn [rem]; [tauto|].
  destruct (c =? x); [intros H; right; now apply IH|].
  intros [H|H]; [now left|right; now apply IH].
Qed.

Section Proofs.
Variable g : cfg.

Notation step := (step g).
Notation exec := (exec g).

(** ** serveDone stays closed *)

Lemma serve_done_stable s a s' :
  step s a = Some s' -> serve s = SDone -> serve s' = SDone.
Proof.
  intros H Hs. destruct a; cbn [Shutdown.step] in H; break_step H;
    cbn [serve set_caller]; congruence.
Qed.

Lemma exec_done_stable acts : forall s s',
  exec s acts = Some s' -> serve s = SDone -> serve s' = SDone.
Proof.
  induction acts as [|a r IH]; intros s s' H Hs; cbn [Shutdown.exec] in H.
  - now injection H as <-.
  - destruct (step s a) as [s1|] eqn:E; [|discriminate].
    eapply IH; [exact H|]. eapply serve_done_stable; eassumption.
Qed.

(** ** A caller's own steps always take it forward; nobody else moves it *)

Lemma own_step_decreases s a s' c x :
  step s a = Some s' -> is_caller_step c a = true ->
  getc c (callers s) = Some x ->
  exists x', getc c (callers s') = Some x' /\
             (measure x' < measure x)%nat /\ c_closeall x' = c_closeall x /\ c_ctx x' = c_ctx x.
Proof.
  intros H Hc Hx.
  destruct a; cbn [is_caller_step] in Hc; try discriminate;
    apply N.eqb_eq in Hc; subst; cbn [Shutdown.step] in H; rewrite Hx in H; break_step H;
    eexists; (split; [cbn [callers set_caller]; apply getc_setc_same|]);
    unfold measure, with_pc; cbn [c_pc c_closeall c_ctx];
    repeat match goal with E : c_pc _ = _ |- _ => rewrite E end;
    repeat match goal with E : c_closeall _ = _ |- _ => rewrite E end;
    repeat split; try lia; destruct (c_closeall x); lia.
Qed.

Lemma other_step_keeps s a s' c x :
  step s a = Some s' -> is_caller_step c a = false ->
  getc c (callers s) = Some x ->
  exists x', getc c (callers s') = Some x' /\
             measure x' = measure x /\ c_closeall x' = c_closeall x /\ c_pc x' = c_pc x.
Proof.
  intros H Hc Hx.
  destruct a as [c0 k sd ca sf|c0 i|c0|c0|c0 i|c0 i|c0|c0|ok| | | | |c0 good|i|i| |];
    cbn [is_caller_step] in Hc; cbn [Shutdown.step] in H.
  - (* ANew *)
    destruct (getc c0 (callers s)) eqn:E; [discriminate|]. injection H as <-.
    exists x. cbn [callers set_caller].
    rewrite getc_setc_other; [repeat split; assumption|]. intros ->. congruence.
  - apply N.eqb_neq in Hc. break_step H; exists x; cbn [callers set_caller];
      rewrite getc_setc_other by congruence; repeat split; assumption.
  - break_step H; exists x; cbn [callers]; repeat split; assumption.
  - apply N.eqb_neq in Hc. break_step H; exists x; cbn [callers set_caller];
      rewrite getc_setc_other by congruence; repeat split; assumption.
  - apply N.eqb_neq in Hc. break_step H; exists x; cbn [callers set_caller];
      rewrite getc_setc_other by congruence; repeat split; assumption.
  - apply N.eqb_neq in Hc. break_step H; exists x; cbn [callers set_caller];
      rewrite getc_setc_other by congruence; repeat split; assumption.
  - apply N.eqb_neq in Hc. break_step H; exists x; cbn [callers set_caller];
      rewrite getc_setc_other by congruence; repeat split; assumption.
  - (* ACancel *)
    destruct (getc c0 (callers s)) as [y|] eqn:E; [|discriminate].
    destruct (c_ctx y); try discriminate. injection H as <-.
    cbn [callers set_caller]. destruct (N.eq_dec c0 c) as [->|Hne].
    + rewrite Hx in E. injection E as <-. eexists. rewrite getc_setc_same.
      split; [reflexivity|]. unfold measure. cbn [c_pc c_closeall]. repeat split.
    + exists x. rewrite getc_setc_other by assumption. repeat split; assumption.
  - break_step H; exists x; cbn [callers]; repeat split; assumption.
  - break_step H; exists x; cbn [callers]; repeat split; assumption.
  - break_step H; exists x; cbn [callers]; repeat split; assumption.
  - break_step H; exists x; cbn [callers]; repeat split; assumption.
  - break_step H; exists x; cbn [callers]; repeat split; assumption.
  - break_step H; exists x; cbn [callers]; repeat split; assumption.
  - break_step H; exists x; cbn [callers]; repeat split; assumption.
  - break_step H; exists x; cbn [callers]; repeat split; assumption.
  - break_step H; exists x; cbn [callers]; repeat split; assumption.
  - break_step H; exists x; cbn [callers]; repeat split; assumption.
Qed.

Fixpoint count_own (c : N) (acts : list action) : nat :=
  match acts with
  | [] => 0
  | a :: r => (if is_caller_step c a then 1 else 0) + count_own c r
  end.

(** However the other threads are scheduled, a caller that exists has
    returned (and, for closeAll, closed the front connection) after at most
    [measure] <= 4 of its own steps. *)
Theorem bounded_own_steps acts : forall s s' c x,
  exec s acts = Some s' -> getc c (callers s) = Some x ->
  exists x', getc c (callers s') = Some x' /\
             (measure x' + count_own c acts <= measure x)%nat.
Proof.
  induction acts as [|a r IH]; intros s s' c x H Hx; cbn [Shutdown.exec count_own] in *.
  - injection H as <-. exists x. split; [assumption|lia].
  - destruct (step s a) as [s1|] eqn:E; [|discriminate].
    destruct (is_caller_step c a) eqn:Ec.
    + destruct (own_step_decreases s a s1 c x E Ec Hx) as (x1 & G1 & G2 & _).
      destruct (IH s1 s' c x1 H G1) as (x' & G3 & G4). exists x'. split; [assumption|lia].
    + destruct (other_step_keeps s a s1 c x E Ec Hx) as (x1 & G1 & G2 & _).
      destruct (IH s1 s' c x1 H G1) as (x' & G3 & G4). exists x'. split; [assumption|lia].
Qed.

Lemma measure_zero_finished x : measure x = 0%nat <-> finished x = true.
Proof.
  unfold measure, finished. destruct (c_pc x); try (split; [lia|discriminate]).
  - destruct (c_closeall x); cbn; split; try lia; try discriminate; reflexivity.
  - split; reflexivity.
Qed.

(** ** Enabledness is witnessed by a step *)

Lemma existsb_nth {A} (f : A -> bool) l :
  existsb f l = true -> exists i a, nth_error l i = Some a /\ f a = true.
Proof.
  intros H. apply existsb_exists in H. destruct H as [a [Hin Hf]].
  apply In_nth_error in Hin. destruct Hin as [i Hi]. now exists i, a.
Qed.

Theorem enabled_has_step s c :
  caller_enabled g s c = true ->
  exists a s', is_caller_step c a = true /\ step s a = Some s'.
Proof.
  unfold caller_enabled. destruct (getc c (callers s)) as [x|] eqn:Hx; [|discriminate].
  destruct (c_pc x) eqn:Ep; intros H.
  - exists (ACheck c). cbn [Shutdown.step is_caller_step]. rewrite Hx, Ep, N.eqb_refl.
    destruct (c_sd x), (sigc s); eexists; split; reflexivity.
  - apply existsb_nth in H. destruct H as (i & a & Hi & Ha).
    exists (AEnq c i). cbn [Shutdown.step is_caller_step]. rewrite Hx, Ep, Hi, Ha, N.eqb_refl.
    destruct (is_send a); eexists; split; reflexivity.
  - apply existsb_nth in H. destruct H as (i & a & Hi & Ha).
    exists (AWait c i). cbn [Shutdown.step is_caller_step]. rewrite Hx, Ep, Hi, Ha, N.eqb_refl.
    destruct (c_side x && mem c (okc s) && negb (is_ctx_arm a)); eexists; split; reflexivity.
  - apply existsb_nth in H. destruct H as (i & a & Hi & Ha).
    exists (ABox c i). cbn [Shutdown.step is_caller_step]. rewrite Hx, Ep, Hi, Ha, N.eqb_refl.
    eexists; split; reflexivity.
  - exists (AFront c). cbn [Shutdown.step is_caller_step]. rewrite Hx, Ep, H, N.eqb_refl.
    eexists; split; reflexivity.
  - discriminate.
Qed.

(** ** After serve has exited nobody waits: the progress theorem *)

Hypothesis g_guarded : guarded g = true.

Lemma guarded_parts :
  In (ARecv "tr.serveDone") (enq_arms g) /\ In (ARecv "tr.serveDone") (wait_arms g) /\
  In (ARecv "tr.serveDone") (fsend_arms g) /\ In (ARecv "tr.serveDone") (frecv_arms g) /\
  In (ARecv "gone") (box_arms g).
Proof.
  unfold guarded in g_guarded. repeat (apply andb_prop in g_guarded as [g_guarded ?]).
  repeat split; now apply has_arm_In.
Qed.

Theorem no_stranded_caller s c x :
  serve s = SDone -> getc c (callers s) = Some x -> finished x = false ->
  caller_enabled g s c = true.
Proof.
  intros Hs Hx Hf. destruct guarded_parts as (He & Hw & _ & _ & Hb).
  unfold caller_enabled. rewrite Hx. unfold finished in Hf.
  destruct (c_pc x) eqn:Ep; try discriminate.
  - reflexivity.
  - apply existsb_exists. exists (ARecv "tr.serveDone"). split; [assumption|].
    cbn. now rewrite Hs.
  - apply existsb_exists. exists (ARecv "tr.serveDone"). split; [assumption|].
    cbn. now rewrite Hs.
  - apply existsb_exists. exists (ARecv "gone"). split; [assumption|].
    cbn. now rewrite Hs.
  - now destruct (c_closeall x).
Qed.

(** The same for the reader goroutine inside handleMessage. *)
Theorem no_stranded_reader s :
  serve s = SDone -> reader s <> RExit -> reader_enabled g s = true.
Proof.
  intros Hs Hr. destruct guarded_parts as (_ & _ & Hfs & Hfr & _).
  unfold reader_enabled. destruct (reader s) eqn:Er; try reflexivity; try congruence.
  - apply existsb_exists. exists (ARecv "tr.serveDone"). split; [assumption|].
    cbn. now rewrite Hs.
  - apply orb_true_iff. left.
    apply existsb_exists. exists (ARecv "tr.serveDone"). split; [assumption|].
    cbn. now rewrite Hs.
Qed.

(** Putting it together: once serveDone is closed, along any execution every
    caller is, at every point, finished or able to take a step, and it is
    finished after at most 4 of its own steps. *)
Theorem calls_return_bounded acts s s' c x :
  serve s = SDone -> exec s acts = Some s' -> getc c (callers s) = Some x ->
  exists x', getc c (callers s') = Some x' /\
    (finished x' = true \/ caller_enabled g s' c = true) /\
    (5 <= count_own c acts -> finished x' = true)%nat.
Proof.
  intros Hs He Hx.
  destruct (bounded_own_steps acts s s' c x He Hx) as (x' & G1 & G2).
  exists x'. split; [assumption|]. split.
  - destruct (finished x') eqn:Ef; [now left|right].
    eapply no_stranded_caller; try eassumption. eapply exec_done_stable; eassumption.
  - intros Hc. apply measure_zero_finished.
    assert (measure x <= 5)%nat by (unfold measure; destruct (c_pc x), (c_closeall x); lia).
    lia.
Qed.

End Proofs.

(** * Invariants of reachable states (any configuration) *)

Section Invariants.
Variable g : cfg.
Notation step := (Shutdown.step g).
Notation exec := (Shutdown.exec g).

Definition reader_holds (s : state) (c : N) : Prop := reader s = RHave (Some c) true.

Definition after_enqueue (p : cpc) : bool :=
  match p with CWait | CBox | CRet | CFront => true | _ => false end.

Record inv (s : state) : Prop := {
  (* serve's deferred loop has emptied the table before serveDone is closed *)
  i_pend : (serve s = SClosing \/ serve s = SDone) -> pend s = [];
  (* every call serve has taken is pending, completed, in the reader's hands,
     or was dropped by a mistyped reply *)
  i_taken : forall c, In c (taken s) ->
            In c (pend s) \/ In c (donec s) \/ reader_holds s c \/ In c (dropped s);
  (* a queued call's caller is past the enqueue point *)
  i_queue : forall c, In c (queue s) ->
            exists x, getc c (callers s) = Some x /\ after_enqueue (c_pc x) = true
}.

Lemma inv_init : inv init.
Proof. split; cbn; intros; try reflexivity; contradiction. Qed.

Lemma caller_pc_monotone s a s' c x :
  step s a = Some s' -> getc c (callers s) = Some x -> after_enqueue (c_pc x) = true ->
  exists x', getc c (callers s') = Some x' /\ after_enqueue (c_pc x') = true.
Proof.
  intros H Hx Hp. destruct (is_caller_step c a) eqn:Ec.
  - destruct a; cbn [is_caller_step] in Ec; try discriminate;
      apply N.eqb_eq in Ec; subst; cbn [Shutdown.step] in H; rewrite Hx in H; break_step H;
      try (rewrite E in Hp; discriminate);
      eexists; (split; [cbn [callers set_caller]; apply getc_setc_same|]); reflexivity.
  - destruct (other_step_keeps g s a s' c x H Ec Hx) as (x' & G1 & _ & _ & G4).
    exists x'. split; [assumption|]. now rewrite G4.
Qed.

Ltac same_inv Hp Ht Hq' :=
  split; cbn [serve pend taken donec dropped reader queue callers set_caller];
  unfold reader_holds; cbn [reader];
  [ first [assumption | intros [?|?]; congruence] | assumption | assumption ].

Lemma inv_step s a s' : inv s -> step s a = Some s' -> inv s'.
Proof.
  intros Hi H. pose proof Hi as [Hp Ht Hq].
  assert (Hq' : forall c, In c (queue s) ->
            exists x, getc c (callers s') = Some x /\ after_enqueue (c_pc x) = true).
  { intros c Hc. destruct (Hq c Hc) as (x & G1 & G2).
    eapply caller_pc_monotone; eassumption. }
  destruct a as [c0 k sd ca sf|c0 i|c0|c0|c0 i|c0 i|c0|c0|ok| | | | |c0 good|i|i| |];
    cbn [Shutdown.step] in H.
  - break_step H. same_inv Hp Ht Hq'.
  - break_step H; same_inv Hp Ht Hq'.
  - injection H as <-. same_inv Hp Ht Hq.
  - break_step H; same_inv Hp Ht Hq'.
  - (* AEnq *)
    break_step H.
    + split; cbn [serve pend taken donec dropped reader queue callers set_caller];
        unfold reader_holds; cbn [reader]; try assumption.
      intros c' Hc'. apply in_app_or in Hc'. destruct Hc' as [Hc'|[<-|[]]].
      * now apply Hq'.
      * eexists. rewrite getc_setc_same. split; reflexivity.
    + same_inv Hp Ht Hq'.
  - break_step H; same_inv Hp Ht Hq'.
  - break_step H. same_inv Hp Ht Hq'.
  - break_step H. same_inv Hp Ht Hq'.
  - (* ATake *)
    break_step H; split; cbn [serve pend taken donec dropped reader queue callers];
      unfold reader_holds; cbn [reader];
      try (intros [?|?]; congruence).
    all: try (intros c' Hc'; apply Hq; now right).
    all: intros c' [<-|Hc'];
      [ first [ left; now left | right; left; now left ]
      | destruct (Ht c' Hc') as [G|[G|[G|G]]];
        [ first [ now left
                | left; destruct (N.eq_dec n c') as [->|Hne]; [now left|right; now apply in_rem_other] ]
        | first [ right; left; now right | right; now left ]
        | right; right; now left
        | right; right; now right ] ].
  - (* AFetch *)
    destruct (serve s) eqn:E; try discriminate.
    destruct (fetchq s) as [|c rest] eqn:E0; try discriminate.
    destruct (reader s) as [| |c1 good| |] eqn:E1; try discriminate.
    destruct (c =? c1) eqn:E2; [|discriminate]. injection H as <-.
    apply N.eqb_eq in E2. subst c1.
    split; cbn [serve pend taken donec dropped reader queue callers];
      unfold reader_holds; cbn [reader]; try assumption; try (intros [?|?]; congruence).
    intros c' Hc'. unfold reader_holds in Ht. rewrite E1 in Ht.
    destruct (Ht c' Hc') as [G|[G|[G|G]]]; try discriminate.
    + destruct (N.eq_dec c c') as [->|Hne].
      * apply mem_true in G. rewrite G. cbn [andb]. destruct good; cbn [negb].
        -- right; right; now left.
        -- right; right; right. now left.
      * left. now apply in_rem_other.
    + right; now left.
    + right; right; right. destruct (_ && _); [now right|assumption].
  - (* AReadErrS *)
    break_step H. same_inv Hp Ht Hq'.
  - (* AFail *)
    break_step H.
    split; cbn [serve pend taken donec dropped reader queue callers];
      unfold reader_holds; cbn [reader]; try assumption; try reflexivity.
    intros c' Hc'. destruct (Ht c' Hc') as [G|[G|[G|G]]].
    + right; left. apply in_or_app. now left.
    + right; left. apply in_or_app. now right.
    + right; right; now left.
    + right; right; now right.
  - (* ACloseDone *)
    break_step H.
    split; cbn [serve pend taken donec dropped reader queue callers];
      unfold reader_holds; cbn [reader]; try assumption.
    intros _. apply Hp. now left.
  - (* AFrame *)
    break_step H. split; cbn [serve pend taken donec dropped reader queue callers];
      unfold reader_holds in *; cbn [reader]; try assumption.
    intros c' Hc'. destruct (Ht c' Hc') as [G|[G|[G|G]]]; try tauto. rewrite E in G. discriminate.
  - (* ARSend *)
    break_step H; split; cbn [serve pend taken donec dropped reader queue callers];
      unfold reader_holds in *; cbn [reader]; try assumption;
      intros c' Hc'; destruct (Ht c' Hc') as [G|[G|[G|G]]]; try tauto; rewrite E in G; discriminate.
  - (* ARRecv *)
    break_step H; split; cbn [serve pend taken donec dropped reader queue callers];
      unfold reader_holds in *; cbn [reader]; try assumption;
      intros c' Hc'; destruct (Ht c' Hc') as [G|[G|[G|G]]]; try tauto; rewrite E in G; discriminate.
  - (* ARDone *)
    break_step H;
    split; cbn [serve pend taken donec dropped reader queue callers];
      unfold reader_holds in *; cbn [reader]; try assumption.
    all: intros c' Hc'; destruct (Ht c' Hc') as [G|[G|[G|G]]]; rewrite ?E in G;
      try (now left); try (right; left; now right); try (right; now left);
      try (right; right; now right); try discriminate.
    all: injection G as <-; right; left; now left.
  - (* AReaderStop *)
    break_step H; split; cbn [serve pend taken donec dropped reader queue callers];
      unfold reader_holds in *; cbn [reader]; try assumption;
      intros c' Hc'; destruct (Ht c' Hc') as [G|[G|[G|G]]]; try tauto; rewrite E in G; discriminate.
Qed.

Lemma inv_exec acts : forall s s', inv s -> exec s acts = Some s' -> inv s'.
Proof.
  induction acts as [|a r IH]; intros s s' Hi He; cbn [Shutdown.exec] in He.
  - now injection He as <-.
  - destruct (step s a) as [s1|] eqn:E; [|discriminate].
    eapply IH; [|exact He]. eapply inv_step; eassumption.
Qed.

Theorem reachable_inv s : reachable g s -> inv s.
Proof. intros [acts H]. eapply inv_exec; [apply inv_init|exact H]. Qed.

(** When serve has exited, its table is empty and every call it ever took
    has been completed, or is being completed by the reader, or was dropped
    by a mistyped reply. *)
Theorem serve_exit_fails_pending s c :
  reachable g s -> serve s = SDone ->
  pend s = [] /\
  (In c (taken s) -> In c (donec s) \/ reader_holds s c \/ In c (dropped s)).
Proof.
  intros H Hs. destruct (reachable_inv s H) as [Hp Ht _].
  assert (E : pend s = []) by (apply Hp; now right).
  split; [exact E|]. intros Hc. destruct (Ht c Hc) as [G|G]; [|assumption].
  rewrite E in G. destruct G.
Qed.

(** A call sitting in the queue when serve exits is not lost: its caller is
    at (or past) its own wait select, which -- in a guarded configuration --
    is enabled. *)
Theorem queued_calls_not_lost s c :
  guarded g = true -> reachable g s -> serve s = SDone -> In c (queue s) ->
  exists x, getc c (callers s) = Some x /\ after_enqueue (c_pc x) = true /\
            (finished x = true \/ caller_enabled g s c = true).
Proof.
  intros Hg H Hs Hc. destruct (reachable_inv s H) as [_ _ Hq].
  destruct (Hq c Hc) as (x & G1 & G2). exists x. repeat split; try assumption.
  destruct (finished x) eqn:Ef; [now left|right].
  eapply no_stranded_caller; eassumption.
Qed.

End Invariants.

(** * The pinned tree's shape strands a caller: a recorded counter-model *)

(** Connection lost while idle; serve exits; then closeAll's tunnel.Close
    (context.TODO()) finds shutdownSignal still open, enqueues, and waits. *)
Definition legacy_trace : list action :=
  [ ANew 1 CtxNever false true false; AReaderStop; AReadErrS; AFail; ACloseDone;
    ACheck 1; AEnq 1 1 ].

Definition stuck (s : state) (c : N) : Prop :=
  serve s = SDone /\ reader s = RExit /\
  getc c (callers s) = Some (mkCaller CtxNever CWait false true false) /\
  mem c (donec s) = false.

Lemma stuck_step s a s' c :
  stuck s c -> Shutdown.step legacy_cfg s a = Some s' -> stuck s' c.
Proof.
  intros (Hs & Hr & Hx & Hd) H. unfold stuck.
  destruct a; cbn [Shutdown.step] in H.
  all: try (rewrite Hs in H; discriminate).
  all: try (rewrite Hr in H; discriminate).
  - (* ANew *)
    destruct (getc c0 (callers s)) eqn:E; [discriminate|]. injection H as <-.
    cbn [serve reader callers donec set_caller]. repeat split; try assumption.
    rewrite getc_setc_other; [assumption|]. intros ->. congruence.
  - (* ABox *)
    destruct (N.eq_dec c0 c) as [->|Hne].
    + rewrite Hx in H. cbn in H. discriminate.
    + break_step H; cbn [serve reader callers donec set_caller]; repeat split; try assumption;
        rewrite getc_setc_other by assumption; assumption.
  - (* ADeliver *)
    injection H as <-. cbn [serve reader callers donec]. repeat split; assumption.
  - (* ACheck *)
    destruct (N.eq_dec c0 c) as [->|Hne].
    + rewrite Hx in H. cbn in H. discriminate.
    + break_step H; cbn [serve reader callers donec set_caller]; repeat split; try assumption;
        rewrite getc_setc_other by assumption; assumption.
  - (* AEnq *)
    destruct (N.eq_dec c0 c) as [->|Hne].
    + rewrite Hx in H. cbn in H. discriminate.
    + break_step H; cbn [serve reader callers donec set_caller]; repeat split; try assumption;
        rewrite getc_setc_other by assumption; assumption.
  - (* AWait *)
    destruct (N.eq_dec c0 c) as [->|Hne].
    + rewrite Hx in H. cbn [c_pc legacy_cfg wait_arms] in H.
      destruct i as [|[|i]]; cbn [nth_error] in H.
      * cbn in H. discriminate.
      * cbn [caller_arm_ready] in H. cbn in H. rewrite Hd in H. discriminate.
      * destruct i; discriminate.
    + break_step H; cbn [serve reader callers donec set_caller]; repeat split; try assumption;
        rewrite getc_setc_other by assumption; assumption.
  - (* AFront *)
    destruct (N.eq_dec c0 c) as [->|Hne].
    + rewrite Hx in H. cbn in H. discriminate.
    + break_step H; cbn [serve reader callers donec set_caller]; repeat split; try assumption;
        rewrite getc_setc_other by assumption; assumption.
  - (* ACancel *)
    destruct (N.eq_dec c0 c) as [->|Hne].
    + rewrite Hx in H. cbn in H. discriminate.
    + break_step H; cbn [serve reader callers donec set_caller]; repeat split; try assumption;
        rewrite getc_setc_other by assumption; assumption.
Qed.

Lemma stuck_exec acts : forall s s' c,
  stuck s c -> Shutdown.exec legacy_cfg s acts = Some s' -> stuck s' c.
Proof.
  induction acts as [|a r IH]; intros s s' c Hs He; cbn [Shutdown.exec] in He.
  - now injection He as <-.
  - destruct (Shutdown.step legacy_cfg s a) as [s1|] eqn:E; [|discriminate].
    eapply IH; [|exact He]. eapply stuck_step; eassumption.
Qed.

Lemma stuck_not_enabled s c : stuck s c -> caller_enabled legacy_cfg s c = false.
Proof.
  intros (Hs & Hr & Hx & Hd). unfold caller_enabled. rewrite Hx. cbn. now rewrite Hd.
Qed.

(** In the pinned tree's configuration there is a reachable state in which
    serve has exited and a closeAll thread waits; whatever any thread does
    from then on, it is never enabled again, so the front connection is
    never closed. *)
Theorem legacy_stranded :
  exists s, reachable legacy_cfg s /\ serve s = SDone /\
    forall s', reachable_from legacy_cfg s s' ->
      caller_enabled legacy_cfg s' 1 = false /\
      exists x, getc 1 (callers s') = Some x /\ c_pc x = CWait /\ c_closeall x = true.
Proof.
  destruct (Shutdown.exec legacy_cfg init legacy_trace) as [s0|] eqn:E; [|vm_compute in E; discriminate].
  exists s0. split; [now exists legacy_trace|].
  assert (Hst : stuck s0 1).
  { vm_compute in E. injection E as <-. repeat split. }
  split; [apply Hst|].
  intros s' [acts Ha]. pose proof (stuck_exec acts s0 s' 1 Hst Ha) as Hs'.
  split; [now apply stuck_not_enabled|].
  destruct Hs' as (_ & _ & Hx & _). eexists. split; [exact Hx|]. split; reflexivity.
Qed.

(** The reader too: after a failed write ended serve, a reply frame leaves
    the reader goroutine waiting for an answer that never comes. *)
Definition legacy_reader_trace : list action :=
  [ ANew 1 CtxOpen false false false; ACheck 1; AEnq 1 1; ATake false; AFail; ACloseDone;
    AFrame 7 true; ARSend 0 ].

Theorem legacy_reader_stranded :
  exists s, reachable legacy_cfg s /\ serve s = SDone /\
            reader s = RRecv 7 true /\ reader_enabled legacy_cfg s = false.
Proof.
  destruct (Shutdown.exec legacy_cfg init legacy_reader_trace) as [s0|] eqn:E;
    [|vm_compute in E; discriminate].
  exists s0. split; [now exists legacy_reader_trace|].
  vm_compute in E. injection E as <-. repeat split.
Qed.

(** * Liveness under weak fairness *)

Section Fair.
Variable g : cfg.
Hypothesis g_guarded : guarded g = true.

(** An infinite schedule; an action that is not enabled when its turn comes
    is skipped. *)
Definition step_or_stay (s : state) (a : action) : state :=
  match Shutdown.step g s a with Some s' => s' | None => s end.

Fixpoint run_n (sched : nat -> action) (s0 : state) (n : nat) : state :=
  match n with
  | O => s0
  | S k => step_or_stay (run_n sched s0 k) (sched k)
  end.

Definition caller_finished (s : state) (c : N) : bool :=
  match getc c (callers s) with Some x => finished x | None => false end.

Definition takes_step (sched : nat -> action) (s0 : state) (c : N) (m : nat) : Prop :=
  is_caller_step c (sched m) = true /\
  Shutdown.step g (run_n sched s0 m) (sched m) <> None.

(** Weak fairness towards caller [c]: again and again, [c] is finished, or
    is not enabled, or takes a step. *)
Definition fair (sched : nat -> action) (s0 : state) (c : N) : Prop :=
  forall n, exists m, (n <= m)%nat /\
    (caller_finished (run_n sched s0 m) c = true \/
     caller_enabled g (run_n sched s0 m) c = false \/
     takes_step sched s0 c m).

Lemma run_n_done sched s0 n : serve s0 = SDone -> serve (run_n sched s0 n) = SDone.
Proof.
  intros H. induction n as [|n IH]; cbn [run_n]; [exact H|].
  unfold step_or_stay. destruct (Shutdown.step g _ _) eqn:E; [|exact IH].
  eapply serve_done_stable; eassumption.
Qed.

Lemma run_n_measure sched s0 c : forall d n x,
  getc c (callers (run_n sched s0 n)) = Some x ->
  exists x', getc c (callers (run_n sched s0 (d + n)%nat)) = Some x' /\
             (measure x' <= measure x)%nat.
Proof.
  induction d as [|d IH]; intros n x Hx.
  - exists x. split; [exact Hx|lia].
  - destruct (IH n x Hx) as (x1 & G1 & G2). cbn [plus run_n]. unfold step_or_stay.
    destruct (Shutdown.step g (run_n sched s0 (d + n)%nat) (sched (d + n)%nat)) as [s'|] eqn:E.
    + destruct (is_caller_step c (sched (d + n)%nat)) eqn:Ec.
      * destruct (own_step_decreases g _ _ _ c x1 E Ec G1) as (x2 & H1 & H2 & _).
        exists x2. split; [assumption|lia].
      * destruct (other_step_keeps g _ _ _ c x1 E Ec G1) as (x2 & H1 & H2 & _).
        exists x2. split; [assumption|lia].
    + exists x1. split; [assumption|lia].
Qed.

(** After serve has exited, under weak fairness every caller finishes: its
    call returns and, for closeAll, the front connection is closed. *)
Theorem fair_caller_finishes sched s0 c x :
  serve s0 = SDone -> getc c (callers s0) = Some x -> fair sched s0 c ->
  exists n, caller_finished (run_n sched s0 n) c = true.
Proof.
  intros Hs Hx Hfair.
  assert (G : forall k n y, getc c (callers (run_n sched s0 n)) = Some y -> (measure y <= k)%nat ->
              exists m, caller_finished (run_n sched s0 m) c = true).
  { induction k as [|k IH]; intros n y Hy Hm.
    - exists n. unfold caller_finished. rewrite Hy. apply measure_zero_finished. lia.
    - destruct (Hfair n) as (m & Hnm & [Hf|[Hd|[Hc Hst]]]).
      + now exists m.
      + (* not enabled: impossible unless finished *)
        destruct (run_n_measure sched s0 c (m - n) n y Hy) as (y1 & G1 & G2).
        replace (m - n + n)%nat with m in G1 by lia.
        destruct (finished y1) eqn:Ef.
        * exists m. unfold caller_finished. now rewrite G1.
        * pose proof (no_stranded_caller g g_guarded _ c y1 (run_n_done sched s0 m Hs) G1 Ef).
          congruence.
      + (* takes a step: the measure drops *)
        destruct (run_n_measure sched s0 c (m - n) n y Hy) as (y1 & G1 & G2).
        replace (m - n + n)%nat with m in G1 by lia.
        destruct (Shutdown.step g (run_n sched s0 m) (sched m)) as [s'|] eqn:E; [|congruence].
        destruct (own_step_decreases g _ _ _ c y1 E Hc G1) as (y2 & H1 & H2 & _).
        apply (IH (S m) y2).
        * cbn [run_n]. unfold step_or_stay. now rewrite E.
        * lia. }
  apply (G (measure x) 0%nat x); [exact Hx|lia].
Qed.

End Fair.

(** * From the loss of the connection to serveDone *)

Section ServeExit.
Variable g : cfg.

(** Once the reader has reported the end of the connection (or serve has
    left its loop for any reason), serve's own remaining steps are always
    enabled and lead to serveDone being closed: at most three of them. *)
Theorem serve_exit_completes s :
  (serve s = SRun -> readerr s = true) ->
  exists acts s', Shutdown.exec g s acts = Some s' /\ serve s' = SDone /\ (List.length acts <= 3)%nat.
Proof.
  intros H. destruct (serve s) eqn:Es.
  - specialize (H eq_refl).
    exists [AReadErrS; AFail; ACloseDone]. cbn [Shutdown.exec Shutdown.step]. rewrite Es, H.
    cbn [serve Shutdown.exec Shutdown.step]. eexists. repeat split. cbn. lia.
  - exists [AFail; ACloseDone]. cbn [Shutdown.exec Shutdown.step]. rewrite Es.
    cbn [serve Shutdown.exec Shutdown.step]. eexists. repeat split. cbn. lia.
  - exists [ACloseDone]. cbn [Shutdown.exec Shutdown.step]. rewrite Es.
    eexists. repeat split. cbn. lia.
  - exists []. cbn. eexists. repeat split; [assumption|lia].
Qed.

(** Nobody but serve itself can take these steps away: readErr stays set and
    serve stays out of its loop whatever the other threads do. *)
Theorem serve_exit_stable s a s' :
  Shutdown.step g s a = Some s' ->
  a <> AReadErrS -> a <> AFail -> a <> ACloseDone -> (forall ok, a <> ATake ok) ->
  serve s' = serve s /\ (readerr s = true -> readerr s' = true).
Proof.
  intros H N1 N2 N3 N4.
  destruct a; try congruence; cbn [Shutdown.step] in H; break_step H;
    cbn [serve readerr set_caller]; try (split; [reflexivity|tauto]); try (split; [congruence|tauto]).
  all: try (exfalso; eapply N4; reflexivity).
Qed.

End ServeExit.

(** * The side dial in the pinned tree's shape *)

(** The dial call succeeds, then the control connection is lost before the
    side connection is delivered. *)
Definition legacy_side_trace : list action :=
  [ ANew 1 CtxNever false false true; ACheck 1; AEnq 1 1; ATake true;
    AFrame 1 true; ARSend 0; AFetch; ARDone; AWait 1 1;
    AReaderStop; AReadErrS; AFail; ACloseDone ].

Definition stuck_box (s : state) (c : N) : Prop :=
  serve s = SDone /\
  getc c (callers s) = Some (mkCaller CtxNever CBox false false true) /\
  mem c (delivered s) = false.

Lemma stuck_box_step s a s' c :
  stuck_box s c -> a <> ADeliver c ->
  Shutdown.step legacy_cfg s a = Some s' -> stuck_box s' c.
Proof.
  intros (Hs & Hx & Hd) Hna H. unfold stuck_box.
  destruct a as [c0 k sd ca sf|c0 i|c0|c0|c0 i|c0 i|c0|c0|ok| | | | |c0 good|i|i| |];
    cbn [Shutdown.step] in H.
  all: try (rewrite Hs in H; discriminate).
  - destruct (getc c0 (callers s)) eqn:E; [discriminate|]. injection H as <-.
    cbn [serve callers delivered set_caller]. repeat split; try assumption.
    rewrite getc_setc_other; [assumption|]. intros ->. congruence.
  - (* ABox *)
    destruct (N.eq_dec c0 c) as [->|Hne].
    + rewrite Hx in H. cbn [c_pc legacy_cfg box_arms] in H.
      destruct i as [|[|[|i]]]; cbn [nth_error] in H.
      * cbn in H. discriminate.
      * cbn in H. discriminate.
      * cbn [caller_arm_ready] in H. cbn in H. rewrite Hd in H. discriminate.
      * destruct i; discriminate.
    + break_step H; cbn [serve callers delivered set_caller]; repeat split; try assumption;
        rewrite getc_setc_other by assumption; assumption.
  - (* ADeliver *)
    injection H as <-. cbn [serve callers delivered]. repeat split; try assumption.
    cbn [mem existsb]. destruct (c =? c0) eqn:E; [|exact Hd].
    apply N.eqb_eq in E. subst. congruence.
  - destruct (N.eq_dec c0 c) as [->|Hne].
    + rewrite Hx in H. cbn in H. discriminate.
    + break_step H; cbn [serve callers delivered set_caller]; repeat split; try assumption;
        rewrite getc_setc_other by assumption; assumption.
  - destruct (N.eq_dec c0 c) as [->|Hne].
    + rewrite Hx in H. cbn in H. discriminate.
    + break_step H; cbn [serve callers delivered set_caller]; repeat split; try assumption;
        rewrite getc_setc_other by assumption; assumption.
  - destruct (N.eq_dec c0 c) as [->|Hne].
    + rewrite Hx in H. cbn in H. discriminate.
    + break_step H; cbn [serve callers delivered set_caller]; repeat split; try assumption;
        rewrite getc_setc_other by assumption; assumption.
  - destruct (N.eq_dec c0 c) as [->|Hne].
    + rewrite Hx in H. cbn in H. discriminate.
    + break_step H; cbn [serve callers delivered set_caller]; repeat split; try assumption;
        rewrite getc_setc_other by assumption; assumption.
  - destruct (N.eq_dec c0 c) as [->|Hne].
    + rewrite Hx in H. cbn in H. discriminate.
    + break_step H; cbn [serve callers delivered set_caller]; repeat split; try assumption;
        rewrite getc_setc_other by assumption; assumption.
  - break_step H; cbn [serve callers delivered]; repeat split; assumption.
  - break_step H; cbn [serve callers delivered]; repeat split; assumption.
  - break_step H; cbn [serve callers delivered]; repeat split; assumption.
  - break_step H; cbn [serve callers delivered]; repeat split; assumption.
  - break_step H; cbn [serve callers delivered]; repeat split; assumption.
Qed.

(** In the pinned tree's configuration the side dial waits for ever once the
    control connection is gone, unless the side connection still arrives. *)
Theorem legacy_side_dial_stranded :
  exists s, reachable legacy_cfg s /\ stuck_box s 1 /\
    caller_enabled legacy_cfg s 1 = false /\
    forall a s', a <> ADeliver 1 -> Shutdown.step legacy_cfg s a = Some s' ->
      stuck_box s' 1 /\ caller_enabled legacy_cfg s' 1 = false.
Proof.
  destruct (Shutdown.exec legacy_cfg init legacy_side_trace) as [s0|] eqn:E;
    [|vm_compute in E; discriminate].
  exists s0. split; [now exists legacy_side_trace|].
  assert (Hst : stuck_box s0 1).
  { vm_compute in E. injection E as <-. repeat split. }
  assert (Hne : forall s, stuck_box s 1 -> caller_enabled legacy_cfg s 1 = false).
  { intros s (Hs & Hx & Hd). unfold caller_enabled. rewrite Hx. cbn. now rewrite Hd. }
  split; [exact Hst|]. split; [now apply Hne|].
  intros a s' Ha Hstep. pose proof (stuck_box_step s0 a s' 1 Hst Ha Hstep) as H1.
  split; [exact H1|now apply Hne].
Qed.
