(** Blocking model of the endpoint side of a tunnel (sniproxy/endpoint.go):
    [Endpoint.Accept], [Endpoint.Close] (under its sync.Once, with the
    graceful-close timer) and [Endpoint.sendAccept] (with the accept timer),
    as threads of an interleaving semantics.  As in Sni/Shutdown.v the arms
    of the three selects are a parameter, read off the regenerated skeleton.
    A timer is a per-thread flag set by a nondeterministic "timer fires"
    step that is always enabled while the thread waits.

    Definitions only; proofs are in ShutdownEndpointProofs.v. *)
From Coq Require Import List NArith Bool String.
From Verif Require Import Sni.SchedSkel.
Import ListNotations.
Local Open Scope N_scope.

Record ecfg := mkECfg {
  accept_arms : list arm;     (* Endpoint.Accept *)
  close_arms : list arm;      (* Endpoint.Close, inside closeOnce.Do *)
  send_arms : list arm;       (* Endpoint.sendAccept *)
  incoming_cap : N            (* cap(p.incoming) *)
}.

Inductive ekind := KAccept | KClose | KSend.

Inductive epc :=
| EStart      (* Close: before closeOnce.Do; others: not used *)
| EOnceWait   (* Close: another Close is inside Do; sync.Once makes this one wait for it *)
| ESelect     (* at the select *)
| EFinish     (* Close: after the select: close(p.closed); p.conn.Close() *)
| ERet.       (* returned *)

Record ethread := mkEThread { e_kind : ekind; e_pc : epc; e_timer : bool }.

Inductive once := OFree | ORunning (t : N) | ODone.

Record estate := mkEState {
  sdone : bool;            (* p.serveDone closed: the endpoint's serve loop has returned *)
  eclosed : bool;          (* p.closed closed *)
  conn_closed : bool;      (* p.conn.Close() was called *)
  incoming : N;            (* len(p.incoming) *)
  eonce : once;            (* p.closeOnce *)
  ethreads : list (N * ethread)
}.

Definition einit : estate := mkEState false false false 0 OFree [].

Fixpoint gete (t : N) (l : list (N * ethread)) : option ethread :=
  match l with
  | [] => None
  | (t', x) :: r => if t =? t' then Some x else gete t r
  end.

Fixpoint sete (t : N) (x : ethread) (l : list (N * ethread)) : list (N * ethread) :=
  match l with
  | [] => [(t, x)]
  | (t', y) :: r => if t =? t' then (t, x) :: r else (t', y) :: sete t x r
  end.

Inductive eaction :=
| ENew (t : N) (k : ekind)     (* a goroutine calls Accept / Close / (the dial handler) sendAccept *)
| EOnce (t : N)                (* Close: enter closeOnce.Do (or find it done / busy) *)
| EArm (t : N) (i : nat)       (* arm i of the thread's select fires *)
| EFin (t : N)                 (* Close: close(p.closed); p.conn.Close(); Do returns *)
| EWake (t : N)                (* Close: the Do this one waited for has returned *)
| ETimer (t : N)               (* the thread's timer fires *)
| ETunnelGone                  (* the endpoint's serve loop returns: close(p.serveDone) *)
| ETake.                       (* an Accept elsewhere (or nobody): one connection leaves p.incoming *)

Section WithCfg.
Variable g : ecfg.
Local Open Scope string_scope.

Definition arms_of (k : ekind) : list arm :=
  match k with KAccept => accept_arms g | KClose => close_arms g | KSend => send_arms g end.

Definition earm_ready (s : estate) (x : ethread) (a : arm) : bool :=
  match a with
  | ARecv ch =>
      if String.eqb ch "p.serveDone" then sdone s
      else if String.eqb ch "p.closed" then eclosed s
      else if String.eqb ch "timer.C" then e_timer x
      else if String.eqb ch "p.incoming" then (0 <? incoming s)%N
      else false
  | ASend ch =>
      if String.eqb ch "p.incoming" then (incoming s <? incoming_cap g)%N else false
  | ADefault => true
  | AUnknown _ => false
  end.

Local Close Scope string_scope.

Definition set_thread (t : N) (x : ethread) (s : estate) : estate :=
  mkEState (sdone s) (eclosed s) (conn_closed s) (incoming s) (eonce s) (sete t x (ethreads s)).

Definition with_epc (x : ethread) (p : epc) : ethread := mkEThread (e_kind x) p (e_timer x).

Definition is_send (a : arm) : bool := match a with ASend _ => true | _ => false end.
Definition is_incoming_recv (a : arm) : bool :=
  match a with ARecv ch => String.eqb ch "p.incoming" | _ => false end.

Definition estep (s : estate) (a : eaction) : option estate :=
  match a with
  | ENew t k =>
      match gete t (ethreads s) with
      | Some _ => None
      | None =>
          Some (set_thread t (mkEThread k (match k with KClose => EStart | _ => ESelect end) false) s)
      end
  | EOnce t =>
      match gete t (ethreads s) with
      | Some x =>
          match e_kind x, e_pc x with
          | KClose, EStart =>
              match eonce s with
              | OFree =>     (* first.set(SendShutdownHint()); timer := NewTimer(5s); select *)
                  Some (set_thread t (with_epc x ESelect)
                          (mkEState (sdone s) (eclosed s) (conn_closed s) (incoming s) (ORunning t)
                                    (ethreads s)))
              | ORunning _ => Some (set_thread t (with_epc x EOnceWait) s)
              | ODone => Some (set_thread t (with_epc x ERet) s)      (* errAlreadyClosed *)
              end
          | _, _ => None
          end
      | None => None
      end
  | EArm t i =>
      match gete t (ethreads s) with
      | Some x =>
          match e_pc x, nth_error (arms_of (e_kind x)) i with
          | ESelect, Some a =>
              if earm_ready s x a then
                let s1 :=
                  if is_send a then
                    mkEState (sdone s) (eclosed s) (conn_closed s) (incoming s + 1) (eonce s) (ethreads s)
                  else if is_incoming_recv a then
                    mkEState (sdone s) (eclosed s) (conn_closed s) (incoming s - 1) (eonce s) (ethreads s)
                  else s in
                Some (set_thread t (with_epc x (match e_kind x with KClose => EFinish | _ => ERet end)) s1)
              else None
          | _, _ => None
          end
      | None => None
      end
  | EFin t =>
      match gete t (ethreads s) with
      | Some x =>
          match e_kind x, e_pc x with
          | KClose, EFinish =>
              Some (set_thread t (with_epc x ERet)
                      (mkEState (sdone s) true true (incoming s) ODone (ethreads s)))
          | _, _ => None
          end
      | None => None
      end
  | EWake t =>
      match gete t (ethreads s) with
      | Some x =>
          match e_pc x, eonce s with
          | EOnceWait, ODone => Some (set_thread t (with_epc x ERet) s)
          | _, _ => None
          end
      | None => None
      end
  | ETimer t =>
      match gete t (ethreads s) with
      | Some x =>
          match e_kind x, e_pc x with
          | KAccept, _ => None                         (* Accept has no timer *)
          | _, ESelect => Some (set_thread t (mkEThread (e_kind x) ESelect true) s)
          | _, _ => None
          end
      | None => None
      end
  | ETunnelGone =>
      Some (mkEState true (eclosed s) (conn_closed s) (incoming s) (eonce s) (ethreads s))
  | ETake =>
      if (0 <? incoming s)%N
      then Some (mkEState (sdone s) (eclosed s) (conn_closed s) (incoming s - 1) (eonce s) (ethreads s))
      else None
  end.

Fixpoint eexec (s : estate) (acts : list eaction) : option estate :=
  match acts with
  | [] => Some s
  | a :: r => match estep s a with Some s' => eexec s' r | None => None end
  end.

Definition ereachable (s : estate) : Prop := exists acts, eexec einit acts = Some s.

Definition efinished (x : ethread) : bool :=
  match e_pc x with ERet => true | _ => false end.

(** Can the thread take a step of its own right now? *)
Definition eenabled (s : estate) (t : N) : bool :=
  match gete t (ethreads s) with
  | Some x =>
      match e_pc x with
      | EStart => true
      | EOnceWait => match eonce s with ODone => true | _ => false end
      | ESelect => existsb (earm_ready s x) (arms_of (e_kind x))
      | EFinish => true
      | ERet => false
      end
  | None => false
  end.

Definition emeasure (x : ethread) : nat :=
  match e_pc x with
  | EStart => 4 | EOnceWait => 1 | ESelect => 2 | EFinish => 1 | ERet => 0
  end.

Definition is_own_step (t : N) (a : eaction) : bool :=
  match a with
  | EOnce t' | EArm t' _ | EFin t' | EWake t' => t =? t'
  | _ => false
  end.

End WithCfg.

Local Open Scope string_scope.

(** Every select has an exit that does not depend on anybody else. *)
Definition eguarded (g : ecfg) : bool :=
  has_arm (ARecv "p.serveDone") (accept_arms g) && has_arm (ARecv "p.closed") (accept_arms g) &&
  has_arm (ARecv "timer.C") (close_arms g) && has_arm (ARecv "p.serveDone") (close_arms g) &&
  has_arm (ARecv "timer.C") (send_arms g) && has_arm (ARecv "p.closed") (send_arms g).
