(** Proofs about [endpointClient.Close] (Sni/ShutdownClose.v). *)
From Coq Require Import List NArith Bool String Lia Arith.
From Verif Require Import Sni.SchedSkel Sni.ShutdownClose.
Import ListNotations.
Local Open Scope string_scope.

Definition wf_pc (points : list (list arm)) (s : clstate) : Prop :=
  match l_pc s with QPoint i => (i < List.length points)%nat | _ => True end.

Section Proofs.
Variable points : list (list arm).
Notation clstep := (clstep points).
Notation clexec := (clexec points).

Lemma after_point_wf i s : wf_pc points (with_lpc (after_point points i) s).
Proof.
  unfold wf_pc, after_point, with_lpc. cbn [l_pc].
  destruct (Nat.ltb (S i) (List.length points)) eqn:E; [now apply Nat.ltb_lt in E|exact I].
Qed.

Lemma after_point_measure i s :
  (i < List.length points)%nat ->
  (cl_measure points (with_lpc (after_point points i) s) < cl_measure points (with_lpc (QPoint i) s))%nat.
Proof.
  intros Hi. unfold cl_measure, after_point, with_lpc. cbn [l_pc].
  destruct (Nat.ltb (S i) (List.length points)) eqn:E; [apply Nat.ltb_lt in E|]; lia.
Qed.

(** The initial state, and every step, keep the program counter inside the list of points. *)
Lemma wf_step s a s' : wf_pc points s -> clstep s a = Some s' -> wf_pc points s'.
Proof.
  intros Hw H. destruct a as [| | |i j|i| |]; cbn [ShutdownClose.clstep] in H.
  - injection H as <-. exact Hw.
  - destruct (l_silent s); [discriminate|]. injection H as <-. exact Hw.
  - destruct (l_pc s); try discriminate.
    destruct (l_hint s || l_answered s || l_ctx s || l_sdone s); [|discriminate].
    injection H as <-. unfold wf_pc, with_lpc. cbn [l_pc]. destruct points; cbn; [exact I|lia].
  - destruct (l_pc s) as [|i'| |]; try discriminate. destruct (Nat.eqb i i'); [|discriminate].
    destruct (nth_error points i) as [arms|]; [|discriminate].
    destruct (nth_error arms j) as [a|]; [|discriminate].
    destruct (cl_arm_ready s a); [|discriminate]. injection H as <-. apply after_point_wf.
  - destruct (l_pc s) as [|i'| |]; try discriminate. destruct (Nat.eqb i i'); [|discriminate].
    injection H as <-. apply after_point_wf.
  - destruct (l_pc s); try discriminate. injection H as <-. exact I.
  - destruct (l_conn_closed s); [|discriminate]. injection H as <-. exact Hw.
Qed.

Hypothesis Htimed : points_timed points = true.

Lemma point_has_ctx i arms :
  nth_error points i = Some arms -> exists j, nth_error arms j = Some (ARecv "ctx.Done()").
Proof.
  intros H. unfold points_timed in Htimed. rewrite forallb_forall in Htimed.
  specialize (Htimed arms (nth_error_In _ _ H)). apply has_arm_In in Htimed.
  now apply In_nth_error.
Qed.

(** Once the time-out has expired, Close runs through to [c.conn.Close()] by
    its own steps alone -- whether or not the endpoint's hint came first,
    whether the peer answers or is silent, whatever else has happened -- in
    at most (number of blocking points + 2) steps. *)
Theorem close_reaches_conn_close : forall n s,
  wf_pc points s -> l_ctx s = true -> l_pc s <> QDone -> (cl_measure points s <= n)%nat ->
  exists acts s', forallb cl_own acts = true /\ (List.length acts <= n)%nat /\
    clexec s acts = Some s' /\ l_pc s' = QDone /\ l_conn_closed s' = true.
Proof.
  induction n as [|n IH]; intros s Hw Hc Hp Hm.
  - unfold cl_measure in Hm. destruct (l_pc s); try lia. congruence.
  - destruct (l_pc s) as [|i| |] eqn:Ep; [| | |congruence].
    + (* inside tr.call *)
      assert (E : clstep s QCallRet = Some (with_lpc (match points with [] => QConn | _ => QPoint 0 end) s)).
      { cbn [ShutdownClose.clstep]. rewrite Ep, Hc. now rewrite !orb_true_r. }
      destruct (IH (with_lpc (match points with [] => QConn | _ => QPoint 0 end) s))
        as (acts & s' & F & L & X & P & C).
      * unfold wf_pc, with_lpc. cbn [l_pc]. destruct points; cbn; [exact I|lia].
      * exact Hc.
      * unfold with_lpc. cbn [l_pc]. destruct points; discriminate.
      * unfold cl_measure in *. rewrite Ep in Hm. unfold with_lpc. cbn [l_pc].
        destruct points; cbn [List.length] in *; lia.
      * exists (QCallRet :: acts), s'. cbn [forallb cl_own ShutdownClose.clexec List.length]. rewrite E.
        repeat split; auto; lia.
    + (* at a blocking point *)
      assert (Hi : (i < List.length points)%nat) by (unfold wf_pc in Hw; now rewrite Ep in Hw).
      destruct (nth_error points i) as [arms|] eqn:En; [|apply nth_error_None in En; lia].
      destruct (point_has_ctx i arms En) as [j Hj].
      assert (E : clstep s (QArm i j) = Some (with_lpc (after_point points i) s)).
      { cbn [ShutdownClose.clstep]. rewrite Ep, Nat.eqb_refl, En, Hj. cbn [cl_arm_ready String.eqb Ascii.eqb Bool.eqb].
        now rewrite Hc. }
      pose proof (after_point_measure i s Hi) as M.
      assert (Es : with_lpc (QPoint i) s = s) by (destruct s; cbn in *; now subst).
      rewrite Es in M.
      destruct (IH (with_lpc (after_point points i) s)) as (acts & s' & F & L & X & P & C).
      * apply after_point_wf.
      * exact Hc.
      * unfold with_lpc, after_point. cbn [l_pc]. destruct (Nat.ltb _ _); discriminate.
      * lia.
      * exists (QArm i j :: acts), s'. cbn [forallb cl_own ShutdownClose.clexec List.length]. rewrite E.
        repeat split; auto; lia.
    + (* tr.shutdown has returned *)
      exists [QConnClose]. eexists. cbn [forallb cl_own ShutdownClose.clexec ShutdownClose.clstep List.length].
      rewrite Ep. repeat split; auto; lia.
Qed.

(** The time-out can always expire, and nothing takes it back. *)
Lemma timer_fires s : exists s', clstep s QTimer = Some s' /\ l_ctx s' = true /\ l_pc s' = l_pc s.
Proof. eexists. repeat split. Qed.

Lemma ctx_stable s a s' : clstep s a = Some s' -> l_ctx s = true -> l_ctx s' = true.
Proof.
  intros H Hc. destruct a as [| | |i j|i| |]; cbn [ShutdownClose.clstep] in H;
    repeat match type of H with
    | context [match ?e with _ => _ end] => destruct e
    end; try discriminate; injection H as <-; cbn [l_ctx with_lpc]; auto.
Qed.

(** Every Close reaches [c.conn.Close()] within the timer bound: from the
    start, for each of the four combinations {hint came first | not} x
    {peer answers | silent}: the time-out, then at most (points + 2) own steps. *)
Corollary close_bounded_from_start hint silent :
  exists acts s', (List.length acts <= List.length points + 3)%nat /\
    clexec (clinit hint silent) acts = Some s' /\ l_pc s' = QDone /\ l_conn_closed s' = true.
Proof.
  set (s1 := mkCl QCall true false hint false silent false).
  destruct (close_reaches_conn_close (List.length points + 2) s1) as (acts & s' & _ & L & X & P & C);
    [exact I|reflexivity|discriminate|unfold cl_measure; cbn; lia|].
  exists (QTimer :: acts), s'. cbn [ShutdownClose.clexec ShutdownClose.clstep List.length].
  unfold clinit. cbn [l_pc l_sdone l_hint l_answered l_silent l_conn_closed]. fold s1.
  repeat split; auto; lia.
Qed.

End Proofs.

(** ** A blocking point without the context (the seeded change C04-h)

    [tr.shutdown] with a bare [<-tr.serveDone] on the path taken when the
    call was refused: the hint came first, the peer is silent.  Close sits at
    that point for ever: serveDone closes only when the peer answers or the
    websocket is closed -- which is the step Close has not reached. *)
Definition untimed_points : list (list arm) :=
  [[ARecv "tr.serveDone"]; [ARecv "ctx.Done()"; ARecv "tr.serveDone"]].

Definition stuck_close (s : clstate) : Prop :=
  l_pc s = QPoint 0 /\ l_sdone s = false /\ l_conn_closed s = false /\ l_silent s = true.

Lemma stuck_close_step s a s' :
  stuck_close s -> a <> QSkip 0 -> clstep untimed_points s a = Some s' -> stuck_close s'.
Proof.
  intros (P & D & C & S) Ha H. unfold stuck_close.
  destruct a as [| | |i j|i| |]; cbn [clstep] in H.
  - injection H as <-. cbn. auto.
  - rewrite S in H. discriminate.
  - rewrite P in H. discriminate.
  - rewrite P in H. destruct i as [|i]; cbn [Nat.eqb] in H; [|discriminate].
    cbn [nth_error untimed_points] in H. destruct j as [|[|j]]; cbn [nth_error] in H; try discriminate.
    cbn [cl_arm_ready String.eqb Ascii.eqb Bool.eqb] in H. rewrite D in H. discriminate.
  - rewrite P in H. destruct i as [|i]; [congruence|]. cbn [Nat.eqb] in H. discriminate.
  - rewrite P in H. discriminate.
  - rewrite C in H. discriminate.
Qed.

Lemma stuck_close_exec acts : forall s s',
  stuck_close s -> ~ In (QSkip 0) acts -> clexec untimed_points s acts = Some s' -> stuck_close s'.
Proof.
  induction acts as [|a r IH]; intros s s' Hs Hn He; cbn [clexec] in He.
  - now injection He as <-.
  - destruct (clstep untimed_points s a) as [s1|] eqn:E; [|discriminate].
    apply (IH s1); [|intros Hin; apply Hn; now right|exact He].
    eapply stuck_close_step; [exact Hs| |exact E]. intros ->. apply Hn. now left.
Qed.

Theorem close_untimed_refuted :
  points_timed untimed_points = false /\
  exists s, clexec untimed_points (clinit true true) [QCallRet] = Some s /\ stuck_close s /\
    forall acts s', ~ In (QSkip 0) acts -> clexec untimed_points s acts = Some s' ->
      stuck_close s' /\ l_conn_closed s' = false.
Proof.
  split; [reflexivity|]. exists (with_lpc (QPoint 0) (clinit true true)). split; [reflexivity|].
  assert (S0 : stuck_close (with_lpc (QPoint 0) (clinit true true))) by (repeat split).
  split; [exact S0|].
  intros acts s' Hn He. pose proof (stuck_close_exec acts _ s' S0 Hn He) as Hs.
  split; [exact Hs|now destruct Hs as (_ & _ & C & _)].
Qed.
