(** Correspondence evaluators for C13: run the model on the inputs the
    harness fed to the implementation and compare with what it observed. *)
From Coq Require Import List NArith ZArith Bool String.
From Verif Require Import Lib.Bytes Sni.Wire Sni.WireChunks Sni.WireReader Sni.WireOwn Sni.WireGenDefs Gen.WireSchema.
Import ListNotations.
Local Open Scope N_scope.

Definition bytes_eqb (a b : bytes) : bool := list_eqb N.eqb a b.

Definition value_eqb (a b : value) : bool :=
  match a, b with
  | VU64 x, VU64 y => x =? y
  | VInt x, VInt y => (x =? y)%Z
  | VBytes x, VBytes y => bytes_eqb x y
  | VErr None, VErr None => true
  | VErr (Some (c, m)), VErr (Some (c', m')) => (c =? c')%Z && bytes_eqb m m'
  | _, _ => false
  end.

Definition err_code (e : option derr) : N :=
  match e with
  | None => 0 | Some EEof => 1 | Some (ETail _) => 2 | Some ETooLong => 3
  | Some EPanic => 4
  end.

Fixpoint repN (b : N) (n : nat) : bytes :=
  match n with O => [] | S n' => b :: repN b n' end.
Definition rep (b n : N) : bytes := repN b (N.to_nat n).

Definition kinds_match (sch : schema) (vs : list value) : bool :=
  (List.length sch =? List.length vs)%nat.

(** * Reader behaviours (round 3)

    How the harness's reader delivered the input, as a [reader] of
    Sni/WireChunks.v: 0 everything at once, EOF on the next call; 1 one byte
    per Read; 2 short reads (three bytes at a time); 3 everything at once
    TOGETHER with io.EOF; 4 zero-length reads in between; 5 at most seven
    bytes per Read; 6 one byte per Read, the last one together with io.EOF.
    By Sni/WireReader.v the result cannot depend on it; the evaluation below
    runs the reader-based model all the same, so that the reader behaviour
    is part of the replayed case. *)
Fixpoint chunks_of (fuel k : nat) (b : bytes) : list bytes :=
  match fuel with
  | O => [b]
  | S f => match b with
           | [] => []
           | _ => firstn k b :: chunks_of f k (skipn k b)
           end
  end.

Definition mk_reader (shape : N) (input : bytes) : reader N :=
  let n := List.length input in
  match shape with
  | 1 => mkR N (map (fun x => [x]) input) false
  | 2 => mkR N (chunks_of n 3 input) false
  | 3 => mkR N [input] true
  | 4 => mkR N ([] :: firstn (n / 2) input :: [] :: [] :: skipn (n / 2) input :: [[]]) false
  | 5 => mkR N (chunks_of n 7 input) false
  | 6 => mkR N (map (fun x => [x]) input) true
  | _ => mkR N [input] false
  end.

(** one held request as its holder reads it: error class, id, type, message, fields *)
Definition held_obs : Type := N * N * N * string * list value.

Definition held_eqb (r : call_result) (o : held_obs) : bool :=
  let '(e, id, t, name, vs) := o in
  match r with
  | CErr x => err_code (Some x) =? e
  | CUnknown i ty => (e =? 0) && (i =? id) && (ty =? t) && String.eqb name "" && list_eqb value_eqb [] vs
  | CReq i ty n fs => (e =? 0) && (i =? id) && (ty =? t) && String.eqb name n && list_eqb value_eqb fs vs
  end.

Fixpoint all2 {A B} (f : A -> B -> bool) (a : list A) (b : list B) : bool :=
  match a, b with
  | [], [] => true
  | x :: a', y :: b' => f x y && all2 f a' b'
  | _, _ => false
  end.

Inductive ccase :=
| CHold (frames : list bytes) (at_decode after : list held_obs)
| CDecS (shape : N) (name : string) (cap : N) (do_end : bool) (input : bytes)
        (exp_err exp_count : N) (exp_fields : list value) (impl_alloc : N)
| CStartS (shape : N) (input : bytes) (exp_err : N) (exp_id exp_typ : N) (exp_name : string)
          (exp_fields : list value) (impl_alloc : N)
| CEnc (name : string) (fields : list value) (expect : bytes)
| CEncReply (id typ ec : N) (name : string) (fields : list value) (expect : bytes)
| CDec (name : string) (cap : N) (do_end : bool) (input : bytes)
       (exp_err exp_count : N) (exp_fields : list value) (impl_alloc : N)
| CStart (input : bytes) (exp_err : N) (exp_id exp_typ : N) (exp_name : string)
         (exp_fields : list value) (impl_alloc : N)
| CReal (typ : N) (sent_name : string) (sent : list value)      (* the call the client was asked to make *)
        (input : bytes)                                          (* the frame the peer received from the real client *)
        (exp_err exp_id exp_typ : N) (exp_name : string) (exp_fields : list value) (impl_alloc : N)
                                                                 (* ... through the real startCall *)
        (rname : string) (cap : N) (reply : bytes)               (* the reply frame the peer sent *)
        (exp_rerr : N) (exp_rfields : list value)                (* what the caller got: 0 ok, 1 eof, 3 overflow, 5 no answer *)
| CHRead (maxRead : Z) (avail : N) (exp_crash : bool) (exp_n exp_code : N)
| CTRead (buflen replylen : N) (exp_ok : bool) (exp_n : N).

Definition alloc_agrees (impl model inlen : N) : bool :=
  impl <=? 2 * model + 2 * inlen + 32768.

Definition err_read_code : N :=
  match assoc_str "errRead" gen_err_codes with Some c => c | None => 0 end.

Definition check_case_with (schs : list (string * schema)) (tbl : request_table)
  (c : ccase) : bool :=
  match c with
  | CHold frames at_decode after =>
      (* decoded one after the other on one endpoint: what each decode returned, and what
         the holder of each request reads after ALL of them, under the buffer policy of the source *)
      all2 held_eqb (map (decode1 gen_alloc_max tbl) frames) at_decode &&
      all2 held_eqb (held_view gen_alloc_max tbl gen_write_buf frames) after
  | CDecS shape name cap do_end input exp_err exp_count exp_fields impl_alloc =>
      match assoc_str name schs with
      | Some sch =>
          let '(vs, s) := rdec_schema gen_alloc_max cap sch (rinit (mk_reader shape input)) in
          let d := abs (if do_end then rd_end s else s) in
          (err_code (err d) =? exp_err) && (cnt d =? exp_count) &&
          (if exp_err =? 0 then list_eqb value_eqb vs exp_fields else true) &&
          alloc_agrees impl_alloc (alloc d) (lenN input)
      | None => false
      end
  | CStartS shape input exp_err exp_id exp_typ exp_name exp_fields impl_alloc =>
      let '(r, s) := rstart_call gen_alloc_max tbl (mk_reader shape input) in
      alloc_agrees impl_alloc (rs_alloc s) (lenN input) &&
      match r with
      | CErr e => err_code (Some e) =? exp_err
      | CUnknown id t =>
          (exp_err =? 0) && (id =? exp_id) && (t =? exp_typ) &&
          String.eqb exp_name "" && list_eqb value_eqb [] exp_fields
      | CReq id t name vs =>
          (exp_err =? 0) && (id =? exp_id) && (t =? exp_typ) &&
          String.eqb exp_name name && list_eqb value_eqb vs exp_fields
      end
  | CEnc name vs expect =>
      match assoc_str name schs with
      | Some sch => kinds_match sch vs && bytes_eqb (enc_schema sch vs) expect
      | None => false
      end
  | CEncReply id typ ec name vs expect =>
      match assoc_str name schs with
      | Some sch =>
          kinds_match sch vs &&
          bytes_eqb (reply_frame id typ ec (enc_schema sch vs)) expect
      | None => false
      end
  | CDec name cap do_end input exp_err exp_count exp_fields impl_alloc =>
      match assoc_str name schs with
      | Some sch =>
          let '(vs, d) := dec_schema gen_alloc_max cap sch (init input) in
          let d := if do_end then d_end d else d in
          (err_code (err d) =? exp_err) && (cnt d =? exp_count) &&
          (if exp_err =? 0 then list_eqb value_eqb vs exp_fields else true) &&
          alloc_agrees impl_alloc (alloc d) (lenN input)
      | None => false
      end
  | CStart input exp_err exp_id exp_typ exp_name exp_fields impl_alloc =>
      let '(r, d) := start_call gen_alloc_max tbl input in
      alloc_agrees impl_alloc (alloc d) (lenN input) &&
      match r with
      | CErr e => err_code (Some e) =? exp_err
      | CUnknown id t =>
          (exp_err =? 0) && (id =? exp_id) && (t =? exp_typ) &&
          String.eqb exp_name "" && list_eqb value_eqb [] exp_fields
      | CReq id t name vs =>
          (exp_err =? 0) && (id =? exp_id) && (t =? exp_typ) &&
          String.eqb exp_name name && list_eqb value_eqb vs exp_fields
      end
  | CReal typ sent_name sent input exp_err exp_id exp_typ exp_name exp_fields impl_alloc rname cap reply
          exp_rerr exp_rfields =>
      (* the client put exactly the modelled request frame on the wire (first call: id 0) *)
      match assoc_str sent_name schs with
      | Some sch => kinds_match sch sent && bytes_eqb (request_frame 0 typ (enc_schema sch sent)) input
      | None => false
      end &&
      (* the server entry reads it back *)
      (let '(r, d) := start_call gen_alloc_max tbl input in
       alloc_agrees impl_alloc (alloc d) (lenN input) &&
       match r with
       | CErr e => err_code (Some e) =? exp_err
       | CUnknown id t =>
           (exp_err =? 0) && (id =? exp_id) && (t =? exp_typ) &&
           String.eqb exp_name "" && list_eqb value_eqb [] exp_fields
       | CReq id t name vs =>
           (exp_err =? 0) && (id =? exp_id) && (t =? exp_typ) &&
           String.eqb exp_name name && list_eqb value_eqb vs exp_fields
       end) &&
      (* the caller gets what the client-side decode of the reply frame gives
         (rname "": the caller was one of the package's own call sites, whose results the oracle reads) *)
      if String.eqb rname "" then true else
      match assoc_str rname schs with
      | Some rsch =>
          match client_decode gen_alloc_max cap rsch reply with
          | (HReply _ _, Some (vs, d)) =>
              match err d with
              | None => (exp_rerr =? 0) && list_eqb value_eqb vs exp_rfields
              | Some EEof => exp_rerr =? 1
              | Some ETooLong => exp_rerr =? 3
              | Some _ => false
              end
          | (HRemoteError _, _) => exp_rerr =? 1      (* the transport ends; the call is completed with eof *)
          | (HShort _, _) => exp_rerr =? 5            (* logged and ignored: no answer *)
          | (HReply _ _, None) => false
          end
      | None => false
      end
  | CHRead maxRead avail exp_crash exp_n exp_code =>
      match handle_read gen_max_read_size maxRead avail with
      | RPanic => exp_crash
      | RErrReply => negb exp_crash && (exp_n =? 0) && (exp_code =? err_read_code)
      | RRead _ n => negb exp_crash && (exp_n =? n) && (exp_code =? 0)
      end
  | CTRead buflen replylen exp_ok exp_n =>
      match tunnel_read_result buflen replylen with
      | Some n => exp_ok && (exp_n =? n)
      | None => negb exp_ok
      end
  end.

(** Against the layouts and tables of the current source: ties the
    hand-written primitive layer of the model to the code. *)
Definition check_case : ccase -> bool := check_case_with gen_schemas gen_table.

(** Against the frozen deployed protocol: a disagreement here is a frame that
    a peer in the field sends or expects and the current code treats
    differently. *)
Definition check_case_deployed : ccase -> bool :=
  check_case_with deployed_schemas deployed_table.

Fixpoint mismatches_from (f : ccase -> bool) (i : nat) (cs : list ccase) : list nat :=
  match cs with
  | [] => []
  | c :: r => if f c then mismatches_from f (S i) r
              else i :: mismatches_from f (S i) r
  end.

Definition mismatches (cs : list ccase) : list nat := mismatches_from check_case 0 cs.
Definition mismatches_deployed (cs : list ccase) : list nat :=
  mismatches_from check_case_deployed 0 cs.
