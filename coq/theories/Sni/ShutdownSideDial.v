(** The side dial handler of the endpoint ([endpointServer.handleDialSide2],
    [sideConn], [websocketDialer.dialSide]) as one more thread the serve
    loop's deferred [callWait.Wait()] has to join (Sni/ShutdownDial.v models
    the tunnelled handlers).

    The handler first dials its side websocket -- a TCP connect and an HTTP
    upgrade whose answer may never come -- and then offers the connection to
    the application through [sendAccept] (timer, [p.closed]).  What bounds
    the first step is a parameter read off the source: the context
    [sideConn] passes to [dialSide] has a deadline of its own, or it has not
    (then the bound, if any, is whatever the application's websocket dialer
    happens to be configured with).

    Definitions and proofs. *)
From Coq Require Import List NArith Bool String Lia.
Import ListNotations.

Inductive sdpc :=
| SDial      (* inside dialSide: waiting for the upgrade to be answered *)
| SOffer     (* inside sendAccept *)
| SFinished. (* handleDialSide2 has returned *)

Record sdstate := mkSD {
  sd_pc : sdpc;
  sd_answered : bool;    (* the proxy has answered the upgrade request *)
  sd_dial_timer : bool;  (* the deadline of the dial's context has passed *)
  sd_user_timer : bool;  (* the application's dialer has a handshake time-out and it has fired *)
  sd_accept_timer : bool (* sendAccept's timer has fired *)
}.

Inductive sdaction :=
| SDAnswer       (* the proxy answers (or refuses) the upgrade *)
| SDDialTimer    (* the deadline passes -- only if the context has one *)
| SDUserTimer    (* the application dialer's handshake time-out fires -- only if it has one *)
| SDDialRet      (* dialSide returns *)
| SDAcceptTimer
| SDOfferRet.    (* sendAccept returns *)

Section WithShape.
Variable ctx_deadline : bool.   (* sideConn dials under a context with a deadline *)
Variable user_timeout : bool.   (* the application's websocket dialer has a HandshakeTimeout *)

Definition sdstep (s : sdstate) (a : sdaction) : option sdstate :=
  match a with
  | SDAnswer => Some (mkSD (sd_pc s) true (sd_dial_timer s) (sd_user_timer s) (sd_accept_timer s))
  | SDDialTimer =>
      if ctx_deadline then Some (mkSD (sd_pc s) (sd_answered s) true (sd_user_timer s) (sd_accept_timer s)) else None
  | SDUserTimer =>
      if user_timeout then Some (mkSD (sd_pc s) (sd_answered s) (sd_dial_timer s) true (sd_accept_timer s)) else None
  | SDDialRet =>
      match sd_pc s with
      | SDial =>
          if sd_answered s then Some (mkSD SOffer true (sd_dial_timer s) (sd_user_timer s) (sd_accept_timer s))
          else if sd_dial_timer s || sd_user_timer s
          then Some (mkSD SFinished false (sd_dial_timer s) (sd_user_timer s) (sd_accept_timer s))   (* the dial failed *)
          else None
      | _ => None
      end
  | SDAcceptTimer => Some (mkSD (sd_pc s) (sd_answered s) (sd_dial_timer s) (sd_user_timer s) true)
  | SDOfferRet =>
      match sd_pc s with
      | SOffer => if sd_accept_timer s
                  then Some (mkSD SFinished (sd_answered s) (sd_dial_timer s) (sd_user_timer s) true) else None
      | _ => None
      end
  end.

Fixpoint sdexec (s : sdstate) (acts : list sdaction) : option sdstate :=
  match acts with
  | [] => Some s
  | a :: r => match sdstep s a with Some s' => sdexec s' r | None => None end
  end.

(** Steps that need the proxy. *)
Definition needs_proxy (a : sdaction) : bool := match a with SDAnswer => true | _ => false end.

End WithShape.

(** With a deadline on the dial's context the handler returns without the
    proxy's help and whatever dialer the application supplied: its own
    timers and at most two steps of its own, from every state. *)
Theorem side_handler_returns user_timeout s :
  sd_pc s <> SFinished ->
  exists acts s', forallb (fun a => negb (needs_proxy a)) acts = true /\ (List.length acts <= 4)%nat /\
    sdexec true user_timeout s acts = Some s' /\ sd_pc s' = SFinished.
Proof.
  intros Hp. destruct s as [pc ans dt ut at_]. destruct pc; [| |cbn in Hp; congruence].
  - destruct ans.
    + exists [SDDialRet; SDAcceptTimer; SDOfferRet]. eexists. cbn. repeat split; lia.
    + exists [SDDialTimer; SDDialRet]. eexists. cbn. repeat split; lia.
  - exists [SDAcceptTimer; SDOfferRet]. eexists. cbn. repeat split; lia.
Qed.

(** Without one (the seeded change C04-i), with an application dialer that
    has no handshake time-out and a proxy that never answers the upgrade:
    the handler is inside dialSide for ever. *)
Theorem side_dial_unbounded_refuted :
  let s0 := mkSD SDial false false false false in
  forall acts s', ~ In SDAnswer acts -> sdexec false false s0 acts = Some s' ->
    sd_pc s' = SDial /\ sd_answered s' = false.
Proof.
  cbv zeta. intros acts.
  assert (G : forall s, sd_pc s = SDial -> sd_answered s = false -> sd_dial_timer s = false ->
              sd_user_timer s = false ->
              forall s', ~ In SDAnswer acts -> sdexec false false s acts = Some s' ->
              sd_pc s' = SDial /\ sd_answered s' = false).
  { induction acts as [|a r IH]; intros s P A D U s' Hn He; cbn [sdexec] in He.
    - injection He as <-. auto.
    - destruct (sdstep false false s a) as [s1|] eqn:E; [|discriminate].
      assert (Hr : ~ In SDAnswer r) by (intros H; apply Hn; now right).
      destruct a; cbn [sdstep] in E; try discriminate.
      + exfalso. apply Hn. now left.
      + rewrite P, A, D, U in E. discriminate.
      + injection E as <-. eapply IH; [| | | | exact Hr|exact He]; assumption.
      + rewrite P in E. discriminate. }
  intros s'. apply G; reflexivity.
Qed.
