(** Obligations on what the translator regenerated from sniproxy/proxy.go,
    server.go, conn_mailbox.go, session_id.go, connections.go,
    endpoint_client.go, endpoint_server.go and side_conn.go
    (Gen/RouteConsts.v).  Each is decided by computation. *)
From Coq Require Import List NArith Bool String Lia.
From Verif Require Import Lib.Bytes Sni.Wire Sni.WireProofs Sni.WireGen Gen.WireSchema.
From Verif Require Import Sni.Route Sni.RouteProofs Gen.RouteConsts.
Import ListNotations.
Local Open Scope string_scope.

Lemma gen_rejected_steps_eq : gen_rejected_steps = deployed_rj_steps.
Proof. reflexivity. Qed.

Lemma gen_suffixes_eq : gen_rejected_suffixes = deployed_suffixes.
Proof. reflexivity. Qed.

(** isRejectedDomain is, statement for statement, the code the model
    interprets; in particular the suffix table is the deployed one. *)
Lemma gen_rejected_steps_deployed :
  list_eqb rj_step_eqb gen_rejected_steps deployed_rj_steps = true.
Proof. vm_compute. reflexivity. Qed.

Lemma gen_suffixes_deployed :
  list_eqb String.eqb gen_rejected_suffixes deployed_suffixes = true.
Proof. vm_compute. reflexivity. Qed.

(** Server.dial: in the emitted statements the lookup is followed at once by
    a guard that fires whenever the lookup returned an error - whatever the
    first result is - and returns a non-nil error.  This is the premise of
    [lookup_error_always_refuses]. *)
Lemma gen_dial_lookup_err_guarded : lookup_err_guarded gen_dial_steps = true.
Proof. vm_compute. reflexivity. Qed.

(** Server.dial is the statement sequence [decide] is the closed form of. *)
Lemma gen_dial_steps_deployed :
  list_eqb dial_step_eqb gen_dial_steps deployed_dial_steps = true.
Proof. vm_compute. reflexivity. Qed.

Lemma gen_dial_steps_eq : gen_dial_steps = deployed_dial_steps.
Proof. reflexivity. Qed.

(** The emitted statements of isRejectedDomain and Server.dial, interpreted,
    are the closed form: every theorem about [decide] is a theorem about the
    code as emitted. *)
Lemma gen_run_host_decide is_ip cfg sni :
  run_host is_ip gen_rejected_steps gen_dial_steps cfg sni
  = decide is_ip gen_rejected_suffixes cfg sni.
Proof.
  rewrite gen_rejected_steps_eq, gen_dial_steps_eq, gen_suffixes_eq.
  apply run_host_deployed.
Qed.

(** hostConn is, statement for statement, the code [run_front] was proved
    about. *)
Lemma gen_host_steps_deployed :
  list_eqb host_step_eqb gen_host_steps deployed_host_steps = true.
Proof. vm_compute. reflexivity. Qed.

Lemma gen_host_steps_eq : gen_host_steps = deployed_host_steps.
Proof. reflexivity. Qed.

Lemma gen_run_front is_ip cfg sniff dial_ok :
  run_front is_ip gen_rejected_steps gen_dial_steps cfg sniff dial_ok gen_host_steps hs0
  = FOut (front_spec is_ip gen_rejected_suffixes cfg sniff dial_ok).
Proof.
  rewrite gen_rejected_steps_eq, gen_dial_steps_eq, gen_suffixes_eq, gen_host_steps_eq.
  apply run_front_deployed.
Qed.

(** Every return of the emitted hostConn: the front connection is closed; it
    is joined to a destination only for a sniffed, not rejected name whose
    route selects a destination and whose dial succeeds; when the hello cannot
    be sniffed or the name is rejected the dialer is not called at all. *)
Lemma gen_front_outcomes is_ip cfg sniff dial_ok :
  exists o,
    run_front is_ip gen_rejected_steps gen_dial_steps cfg sniff dial_ok gen_host_steps hs0 = FOut o /\
    fo_front_closed o = true /\
    (fo_joined o = true <->
       exists name, sniff = Some name /\
                    served (decide is_ip gen_rejected_suffixes cfg name) = true /\ dial_ok = true) /\
    ((sniff = None \/ exists name, sniff = Some name /\ is_rejected is_ip gen_rejected_suffixes name = true) ->
       fo_dial o = None /\ fo_joined o = false) /\
    fo_remote_closed o = fo_joined o.
Proof.
  eexists. split; [apply gen_run_front|]. apply front_spec_props.
Qed.

(** NewServer keeps config.Lookup itself in s.lookup (the only value ever
    stored into a field of that name), nobody but Server.dial calls it, and
    Server.dial calls it once per call - in the source and in the emitted
    statements. *)
Lemma gen_lookup_store_direct :
  gen_lookup_store = LDirect /\
  list_eqb String.eqb gen_lookup_callers ["Server.dial"%string] = true /\
  gen_lookup_calls_in_dial = 1%nat /\
  lookup_steps gen_dial_steps = 1%nat.
Proof. repeat split. Qed.

(** Every dial of every history is routed by the lookup's answer and the
    registry at that dial - for the store and the statements emitted from the
    current source. *)
Lemma gen_routed_by_lookup_at_dial_time is_ip has_lk has_home evs lk reg :
  run_hist is_ip gen_lookup_store gen_rejected_steps gen_dial_steps has_lk has_home lk reg [] evs
  = spec_hist is_ip gen_rejected_suffixes has_lk has_home lk reg evs.
Proof.
  rewrite (proj1 gen_lookup_store_direct), gen_rejected_steps_eq, gen_dial_steps_eq, gen_suffixes_eq.
  apply routed_by_lookup_at_dial_time.
Qed.

Lemma gen_memo_server_refuted :
  let d := [100; 46; 99]%N in let a := [47; 97]%N in let b := [47; 98]%N in
  let reg := fun n : bytes => if beqb n a then Some 1%N else if beqb n b then Some 2%N else None in
  let none := fun _ : bytes => mkLk None true in
  run_hist (fun _ => false) LMemo gen_rejected_steps gen_dial_steps true false none reg [] (memo_history d a b)
    = [REndpoint 1 a; REndpoint 1 a; REndpoint 1 a] /\
  spec_hist (fun _ => false) gen_rejected_suffixes true false none reg (memo_history d a b)
    = [REndpoint 1 a; RLookupErr; REndpoint 2 b].
Proof. vm_compute. split; reflexivity. Qed.

(** NewServer copies what it needs out of its config parameter: the Server
    has no field of type *ServerConfig and nothing stores the parameter itself,
    so what the caller does with its ServerConfig value afterwards cannot
    change the routing ([lookup] in the model is a fixed function per server
    between EvLookup events, which are changes of the configured function's
    answers, not of the caller's struct). *)
Lemma gen_server_config_is_copied : gen_server_config_copied = true.
Proof. reflexivity. Qed.

(** Server.endpoint reads the registry by one map index on the name it is
    given; no scan, no normalisation. *)
Lemma gen_endpoint_lookup_exact : gen_endpoint_lookup = RegExactIndex.
Proof. reflexivity. Qed.

(** A folding registry lookup: only "team" is connected, the lookup answers
    "Team" - the exact table refuses, the folding one dials team's endpoint. *)
Lemma gen_folding_registry_refuted :
  let team := [116; 101; 97; 109]%N in let Team := [84; 101; 97; 109]%N in
  let l := [(team, 1%N)] in
  let lk := fun _ : bytes => mkLk (Some (mkDest Team false [])) false in
  decide (fun _ => false) gen_rejected_suffixes (mkCfg true lk false (reg_exact l)) [120]%N = RNotFound Team /\
  decide (fun _ => false) gen_rejected_suffixes (mkCfg true lk false (reg_folding lower l)) [120]%N = REndpoint 1 Team.
Proof. vm_compute. split; reflexivity. Qed.

(** A name for which the lookup returns an error - alone, or together with a
    destination - is refused by the emitted Server.dial. *)
Lemma gen_lookup_error_always_refuses cfg sni :
  has_lookup cfg = true ->
  lk_err (lookup cfg sni) = true ->
  refusal (run_dial cfg sni gen_dial_steps st0) = true /\
  served (run_dial cfg sni gen_dial_steps st0) = false /\
  endpoint_dials (run_dial cfg sni gen_dial_steps st0) = [].
Proof. exact (lookup_error_always_refuses gen_dial_steps cfg sni gen_dial_lookup_err_guarded). Qed.

(** hostConn: same calls in the same order; the rejection test comes before
    the one and only dial. *)
Fixpoint index_of (x : string) (l : list string) : option nat :=
  match l with
  | [] => None
  | y :: r => if String.eqb x y then Some O
              else match index_of x r with Some n => Some (S n) | None => None end
  end.

Definition count_of (x : string) (l : list string) : nat :=
  List.length (filter (String.eqb x) l).

Definition reject_before_dialb : bool :=
  match index_of "isRejectedDomain/1" gen_host_conn_calls,
        index_of "p.dialer.dial/3" gen_host_conn_calls,
        index_of "netutil.JoinConn/3" gen_host_conn_calls with
  | Some i, Some j, Some k =>
      Nat.ltb i j && Nat.ltb j k && Nat.eqb (count_of "p.dialer.dial/3" gen_host_conn_calls) 1
  | _, _, _ => false
  end.

Lemma gen_reject_before_dial : reject_before_dialb = true.
Proof. vm_compute. reflexivity. Qed.

Lemma gen_host_conn_calls_deployed :
  list_eqb String.eqb gen_host_conn_calls deployed_host_conn_calls = true.
Proof. vm_compute. reflexivity. Qed.

(** Lock skeleton: every access to connMailOffice.m, sessionID.id and
    connections.m / connections.closed lies in a method of its type, after
    `mu.Lock()` immediately followed by `defer mu.Unlock()`, in a body without
    go statements, function literals or further Lock/Unlock calls - so each
    of these methods is one atomic step (Sni/MailboxConc.v), and they are
    exactly the operations of the model. *)
Definition expected_locked_methods : list string :=
  [ "connMailOffice.deliver"; "connMailOffice.newBox"; "connMailOffice.remove";
    "connections.add"; "connections.get"; "connections.remove"; "connections.shutdown";
    "sessionID.next" ].

Lemma gen_lock_skeleton :
  gen_lock_violations = [] /\
  list_eqb String.eqb gen_locked_methods expected_locked_methods = true.
Proof. split; reflexivity. Qed.

(** The bodies the models of Sni/Mailbox.v and Sni/Route.v were written against. *)
Definition frozen_route_src : list (string * string) :=
  [ ("Server.endpoint", "{ s.mu.Lock() defer s.mu.Unlock() c, ok := s.endpoints[name] if !ok { return nil, errcode.NotFoundf(""not found"") } return c, nil }");
    ("endpointClient.Dial", "{ if !c.options.Siding { req := &dialRequest{} resp := new(dialResponse) if err := c.tr.call(ctx, msgDial, req, resp); err != nil { return nil, err } if resp.err != nil { return nil, resp.err } return newTunnel(c.tr, resp.session), nil } token, err := c.token() if err != nil { return nil, errcode.Annotate(err, ""get side token"") } k := &sessionKey{ ID: c.ids.next(), Key: c.rand.Uint64(), } box := c.office.newBox(k) defer box.cleanUp() resp := new(dialResponse) if c.options.DialWithAddr { req := &dialSide2Request{ session: k.ID, key: k.Key, token: token, tcpAddr: asAddr, } if err := c.tr.call(ctx, msgDialSide2, req, resp); err != nil { return nil, err } } else { req := &dialSideRequest{ session: k.ID, key: k.Key, token: token, } if err := c.tr.call(ctx, msgDialSide, req, resp); err != nil { return nil, err } } if resp.err != nil { return nil, resp.err } return box.receive(ctx) }");
    ("endpointClient.deliverSideConn", "{ return c.office.deliver(k, conn) }");
    ("connMailBox.match", "{ return b.key.ID == k.ID && b.key.Key == k.Key }");
    ("connMailBox.deliver", "{ select { case b.ch <- conn: default: } }");
    ("connMailBox.receive", "{ select { case <-ctx.Done(): return nil, ctx.Err() case <-b.closed: return nil, errcode.TimeOutf(""closed"") case conn := <-b.ch: return conn, nil } }");
    ("connMailBox.cleanUp", "{ b.Close() b.office.remove(b.key) }");
    ("connMailOffice.newBox", "{ o.mu.Lock() defer o.mu.Unlock() if cur, ok := o.m[k.ID]; ok { cur.Close() } b := &connMailBox{ key: k, office: o, ch: make(chan net.Conn, 1), closed: make(chan struct{}), } o.m[k.ID] = b return b }");
    ("connMailOffice.deliver", "{ o.mu.Lock() defer o.mu.Unlock() box, ok := o.m[k.ID] if !ok { return errcode.NotFoundf(""session not found"") } if !box.match(k) { return errcode.InvalidArgf(""key mismatch"") } box.deliver(conn) return nil }");
    ("connMailOffice.remove", "{ o.mu.Lock() defer o.mu.Unlock() box, ok := o.m[k.ID] if !ok { return } if box.match(k) { delete(o.m, k.ID) } }");
    ("sessionID.next", "{ id.mu.Lock() defer id.mu.Unlock() ret := id.id id.id++ return ret }");
    ("connections.add", "{ id := c.session() cs.mu.Lock() defer cs.mu.Unlock() if cs.closed { return errAlreadyShutdown } if _, found := cs.m[id]; found { return fmt.Errorf(""session id conflict: %d"", id) } cs.m[id] = c return nil }");
    ("connections.get", "{ cs.mu.Lock() defer cs.mu.Unlock() if cs.closed { return nil, errAlreadyShutdown } c, ok := cs.m[id] if !ok { return nil, errcode.NotFoundf(""session not found: %d"", id) } return c, nil }");
    ("connections.remove", "{ cs.mu.Lock() defer cs.mu.Unlock() if cs.closed { return errAlreadyShutdown } if _, found := cs.m[id]; !found { return errcode.NotFoundf(""session not found: %d"", id) } delete(cs.m, id) return nil }");
    ("connections.shutdown", "{ cs.mu.Lock() defer cs.mu.Unlock() if cs.closed { return nil } cs.closed = true return cs.m }");
    ("endpointServer.findSession", "{ c, err := s.conns.get(id) if err != nil { if errcode.IsNotFound(err) { return nil, newRemoteErr(errSessionNotFound, err) } return nil, newRemoteErr(errInternal, err) } return c, nil }");
    ("endpointServer.handleDialSide2", "{ if !s.options.Siding { return &dialResponse{ err: newRemoteErrString(errAccept, ""needs legacy dialing""), } } if s.acceptConn == nil { return &dialResponse{err: remoteErrNotAccepting} } k := &sessionKey{ID: req.session, Key: req.key} id := s.sessionID.next() resp := &dialResponse{session: id} conn, err := s.sideConn(req.token, k, req.tcpAddr) if err != nil { resp.err = newRemoteErr(errAccept, err) return resp } if err := s.acceptConn(conn); err != nil { conn.Close() resp.err = newRemoteErr(errAccept, err) return resp } return resp }");
    ("endpointServer.handleDialSide", "{ req2 := &dialSide2Request{ session: req.session, key: req.key, token: req.token, } return s.handleDialSide2(req2) }");
    ("newSideConn", "{ c := &sideConn{ Conn: conn, closed: make(chan struct{}), } if addr == """" { c.addr = conn.RemoteAddr() } else { c.addr = newSideConnAddr(addr) } return c }");
    ("sideConn.RemoteAddr", "{ return c.addr }") ].

Definition gen_route_src : list (string * string) :=
  [ ("Server.endpoint", gen_route_src_Server_endpoint);
    ("endpointClient.Dial", gen_route_src_endpointClient_Dial);
    ("endpointClient.deliverSideConn", gen_route_src_endpointClient_deliverSideConn);
    ("connMailBox.match", gen_route_src_connMailBox_match);
    ("connMailBox.deliver", gen_route_src_connMailBox_deliver);
    ("connMailBox.receive", gen_route_src_connMailBox_receive);
    ("connMailBox.cleanUp", gen_route_src_connMailBox_cleanUp);
    ("connMailOffice.newBox", gen_route_src_connMailOffice_newBox);
    ("connMailOffice.deliver", gen_route_src_connMailOffice_deliver);
    ("connMailOffice.remove", gen_route_src_connMailOffice_remove);
    ("sessionID.next", gen_route_src_sessionID_next);
    ("connections.add", gen_route_src_connections_add);
    ("connections.get", gen_route_src_connections_get);
    ("connections.remove", gen_route_src_connections_remove);
    ("connections.shutdown", gen_route_src_connections_shutdown);
    ("endpointServer.findSession", gen_route_src_endpointServer_findSession);
    ("endpointServer.handleDialSide2", gen_route_src_endpointServer_handleDialSide2);
    ("endpointServer.handleDialSide", gen_route_src_endpointServer_handleDialSide);
    ("newSideConn", gen_route_src_newSideConn);
    ("sideConn.RemoteAddr", gen_route_src_sideConn_RemoteAddr) ].

(** Bodies that are accepted as well: reviewed variants under which the
    models are unchanged.
    - connMailBox.receive with a [gone] channel (the control connection is
      lost): one more way for a receive to return without a connection; a
      connection it returns still comes out of its own box's channel.
    - endpointClient.Dial drawing the key under its own mutex before
      ids.next(): same (id, key) pair, the key stays an arbitrary value.
    - endpointClient.Dial deferring box.discard() instead of box.cleanUp():
      discard is cleanUp followed by closing a connection that was delivered
      but never received (C04, Sni/ShutdownSide.v: no delivery reaches a box
      once cleanUp has unmapped it); the office operations of a dial are the
      same, the connection closed is one nobody would ever have received. *)
Definition accepted_variants : list (string * string) :=
  [ ("endpointClient.Dial", "{ if !c.options.Siding { req := &dialRequest{} resp := new(dialResponse) if err := c.tr.call(ctx, msgDial, req, resp); err != nil { return nil, err } if resp.err != nil { return nil, resp.err } return newTunnel(c.tr, resp.session), nil } token, err := c.token() if err != nil { return nil, errcode.Annotate(err, ""get side token"") } c.randMu.Lock() key := c.rand.Uint64() c.randMu.Unlock() k := &sessionKey{ ID: c.ids.next(), Key: key, } box := c.office.newBox(k) defer box.discard() resp := new(dialResponse) if c.options.DialWithAddr { req := &dialSide2Request{ session: k.ID, key: k.Key, token: token, tcpAddr: asAddr, } if err := c.tr.call(ctx, msgDialSide2, req, resp); err != nil { return nil, err } } else { req := &dialSideRequest{ session: k.ID, key: k.Key, token: token, } if err := c.tr.call(ctx, msgDialSide, req, resp); err != nil { return nil, err } } if resp.err != nil { return nil, resp.err } return box.receive(ctx, c.tr.serveDone) }");
    ("connMailBox.receive", "{ select { case <-ctx.Done(): return nil, ctx.Err() case <-b.closed: return nil, errcode.TimeOutf(""closed"") case <-gone: select { case conn := <-b.ch: return conn, nil default: } return nil, io.ErrUnexpectedEOF case conn := <-b.ch: return conn, nil } }");
    ("endpointClient.Dial", "{ if !c.options.Siding { req := &dialRequest{} resp := new(dialResponse) if err := c.tr.call(ctx, msgDial, req, resp); err != nil { return nil, err } if resp.err != nil { return nil, resp.err } return newTunnel(c.tr, resp.session), nil } token, err := c.token() if err != nil { return nil, errcode.Annotate(err, ""get side token"") } c.randMu.Lock() key := c.rand.Uint64() c.randMu.Unlock() k := &sessionKey{ ID: c.ids.next(), Key: key, } box := c.office.newBox(k) defer box.cleanUp() resp := new(dialResponse) if c.options.DialWithAddr { req := &dialSide2Request{ session: k.ID, key: k.Key, token: token, tcpAddr: asAddr, } if err := c.tr.call(ctx, msgDialSide2, req, resp); err != nil { return nil, err } } else { req := &dialSideRequest{ session: k.ID, key: k.Key, token: token, } if err := c.tr.call(ctx, msgDialSide, req, resp); err != nil { return nil, err } } if resp.err != nil { return nil, resp.err } return box.receive(ctx, c.tr.serveDone) }") ].

Definition variant_ok (n x : string) : bool :=
  existsb (fun v => String.eqb (fst v) n && String.eqb (snd v) x) accepted_variants.

(** names of the functions whose body differs from the frozen one and from
    every accepted variant *)
Fixpoint src_diff (a b : list (string * string)) : list string :=
  match a, b with
  | (n, x) :: a', (_, y) :: b' =>
      if String.eqb x y || variant_ok n x then src_diff a' b' else n :: src_diff a' b'
  | [], [] => []
  | _, _ => ["(lists differ in length)"]
  end.

Lemma gen_route_src_frozen : src_diff gen_route_src frozen_route_src = [].
Proof. vm_compute. reflexivity. Qed.

(** * The front address on the wire (address-forwarding mode)

    endpointClient.Dial puts the front connection's address in
    dialSide2Request.tcpAddr; the endpoint decodes the request with the codec
    proved in C13 and hands req.tcpAddr to newSideConn.  For every address
    the decoded field is the address sent, and the accepted connection
    reports it. *)
Lemma gen_dial_side2_schema :
  gen_table 9%N = Some (Some ("dialSide2Request", [KU64; KU64; KStr; KStr])).
Proof. vm_compute. reflexivity. Qed.

Local Open Scope N_scope.

Theorem addr_forwarded id sess key tok front :
  id < two64 -> sess < two64 -> key < two64 ->
  lenN tok < two63 -> lenN front < two63 -> front <> [] ->
  fst (start_call gen_alloc_max gen_table
         (request_frame id 9
            (enc_schema [KU64; KU64; KStr; KStr]
               [VU64 sess; VU64 key; VBytes tok; VBytes (request_addr SidingAddr front)])))
  = CReq id 9 "dialSide2Request" [VU64 sess; VU64 key; VBytes tok; VBytes front]
  /\ accepted_remote_addr SidingAddr front = AGiven front.
Proof.
  intros Hid Hs Hk Ht Hf Hne. split.
  - apply (start_call_roundtrip gen_alloc_max gen_alloc_max_ok gen_table);
      [assumption|reflexivity|exact gen_dial_side2_schema|].
    repeat constructor; assumption.
  - now apply accepted_addr_forwarded.
Qed.
