(** sniproxy's wire decoder as it is written NOW (Gen/CodeSni.v: the methods
    [read], [u8], [u64], [bytes], [str], [end], [hasErr], [Err], [count],
    [overread], [tailError], [rest] of decoder.go, translated by gen/gotrans.go
    on every run) against the model Sni/Wire.v.

    The generated methods run over an abstract [io.Reader] (Lib/GoLib.v
    [go_reader]: any sequence of chunks, a chunk longer than the buffer spread
    over several reads, empty chunks, the last chunk possibly delivered
    together with [io.EOF]) and thread the receiver's fields [n], [err],
    [tail].  For EVERY such reader they return what the model computes from
    the bytes the reader holds: the value, the bytes left, the count, the
    sticky error.  In particular [end()] counts every trailing byte however it
    arrives.  Candidates and observations: CodeCandsWire.v. *)
From Coq Require Import String.
From Coq Require Import List NArith ZArith Bool Lia.
From Coq Require Import ZifyN ZifyNat ZifyBool.
From Verif Require Import Lib.Bytes Lib.Path Lib.GoLib Sni.Wire Sni.WireProofs Gen.CodeSni Sni.CodeCandsWire.
Import ListNotations.
Local Open Scope Z_scope.

(** * The reader model: what is read does not depend on the chunking *)

Lemma rd_fill_spec : forall (cs : list (list N)) (n : N) (flag : bool),
  let '(got, e, cs') := rd_fill cs n flag in
  got = firstn (N.to_nat n) (concat cs) /\ concat cs' = skipn (N.to_nat n) (concat cs).
Proof.
  induction cs as [|d cs IH]; intros n flag; cbn [rd_fill concat].
  - rewrite firstn_nil, skipn_nil. split; reflexivity.
  - destruct (N.eqb_spec n 0) as [->|Hn]; [cbn; split; reflexivity|].
    unfold lenNb. destruct (N.ltb_spec (N.of_nat (length d)) n) as [Hlt|Hge].
    + assert (E1 : firstn (N.to_nat n) (d ++ concat cs) = d ++ firstn (N.to_nat (n - N.of_nat (length d))) (concat cs)).
      { rewrite firstn_app. rewrite firstn_all2 by lia. f_equal. f_equal. lia. }
      assert (E2 : skipn (N.to_nat n) (d ++ concat cs) = skipn (N.to_nat (n - N.of_nat (length d))) (concat cs)).
      { rewrite skipn_app. rewrite skipn_all2 by lia. cbn [app]. f_equal. lia. }
      specialize (IH (n - N.of_nat (length d))%N flag).
      destruct cs as [|d2 cs2].
      * destruct flag.
        -- cbn [concat]. rewrite app_nil_r, firstn_all2, skipn_all2 by lia. split; reflexivity.
        -- destruct (rd_fill [] _ false) as [[acc e] r]. destruct IH as [-> ->]. rewrite E1, E2. split; reflexivity.
      * destruct (rd_fill (d2 :: cs2) _ flag) as [[acc e] r]. destruct IH as [-> ->]. rewrite E1, E2. split; reflexivity.
    + rewrite firstn_app, skipn_app.
      replace (N.to_nat n - length d)%nat with 0%nat by lia. cbn [firstn skipn]. rewrite app_nil_r. split; [reflexivity|].
      destruct (N.eqb_spec (N.of_nat (length d)) n) as [E|E].
      * rewrite skipn_all2 by lia. reflexivity.
      * reflexivity.
Qed.

Lemma rd_bytes_mk cs f : rd_bytes (mkReader cs f) = concat cs.
Proof. reflexivity. Qed.

Ltac wraps := unfold is_i64, is_u64, wrap_i64, wrap_u64, two63z, two64z in *.

(** * decoder.read *)

(** The decoder error is one of the model's (not the "other" class). *)
Definition derr_known (e : go_error) : Prop := derr_go 0 e <> Some EPanic.

Lemma read_run : forall (rd : go_reader) (n : Z) (e : go_error) (buf : list N),
  0 <= n -> n + go_len (rd_bytes rd) < two63z ->
  let '(got, d') := d_read (lenN buf) (dst rd n e) in
  exists (e' : go_error) (rd' : go_reader),
    gen_sniproxy_decoder_read rd n e buf = GoOk (n + go_len got, e', go_fill_buf buf got, rd') /\
    rd_bytes rd' = inp d' /\ cnt d' = Z.to_N (n + go_len got) /\ derr_go 0 e' = err d' /\
    go_len got + go_len (rd_bytes rd') = go_len (rd_bytes rd) /\
    (e <> None -> e' = e /\ rd' = rd /\ got = []).
Proof.
  intros rd n e buf Hn Hsz. unfold gen_sniproxy_decoder_read, d_read, dst.
  cbn [err inp cnt alloc].
  destruct e as [[k m]|].
  - cbn [go_isnil negb].
    assert (exists x, derr_go 0 (Some (GoErr k m)) = Some x) as [x Hx].
    { unfold derr_go. destruct (_ && _); [eauto|]. destruct (String.eqb k "tailError"); [eauto|]. destruct (_ && _); eauto. }
    rewrite Hx. exists (Some (GoErr k m)), rd. cbn [go_len length go_fill_buf skipn app inp cnt err].
    rewrite Z.add_0_r. repeat split; auto.
  - cbn [go_isnil negb derr_go]. unfold io_ReadFull.
    pose proof (rd_fill_spec (rd_chunks rd) (Z.to_N (go_len buf)) (rd_eof_with_last rd)) as S.
    destruct (rd_fill (rd_chunks rd) (Z.to_N (go_len buf)) (rd_eof_with_last rd)) as [[got ee] cs'].
    destruct S as [Hg Hc]. fold (rd_bytes rd) in Hg, Hc.
    unfold go_len in *. rewrite Z_N_nat, Nat2Z.id in Hg, Hc. cbv zeta.
    assert (Hlen : length got = Nat.min (length buf) (length (rd_bytes rd))) by (subst got; apply firstn_length).
    unfold lenN, lenNb.
    destruct (N.leb_spec (N.of_nat (length buf)) (N.of_nat (length (rd_bytes rd)))) as [Hle|Hgt].
    + rewrite Nat.min_l in Hlen by lia.
      rewrite <- (nat_N_Z (length buf)), N2Z.id.
      replace (N.of_nat (length got)) with (N.of_nat (length buf)) by (now rewrite Hlen). rewrite N.eqb_refl.
      cbn [opt_eqb go_isnil negb].
      rewrite (wrap_i64_small (Z.of_nat (length got))) by (wraps; lia).
      rewrite wrap_i64_small by (wraps; lia).
      rewrite Nat2N.id. rewrite <- Hg.
      exists None, (mkReader cs' (rd_eof_with_last rd)). cbn [inp cnt err derr_go]. rewrite rd_bytes_mk.
      repeat split; try congruence; try lia.
      rewrite Hc, skipn_length. lia.
    + rewrite Nat.min_r in Hlen by lia.
      rewrite <- (nat_N_Z (length buf)), N2Z.id.
      replace (N.of_nat (length got) =? N.of_nat (length buf))%N with false by lia.
      assert (Hall : got = rd_bytes rd) by (subst got; apply firstn_all2; lia).
      assert (Hrest : concat cs' = []) by (rewrite Hc; apply skipn_all2; lia).
      rewrite (wrap_i64_small (Z.of_nat (length got))) by (wraps; lia).
      rewrite wrap_i64_small by (wraps; lia).
      exists io_ErrUnexpectedEOF, (mkReader cs' (rd_eof_with_last rd)).
      cbn [inp cnt err]. rewrite rd_bytes_mk, Hrest, <- Hall.
      split.
      { destruct got as [|b0 bs];
          cbn [opt_eqb go_err_eqb io_EOF io_ErrUnexpectedEOF String.eqb Ascii.eqb Bool.eqb andb go_isnil negb];
          reflexivity. }
      repeat split; try congruence; try (cbn [length]; lia).
Qed.

(** * decoder.u64, decoder.u8 *)
Lemma go_slice_full {A} (l : list A) : go_slice l 0 (go_len l) = l.
Proof. rewrite go_slice_from by (pose proof (go_len_nonneg l); lia). reflexivity. Qed.

Lemma go_slice_ok_full {A} (l : list A) : go_slice_ok l 0 (go_len l) = true.
Proof. unfold go_slice_ok. pose proof (go_len_nonneg l). lia. Qed.

Lemma de_bytes_app_zeros a k : de_bytes (a ++ repeat 0%N k) = de_bytes a.
Proof.
  induction a as [|x a IH]; cbn [app de_bytes].
  - induction k as [|k IHk]; [reflexivity|]. cbn [repeat de_bytes]. rewrite IHk. reflexivity.
  - now rewrite IH.
Qed.

Lemma fill_zeros_len k got : (length got <= k)%nat -> length (go_fill_buf (repeat 0%N k) got) = k.
Proof. intros H. unfold go_fill_buf. rewrite app_length, skipn_length, repeat_length. lia. Qed.

Lemma fill_zeros k got : (length got <= k)%nat ->
  go_fill_buf (repeat 0%N k) got = got ++ repeat 0%N (k - length got).
Proof.
  intros H. unfold go_fill_buf. f_equal.
  replace k with (length got + (k - length got))%nat at 1 by lia.
  rewrite repeat_app, skipn_app, repeat_length, Nat.sub_diag.
  rewrite skipn_all2 by (rewrite repeat_length; lia). reflexivity.
Qed.

Lemma d_read_got_len n d : (lenN (fst (d_read n d)) <= n)%N.
Proof.
  unfold d_read. destruct (err d); [cbn; lia|].
  destruct (N.leb_spec n (lenN (inp d))); cbn [fst]; unfold lenN in *; [rewrite firstn_length|]; lia.
Qed.

Lemma u64_run : forall (rd : go_reader) (n : Z) (e : go_error),
  0 <= n -> n + go_len (rd_bytes rd) < two63z ->
  let '(v, d') := d_u64 (dst rd n e) in
  exists (n' : Z) (e' : go_error) (rd' : go_reader),
    gen_sniproxy_decoder_u64 rd n e = GoOk (Z.of_N v, n', e', rd') /\
    rd_bytes rd' = inp d' /\ cnt d' = Z.to_N n' /\ derr_go 0 e' = err d' /\
    0 <= n' /\ n' + go_len (rd_bytes rd') = n + go_len (rd_bytes rd) /\ (e <> None -> e' = e /\ rd' = rd /\ n' = n).
Proof.
  intros rd n e Hn Hsz. unfold gen_sniproxy_decoder_u64, gen_sniproxy_decoder_hasErr, d_u64.
  pose proof (read_run rd n e (repeat 0%N 8) Hn Hsz) as R.
  pose proof (d_read_got_len 8 (dst rd n e)) as L.
  change (lenN (repeat 0%N 8)) with 8%N in R.
  destruct e as [[k m]|].
  - cbn [go_isnil negb].
    assert (exists x, derr_go 0 (Some (GoErr k m)) = Some x) as [x Hx].
    { unfold derr_go. destruct (_ && _); [eauto|]. destruct (String.eqb k "tailError"); [eauto|]. destruct (_ && _); eauto. }
    unfold dst at 1. cbn [err]. rewrite Hx.
    exists n, (Some (GoErr k m)), rd. unfold dst. cbn [inp cnt err]. repeat split; auto.
  - cbn [go_isnil negb]. unfold dst at 1. cbn [err derr_go].
    change (go_make_bytes 8) with (repeat 0%N 8).
    change (go_slice_ok (repeat 0%N 8) 0 (go_len (repeat 0%N 8))) with true. cbv iota.
    change (go_slice (repeat 0%N 8) 0 (go_len (repeat 0%N 8))) with (repeat 0%N 8).
    destruct (d_read 8 (dst rd n None)) as [got d'] eqn:Ed. cbn [fst] in L.
    destruct R as (e' & rd' & E1 & E2 & E3 & E4 & E5 & _).
    rewrite E1. cbn [go_bind].
    assert (Hl : (length got <= 8)%nat) by (unfold lenN in L; lia).
    rewrite ?go_slice_ok_full, ?go_slice_full. cbn [andb].
    unfold go_len at 1. rewrite fill_zeros_len by exact Hl. cbn [Z.leb Z.compare Z.of_nat Pos.of_succ_nat Pos.succ Pos.compare Pos.compare_cont].
    unfold binary_LE_Uint64, go_len. rewrite fill_zeros_len by exact Hl.
    cbn [Z.leb Z.compare Z.of_nat Pos.of_succ_nat Pos.succ Pos.compare Pos.compare_cont].
    unfold de64. rewrite firstn_all2 by (rewrite fill_zeros_len by exact Hl; lia).
    rewrite fill_zeros by exact Hl. rewrite de_bytes_app_zeros.
    exists (n + go_len got), e', rd'. repeat split; auto; try (unfold go_len in *; lia); try congruence.
Qed.

Lemma u8_run : forall (rd : go_reader) (n : Z) (e : go_error),
  0 <= n -> n + go_len (rd_bytes rd) < two63z ->
  let '(v, d') := d_u8 (dst rd n e) in
  exists (n' : Z) (e' : go_error) (rd' : go_reader),
    gen_sniproxy_decoder_u8 rd n e = GoOk (Z.of_N v, n', e', rd') /\
    rd_bytes rd' = inp d' /\ cnt d' = Z.to_N n' /\ derr_go 0 e' = err d' /\
    0 <= n' /\ n' + go_len (rd_bytes rd') = n + go_len (rd_bytes rd).
Proof.
  intros rd n e Hn Hsz. unfold gen_sniproxy_decoder_u8, d_u8.
  pose proof (read_run rd n e (repeat 0%N 1) Hn Hsz) as R.
  pose proof (d_read_got_len 1 (dst rd n e)) as L.
  change (lenN (repeat 0%N 1)) with 1%N in R.
  change (go_make_bytes 1) with (repeat 0%N 1).
  change (go_slice_ok (repeat 0%N 1) 0 (go_len (repeat 0%N 1))) with true. cbv iota.
  change (go_slice (repeat 0%N 1) 0 (go_len (repeat 0%N 1))) with (repeat 0%N 1).
  destruct (d_read 1 (dst rd n e)) as [got d'] eqn:Ed. cbn [fst] in L.
  destruct R as (e' & rd' & E1 & E2 & E3 & E4 & E5 & _).
  rewrite E1. cbn [go_bind].
  assert (Hl : (length got <= 1)%nat) by (unfold lenN in L; lia).
  exists (n + go_len got), e', rd'.
  destruct got as [|b [|b2 r]]; [| |cbn [length] in Hl; lia];
    cbn [go_fill_buf length skipn repeat app go_index_ok go_len go_index Z.of_nat Z.leb Z.ltb Z.compare andb nth Z.to_nat de_bytes];
    rewrite ?N.mul_0_r, ?N.add_0_r; repeat split; auto; try (unfold go_len in *; cbn [length] in *; lia).
Qed.

(** * decoder.end: every byte the reader still delivers is counted — also
    those that arrive together with io.EOF — whatever the chunking. *)
Lemma rd_size_bytes rd : (length (rd_bytes rd) <= rd_size rd)%nat.
Proof.
  unfold rd_bytes, rd_size. induction (rd_chunks rd) as [|d cs IH]; cbn [concat fold_right length]; [lia|].
  rewrite app_length. lia.
Qed.

Lemma end_loop : forall (fuel : nat) (rd : go_reader) (buf : list N) (e : go_error) (tail : Z),
  (rd_size rd < fuel)%nat -> (1 <= length buf)%nat -> 0 <= tail -> tail + go_len (rd_bytes rd) < two63z ->
  exists rd',
    gen_sniproxy_decoder_end_loop1 fuel buf e rd tail
    = GoOk (gen_sniproxy_decoder_tailError (tail + go_len (rd_bytes rd)), tail + go_len (rd_bytes rd), rd') /\
    rd_bytes rd' = [].
Proof.
  induction fuel as [|fuel IH]; intros rd buf e tail Hf Hb Ht Hsz; [lia|].
  cbn [gen_sniproxy_decoder_end_loop1]. unfold rd_read.
  destruct rd as [cs flag]. cbn [rd_chunks rd_eof_with_last] in *.
  destruct cs as [|d cs].
  - (* script exhausted: (0, io.EOF) *)
    change (go_len (@nil N)) with 0. change (wrap_i64 0) with 0.
    change (rd_bytes {| rd_chunks := []; rd_eof_with_last := flag |}) with (@nil N) in *.
    change (go_len (@nil N)) with 0 in *.
    rewrite !Z.add_0_r in *. rewrite wrap_i64_small by (wraps; lia).
    cbn [opt_eqb go_err_eqb io_EOF String.eqb Ascii.eqb Bool.eqb andb].
    exists (mkReader [] flag). split; reflexivity.
  - replace (Z.to_nat (go_len buf)) with (length buf) by (unfold go_len; lia).
    assert (Hd : rd_bytes (mkReader (d :: cs) flag) = d ++ rd_bytes (mkReader cs flag)) by reflexivity.
    rewrite Hd in *. unfold go_len in Hsz. rewrite app_length in Hsz.
    destruct (Nat.leb_spec (length d) (length buf)) as [Hle|Hgt].
    + (* the whole chunk *)
      rewrite (wrap_i64_small (go_len d)) by (wraps; unfold go_len; lia).
      rewrite (wrap_i64_small (tail + go_len d)) by (wraps; unfold go_len; lia).
      destruct cs as [|d2 cs2].
      * destruct flag.
        -- (* data together with io.EOF *)
           cbn [opt_eqb go_err_eqb io_EOF String.eqb Ascii.eqb Bool.eqb andb].
           exists (mkReader [] true). unfold rd_bytes at 1 2. cbn [rd_chunks concat]. rewrite app_nil_r.
           split; reflexivity.
        -- cbn [opt_eqb go_isnil negb].
           assert (Hsz' : (rd_size (mkReader [] false) < fuel)%nat) by (unfold rd_size in *; cbn [rd_chunks fold_right] in *; lia).
           assert (Hlb : forall b', (1 <= length b')%nat ->
                     exists rd', gen_sniproxy_decoder_end_loop1 fuel b' e (mkReader [] false) (tail + go_len d)
                                 = GoOk (gen_sniproxy_decoder_tailError (tail + go_len d + go_len (rd_bytes (mkReader [] false))),
                                         tail + go_len d + go_len (rd_bytes (mkReader [] false)), rd') /\ rd_bytes rd' = []).
           { intros b' Hb'. apply IH; auto; unfold go_len in *; cbn [rd_bytes rd_chunks concat length] in *; lia. }
           unfold rd_bytes at 1 2. cbn [rd_chunks concat]. rewrite app_nil_r.
           change (go_len (rd_bytes (mkReader [] false))) with 0 in Hlb. setoid_rewrite Z.add_0_r in Hlb.
           destruct (go_len (go_fill_buf buf d) <=? 1).
           ++ change (go_make_ok 1024) with true. cbv iota. apply Hlb. unfold go_make_bytes. rewrite repeat_length. lia.
           ++ apply Hlb. unfold go_fill_buf. rewrite app_length, skipn_length. lia.
      * cbn [opt_eqb go_isnil negb].
        assert (Hlb : forall b', (1 <= length b')%nat ->
                  exists rd', gen_sniproxy_decoder_end_loop1 fuel b' e (mkReader (d2 :: cs2) flag) (tail + go_len d)
                              = GoOk (gen_sniproxy_decoder_tailError (tail + go_len d + go_len (rd_bytes (mkReader (d2 :: cs2) flag))),
                                      tail + go_len d + go_len (rd_bytes (mkReader (d2 :: cs2) flag)), rd') /\ rd_bytes rd' = []).
        { intros b' Hb'. apply IH; auto; unfold go_len in *; unfold rd_size in *; cbn [rd_chunks fold_right] in *; lia. }
        assert (Hsum : tail + go_len (d ++ rd_bytes (mkReader (d2 :: cs2) flag))
                       = tail + go_len d + go_len (rd_bytes (mkReader (d2 :: cs2) flag)))
          by (unfold go_len; rewrite app_length; lia).
        rewrite Hsum.
        destruct (go_len (go_fill_buf buf d) <=? 1).
        ++ change (go_make_ok 1024) with true. cbv iota. apply Hlb. unfold go_make_bytes. rewrite repeat_length. lia.
        ++ apply Hlb. unfold go_fill_buf. rewrite app_length, skipn_length. lia.
    + (* part of the chunk *)
      assert (Hfl : length (firstn (length buf) d) = length buf) by (rewrite firstn_length; lia).
      rewrite (wrap_i64_small (go_len (firstn (length buf) d))) by (wraps; unfold go_len; lia).
      rewrite (wrap_i64_small (tail + go_len (firstn (length buf) d))) by (wraps; unfold go_len; lia).
      cbn [opt_eqb go_isnil negb].
      assert (Hlb : forall b', (1 <= length b')%nat ->
                exists rd', gen_sniproxy_decoder_end_loop1 fuel b' e (mkReader (skipn (length buf) d :: cs) flag)
                              (tail + go_len (firstn (length buf) d))
                            = GoOk (gen_sniproxy_decoder_tailError (tail + go_len (firstn (length buf) d)
                                        + go_len (rd_bytes (mkReader (skipn (length buf) d :: cs) flag))),
                                    tail + go_len (firstn (length buf) d)
                                        + go_len (rd_bytes (mkReader (skipn (length buf) d :: cs) flag)), rd') /\ rd_bytes rd' = []).
      { intros b' Hb'. apply IH; auto.
        - unfold rd_size in *. cbn [rd_chunks fold_right] in *. rewrite skipn_length. lia.
        - unfold go_len. lia.
        - unfold go_len, rd_bytes, two63z in *. cbn [rd_chunks concat] in *.
          rewrite ?app_length, ?skipn_length, ?Hfl in *. lia. }
      assert (Hsum : tail + go_len (d ++ rd_bytes (mkReader cs flag))
                     = tail + go_len (firstn (length buf) d) + go_len (rd_bytes (mkReader (skipn (length buf) d :: cs) flag))).
      { unfold go_len, rd_bytes in *. cbn [rd_chunks concat] in *. rewrite ?app_length, ?skipn_length, ?Hfl in *. lia. }
      rewrite Hsum.
      destruct (go_len (go_fill_buf buf (firstn (length buf) d)) <=? 1).
      ++ change (go_make_ok 1024) with true. cbv iota. apply Hlb. unfold go_make_bytes. rewrite repeat_length. lia.
      ++ apply Hlb. unfold go_fill_buf. rewrite app_length, skipn_length. lia.
Qed.

Lemma end_counts_every_trailing_byte : forall (rd : go_reader),
  go_len (rd_bytes rd) < two63z ->
  exists rd',
    gen_sniproxy_decoder_end rd None 0
    = GoOk (gen_sniproxy_decoder_tailError (go_len (rd_bytes rd)), go_len (rd_bytes rd), rd') /\
    rd_bytes rd' = [].
Proof.
  intros rd H. unfold gen_sniproxy_decoder_end, gen_sniproxy_decoder_hasErr. cbn [go_isnil negb].
  change (go_make_bytes 1) with (repeat 0%N 1).
  change (go_slice_ok (repeat 0%N 1) 0 (go_len (repeat 0%N 1))) with true. cbv iota.
  change (go_slice (repeat 0%N 1) 0 (go_len (repeat 0%N 1))) with (repeat 0%N 1). cbv zeta.
  apply (end_loop (S (rd_size rd)) rd (repeat 0%N 1) None 0); [lia|cbn; lia|lia|lia].
Qed.

Lemma gen_end_is_model : forall (rd : go_reader) (e : go_error),
  go_len (rd_bytes rd) < two63z -> run_end rd e = model_end rd e.
Proof.
  intros rd e H. unfold run_end, model_end, d_end, dst. cbn [err inp cnt alloc].
  destruct e as [[k m]|].
  - unfold gen_sniproxy_decoder_end, gen_sniproxy_decoder_hasErr. cbn [go_isnil negb].
    assert (exists x, derr_go 0 (Some (GoErr k m)) = Some x) as [x Hx].
    { unfold derr_go. destruct (_ && _); [eauto|]. destruct (String.eqb k "tailError"); [eauto|]. destruct (_ && _); eauto. }
    rewrite Hx. cbn [err inp]. reflexivity.
  - destruct (end_counts_every_trailing_byte rd H) as (rd' & E1 & E2). rewrite E1, E2.
    cbn [derr_go err inp lenN length]. unfold gen_sniproxy_decoder_tailError, lenN, go_len.
    destruct (rd_bytes rd) as [|b0 bs]; [reflexivity|].
    cbn [length]. replace (Z.of_nat (S (length bs)) =? 0) with false by lia.
    replace (N.of_nat (S (length bs)) =? 0)%N with false by lia.
    cbn [derr_go String.eqb Ascii.eqb Bool.eqb andb derr_tag err]. repeat f_equal; lia.
Qed.

(** A field that the reader cannot fill is an error, for every chunking. *)
Lemma truncated_is_error : forall (rd : go_reader) (n : Z),
  0 <= n -> n + go_len (rd_bytes rd) < two63z -> (length (rd_bytes rd) < 8)%nat ->
  exists v n' e' rd',
    gen_sniproxy_decoder_u64 rd n None = GoOk (v, n', e', rd') /\ derr_go 0 e' = Some EEof /\ rd_bytes rd' = [].
Proof.
  intros rd n Hn Hsz Hlen.
  pose proof (u64_run rd n None Hn Hsz) as R. unfold d_u64, d_read, dst in R. cbn [err inp cnt alloc derr_go] in R.
  replace (8 <=? lenN (rd_bytes rd))%N with false in R by (unfold lenN; lia).
  destruct R as (n' & e' & rd' & E1 & E2 & _ & E4 & _).
  cbn [inp err] in *. eauto 10.
Qed.

(** * decoder.bytes, decoder.str *)
Lemma derr_go_some k m : exists x, derr_go 0 (Some (GoErr k m)) = Some x.
Proof.
  unfold derr_go. destruct (_ && _); [eauto|]. destruct (String.eqb k "tailError"); [eauto|]. destruct (_ && _); eauto.
Qed.

Lemma fill_full (b got : list N) : length got = length b -> go_fill_buf b got = got.
Proof. intros H. unfold go_fill_buf. rewrite skipn_all2 by lia. apply app_nil_r. Qed.

Lemma isnil_derr e : derr_go 0 e = None -> go_isnil e = true.
Proof. destruct e as [[k m]|]; [|reflexivity]. destruct (derr_go_some k m) as [x ->]. discriminate. Qed.
Lemma notnil_derr e x : derr_go 0 e = Some x -> go_isnil e = false.
Proof. destruct e as [[k m]|]; [reflexivity|discriminate]. Qed.

Lemma d_read_no_panic n d : err d <> Some EPanic -> err (snd (d_read n d)) <> Some EPanic.
Proof.
  unfold d_read. intros H. destruct (err d) eqn:E; [cbn [snd]; congruence|].
  destruct (n <=? lenN (inp d))%N; cbn [snd err]; congruence.
Qed.
Lemma d_u64_no_panic d : err d <> Some EPanic -> err (snd (d_u64 d)) <> Some EPanic.
Proof.
  unfold d_u64. intros H. destruct (err d) eqn:E; [cbn [snd]; congruence|].
  pose proof (d_read_no_panic 8 d ltac:(congruence)) as P. destruct (d_read 8 d). exact P.
Qed.

Lemma model_tail_alloc v i c a :
  (let '(b, d') := d_read v (mkD i c None a) in
   match err d' with Some EPanic => None | Some _ => Some ([], obs_d d') | None => Some (b, obs_d d') end)
  = (let '(b, d') := d_read v (mkD i c None 0) in
     match err d' with Some EPanic => None | Some _ => Some ([], obs_d d') | None => Some (b, obs_d d') end).
Proof. unfold d_read. cbn [err inp cnt alloc]. destruct (v <=? lenN i)%N; reflexivity. Qed.

Lemma gen_bytes_is_model : forall (rd : go_reader) (n : Z) (e : go_error) (buf : list N),
  0 <= n -> n + go_len (rd_bytes rd) < two63z -> go_len buf < two63z -> derr_known e ->
  run_bytes rd n e buf = model_bytes 65536 rd n e buf.
Proof.
  intros rd n e buf Hn Hsz Hbuf Hk. unfold run_bytes, model_bytes, gen_sniproxy_decoder_bytes, d_bytes,
    gen_sniproxy_decoder_hasErr, gen_sniproxy_decodeAllocMax.
  pose proof (u64_run rd n e Hn Hsz) as R.
  pose proof (d_u64_no_panic (dst rd n e) Hk) as Hk1.
  destruct (d_u64 (dst rd n e)) as [v d1] eqn:Eu. cbn [snd] in Hk1.
  destruct R as (n1 & e1 & rd1 & E1 & Ebytes & Ecnt & Eerr & Hn1 & Hinv & _).
  rewrite E1. cbn [go_bind].
  replace (Z.of_N v =? 0) with (v =? 0)%N by lia.
  destruct (N.eqb_spec v 0) as [->|Hv0].
  { unfold obs_g, obs_d. rewrite Ebytes, Ecnt, Eerr.
    destruct (err d1) as [x|] eqn:Ex.
    - rewrite (notnil_derr _ _ Eerr). destruct x; try reflexivity; congruence.
    - rewrite (isnil_derr _ Eerr). reflexivity. }
  destruct (err d1) as [x|] eqn:Ex.
  { rewrite (notnil_derr _ _ Eerr). cbn [negb]. unfold obs_g, obs_d. rewrite Ebytes, Ecnt, Eerr, Ex.
    destruct x; try (destruct (go_isnil e1); reflexivity); congruence. }
  rewrite (isnil_derr _ Eerr). cbn [negb].
  rewrite Z.gtb_ltb.
  replace (9223372036854775807 <? Z.of_N v) with (two63 <=? v)%N by (unfold two63; lia).
  destruct (N.leb_spec two63 v) as [Hbig|Hsmall].
  { (* length prefix overflows *)
    unfold set_err, obs_g, obs_d. cbn [inp cnt err go_isnil derr_go String.eqb Ascii.eqb Bool.eqb andb derr_tag].
    rewrite Ebytes, Ecnt. reflexivity. }
  assert (Hw : wrap_i64 (Z.of_N v) = Z.of_N v) by (apply wrap_i64_small; wraps; unfold two63 in *; lia).
  rewrite Hw, (wrap_i64_small (go_len buf)) by (wraps; pose proof (go_len_nonneg buf); lia).
  rewrite Z.geb_leb.
  replace (Z.of_N v <=? go_len buf) with (v <=? lenN buf)%N by (unfold lenN, go_len; lia).
  assert (Hd1 : d1 = mkD (rd_bytes rd1) (Z.to_N n1) None (alloc d1)).
  { destruct d1 as [i c er al]. cbn [inp cnt err alloc] in *. subst. reflexivity. }
  assert (He1 : e1 = None) by (destruct e1 as [[k m]|]; [destruct (derr_go_some k m) as [y Hy]; congruence|reflexivity]).
  subst e1.
  (* the three ways to get a buffer of v bytes: all end in read of v bytes *)
  assert (Rd : forall b : list N, lenN b = v ->
            match gen_sniproxy_decoder_read rd1 n1 None b with
            | GoOk (n', e', buf', rd') => Some ((if go_isnil e' then buf' else []), obs_g rd' n' 0 e')
            | _ => None
            end
            = let '(got, d') := d_read v (mkD (rd_bytes rd1) (Z.to_N n1) None 0) in
              match err d' with Some EPanic => None | Some _ => Some ([], obs_d d') | None => Some (got, obs_d d') end).
  { intros b Hb.
    pose proof (read_run rd1 n1 None b Hn1 ltac:(lia)) as RR. rewrite Hb in RR. unfold dst in RR. cbn [derr_go] in RR.
    destruct (d_read v _) as [got d'] eqn:Edr.
    destruct RR as (e' & rd' & F1 & F2 & F3 & F4 & F5 & _). rewrite F1.
    unfold obs_g, obs_d. rewrite F2, <- F3, F4.
    assert (Hgl : err d' = None -> length got = length b).
    { unfold d_read in Edr. cbn [err inp cnt] in Edr.
      destruct (N.leb_spec v (lenN (rd_bytes rd1))); inversion Edr; subst; cbn [err]; [|discriminate].
      intros _. rewrite firstn_length. unfold lenN in *. lia. }
    destruct (err d') as [x|] eqn:Ex'.
    - rewrite (notnil_derr _ _ F4). destruct x; try reflexivity.
      (* EPanic is not an error of d_read *)
      unfold d_read in Edr. cbn [err] in Edr. destruct (v <=? _)%N; inversion Edr; subst; discriminate.
    - rewrite (isnil_derr _ F4), fill_full by (apply Hgl; reflexivity). reflexivity. }
  destruct (N.leb_spec v (lenN buf)) as [Hcap|Hcap].
  - (* fits the caller's buffer *)
    replace (go_slice_ok buf 0 (Z.of_N v)) with true
      by (unfold go_slice_ok, go_len, lenN in *; lia).
    specialize (Rd (go_slice buf 0 (Z.of_N v))).
    rewrite go_slice_to in Rd by (unfold go_len, lenN in *; lia).
    specialize (Rd ltac:(unfold lenN in *; rewrite firstn_length; lia)).
    rewrite go_slice_to by (unfold go_len, lenN in *; lia).
    rewrite Hd1, model_tail_alloc.
    destruct (gen_sniproxy_decoder_read rd1 n1 None _) as [[[[n' e'] b'] rd']| |]; cbn [go_bind]; exact Rd.
  - replace (Z.of_N v <=? 65536) with (v <=? 65536)%N by lia.
    destruct (N.leb_spec v 65536) as [Hmk|Hmk].
    + (* make([]byte, v) *)
      replace (go_make_ok (Z.of_N v)) with true by (unfold go_make_ok, GoLib.go_max_alloc; lia).
      specialize (Rd (go_make_bytes (Z.of_N v)) ltac:(unfold lenN, go_make_bytes; rewrite repeat_length; lia)).
      unfold d_make. replace (Wire.go_max_alloc <? v)%N with false by (unfold Wire.go_max_alloc; lia).
      rewrite Hd1. cbn [err inp cnt alloc]. rewrite model_tail_alloc.
      destruct (gen_sniproxy_decoder_read rd1 n1 None _) as [[[[n' e'] b'] rd']| |]; cbn [go_bind]; exact Rd.
    + (* io.CopyN into a bytes.Buffer *)
      unfold io_CopyN.
      pose proof (rd_fill_spec (rd_chunks rd1) (Z.to_N (Z.of_N v)) (rd_eof_with_last rd1)) as S.
      destruct (rd_fill (rd_chunks rd1) (Z.to_N (Z.of_N v)) (rd_eof_with_last rd1)) as [[got ee] cs'].
      destruct S as [Hg Hc]. fold (rd_bytes rd1) in Hg, Hc. rewrite N2Z.id in *. cbv zeta. cbn [app].
      rewrite Hd1. unfold d_read. cbn [err inp cnt alloc].
      assert (Hlen : length got = Nat.min (N.to_nat v) (length (rd_bytes rd1))) by (subst got; apply firstn_length).
      unfold lenNb, lenN.
      destruct (N.leb_spec v (N.of_nat (length (rd_bytes rd1)))) as [Hle|Hgt].
      * rewrite Nat.min_l in Hlen by lia.
        replace (N.of_nat (length got) =? v)%N with true by lia.
        cbn [opt_eqb go_isnil negb]. rewrite wrap_i64_small by (wraps; unfold go_len in *; lia).
        unfold obs_g, obs_d. cbn [inp cnt err derr_go derr_tag go_isnil]. rewrite rd_bytes_mk, Hc, <- Hg.
        repeat f_equal. unfold go_len. lia.
      * rewrite Nat.min_r in Hlen by lia.
        replace (N.of_nat (length got) =? v)%N with false by lia.
        cbn [opt_eqb go_err_eqb io_EOF String.eqb Ascii.eqb Bool.eqb andb].
        rewrite wrap_i64_small by (wraps; unfold go_len in *; lia).
        unfold obs_g, obs_d. cbn [inp cnt err derr_go derr_tag go_isnil String.eqb Ascii.eqb Bool.eqb andb].
        rewrite rd_bytes_mk, Hc, skipn_all2 by lia.
        assert (Hall : got = rd_bytes rd1) by (subst got; apply firstn_all2; lia). rewrite Hall.
        repeat f_equal. unfold go_len. lia.
Qed.

Definition run_str (rd : go_reader) (n : Z) (e : go_error) : option (list N * dobs) :=
  match gen_sniproxy_decoder_str rd n e with
  | GoOk (b, n', e', rd') => Some ((if go_isnil e' then b else []), obs_g rd' n' 0 e')
  | _ => None
  end.

Lemma gen_str_is_model : forall (rd : go_reader) (n : Z) (e : go_error),
  0 <= n -> n + go_len (rd_bytes rd) < two63z -> derr_known e ->
  run_str rd n e = model_bytes 65536 rd n e [].
Proof.
  intros rd n e Hn Hsz Hk. rewrite <- (gen_bytes_is_model rd n e [] Hn Hsz ltac:(cbn; unfold two63z; lia) Hk).
  unfold run_str, run_bytes, gen_sniproxy_decoder_str.
  destruct (gen_sniproxy_decoder_bytes rd n e []) as [[[[b n'] e'] rd']| |]; reflexivity.
Qed.

Lemma gen_u64_is_model : forall (rd : go_reader) (n : Z) (e : go_error),
  0 <= n -> n + go_len (rd_bytes rd) < two63z -> run_u64 rd n e = model_u64 rd n e.
Proof.
  intros rd n e Hn Hsz. unfold run_u64, model_u64. pose proof (u64_run rd n e Hn Hsz) as R.
  destruct (d_u64 (dst rd n e)) as [v d'].
  destruct R as (n' & e' & rd' & E1 & E2 & E3 & E4 & _). rewrite E1. unfold obs_g, obs_d. rewrite E2, E3, E4. reflexivity.
Qed.

Lemma gen_u8_is_model : forall (rd : go_reader) (n : Z) (e : go_error),
  0 <= n -> n + go_len (rd_bytes rd) < two63z -> run_u8 rd n e = model_u8 rd n e.
Proof.
  intros rd n e Hn Hsz. unfold run_u8, model_u8. pose proof (u8_run rd n e Hn Hsz) as R.
  destruct (d_u8 (dst rd n e)) as [v d'].
  destruct R as (n' & e' & rd' & E1 & E2 & E3 & E4 & _). rewrite E1. unfold obs_g, obs_d. rewrite E2, E3, E4. reflexivity.
Qed.

Lemma gen_read_is_model : forall (rd : go_reader) (n : Z) (e : go_error) (buf : list N),
  0 <= n -> n + go_len (rd_bytes rd) < two63z -> run_read rd n e buf = model_read rd n e buf.
Proof.
  intros rd n e buf Hn Hsz. unfold run_read, model_read. pose proof (read_run rd n e buf Hn Hsz) as R.
  destruct (d_read (lenN buf) (dst rd n e)) as [got d'].
  destruct R as (e' & rd' & E1 & E2 & E3 & E4 & _). rewrite E1. unfold obs_g, obs_d. rewrite E2, E3, E4. reflexivity.
Qed.

(** * encoder.go: write, u8, u64, bytes, str over an abstract writer *)
Lemma le64_go_len v : go_len (le64 v) = 8.
Proof. unfold go_len. now rewrite le64_length. Qed.

(** * The encoder over a writer that takes everything *)
Definition wr_ok (out : list N) : go_writer := mkWriter out [].

Lemma enc_write_ok : forall out n bs, 0 <= n -> n + go_len bs < two63z ->
  gen_sniproxy_encoder_write (wr_ok out) n None bs = GoOk (n + go_len bs, None, wr_ok (out ++ bs)).
Proof.
  intros out n bs Hn Hs. unfold gen_sniproxy_encoder_write, gen_sniproxy_encoder_hasErr, wr_write, wr_ok.
  cbn [go_isnil negb wr_script wr_out]. pose proof (go_len_nonneg bs).
  rewrite (wrap_i64_small (go_len bs)), wrap_i64_small by (wraps; lia). reflexivity.
Qed.

Lemma enc_u64_ok : forall out n v, 0 <= n -> n + 8 < two63z -> (v < two64)%N ->
  gen_sniproxy_encoder_u64 (wr_ok out) n None (Z.of_N v) = GoOk (n + 8, None, wr_ok (out ++ enc_value KU64 (VU64 v))).
Proof.
  intros out n v Hn Hs Hv. unfold gen_sniproxy_encoder_u64, gen_sniproxy_encoder_hasErr. cbn [go_isnil negb].
  change (go_make_bytes 8) with (repeat 0%N 8). change (8 <=? go_len (repeat 0%N 8)) with true. cbv iota.
  unfold binary_LE_PutUint64. change (8 <=? go_len (repeat 0%N 8)) with true. cbv iota.
  change (skipn 8 (repeat 0%N 8)) with (@nil N). rewrite app_nil_r.
  rewrite ?go_slice_ok_full, ?go_slice_full.
  rewrite enc_write_ok by (rewrite ?le64_go_len; lia). cbn [go_bind]. rewrite le64_go_len.
  rewrite wrap_u64_small by (wraps; unfold two64 in *; lia). rewrite N2Z.id. reflexivity.
Qed.

Lemma enc_u8_ok : forall out n v, 0 <= n -> n + 1 < two63z ->
  gen_sniproxy_encoder_u8 (wr_ok out) n None (Z.of_N v) = GoOk (n + 1, None, wr_ok (out ++ [v])).
Proof.
  intros out n v Hn Hs. unfold gen_sniproxy_encoder_u8, gen_sniproxy_encoder_hasErr. cbn [go_isnil negb].
  rewrite enc_write_ok by (cbn; lia). cbn [go_bind]. rewrite N2Z.id. reflexivity.
Qed.

Lemma enc_bytes_ok : forall out n bs, 0 <= n -> n + 8 + go_len bs < two63z ->
  gen_sniproxy_encoder_bytes (wr_ok out) n None bs = GoOk (n + 8 + go_len bs, None, wr_ok (out ++ enc_bytes bs)).
Proof.
  intros out n bs Hn Hs. unfold gen_sniproxy_encoder_bytes, enc_bytes. pose proof (go_len_nonneg bs).
  rewrite wrap_u64_small by (wraps; lia).
  replace (go_len bs) with (Z.of_N (lenN bs)) at 1 by (unfold lenN, go_len; lia).
  rewrite enc_u64_ok by (unfold lenN, two64, go_len in *; wraps; lia). cbn [go_bind enc_value].
  rewrite enc_write_ok by lia. cbn [go_bind]. rewrite <- app_assoc. reflexivity.
Qed.

Lemma enc_str_ok : forall out n s, 0 <= n -> n + 8 + go_len s < two63z ->
  gen_sniproxy_encoder_str (wr_ok out) n None s = GoOk (n + 8 + go_len s, None, wr_ok (out ++ enc_value KStr (VBytes s))).
Proof.
  intros out n s Hn Hs. unfold gen_sniproxy_encoder_str. cbv zeta. rewrite enc_bytes_ok by assumption. reflexivity.
Qed.

(** The error is sticky: once set, nothing more reaches the writer. *)
Lemma enc_sticky : forall w n e (v : Z) (bs : list N), e <> None ->
  gen_sniproxy_encoder_write w n e bs = GoOk (n, e, w) /\
  gen_sniproxy_encoder_u64 w n e v = GoOk (n, e, w) /\
  gen_sniproxy_encoder_u8 w n e v = GoOk (n, e, w) /\
  gen_sniproxy_encoder_bytes w n e bs = GoOk (n, e, w) /\
  gen_sniproxy_encoder_str w n e bs = GoOk (n, e, w).
Proof.
  intros w n e v bs He. destruct e as [x|]; [|congruence].
  unfold gen_sniproxy_encoder_str, gen_sniproxy_encoder_bytes, gen_sniproxy_encoder_u64, gen_sniproxy_encoder_u8,
    gen_sniproxy_encoder_write, gen_sniproxy_encoder_hasErr.
  cbn [go_isnil negb go_bind]. repeat split; reflexivity.
Qed.

(** A failing Write sets the error and takes nothing. *)
Lemma enc_write_fails : forall out s err n bs,
  gen_sniproxy_encoder_write (mkWriter out (Some err :: s)) n None bs = GoOk (n, Some err, mkWriter out s).
Proof. reflexivity. Qed.

(** What is written decodes back: the decoder over any chunking of what the
    encoder wrote returns the value. *)
Lemma enc_dec_u64 : forall v cs flag, (v < two64)%N -> concat cs = enc_value KU64 (VU64 v) ->
  run_u64 (mkReader cs flag) 0 None = Some (Z.of_N v, ([], 8%N, 0%N)).
Proof.
  intros v cs flag Hv Hc.
  assert (Hb : rd_bytes (mkReader cs flag) = le64 v) by (unfold rd_bytes; cbn [rd_chunks]; exact Hc).
  rewrite gen_u64_is_model
    by (rewrite ?Hb, ?le64_go_len; unfold two63z; lia).
  unfold model_u64, dst. rewrite Hb. cbn [derr_go]. change (Z.to_N 0) with 0%N.
  pose proof (d_u64_exact v [] 0 0 Hv) as E. rewrite app_nil_r in E. rewrite E. reflexivity.
Qed.

Lemma cex_wire_none : cex_decoder_u64 = [] /\ cex_decoder_u8 = [] /\ cex_decoder_end = [].
Proof. vm_compute. repeat split. Qed.
