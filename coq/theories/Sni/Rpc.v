(** Model of the sniproxy RPC client transport: sniproxy/transport.go
    ([serve], [handleMessage], [serveRead], [asyncCall], [call]),
    call_exchange.go and transport_call.go.

    The three goroutines (callers, the [serve] loop, the reader) are
    abstracted to the order in which [serve] and the reader act:

      - [ESignal]         asyncCall of a msgShutdown call closes shutdownSignal
      - [ERefused k]      asyncCall refuses call [k] (shutdownSignal closed)
      - [ECall c sendok]  [serve] takes call [c] off the [calls] channel,
                          assigns the next id and sends it ([sendok] = the
                          websocket write succeeded)
      - [EReply f]        the reader got the binary message [f] and ran
                          [handleMessage] on it (including the synchronous
                          [pendingFetch] hand-off to [serve])
      - [EText]           the reader got a text message (logged only)
      - [EReadErr]        [conn.NextReader] failed (connection lost / closed)

    This is sound because [pending] and the id counter are local variables of
    [serve] (touched by no other goroutine: obligation
    [gen_pending_owned_by_serve] on the regenerated skeleton) and because a
    fetched exchange is removed from [pending] before the reader uses it, so
    it has exactly one owner at any time.  The reply body is decoded with the
    wire codec model of C13 ([Sni.Wire]).

    Completing a call is [callExchange.done()], which closes the caller's
    [done] channel: doing that twice is a Go run-time panic ("close of closed
    channel"); the model records it as [panicked].

    Definitions only; proofs are in RpcProofs.v. *)
From Coq Require Import List NArith ZArith Bool String.
From Verif Require Import Lib.Bytes Sni.Wire.
Import ListNotations.
Local Open Scope N_scope.

(** Message type codes used by the transport itself (checked against the
    regenerated constants in RpcGen.v). *)
Definition msg_shutdown : N := 0.
Definition msg_shutdown_hint : N := 7.

(** Errors a call can complete with. *)
Inductive cerr :=
| CShutdown              (* errAlreadyShutdown *)
| CSend                  (* the websocket write of the request failed *)
| CExit                  (* io.ErrUnexpectedEOF: serve exited with the call pending *)
| CTooLong               (* errTooLong: the id came round again *)
| CDecode (e : derr).    (* the reply body did not decode *)

Inductive result :=
| ROk (vs : list value)  (* done() with err == nil: the decoded response fields *)
| RErr (e : cerr).

(** A call as [serve] sees it.  [pc_caller] is a ghost name for the
    callExchange object (one per call of [transport.call]); [pc_sch] is the
    layout of the response struct the caller passed ([None] = nil resp);
    [pc_cap] the length of the caller's buffer for a [KBytes] field. *)
Record pcall := mkCall {
  pc_caller : N;
  pc_typ : N;
  pc_sch : option schema;
  pc_cap : N
}.

Inductive event :=
| ESignal
| ERefused (k : N)
| ECall (c : pcall) (sendok : bool)
| EReply (frame : bytes)
| EText
| EReadErr.

Record st := mkSt {
  next_id : N;                      (* serve's [id] *)
  pending : list (N * pcall);       (* serve's [pending] map *)
  sig : bool;                       (* shutdownSignal closed *)
  shut : bool;                      (* serve's [shutdownCalled] *)
  running : bool;                   (* serve has not returned *)
  panicked : bool;                  (* a done() ran twice *)
  log : list (N * result)           (* completions, oldest first *)
}.

Definition init_st : st := mkSt 0 [] false false true false [].

Definition lookup (i : N) (p : list (N * pcall)) : option pcall := assoc_N i p.

Fixpoint remove (i : N) (p : list (N * pcall)) : list (N * pcall) :=
  match p with
  | [] => []
  | (j, c) :: r => if i =? j then remove i r else (j, c) :: remove i r
  end.

Definition completed (k : N) (s : st) : bool :=
  existsb (N.eqb k) (map fst (log s)).

Fixpoint status_in (k : N) (l : list (N * result)) : option result :=
  match l with
  | [] => None
  | (k', r) :: l' => if k =? k' then Some r else status_in k l'
  end.

(** What caller [k] has been told so far. *)
Definition status (s : st) (k : N) : option result := status_in k (log s).

(** callExchange.done() *)
Definition complete (k : N) (r : result) (s : st) : st :=
  if completed k s then
    mkSt (next_id s) (pending s) (sig s) (shut s) (running s) true (log s)
  else
    mkSt (next_id s) (pending s) (sig s) (shut s) (running s) (panicked s)
         (log s ++ [(k, r)]).

Definition set_pending (p : list (N * pcall)) (s : st) : st :=
  mkSt (next_id s) p (sig s) (shut s) (running s) (panicked s) (log s).

Definition fail_pending (p : list (N * pcall)) (s : st) : st :=
  fold_left (fun a ic => complete (pc_caller (snd ic)) (RErr CExit) a) p s.

(** [serve] returns: the deferred loop fails what is pending. *)
Definition exit_serve (s : st) : st :=
  let s' := fail_pending (pending s) s in
  mkSt (next_id s') [] (sig s') (shut s') false (panicked s') (log s').

Section Model.
Variable alloc_max : N.   (* decodeAllocMax *)
Variable idmod : N.       (* ids are uint64: 2^64 *)

(** The part of handleMessage after the type check. *)
Definition reply_result (c : pcall) (d : dstate) : result :=
  match pc_sch c with
  | None => ROk []
  | Some sch =>
      let '(vs, d') := dec_schema alloc_max (pc_cap c) sch d in
      match err d' with
      | Some e => RErr (CDecode e)
      | None => ROk vs
      end
  end.

Definition is_ok (r : result) : bool :=
  match r with ROk _ => true | RErr _ => false end.

Definition on_call (s : st) (c : pcall) (sendok : bool) : st :=
  let i := next_id s in
  let s1 := mkSt ((i + 1) mod idmod) (pending s) (sig s) (shut s) (running s)
                 (panicked s) (log s) in
  if shut s then complete (pc_caller c) (RErr CShutdown) s1
  else
    let s2 := mkSt (next_id s1) (pending s1) (sig s1)
                   (pc_typ c =? msg_shutdown) (running s1) (panicked s1)
                   (log s1) in
    if negb sendok then
      exit_serve (complete (pc_caller c) (RErr CSend) s2)
    else
      let s3 := match lookup i (pending s2) with
                | Some old =>
                    complete (pc_caller old) (RErr CTooLong)
                      (set_pending (remove i (pending s2)) s2)
                | None => s2
                end in
      set_pending ((i, c) :: pending s3) s3.

Definition on_reply (s : st) (f : bytes) : st :=
  let '(h, d) := parse_reply_header f in
  match h with
  | HShort _ => s                               (* "small packet received" *)
  | HRemoteError _ => exit_serve s              (* handleMessage returns an error *)
  | HReply id typ =>
      if typ =? msg_shutdown_hint then s        (* startShutdown, in the background *)
      else
        match lookup id (pending s) with
        | None => s                             (* "discard response" *)
        | Some c =>
            let s1 := set_pending (remove id (pending s)) s in
            if negb (typ =? pc_typ c) then s1   (* "response #, type !=" *)
            else
              let r := reply_result c d in
              let s2 := complete (pc_caller c) r s1 in
              if is_ok r && (typ =? msg_shutdown) then exit_serve s2 else s2
        end
  end.

Definition step (s : st) (e : event) : st :=
  match e with
  | ESignal =>
      mkSt (next_id s) (pending s) true (shut s) (running s) (panicked s) (log s)
  | ERefused k =>
      if sig s then complete k (RErr CShutdown) s else s
  | ECall c sendok => if running s then on_call s c sendok else s
  | EReply f => if running s then on_reply s f else s
  | EText => s
  | EReadErr => if running s then exit_serve s else s
  end.

Definition run_from (s : st) (tr : list event) : st := fold_left step tr s.
Definition run (tr : list event) : st := run_from init_st tr.

End Model.

(** * Trace vocabulary used by the theorems *)

Definition event_callers (e : event) : list N :=
  match e with
  | ECall c _ => [pc_caller c]
  | ERefused k => [k]
  | _ => []
  end.

(** The callExchange objects a history mentions, in order. *)
Definition callers_of (tr : list event) : list N := flat_map event_callers tr.

(** Every call object is handed to the transport once ([asyncCall] makes a
    fresh callExchange per call). *)
Definition wf_trace (tr : list event) : Prop := NoDup (callers_of tr).

Fixpoint nodupb (l : list N) : bool :=
  match l with
  | [] => true
  | x :: r => negb (existsb (N.eqb x) r) && nodupb r
  end.

Definition wf_traceb (tr : list event) : bool := nodupb (callers_of tr).

Definition is_call (e : event) : bool :=
  match e with ECall _ _ => true | _ => false end.

Definition count_calls (tr : list event) : N :=
  N.of_nat (List.length (filter is_call tr)).

(** The call id a reply frame is addressed to, if its header is complete. *)
Definition frame_id (f : bytes) : option N :=
  match fst (parse_reply_header f) with
  | HReply id _ => Some id
  | _ => None
  end.

Definition event_frame_id (e : event) : option N :=
  match e with EReply f => frame_id f | _ => None end.

Definition targets (i : N) (e : event) : bool :=
  match event_frame_id e with Some j => i =? j | None => false end.
