(** Proofs about Sni/WireOwn.v: with request objects that come without a
    buffer, every decoded request owns its bytes - what its holder sees does
    not depend on the frames decoded afterwards; with a buffer shared by the
    write requests of an endpoint it does. *)
From Coq Require Import List NArith ZArith Bool String Lia.
From Verif Require Import Lib.Bytes Sni.Wire Sni.WireProofs Sni.WireOwn.
Import ListNotations.
Local Open Scope N_scope.

Section Proofs.
Variable alloc_max : N.
Variable tbl : request_table.

(** Any frames decoded later on the same endpoint - well-formed, truncated,
    hostile - leave what the holders of the earlier requests see unchanged. *)
Theorem held_fresh_independent : forall frames later,
  firstn (List.length frames) (held_view alloc_max tbl BufFresh (frames ++ later))
  = held_view alloc_max tbl BufFresh frames.
Proof.
  intros. unfold held_view. rewrite map_app.
  rewrite <- (map_length (decode1 alloc_max tbl) frames) at 1.
  rewrite firstn_app, Nat.sub_diag, firstn_all. cbn [firstn]. apply app_nil_r.
Qed.

Theorem held_fresh_is_decode : forall frames i,
  nth_error (held_view alloc_max tbl BufFresh frames) i =
  option_map (decode1 alloc_max tbl) (nth_error frames i).
Proof. intros. unfold held_view. apply nth_error_map. Qed.
End Proofs.

(** A buffer shared by the write requests of an endpoint is refuted: two
    write frames, session 1 with payload [65;65;65;65], then session 2 with
    payload [66;66]; the holder of the first request now reads [66;66;65;65]. *)
Definition ex_tbl : request_table :=
  fun t => if t =? 3 then Some (Some ("writeRequest"%string, [KU64; KBytes])) else None.
Definition ex_write (id sess : N) (p : bytes) : bytes :=
  request_frame id 3 (enc_schema [KU64; KBytes] [VU64 sess; VBytes p]).

Lemma shared_write_buffer_refuted :
  held_view 65536 ex_tbl (BufShared 65536) [ex_write 0 1 [65; 65; 65; 65]; ex_write 1 2 [66; 66]]
  = [CReq 0 3 "writeRequest" [VU64 1; VBytes [66; 66; 65; 65]]; CReq 1 3 "writeRequest" [VU64 2; VBytes [66; 66]]] /\
  held_view 65536 ex_tbl BufFresh [ex_write 0 1 [65; 65; 65; 65]; ex_write 1 2 [66; 66]]
  = [CReq 0 3 "writeRequest" [VU64 1; VBytes [65; 65; 65; 65]]; CReq 1 3 "writeRequest" [VU64 2; VBytes [66; 66]]].
Proof. vm_compute. split; reflexivity. Qed.
