(** Ties Sni/WireChunks.v (a reader that delivers in pieces) to the decoder
    model of Sni/Wire.v: [d_read] is [io.ReadFull] on ANY reader that holds
    the decoder's remaining input, [d_end] is the counting loop of
    [decoder.end()] on any such reader. *)
From Coq Require Import List NArith ZArith Bool Arith Lia.
From Verif Require Import Lib.Bytes Sni.Wire Sni.WireChunks.
Import ListNotations.
Local Open Scope N_scope.

Notation rdr := (reader N).
Notation rflat := (flat N).

Lemma lenN_nat (b : bytes) : N.to_nat (lenN b) = List.length b.
Proof. unfold lenN. apply Nat2N.id. Qed.

(** decoder.read(buf), len(buf) = n, on a decoder without a sticky error whose
    reader [r] delivers the remaining input in any pieces. *)
Theorem d_read_any_reader : forall (r : rdr) fuel n c a,
  (measure N r < fuel)%nat ->
  let '(b, r') := read_full N fuel (N.to_nat n) r in
  d_read n (mkD (rflat r) c None a) =
  (b, mkD (rflat r') (c + N.min n (lenN (rflat r)))
          (if n <=? lenN (rflat r) then None else Some EEof) a).
Proof.
  intros r fuel n c a Hm.
  destruct (read_full N fuel (N.to_nat n) r) as [b r'] eqn:E.
  destruct (read_full_flat N _ _ _ _ _ Hm E) as [Hb Hr].
  unfold d_read. cbn [err inp cnt alloc].
  destruct (N.leb_spec n (lenN (rflat r))) as [L|L].
  - rewrite N.min_l by exact L. rewrite Hb, Hr. reflexivity.
  - rewrite N.min_r by lia.
    assert (Hk : (List.length (rflat r) <= N.to_nat n)%nat).
    { rewrite <- lenN_nat. lia. }
    rewrite Hb, Hr, firstn_all2, skipn_all2 by exact Hk. reflexivity.
Qed.

(** decoder.end() on such a reader: the tail is the number of bytes left. *)
Theorem d_end_any_reader : forall (r : rdr) fuel c a,
  (measure N r < fuel)%nat ->
  d_end (mkD (rflat r) c None a) =
  let t := N.of_nat (end_count N fuel 1 1024 r) in
  mkD [] c (if t =? 0 then None else Some (ETail t)) a.
Proof.
  intros r fuel c a Hm. unfold d_end. cbn [err inp cnt alloc].
  rewrite (end_count_flat N fuel 1 1024 r) by (assumption || lia). reflexivity.
Qed.
