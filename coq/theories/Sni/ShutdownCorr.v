(** Correspondence evaluator for C04: replay a fault scenario on the blocking
    model instantiated with the configuration read off the current source
    ([gen_cfg]) and compare, thread by thread, who has returned and who is
    still waiting. *)
From Coq Require Import List NArith Bool String.
From Verif Require Import Sni.SchedSkel Sni.Shutdown Sni.ShutdownCfg.
Import ListNotations.
Local Open Scope N_scope.

(** What the harness does at quiescent points. *)
Inductive envact :=
| EnvNew (c : N) (k : ctxk) (sd closeall side : bool)   (* a goroutine enters transport.call *)
| EnvDeliver (c : N)                               (* the side connection of dial c arrives *)
| EnvFrame (c : N) (good : bool)                   (* the peer sends a reply to call c *)
| EnvSever                                         (* the connection is lost *)
| EnvBreak                                         (* websocket writes fail from now on *)
| EnvCancel (c : N).

Section Run.
Variable g : cfg.

(** The steps a caller can possibly take, given where it is. *)
Definition caller_actions (c : N) (x : caller) : list action :=
  match c_pc x with
  | CStart => [ACheck c]
  | CEnq => map (AEnq c) (seq 0 (List.length (enq_arms g)))
  | CWait => map (AWait c) (seq 0 (List.length (wait_arms g)))
  | CBox => map (ABox c) (seq 0 (List.length (box_arms g)))
  | CRet => if c_closeall x then [AFront c] else []
  | CFront => []
  end.

Definition internal_actions (s : state) (wok : bool) : list action :=
  flat_map (fun cx => caller_actions (fst cx) (snd cx)) (callers s) ++
  [ATake wok; AFetch; AReadErrS; AFail; ACloseDone] ++
  map ARSend (seq 0 (List.length (fsend_arms g))) ++
  map ARRecv (seq 0 (List.length (frecv_arms g))) ++ [ARDone].

Fixpoint first_step (s : state) (l : list action) : option state :=
  match l with
  | [] => None
  | a :: r => match step g s a with Some s' => Some s' | None => first_step s r end
  end.

(** Let every thread run until nothing is enabled. *)
Fixpoint settle (fuel : nat) (s : state) (wok : bool) : state :=
  match fuel with
  | O => s
  | S f => match first_step s (internal_actions s wok) with
           | Some s' => settle f s' wok
           | None => s
           end
  end.

Definition try_step (s : state) (a : action) : state :=
  match step g s a with Some s' => s' | None => s end.

Fixpoint replay (evs : list envact) (s : state) (wok : bool) : state :=
  match evs with
  | [] => s
  | e :: r =>
      match e with
      | EnvNew c k sd ca sf => replay r (settle 2000 (try_step s (ANew c k sd ca sf)) wok) wok
      | EnvDeliver c => replay r (settle 2000 (try_step s (ADeliver c)) wok) wok
      | EnvFrame c good => replay r (settle 2000 (try_step s (AFrame c good)) wok) wok
      | EnvSever => replay r (settle 2000 (try_step s AReaderStop) wok) wok
      | EnvBreak => replay r s false
      | EnvCancel c => replay r (settle 2000 (try_step s (ACancel c)) wok) wok
      end
  end.

End Run.

Record ccase := mkCase {
  cc_events : list envact;
  cc_callers : list (N * (bool * bool));   (* call: returned?, front connection closed? *)
  cc_reader_alive : bool;                  (* a goroutine is still inside serveRead *)
  cc_serve_done : bool
}.

Definition returned (p : cpc) : bool :=
  match p with CRet | CFront => true | _ => false end.

Definition fronted (p : cpc) : bool :=
  match p with CFront => true | _ => false end.

Definition caller_agrees (s : state) (o : N * (bool * bool)) : bool :=
  let '(c, (ret, front)) := o in
  match getc c (callers s) with
  | Some x => Bool.eqb ret (returned (c_pc x)) && Bool.eqb front (fronted (c_pc x))
  | None => false
  end.

Definition reader_alive (s : state) : bool :=
  match reader s with RExit => false | _ => true end.

Definition check_case (c : ccase) : bool :=
  let s := replay gen_cfg (cc_events c) init true in
  forallb (caller_agrees s) (cc_callers c) &&
  Bool.eqb (cc_reader_alive c) (reader_alive s) &&
  Bool.eqb (cc_serve_done c) (match serve s with SDone => true | _ => false end).

Fixpoint mismatches_from (i : nat) (cs : list ccase) : list nat :=
  match cs with
  | [] => []
  | c :: r => if check_case c then mismatches_from (S i) r
              else i :: mismatches_from (S i) r
  end.

Definition mismatches (cs : list ccase) : list nat := mismatches_from 0 cs.

(** How many threads the model leaves waiting forever in a scenario (for the
    coverage report: 0 for a guarded configuration once serve is done). *)
Definition blocked_count (c : ccase) : nat :=
  let s := replay gen_cfg (cc_events c) init true in
  List.length (filter (fun cx => negb (finished (snd cx)) ) (callers s)).
