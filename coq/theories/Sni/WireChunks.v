(** Round 3: the decoder reads from whatever [io.Reader] the websocket layer
    hands it.  Sni/Wire.v models the reader as the byte string it still
    holds; this file models a reader that delivers those bytes in arbitrary
    pieces - short reads, zero-length reads [(0, nil)], the last bytes
    together with [io.EOF] or followed by a separate [(0, io.EOF)] - and
    shows that the two ways the decoder touches its reader,

      - [io.ReadFull] (decoder.read, and io.CopyN's loop for long fields), and
      - the counting loop of [decoder.end()] (1-byte probe, then 1 KiB reads),

    see exactly the flat byte string: [d_read] and [d_end] of Wire.v.
    Sizes are [nat] here (the statements are about list positions). *)
From Coq Require Import List Arith Bool Lia.
Import ListNotations.

Section Chunks.
Variable byte : Type.
Notation bytes := (list byte).

(** What the reader will hand out: the pieces in order; a piece is the most a
    single [Read] returns (an empty piece is a [(0, nil)] read).
    [eof_with_data]: the reader reports [io.EOF] together with the last bytes
    instead of on the following call. *)
Record reader := mkR { chunks : list bytes; eof_with_data : bool }.

Definition flat (r : reader) : bytes := concat (chunks r).

(** One [Read(p)] with [len(p) = want > 0]: bytes, "err == io.EOF", the reader afterwards. *)
Definition r_read (want : nat) (r : reader) : bytes * bool * reader :=
  match chunks r with
  | [] => ([], true, r)
  | c :: rest =>
      let got := firstn want c in
      match skipn want c, rest with
      | [], [] => (got, eof_with_data r, mkR [] (eof_with_data r))
      | [], _ => (got, false, mkR rest (eof_with_data r))
      | lft, _ => (got, false, mkR (lft :: rest) (eof_with_data r))
      end
  end.

(** [io.ReadFull(r, buf)] with [len(buf) = min]: [for n < min && err == nil]. *)
Fixpoint read_full (fuel min : nat) (r : reader) : bytes * reader :=
  match fuel with
  | O => ([], r)
  | S f =>
      if min =? 0 then ([], r)
      else
        let '(got, eof, r') := r_read min r in
        if eof then (got, r')
        else let '(more, r'') := read_full f (min - length got) r' in (got ++ more, r'')
  end.

(** The loop of [decoder.end()]: the first [Read] gets a 1-byte buffer, every
    later one a [big]-byte buffer (1024 in the source); the bytes are counted
    until a [Read] reports [io.EOF]. *)
Fixpoint end_count (fuel buf big : nat) (r : reader) : nat :=
  match fuel with
  | O => 0
  | S f =>
      let '(got, eof, r') := r_read buf r in
      if eof then length got else length got + end_count f big big r'
  end.

Definition measure (r : reader) : nat := length (flat r) + length (chunks r).

Lemma r_read_flat want r got eof r' :
  r_read want r = (got, eof, r') ->
  flat r = got ++ flat r' /\ length got <= want /\
  (eof = true -> flat r' = [] /\ chunks r' = []) /\
  (eof = false -> 0 < want -> measure r' < measure r).
Proof.
  unfold r_read, measure, flat. destruct r as [cs e]. cbn [chunks eof_with_data].
  destruct cs as [|c rest].
  - intros [= <- <- <-]. cbn. repeat split; auto; try lia; try discriminate.
  - pose proof (firstn_skipn want c) as FS. pose proof (firstn_le_length want c) as FL.
    assert (NZ : 0 < want -> c <> [] -> 0 < length (firstn want c)).
    { intros Hw Hc. destruct c as [|y c']; [congruence|]. destruct want; [lia | cbn; lia]. }
    destruct (skipn want c) as [|x lft] eqn:SK.
    + rewrite app_nil_r in FS. destruct rest as [|c2 rest2].
      * intros [= <- <- <-]. cbn [concat chunks length]. rewrite !app_nil_r.
        split; [symmetry; exact FS|]. split; [exact FL|]. split; [intros _; split; reflexivity|].
        intros _ Hw. destruct c as [|y c']; cbn [length]; [|lia].
        (* an empty last piece delivered without EOF: the piece is gone *) lia.
      * intros [= <- <- <-]. cbn [concat chunks length]. rewrite FS.
        split; [reflexivity|]. split; [rewrite <- FS; exact FL|]. split; [discriminate|].
        intros _ Hw. rewrite !app_length. lia.
    + intros [= <- <- <-]. cbn [concat chunks length].
      split; [rewrite <- FS at 1; rewrite <- app_assoc; reflexivity|].
      split; [exact FL|]. split; [discriminate|].
      intros _ Hw. rewrite !app_length.
      assert (Hc : c <> []) by (intros ->; destruct want; discriminate).
      specialize (NZ Hw Hc). assert (HL : length c = length (firstn want c) + length (x :: lft))
        by (rewrite <- app_length, FS; reflexivity).
      cbn [length] in *. lia.
Qed.

(** [io.ReadFull] returns the first [min] bytes of the flat string and leaves
    the rest - or, if fewer are left, all of them and an exhausted reader. *)
Lemma read_full_flat : forall fuel min r b r',
  measure r < fuel ->
  read_full fuel min r = (b, r') ->
  b = firstn min (flat r) /\ flat r' = skipn min (flat r).
Proof.
  induction fuel as [|f IH]; intros min r b r' Hm; [lia|]. cbn [read_full].
  destruct (Nat.eqb_spec min 0) as [->|Hmin].
  - intros [= <- <-]. cbn. split; reflexivity.
  - destruct (r_read min r) as [[got eof] r1] eqn:E.
    destruct (r_read_flat _ _ _ _ _ E) as [Hf [Hl [He Hn]]].
    destruct eof.
    + intros [= <- <-]. destruct (He eq_refl) as [H1 _]. rewrite H1, app_nil_r in Hf. rewrite Hf, H1.
      split; [symmetry; apply firstn_all2; exact Hl | symmetry; apply skipn_all2; exact Hl].
    + specialize (Hn eq_refl ltac:(lia)).
      destruct (read_full f (min - length got) r1) as [more r2] eqn:E2.
      intros [= <- <-].
      destruct (IH (min - length got) r1 more r2 ltac:(lia) E2) as [Hb Hr].
      rewrite Hf. subst more. split.
      * rewrite firstn_app. f_equal. symmetry. apply firstn_all2. exact Hl.
      * rewrite Hr. rewrite skipn_app.
        rewrite (skipn_all2 got) by exact Hl. reflexivity.
Qed.

(** The tail count of [decoder.end()] is the number of bytes left, however
    they are delivered and whatever the buffer sizes. *)
Lemma end_count_flat : forall fuel buf big r,
  0 < buf -> 0 < big -> measure r < fuel ->
  end_count fuel buf big r = length (flat r).
Proof.
  induction fuel as [|f IH]; intros buf big r Hb Hg Hm; [lia|]. cbn [end_count].
  destruct (r_read buf r) as [[got eof] r1] eqn:E.
  destruct (r_read_flat _ _ _ _ _ E) as [Hf [Hl [He Hn]]].
  destruct eof.
  - destruct (He eq_refl) as [H1 _]. rewrite Hf, H1, app_nil_r. reflexivity.
  - specialize (Hn eq_refl Hb). rewrite (IH big big r1 Hg Hg ltac:(lia)).
    rewrite Hf, app_length. reflexivity.
Qed.

(** Hence two readers holding the same bytes are indistinguishable to the
    decoder's two access paths. *)
Theorem delivery_independent : forall r1 r2 min fuel buf big,
  flat r1 = flat r2 -> measure r1 < fuel -> measure r2 < fuel -> 0 < buf -> 0 < big ->
  fst (read_full fuel min r1) = fst (read_full fuel min r2) /\
  flat (snd (read_full fuel min r1)) = flat (snd (read_full fuel min r2)) /\
  end_count fuel buf big r1 = end_count fuel buf big r2.
Proof.
  intros r1 r2 min fuel buf big Hf H1 H2 Hb Hg.
  destruct (read_full fuel min r1) as [b1 s1] eqn:E1.
  destruct (read_full fuel min r2) as [b2 s2] eqn:E2.
  destruct (read_full_flat _ _ _ _ _ H1 E1) as [A1 B1].
  destruct (read_full_flat _ _ _ _ _ H2 E2) as [A2 B2].
  cbn [fst snd]. rewrite A1, A2, B1, B2, Hf.
  rewrite (end_count_flat fuel buf big r1), (end_count_flat fuel buf big r2), Hf by assumption.
  repeat split; reflexivity.
Qed.
End Chunks.
