(** Correspondence evaluator for C15: replay the forced schedule the harness
    drove a real sniproxy.Server through and compare every lookup and the
    notification log. *)
From Coq Require Import List NArith ZArith Bool.
From Verif Require Import Sni.Registry.
Import ListNotations.
Local Open Scope N_scope.

Inductive cev :=
| CAct (a : action)
| CLook (n : N) (seen : option N)    (* Server.endpoint(n) resolved to connection [seen] *)
| CProbe (n : N) (found : bool).     (* serveBackSide: the name resolved to some connection *)

(** Observed notification: [true] = connect. *)
Definition cnote := (bool * N * Z)%type.

Record ccase := mkCase {
  cc_events : list cev;
  cc_notes : list cnote
}.

Definition optN_eqb (a b : option N) : bool :=
  match a, b with
  | None, None => true
  | Some x, Some y => x =? y
  | _, _ => false
  end.

Fixpoint replay (evs : list cev) (s : state) : option state :=
  match evs with
  | [] => Some s
  | CAct a :: r =>
      match step s a with Some s' => replay r s' | None => None end
  | CLook n seen :: r =>
      if optN_eqb (lookup_name s n) seen then replay r s else None
  | CProbe n found :: r =>
      if Bool.eqb (match lookup_name s n with Some _ => true | None => false end) found
      then replay r s else None
  end.

Definition erase (e : entry) : cnote :=
  match e with
  | Connect n s _ => (true, n, s)
  | Disconnect n s _ => (false, n, s)
  end.

Definition cnote_eqb (a b : cnote) : bool :=
  let '(k, n, s) := a in let '(k', n', s') := b in
  Bool.eqb k k' && (n =? n') && (s =? s')%Z.

Fixpoint notes_eqb (a b : list cnote) : bool :=
  match a, b with
  | [], [] => true
  | x :: a', y :: b' => cnote_eqb x y && notes_eqb a' b'
  | _, _ => false
  end.

Definition check_case (c : ccase) : bool :=
  match replay (cc_events c) init with
  | None => false
  | Some s => notes_eqb (map erase (log s)) (cc_notes c)
  end.

Fixpoint mismatches_from (i : nat) (cs : list ccase) : list nat :=
  match cs with
  | [] => []
  | c :: r => if check_case c then mismatches_from (S i) r
              else i :: mismatches_from (S i) r
  end.

Definition mismatches (cs : list ccase) : list nat := mismatches_from 0 cs.
