(** Obligations of C04 on the endpoint's dial handlers, connection set and
    serve loop as they are in /repo's source now, and the recorded
    counter-model of the seeded change C04-e.

    - [gen_dshape_good]: the statements of endpointServer.handleDial,
      executed symbolically (Sni/DialSkel.v), close the connection on every
      exit that does not register it in the connection set, and on no exit
      that does.  This is semantic, not textual: a rewrite that keeps the
      ownership rule keeps the obligation.
    - the steps of the model (Sni/ShutdownDial.v) were written against the
      frozen skeletons of connections.add / get / remove / shutdown,
      endpointServer.cleanup / serve / findSession / handleClose and
      connection.cleanup.
    - [seeded_leaks]: the shape of the seeded change (no close after a failed
      conns.add) with a concrete schedule: the backlog is full, one more dial
      waits in sendAccept, the tunnel goes, the set is shut down, the
      application accepts; the waiting dial's connection is handed to the
      application and is never closed, whatever happens afterwards. *)
From Coq Require Import List NArith Bool String.
From Verif Require Import Sni.SchedSkel Sni.ShutdownEndpoint Sni.DialSkel Sni.ShutdownDial
  Sni.ShutdownDialProofs Sni.ShutdownCfg Gen.TransportSkel Gen.DialSkel.
Import ListNotations.
Local Open Scope string_scope.

(** ** handleDial closes what it does not register *)

Lemma gen_dshape_good : dshape_of gen_handleDial = Some good_shape.
Proof. vm_compute. reflexivity. Qed.

Lemma gen_dshape_closes : shape_closes gen_dshape = true.
Proof. vm_compute. reflexivity. Qed.

(** The side dial has no connection set: its connection is a websocket of
    its own.  It is closed by the handler when acceptConn fails and belongs
    to the application otherwise. *)
Lemma gen_sshape_good : sshape_of gen_handleDialSide2 = Some (mkSShape true false true).
Proof. vm_compute. reflexivity. Qed.

(** Both handlers are reached from serveCall under the message types the
    model's DDial stands for; reads, writes and closes under those of DOp. *)
Lemma gen_routes :
  assoc_s "msgDial" gen_serveCall_routes = Some "s.handleDial" /\
  assoc_s "msgDialSide" gen_serveCall_routes = Some "s.handleDialSide" /\
  assoc_s "msgDialSide2" gen_serveCall_routes = Some "s.handleDialSide2" /\
  assoc_s "msgRead" gen_serveCall_routes = Some "s.handleRead" /\
  assoc_s "msgWrite" gen_serveCall_routes = Some "s.handleWrite" /\
  assoc_s "msgClose" gen_serveCall_routes = Some "s.handleClose".
Proof. vm_compute. repeat split. Qed.

(** sendAccept's select is the one the handler threads of the model wait in:
    it has the timer arm that [no_deadlock] needs, and the backlog has the
    capacity the model uses. *)
Lemma gen_send_timer : has_arm (ARecv "timer.C") (send_arms gen_ecfg) = true.
Proof. vm_compute. reflexivity. Qed.

(** ** The frozen skeletons *)

Definition frozen_connsAdd : list string :=
  [ "0 assign id := c.session()";
      "0 call cs.mu.Lock()";
      "0 defer cs.mu.Unlock()";
      "0 if cs.closed";
      "1 return errAlreadyShutdown";
      "0 assign _, found := cs.m[id]";
      "0 if found";
      "1 return fmt.Errorf(""session id conflict: %d"", id)";
      "0 assign cs.m[id] = c";
      "0 return nil" ].

Lemma gen_connsAdd_frozen : skel_is gen_transport_skel "connections.add" frozen_connsAdd = true.
Proof. vm_compute. reflexivity. Qed.

Definition frozen_connsGet : list string :=
  [ "0 call cs.mu.Lock()";
      "0 defer cs.mu.Unlock()";
      "0 if cs.closed";
      "1 return nil, errAlreadyShutdown";
      "0 assign c, ok := cs.m[id]";
      "0 if !ok";
      "1 return nil, errcode.NotFoundf(""session not found: %d"", id)";
      "0 return c, nil" ].

Lemma gen_connsGet_frozen : skel_is gen_transport_skel "connections.get" frozen_connsGet = true.
Proof. vm_compute. reflexivity. Qed.

Definition frozen_connsRemove : list string :=
  [ "0 call cs.mu.Lock()";
      "0 defer cs.mu.Unlock()";
      "0 if cs.closed";
      "1 return errAlreadyShutdown";
      "0 assign _, found := cs.m[id]";
      "0 if !found";
      "1 return errcode.NotFoundf(""session not found: %d"", id)";
      "0 call delete(cs.m, id)";
      "0 return nil" ].

Lemma gen_connsRemove_frozen : skel_is gen_transport_skel "connections.remove" frozen_connsRemove = true.
Proof. vm_compute. reflexivity. Qed.

Definition frozen_connsShutdown : list string :=
  [ "0 call cs.mu.Lock()";
      "0 defer cs.mu.Unlock()";
      "0 if cs.closed";
      "1 return nil";
      "0 assign cs.closed = true";
      "0 return cs.m" ].

Lemma gen_connsShutdown_frozen : skel_is gen_transport_skel "connections.shutdown" frozen_connsShutdown = true.
Proof. vm_compute. reflexivity. Qed.

Definition frozen_epsCleanup : list string :=
  [ "0 assign conns := s.conns.shutdown()";
      "0 range conns";
      "1 call conn.cleanup()" ].

Lemma gen_epsCleanup_frozen : skel_is gen_transport_skel "endpointServer.cleanup" frozen_epsCleanup = true.
Proof. vm_compute. reflexivity. Qed.

Definition frozen_epsServe : list string :=
  [ "0 defer func";
      "1 call s.cleanup()";
      "1 call s.callWait.Wait()";
      "0 for";
      "1 assign typ, r, err := s.conn.NextReader()";
      "1 if err != nil";
      "2 return err";
      "1 if typ != websocket.BinaryMessage";
      "2 return errcode.InvalidArgf(""invalid message type: %d"", typ)";
      "1 assign ex, err := s.startCall(r)";
      "1 if err != nil";
      "2 return errcode.Internalf(""decode message: %s"", err)";
      "1 call s.callWait.Add(1)";
      "1 go func";
      "2 defer s.callWait.Done()";
      "2 assign err := s.serveCall(ex)";
      "2 if err != nil";
      "1 if ex.t == msgShutdown";
      "2 return nil" ].

Lemma gen_epsServe_frozen : skel_is gen_transport_skel "endpointServer.serve" frozen_epsServe = true.
Proof. vm_compute. reflexivity. Qed.

Definition frozen_findSession : list string :=
  [ "0 assign c, err := s.conns.get(id)";
      "0 if err != nil";
      "1 if errcode.IsNotFound(err)";
      "2 return nil, newRemoteErr(errSessionNotFound, err)";
      "1 return nil, newRemoteErr(errInternal, err)";
      "0 return c, nil" ].

Lemma gen_findSession_frozen : skel_is gen_transport_skel "endpointServer.findSession" frozen_findSession = true.
Proof. vm_compute. reflexivity. Qed.

Definition frozen_handleClose : list string :=
  [ "0 if s.options.Siding";
      "1 return &closeResponse{err: remoteErrSiding}";
      "0 assign conn, rerr := s.findSession(req.session)";
      "0 if rerr != nil";
      "1 return &closeResponse{err: rerr}";
      "0 assign resp := &closeResponse{}";
      "0 assign err := conn.Close()";
      "0 if err != nil";
      "1 assign resp.err = newRemoteErr(errClose, err)";
      "0 assign err := s.conns.remove(req.session)";
      "0 if err != nil";
      "1 assign resp.err = newRemoteErr(errClose, err)";
      "0 return resp" ].

Lemma gen_handleClose_frozen : skel_is gen_transport_skel "endpointServer.handleClose" frozen_handleClose = true.
Proof. vm_compute. reflexivity. Qed.

Definition frozen_newConnection : list string :=
  [ "0 assign client, server := net.Pipe()";
      "0 return &connection{ id: id, Conn: client, serverConn: server, }" ].

Lemma gen_newConnection_frozen : skel_is gen_transport_skel "newConnection" frozen_newConnection = true.
Proof. vm_compute. reflexivity. Qed.

Definition frozen_connCleanup : list string :=
  [ "0 call c.Conn.Close()";
      "0 call c.serverConn.Close()" ].

Lemma gen_connCleanup_frozen : skel_is gen_transport_skel "connection.cleanup" frozen_connCleanup = true.
Proof. vm_compute. reflexivity. Qed.

(** ** The side dial's hand-over on the server (Sni/ShutdownSide.v) *)

(** Dial's deferred box.discard(): cleanUp (close the box, take it out of the
    office), THEN close what is left in the channel. *)
Definition frozen_mailboxCleanUp : list string :=
  [ "0 call b.Close()";
      "0 call b.office.remove(b.key)" ].

Lemma gen_mailboxCleanUp_frozen : skel_is gen_transport_skel "connMailBox.cleanUp" frozen_mailboxCleanUp = true.
Proof. vm_compute. reflexivity. Qed.

Definition frozen_mailboxDiscard : list string :=
  [ "0 call b.cleanUp()";
      "0 select";
      "1 case ARecv ""b.ch""";
      "2 call conn.Close()";
      "1 case ADefault" ].

Lemma gen_mailboxDiscard_frozen : skel_is gen_transport_skel "connMailBox.discard" frozen_mailboxDiscard = true.
Proof. vm_compute. reflexivity. Qed.

(** (That Dial defers discard on every path after newBox is part of
    [gen_clientDial_frozen] in ShutdownGen.v.) *)

(** serveBackSide waits for the request's context or for the local close, nothing else. *)
Lemma gen_sideWait_arms :
  points_of "sideConn.wait" gen_transport_blocking = [[ARecv "ctx.Done()"; ARecv "c.closed"]].
Proof. vm_compute. reflexivity. Qed.

Definition frozen_serveBackSide : list string :=
  [ "0 assign ep, err := s.endpoint(name)";
      "0 if err != nil";
      "1 return errcode.Annotate(err, ""find endpoint"")";
      "0 assign wsConn, err := s.upgrader.Upgrade(c.Resp, c.Req, nil)";
      "0 if err != nil";
      "1 return err";
      "0 assign conn := newSideConn(wsConn, """")";
      "0 defer conn.Close()";
      "0 assign err := ep.deliverSideConn(k, conn)";
      "0 if err != nil";
      "1 return errcode.Annotate(err, ""register session"")";
      "0 call conn.wait(c.Context)";
      "0 return nil" ].

Lemma gen_serveBackSide_frozen : skel_is gen_transport_skel "Server.serveBackSide" frozen_serveBackSide = true.
Proof. vm_compute. reflexivity. Qed.

(** ** The side dial is bounded by a deadline of its own (Sni/ShutdownSideDial.v)

    The context [sideConn] passes to [dialSide] is made by
    [context.WithTimeout] / [context.WithDeadline]: the bound on the
    handler's first blocking step does not depend on the websocket dialer
    the application may have supplied ([DialOption.Dialer] is used as it
    is). *)
Definition ctx_has_deadline (e : string) : bool :=
  String.prefix "context.WithTimeout(" e || String.prefix "context.WithDeadline(" e.

Definition gen_side_dial_bounded : bool :=
  match gen_sideConn_dial_ctx with [] => false | l => forallb ctx_has_deadline l end.

Lemma gen_side_dial_has_deadline : gen_side_dial_bounded = true.
Proof. vm_compute. reflexivity. Qed.

Definition frozen_sideConn : list string :=
  [ "0 assign bg := context.Background()";
      "0 assign ctx, cancel := context.WithTimeout(bg, 5*time.Second)";
      "0 defer cancel()";
      "0 assign conn, err := s.dialer.dialSide(ctx, tok, k)";
      "0 if err != nil";
      "1 return nil, err";
      "0 return newSideConn(conn, addr), nil" ].

Lemma gen_sideConn_frozen : skel_is gen_transport_skel "endpointServer.sideConn" frozen_sideConn = true.
Proof. vm_compute. reflexivity. Qed.

(** ** The seeded change C04-e, as a counter-model *)

(** handleDial as the translator reads it off the changed source: the
    deferred "close unless given away" is gone, the accept-failure branch
    closes explicitly, the add-failure branch does not. *)
Definition seeded_handleDial : list hstmt :=
  [HIf "s.options.Siding" [HReturn]; HIf "s.acceptConn == nil" [HReturn];
   HSkip "id := s.sessionID.next()"; HNew;
   HIfFails CAccept [HClose; HSkip "rerr := newRemoteErr(errAccept, err)"; HReturn];
   HIfFails CAdd [HSkip "rerr := newRemoteErr(errAccept, err)"; HReturn];
   HReturn].

Definition seeded_shape : dshape := mkDShape true false false true.

Lemma seeded_shape_is : dshape_of seeded_handleDial = Some seeded_shape.
Proof. vm_compute. reflexivity. Qed.

Local Open Scope N_scope.

(** Eleven dials and nobody accepting: ten connections fill the backlog and
    are registered, the eleventh handler waits in sendAccept.  The tunnel
    goes; cleanup shuts the set down and closes the ten; the application
    accepts one connection; the eleventh gets its slot, conns.add fails,
    the handler returns; serve returns; the application accepts the rest. *)
Definition leak_schedule : list daction :=
  (map DDial [1;2;3;4;5;6;7;8;9;10;11] ++
   flat_map (fun h => [DArm h 1; DAddStep h; DExitOK h]) [1;2;3;4;5;6;7;8;9;10] ++
   [DLoss; DShutdown] ++ repeat DCleanOne 10 ++
   [DCleanDone; DAccept; DArm 11 1; DAddStep 11; DExitAddFail 11; DJoin] ++ repeat DAccept 10)%list.

Theorem seeded_leaks :
  exists s, dexec gen_ecfg seeded_shape dinit leak_schedule = Some s /\
    d_serve s = LDone /\ In 11 (d_handed s) /\ ~ In 11 (d_closed s) /\
    forall acts s', dexec gen_ecfg seeded_shape s acts = Some s' -> ~ In 11 (d_closed s').
Proof.
  destruct (dexec gen_ecfg seeded_shape dinit leak_schedule) as [s|] eqn:E;
    [|vm_compute in E; discriminate].
  exists s. split; [reflexivity|].
  assert (Q : quiescent s).
  { vm_compute in E. injection E as <-. vm_compute. repeat split. }
  assert (C : memn 11 (d_closed s) = false /\ memn 11 (d_handed s) = true).
  { vm_compute in E. injection E as <-. vm_compute. split; reflexivity. }
  destruct C as [C1 C2].
  split; [exact (proj1 Q)|]. split; [apply (proj1 (memn_In _ _)); exact C2|].
  split.
  - intros Hin. apply (proj2 (memn_In _ _)) in Hin. rewrite C1 in Hin. discriminate.
  - intros acts s' He Hin. destruct (quiescent_exec _ _ acts s s' Q He) as [_ Hc].
    rewrite Hc in Hin. apply (proj2 (memn_In _ _)) in Hin. rewrite C1 in Hin. discriminate.
Qed.

(** The same schedule with the shape of the current source: the eleventh
    connection is closed by its handler, like all the others by cleanup. *)
Lemma same_schedule_now_closes :
  match dexec gen_ecfg gen_dshape dinit leak_schedule with
  | Some s => d_serve s = LDone /\ List.length (d_handed s) = 11%nat /\
              forallb (fun h => memn h (d_closed s)) (d_handed s) = true
  | None => False
  end.
Proof. vm_compute. repeat split. Qed.
