(** Proofs about contexts that end (Sni/RpcCtx.v). *)
From Coq Require Import List NArith ZArith Bool String Lia.
From Verif Require Import Lib.Bytes Sni.Wire Sni.Rpc Sni.RpcProofs Sni.RpcCtx.
Import ListNotations.
Local Open Scope N_scope.

Section Proofs.
Variable alloc_max : N.
Hypothesis alloc_max_ok : alloc_max <= go_max_alloc.
Variable idmod : N.
Hypothesis idmod_pos : 0 < idmod.

Notation step := (Rpc.step alloc_max idmod).
Notation run_from := (Rpc.run_from alloc_max idmod).
Notation xstep := (RpcCtx.xstep alloc_max idmod).
Notation xrun_from := (RpcCtx.xrun_from alloc_max idmod).
Notation xrun := (RpcCtx.xrun alloc_max idmod).

(** ** The source now: giving up is silent *)

(** A give-up changes nothing in the transport: not the table of pending
    calls (no entry of any call B is touched, nor the caller's own), not the
    id counter, not what any call has completed with. *)
Theorem giveup_silent_transport_unchanged s k :
  x_st (xstep GuSilent s (XGiveUp k)) = x_st s /\
  x_queue (xstep GuSilent s (XGiveUp k)) = x_queue s /\
  x_ids (xstep GuSilent s (XGiveUp k)) = x_ids s.
Proof. repeat split. Qed.

(** ... and no other caller sees a difference: whoever had not given up
    still gets exactly what the transport completes its call with. *)
Theorem giveup_silent_local s a b :
  a <> b -> xview (xstep GuSilent s (XGiveUp a)) b = xview s b.
Proof.
  intros Hne. unfold xview. cbn [RpcCtx.xstep x_gone x_st].
  destruct (completed a (x_st s)); [reflexivity|].
  cbn [existsb]. destruct (b =? a) eqn:E; [apply N.eqb_eq in E; congruence|reflexivity].
Qed.

(** The caller that gave up gets ctx.Err() -- unless the transport had
    already completed its call, in which case giving up changes nothing. *)
Lemma completed_status k s : completed k s = false <-> status s k = None.
Proof.
  unfold completed, status. induction (log s) as [|[k' r] l IH]; cbn [status_in map fst existsb]; [tauto|].
  destruct (k =? k'); cbn [orb]; [split; discriminate|exact IH].
Qed.

Theorem giveup_silent_own s k :
  (status (x_st s) k = None -> xview (xstep GuSilent s (XGiveUp k)) k = VCtx) /\
  (status (x_st s) k <> None -> xview (xstep GuSilent s (XGiveUp k)) k = xview s k).
Proof.
  unfold xview.
  change (x_gone (xstep GuSilent s (XGiveUp k)))
    with (if completed k (x_st s) then x_gone s else k :: x_gone s).
  change (x_st (xstep GuSilent s (XGiveUp k))) with (x_st s).
  destruct (completed k (x_st s)) eqn:E; split; intros H.
  - apply completed_status in H. congruence.
  - reflexivity.
  - cbn [existsb]. now rewrite N.eqb_refl.
  - apply completed_status in E. contradiction.
Qed.

(** For every interleaving of enqueues, takes, replies, losses and give-ups
    at any point of any call's life, the transport is in the state the
    coarse model computes on the history with the give-ups erased: all
    theorems about Sni/Rpc.v hold for histories with contexts that end. *)
Theorem silent_refines_from tr : forall s,
  x_st (xrun_from GuSilent s tr) = run_from (x_st s) (project (x_queue s) tr).
Proof.
  induction tr as [|e r IH]; intros s; [reflexivity|].
  change (xrun_from GuSilent s (e :: r)) with (xrun_from GuSilent (xstep GuSilent s e) r).
  rewrite IH. clear IH.
  destruct e as [c|ok|k|e]; cbn [RpcCtx.xstep project].
  - reflexivity.
  - destruct (x_queue s) as [|c q] eqn:Eq; cbn [x_st x_queue]; [now rewrite Eq|reflexivity].
  - reflexivity.
  - destruct (is_call e); reflexivity.
Qed.

Theorem silent_refines tr :
  x_st (xrun GuSilent tr) = Rpc.run alloc_max idmod (project [] tr).
Proof. exact (silent_refines_from tr xinit). Qed.

(** ** A call that is in nobody's hands cannot succeed *)

Definition absent (k : N) (s : st) : Prop :=
  forall i c, In (i, c) (pending s) -> pc_caller c <> k.

Definition not_ok (k : N) (s : st) : Prop := forall vs, ~ In (k, ROk vs) (log s).

Definition names (k : N) (e : event) : Prop :=
  match e with ECall c _ => pc_caller c = k | _ => False end.

Lemma absent_step k s e :
  absent k s -> not_ok k s -> ~ names k e ->
  absent k (step s e) /\ not_ok k (step s e).
Proof.
  intros Ha Hn He. split.
  - intros i c Hin. apply (step_pending_in alloc_max idmod) in Hin.
    destruct Hin as [Hin|(-> & _)]; [now apply (Ha i c)|]. exact He.
  - intros vs Hin. apply (step_log_in alloc_max idmod) in Hin.
    destruct Hin as [Hin|[Hin|Hin]].
    + exact (Hn vs Hin).
    + unfold local_error in Hin. destruct Hin as [H|[H|[H|H]]]; discriminate.
    + destruct Hin as (f & id & d & c & _ & _ & _ & Hl & Hk & _).
      apply lookup_in in Hl. exact (Ha id c Hl Hk).
Qed.

Lemma absent_run k tr : forall s,
  absent k s -> not_ok k s -> Forall (fun e => ~ names k e) tr ->
  not_ok k (run_from s tr) /\ absent k (run_from s tr).
Proof.
  induction tr as [|e r IH]; intros s Ha Hn Hf; [split; assumption|].
  inversion Hf as [|? ? He Hr]; subst.
  destruct (absent_step k s e Ha Hn He) as [Ha' Hn'].
  exact (IH (step s e) Ha' Hn' Hr).
Qed.


Lemma status_in_In k l r : status_in k l = Some r -> In (k, r) l.
Proof.
  induction l as [|[k' r'] l IH]; cbn [status_in]; [discriminate|].
  destruct (k =? k') eqn:E.
  - apply N.eqb_eq in E. subst k'. intros [= ->]. now left.
  - intros H. right. now apply IH.
Qed.

(** The same with the queue and give-ups of either shape: a call that is
    neither in the queue nor in the table, and is not handed to the transport
    again, is never completed with a reply -- whatever else happens. *)
Definition xabsent (k : N) (s : xst) : Prop :=
  absent k (x_st s) /\ not_ok k (x_st s) /\ in_queue k (x_queue s) = false.

Definition enqueues (k : N) (e : xevent) : Prop :=
  match e with XEnqueue c => pc_caller c = k | _ => False end.

Lemma absent_drop k i s : absent k s -> absent k (drop_entry i s).
Proof.
  unfold drop_entry. destruct (running s); [|auto].
  intros Ha j c Hin. cbn [pending set_pending] in Hin. apply remove_in in Hin. now apply (Ha j c).
Qed.

Lemma not_ok_drop k i s : not_ok k s -> not_ok k (drop_entry i s).
Proof. unfold drop_entry. destruct (running s); auto. Qed.

Lemma xabsent_step shape k s e :
  xabsent k s -> ~ enqueues k e -> xabsent k (xstep shape s e).
Proof.
  intros (Ha & Hn & Hq) He. destruct e as [c|ok|a|e]; cbn [RpcCtx.xstep].
  - repeat split; cbn [x_st x_queue]; auto.
    unfold in_queue in *. rewrite existsb_app, Hq. cbn [existsb orb].
    destruct (pc_caller c =? k) eqn:E; [apply N.eqb_eq in E; now destruct He|reflexivity].
  - destruct (x_queue s) as [|c q] eqn:Eq; [repeat split; auto; now rewrite Eq|].
    unfold in_queue in Hq. cbn [existsb] in Hq. apply orb_false_elim in Hq. destruct Hq as [Hc Hq].
    destruct (absent_step k (x_st s) (ECall c ok) Ha Hn) as [Ha' Hn'].
    { cbn [names]. intros E. apply N.eqb_neq in Hc. contradiction. }
    repeat split; cbn [x_st x_queue]; assumption.
  - destruct shape; cbn [x_st x_queue]; [repeat split; assumption|].
    destruct (assoc_N a (x_ids s)); [|destruct (in_queue a (x_queue s))];
      repeat split; cbn [x_st x_queue]; auto using absent_drop, not_ok_drop.
  - destruct (is_call e) eqn:Ec; [repeat split; assumption|].
    destruct (absent_step k (x_st s) e Ha Hn) as [Ha' Hn'].
    { destruct e; cbn [names]; try tauto. discriminate. }
    repeat split; cbn [x_st x_queue]; assumption.
Qed.

Theorem xabsent_never_succeeds shape k tr : forall s,
  xabsent k s -> Forall (fun e => ~ enqueues k e) tr ->
  forall vs, status (x_st (xrun_from shape s tr)) k <> Some (ROk vs).
Proof.
  induction tr as [|e r IH]; intros s Hx Hf vs.
  - cbn. intros H. apply status_in_In in H. destruct Hx as (_ & Hn & _). exact (Hn vs H).
  - inversion Hf as [|? ? He Hr]; subst.
    change (xrun_from shape s (e :: r)) with (xrun_from shape (xstep shape s e) r).
    apply IH; [now apply xabsent_step|assumption].
Qed.

End Proofs.
