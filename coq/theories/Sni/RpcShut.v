(** The branch of [transport.serve] for a call taken off the queue after the
    shutdown request ([shutdownCalled]): the call is completed with
    errAlreadyShutdown and the select arm is LEFT -- the call is neither
    sent nor recorded in [pending].  In Sni/Rpc.v that is the first branch of
    [on_call]; this file states what it guarantees and keeps the variant
    that goes on to send and record the call (a [break] that leaves only an
    inner switch: the seeded change C03-g) as a refuted counter-model. *)
From Coq Require Import List NArith ZArith Bool String.
From Verif Require Import Lib.Bytes Sni.Wire Sni.Rpc Sni.RpcProofs.
Import ListNotations.
Local Open Scope N_scope.

Section Shut.
Variable alloc_max idmod : N.
Notation step := (Rpc.step alloc_max idmod).
Notation run := (Rpc.run alloc_max idmod).

(** A call taken after the shutdown request: the table of pending calls is
    untouched (it is not recorded, nobody else's entry changes), the
    transport keeps running, and the call is completed exactly now, with
    errAlreadyShutdown. *)
Theorem rejected_call_local s c ok :
  running s = true -> shut s = true -> completed (pc_caller c) s = false ->
  let s' := step s (ECall c ok) in
  pending s' = pending s /\ running s' = true /\ shut s' = true /\ panicked s' = panicked s /\
  log s' = (log s ++ [(pc_caller c, RErr CShutdown)])%list.
Proof.
  intros Hr Hs Hc. cbv zeta. cbn [Rpc.step]. rewrite Hr. unfold on_call. rewrite Hs.
  unfold complete, completed in *. cbn [log]. rewrite Hc. cbn. repeat split; assumption.
Qed.

(** The variant: after completing the rejected call serve goes on to send it
    and to record it. *)
Definition on_call_ft (s : st) (c : pcall) (sendok : bool) : st :=
  let i := next_id s in
  let s1 := mkSt ((i + 1) mod idmod) (pending s) (sig s) (shut s) (running s) (panicked s) (log s) in
  let s1' := if shut s then complete (pc_caller c) (RErr CShutdown) s1 else s1 in
  let s2 := mkSt (next_id s1') (pending s1') (sig s1')
                 (if shut s then true else pc_typ c =? msg_shutdown)
                 (running s1') (panicked s1') (log s1') in
  if negb sendok then exit_serve (complete (pc_caller c) (RErr CSend) s2)
  else set_pending ((i, c) :: pending s2) s2.

Definition step_ft (s : st) (e : event) : st :=
  match e with
  | ECall c ok => if running s then on_call_ft s c ok else s
  | _ => step s e
  end.

Definition run_ft (tr : list event) : st := fold_left step_ft tr init_st.

End Shut.
