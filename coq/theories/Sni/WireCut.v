(** How the bytes of a reply frame reach handleMessage (seeded change C03-j).

    The frame reader hands the frame out in pieces: a websocket message may
    come in fragments, and the network connection delivers whatever has
    arrived.  One [Read] returns the rest of the current piece or as much of
    it as fits the buffer; [io.ReadFull] repeats until the buffer is full or
    the frame has ended.  handleMessage takes the fixed ten bytes (id, type,
    error code) and hands the rest to the decoder, every read of which is a
    full read (RpcGen: [gen_decoder_reads]).  What it does with a frame must
    not depend on how the frame was cut. *)
From Coq Require Import List NArith Arith PeanoNat Lia.
Import ListNotations.

Definition chunks := list (list N).

(** One Read with a buffer of [n] bytes. *)
Definition read_once (cs : chunks) (n : nat) : list N * chunks :=
  match cs with
  | [] => ([], [])
  | c :: cs' => if length c <=? n then (c, cs') else (firstn n c, skipn n c :: cs')
  end.

(** io.ReadFull with a buffer of [n] bytes. *)
Fixpoint read_full (cs : chunks) (n : nat) : list N * chunks :=
  match n with
  | 0 => ([], cs)
  | _ =>
    match cs with
    | [] => ([], [])
    | c :: cs' =>
        if length c <=? n
        then let (r, rest) := read_full cs' (n - length c) in (c ++ r, rest)
        else (firstn n c, skipn n c :: cs')
    end
  end.

Lemma read_full_spec : forall cs n,
  fst (read_full cs n) = firstn n (concat cs) /\ concat (snd (read_full cs n)) = skipn n (concat cs).
Proof.
  induction cs as [|c cs IH]; intros n.
  - destruct n; cbn; rewrite ?firstn_nil, ?skipn_nil; auto.
  - destruct n as [|n]; [cbn; auto|].
    cbn [read_full concat]. destruct (length c <=? S n) eqn:E.
    + apply Nat.leb_le in E. specialize (IH (S n - length c)).
      destruct (read_full cs (S n - length c)) as [r rest]. cbn [fst snd] in *.
      destruct IH as [I1 I2]. split.
      * rewrite firstn_app, I1. f_equal. symmetry. apply firstn_all2. exact E.
      * rewrite skipn_app, I2. rewrite (skipn_all2 c) by exact E. reflexivity.
    + apply Nat.leb_gt in E. cbn [fst snd concat]. split.
      * rewrite firstn_app. replace (S n - length c) with 0 by lia. cbn. rewrite app_nil_r. reflexivity.
      * rewrite skipn_app. replace (S n - length c) with 0 by lia. cbn. reflexivity.
Qed.

Definition header_len : nat := 10.

(** handleMessage, parametrised by the way the header is fetched: a frame
    whose header is incomplete is dropped ("small packet received");
    otherwise header and body go to the continuation [k] (look the call up
    by id, decode the body into its response, complete it). *)
Definition handle {R} (fetch : chunks -> nat -> list N * chunks) (k : list N -> list N -> R) (small : R)
           (cs : chunks) : R :=
  let (h, rest) := fetch cs header_len in
  if length h =? header_len then k h (concat rest) else small.

(** With the full read, what happens to a frame is a function of its bytes. *)
Definition handle_bytes {R} (k : list N -> list N -> R) (small : R) (bs : list N) : R :=
  if header_len <=? length bs then k (firstn header_len bs) (skipn header_len bs) else small.

Theorem handle_full_is_bytes : forall R (k : list N -> list N -> R) small cs,
  handle read_full k small cs = handle_bytes k small (concat cs).
Proof.
  intros R k small cs. unfold handle, handle_bytes.
  pose proof (read_full_spec cs header_len) as [S1 S2].
  destruct (read_full cs header_len) as [h rest]. cbn [fst snd] in *. subst h. rewrite S2.
  rewrite firstn_length.
  destruct (header_len <=? length (concat cs)) eqn:E.
  - apply Nat.leb_le in E. rewrite Nat.min_l by exact E. rewrite Nat.eqb_refl. reflexivity.
  - apply Nat.leb_gt in E. rewrite Nat.min_r by lia.
    destruct (length (concat cs) =? header_len) eqn:E2; [apply Nat.eqb_eq in E2; lia|reflexivity].
Qed.

Theorem delivery_independent_of_chunking : forall R (k : list N -> list N -> R) small cs cs',
  concat cs = concat cs' -> handle read_full k small cs = handle read_full k small cs'.
Proof. intros. rewrite !handle_full_is_bytes. congruence. Qed.

(** In particular a complete frame is never dropped as a small packet. *)
Theorem complete_frame_not_dropped : forall R (k : list N -> list N -> R) small cs,
  header_len <= length (concat cs) ->
  handle read_full k small cs = k (firstn header_len (concat cs)) (skipn header_len (concat cs)).
Proof.
  intros R k small cs H. rewrite handle_full_is_bytes. unfold handle_bytes.
  apply Nat.leb_le in H. rewrite H. reflexivity.
Qed.

(** ** The header fetched with a single Read (C03-j), refuted

    The reply to call 1 (type 1, no error, a bytes field "ok"): sent as one
    piece it is delivered; the same bytes with a first fragment of nine bytes
    -- or over a connection that hands out seven bytes at a time -- are
    dropped as a small packet, and the call is never completed. *)
Definition reply_1 : list N := [0;0;0;0;0;0;0;1; 1; 0; 0;0;0;2; 111;107]%N.

Definition delivered (h body : list N) : option (list N * list N) := Some (h, body).

Theorem single_read_header_refuted :
  handle read_once delivered None [reply_1] = Some (firstn 10 reply_1, skipn 10 reply_1) /\
  handle read_once delivered None [firstn 9 reply_1; skipn 9 reply_1] = None /\
  handle read_once delivered None [firstn 7 reply_1; firstn 7 (skipn 7 reply_1); skipn 14 reply_1] = None /\
  handle read_full delivered None [firstn 9 reply_1; skipn 9 reply_1] = Some (firstn 10 reply_1, skipn 10 reply_1) /\
  handle read_full delivered None [firstn 7 reply_1; firstn 7 (skipn 7 reply_1); skipn 14 reply_1]
    = Some (firstn 10 reply_1, skipn 10 reply_1).
Proof. vm_compute. repeat split; reflexivity. Qed.
