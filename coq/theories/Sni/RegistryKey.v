(** The key of the endpoint registry is the name itself.

    In Sni/Registry.v [Server.endpoints] is keyed by the endpoint name as it
    was given ([AUpgrade t n] maps [n], [AUnmap] deletes [th_name]).  Names
    that differ -- in one letter's case, in a trailing dot or slash, in
    anything -- are different keys: nothing done under one name changes what
    another resolves to.  A registry in which some operations fold the name
    to a key and others do not (the seeded change C15-h: lookup and upgrade
    under the lower-cased name, unmap under the raw one) is kept as a refuted
    counter-model.

    Definitions and proofs. *)
From Coq Require Import List NArith ZArith Bool.
From Verif Require Import Sni.Registry Sni.RegistryProofs.
Import ListNotations.
Local Open Scope N_scope.

(** The name an action works under. *)
Definition action_name (s : state) (a : action) : option N :=
  match a with
  | AUpgrade _ n => Some n
  | AUnmap t => option_map th_name (get t (threads s))
  | _ => None
  end.

(** Names that differ are independent: a step changes the entry of at most
    the name it works under. *)
Theorem names_independent s a s' n' :
  step s a = Some s' -> action_name s a <> Some n' -> lookup_name s' n' = lookup_name s n'.
Proof.
  unfold lookup_name. intros H Hn.
  destruct a as [t n|t sv|t|t|t|t|n|t n|t]; cbn [step action_name] in *.
  - destruct (get t (threads s)); [discriminate|]. injection H as <-. cbn [reg].
    apply get_set_other. intros ->. now apply Hn.
  - destruct (get t (threads s)) as [th|]; [|discriminate].
    destruct (pc_eqb (th_pc th) P1 && negb (th_crashed th)); [|discriminate]. now injection H as <-.
  - destruct (get t (threads s)) as [th|]; [|discriminate].
    destruct (pc_eqb (th_pc th) P2 && negb (th_crashed th)); [|discriminate]. now injection H as <-.
  - destruct (get t (threads s)) as [th|]; [|discriminate].
    destruct (pc_eqb (th_pc th) P3 && negb (th_crashed th)); [|discriminate]. now injection H as <-.
  - destruct (get t (threads s)) as [th|]; [|discriminate]. cbn [option_map] in Hn.
    destruct (pc_eqb (th_pc th) P4); [|discriminate]. injection H as <-. cbn [reg].
    destruct (get (th_name th) (reg s)) as [t'|]; [|reflexivity].
    destruct (t' =? t); [|reflexivity].
    apply get_del_other. intros E. apply Hn. now rewrite E.
  - destruct (get t (threads s)) as [th|]; [|discriminate].
    destruct (pc_eqb (th_pc th) P5); [|discriminate]. now injection H as <-.
  - now injection H as <-.
  - now injection H as <-.
  - destruct (get t (threads s)) as [th|]; [|discriminate].
    destruct (pc_eqb (th_pc th) P1); [|discriminate]. now injection H as <-.
Qed.

(** ** A folded key used by some operations only *)

Section Folded.
Variable key : N -> N.     (* e.g. lower-casing *)

(** lookup and upgrade go through [key]; unmap compares and deletes under the raw name *)
Definition lookup_folded (s : state) (n : N) : option N := get (key n) (reg s).

Definition step_folded (s : state) (a : action) : option state :=
  match a with
  | AUpgrade t n =>
      match get t (threads s) with
      | Some _ => None
      | None => Some (mkState (set t (mkThread n P1 0%Z false) (threads s))
                              (set (key n) t (reg s)) ((n, t) :: ups s) (log s))
      end
  | _ => step s a
  end.

Fixpoint exec_folded (s : state) (acts : list action) : option state :=
  match acts with
  | [] => Some s
  | a :: r => match step_folded s a with Some s' => exec_folded s' r | None => None end
  end.
End Folded.

(** Names 8 ("Tester-7") and 7 ("tester-7") fold to 7.  Connection 1
    connects under name 8, serves, ends on its own and runs all its defers:
    its unmap looks under 8, finds nothing, and the name keeps resolving to
    the ended connection -- in the registry model [ended_not_registered]
    excludes exactly that. *)
Definition fold87 (n : N) : N := if n =? 8 then 7 else n.

Theorem folded_key_refuted :
  match exec_folded fold87 init
          [AUpgrade 1 8; AConnect 1 5; AServeEnd 1; ADisconnect 1; AUnmap 1; AClose 1] with
  | Some s =>
      (exists th, get 1 (threads s) = Some th /\ th_pc th = P6) /\
      lookup_folded fold87 s 8 = Some 1 /\ lookup_folded fold87 s 7 = Some 1
  | None => False
  end /\
  (* the same history in the model of the source: the name is free again *)
  match exec init [AUpgrade 1 8; AConnect 1 5; AServeEnd 1; ADisconnect 1; AUnmap 1; AClose 1] with
  | Some s => lookup_name s 8 = None /\ lookup_name s 7 = None
  | None => False
  end.
Proof. vm_compute. repeat split. eexists. split; reflexivity. Qed.
