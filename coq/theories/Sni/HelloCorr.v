(** Correspondence evaluator for C14: run the model of Sni/Hello.v with the
    regenerated buffer size on the byte streams, segmentations and read sizes
    the harness fed to the real TLSHelloConn, and compare. *)
From Coq Require Import List NArith ZArith Bool String Uint63.
From Verif Require Import Lib.Bytes Sni.Wire Sni.Hello Sni.Handover Gen.HelloConsts.
Import ListNotations.
Local Open Scope N_scope.

(** Byte strings reach Coq packed seven to a primitive integer (least
    significant byte first): list literals of that size elaborate an order
    of magnitude faster than one numeral per byte. *)
Fixpoint le_int (k : nat) (v : int) : bytes :=
  match k with
  | O => []
  | S k' => Z.to_N (Uint63.to_Z (Uint63.land v 255)) :: le_int k' (Uint63.lsr v 8)
  end.

Definition unpack (len : N) (ws : list int) : bytes :=
  firstn (N.to_nat len) (flat_map (le_int 7) ws).

Fixpoint bytes_eqb (a b : bytes) : bool :=
  match a, b with
  | [], [] => true
  | x :: a', y :: b' => (x =? y) && bytes_eqb a' b'
  | _, _ => false
  end.

(** error kinds as the harness projects them:
    0 ok, 1 io.EOF, 2 bufio.ErrBufferFull, 3 "not TLS", 9 crash/other *)
Definition kind_of (r : sres) : N :=
  match r with
  | SInfo _ _ => 0
  | SErr REof => 1
  | SErr RFull => 2
  | SErr RNotTLS => 3
  | SFuel => 8
  end.

Definition end_of (e : option rerr) : N :=
  match e with None => 0 | Some REof => 1 | Some _ => 7 end.

Definition first_proto (ps : list bytes) : bytes :=
  match ps with [] => [] | p :: _ => p end.

Inductive hcase :=
(** stream, segmentation schedule, sizes of the Reads after HelloInfo;
    observed: kind, name, proto count, first proto, bytes pulled from the
    connection by HelloInfo, sizes of the chunks the Reads returned, how the
    Reads ended (0 list exhausted, 1 io.EOF) *)
| HSniff (input : bytes) (sched reads : list N) (late : bool)
         (kind : N) (name : bytes) (nproto : N) (first : bytes)
         (pulled : N) (chunks : list N) (ended : N)
(** the same for a synthetic hello: the spec the harness built it from, the
    extra bytes in the record, the record bytes the harness produced, whether
    the harness meant it to be well-formed, and the length of the stream tail *)
| HSynth (h : hello_spec) (extra record : bytes) (wf : bool) (tail : N)
         (sched reads : list N) (late : bool)
         (kind : N) (name : bytes) (nproto : N) (first : bytes)
         (pulled : N) (chunks : list N) (ended : N).

Definition check_sniff (input : bytes) (sched reads : list N) (late : bool)
  (kind : N) (name : bytes) (nproto : N) (first : bytes)
  (pulled : N) (chunks : list N) (ended : N) : bool :=
  match sniff gen_hello_buf_size (br_new (mkConn input sched late)) with
  | Ok (r, b1) =>
      (kind_of r =? kind) &&
      match r with
      | SInfo n ps =>
          bytes_eqb n name && (N.of_nat (List.length ps) =? nproto)
          && bytes_eqb (first_proto ps) first
      | _ => true
      end &&
      (b_pulled b1 =? pulled) &&
      (* the Reads: TLSHelloConn.Read under the hand-over policy emitted from the
         source, and - the same thing when the policy is the deployed one - the
         plain bufio Reads the older theorems are about *)
      match hc_reads gen_read_handover gen_hello_buf_size reads (hc_start 0 b1) with
      | Some (cs, e, _) => list_eqb N.eqb (map lenN cs) chunks && (end_of e =? ended)
      | None => false
      end
  | _ => false
  end.

(** The Coq builder produces the bytes the harness's builder produced, and
    agrees on well-formedness. *)
Definition check_build (c : hcase) : bool :=
  match c with
  | HSynth h extra record wf _ _ _ _ _ _ _ _ _ _ _ =>
      bytes_eqb (build_hello h extra) record && Bool.eqb (wf_hellob h) wf
  | _ => true
  end.

Definition check_case (c : hcase) : bool :=
  match c with
  | HSniff input sched reads late kind name nproto first pulled chunks ended =>
      check_sniff input sched reads late kind name nproto first pulled chunks ended
  | HSynth h extra record wf tail sched reads late kind name nproto first pulled chunks ended =>
      check_sniff (record ++ rep 0 tail) sched reads late kind name nproto first pulled chunks ended
  end.

Fixpoint mismatches_from (f : hcase -> bool) (i : nat) (cs : list hcase) : list nat :=
  match cs with
  | [] => []
  | c :: r => if f c then mismatches_from f (S i) r
              else i :: mismatches_from f (S i) r
  end.

Definition mismatches (cs : list hcase) : list nat := mismatches_from check_case 0 cs.
Definition build_mismatches (cs : list hcase) : list nat := mismatches_from check_build 0 cs.
