(** TLSHelloConn.Read after HelloInfo: how the bytes the peek buffer holds -
    the hello and whatever arrived behind it in the same segments - and the
    bytes still on the connection are handed to the caller, for every sequence
    of caller buffer sizes.

    The translator emits the shape of TLSHelloConn.Read as a [handover]
    policy; [hc_read] gives each policy its meaning on top of the bufio model
    of Sni/Hello.v.  Definitions only; proofs are in HandoverProofs.v. *)
From Coq Require Import List NArith Bool String.
From Verif Require Import Lib.Bytes Sni.Wire Sni.Hello.
Import ListNotations.
Local Open Scope N_scope.

Inductive handover :=
| HoNever                 (* { return c.br.Read(buf) } *)
| HoWhenDrained           (* { if c.br.Buffered() == 0 { return c.Conn.Read(buf) }; return c.br.Read(buf) } *)
| HoAfterCount            (* the reader is dropped once as many bytes as HelloInfo peeked were returned *)
| HoUnknown (s : string).

(** The connection as the caller of Read sees it. *)
Record hconn := mkHc {
  hc_br : br;            (* the bufio.Reader (its buffer is lost once [hc_direct]) *)
  hc_direct : bool;      (* Reads go to the wrapped connection *)
  hc_left : N            (* HoAfterCount: bytes of the peeked hello not yet returned *)
}.

(** After HelloInfo peeked [peeked] bytes. *)
Definition hc_start (peeked : N) (b : br) : hconn := mkHc b false peeked.

(** c.Conn.Read(buf), len(buf) = m: nothing goes through the bufio.Reader. *)
Definition direct_read (m : N) (b : br) : bytes * option rerr * br :=
  if m =? 0 then ([], None, b)
  else
    let '(got, e, c') := conn_read m (b_conn b) in
    (got, e, mkBr (b_buf b) (b_err b) c' (b_pulled b + lenN got)).

(** TLSHelloConn.Read(buf), len(buf) = m.  [None]: the translator did not
    recognise the body. *)
Definition hc_read (pol : handover) (cap m : N) (h : hconn) : option (bytes * option rerr * hconn) :=
  match pol with
  | HoNever =>
      let '(got, e, b') := bread cap m (hc_br h) in Some (got, e, mkHc b' false (hc_left h))
  | HoWhenDrained =>
      match b_buf (hc_br h) with
      | [] => let '(got, e, b') := direct_read m (hc_br h) in Some (got, e, mkHc b' false (hc_left h))
      | _ => let '(got, e, b') := bread cap m (hc_br h) in Some (got, e, mkHc b' false (hc_left h))
      end
  | HoAfterCount =>
      if hc_direct h then
        let '(got, e, b') := direct_read m (hc_br h) in Some (got, e, mkHc b' true (hc_left h))
      else
        let '(got, e, b') := bread cap m (hc_br h) in
        if 0 <? hc_left h then
          if hc_left h <=? lenN got then Some (got, e, mkHc b' true 0)
          else Some (got, e, mkHc b' false (hc_left h - lenN got))
        else Some (got, e, mkHc b' false 0)
  | HoUnknown _ => None
  end.

(** A sequence of Reads with the given buffer sizes; stops at the first error. *)
Fixpoint hc_reads (pol : handover) (cap : N) (ms : list N) (h : hconn)
  : option (list bytes * option rerr * hconn) :=
  match ms with
  | [] => Some ([], None, h)
  | m :: ms' =>
      match hc_read pol cap m h with
      | None => None
      | Some (got, Some e, h') => Some ([got], Some e, h')
      | Some (got, None, h') =>
          match hc_reads pol cap ms' h' with
          | Some (l, e', h'') => Some (got :: l, e', h'')
          | None => None
          end
      end
  end.

(** What the caller can still get. *)
Definition hc_owed (h : hconn) : bytes :=
  if hc_direct h then c_rest (b_conn (hc_br h)) else remaining (hc_br h).

(** The policies under which nothing is lost (decided on the emitted policy). *)
Definition handover_transparentb (pol : handover) : bool :=
  match pol with HoNever | HoWhenDrained => true | _ => false end.

Definition handover_eqb (a b : handover) : bool :=
  match a, b with
  | HoNever, HoNever | HoWhenDrained, HoWhenDrained | HoAfterCount, HoAfterCount => true
  | _, _ => false
  end.
