(** Definitions over the objects regenerated from /repo's source
    (Gen/WireSchema.v); the obligations about them are in WireGen.v, so the
    correspondence evaluator still builds when an obligation fails. *)
From Coq Require Import List NArith ZArith Bool String.
From Verif Require Import Lib.Bytes Sni.Wire Gen.WireSchema.
Import ListNotations.
Local Open Scope N_scope.

Definition gen_schemas_opt : option (list (string * schema)) :=
  gen_schemas_of gen_enc_fields gen_dec_fields.

Definition gen_schemas : list (string * schema) :=
  match gen_schemas_opt with Some l => l | None => [] end.

Definition gen_table : request_table := mk_request_table gen_requests gen_schemas.

(** Field names of the generated layouts (for the frozen-layout check). *)
Definition gfield_name (g : gfield) : string :=
  match g with GF _ n => n | GUnknown t => t end.

Definition gen_field_names : list (string * list string) :=
  map (fun nf => (fst nf, map gfield_name (snd nf))) gen_enc_fields.
