(** Proofs about Sni/ReadBuf.v. *)
From Coq Require Import List NArith Bool Arith Lia.
From Verif Require Import Lib.Bytes Sni.Wire Sni.ReadBuf.
Import ListNotations.

Lemma upd_same {A} (f : nat -> A) k v : upd f k v k = v.
Proof. unfold upd. now rewrite Nat.eqb_refl. Qed.

Lemma upd_other {A} (f : nat -> A) k v x : x <> k -> upd f k v x = f x.
Proof. intros H. unfold upd. destruct (Nat.eqb_spec x k); [contradiction|reflexivity]. Qed.

Lemma bpolicy_eq_dec (a b : bpolicy) : {a = b} + {a <> b}.
Proof. decide equality. Qed.

Section Safe.
Variable pol : bpolicy.
Variable data : nat -> bytes.
Hypothesis Hsafe : pol <> BPutBeforeEncode.

Definition hold (s : sys) (i : nat) : Prop := holding pol (t_pc (th s i)) = true.

Record Inv (s : sys) : Prop := mkInv {
  inv_bound : forall i, hold s i -> t_buf (th s i) < next s /\ ~ In (t_buf (th s i)) (pool s);
  inv_distinct : forall i j, i <> j -> hold s i -> hold s j -> t_buf (th s i) <> t_buf (th s j);
  inv_pool : NoDup (pool s) /\ forall b, In b (pool s) -> b < next s;
  inv_read : forall i, t_pc (th s i) = 2 -> heap s (t_buf (th s i)) = data i;
  inv_reply : forall i r, t_reply (th s i) = Some r -> r = data i
}.

Lemma inv_init : Inv init.
Proof.
  constructor; cbn.
  - intros i H. unfold hold in H. cbn in H. destruct pol; discriminate.
  - intros i j _ H. unfold hold in H. cbn in H. destruct pol; discriminate.
  - split; [constructor|intros b []].
  - discriminate.
  - discriminate.
Qed.

Ltac th_cases x i := destruct (Nat.eq_dec x i) as [->|?];
                     [rewrite ?upd_same in *|rewrite ?upd_other in * by assumption].

Lemma holding_1 : holding pol 1 = true. Proof. destruct pol; reflexivity. Qed.
Lemma holding_2 : holding pol 2 = true. Proof. destruct pol; reflexivity. Qed.
Lemma holding_0 : holding pol 0 = false. Proof. destruct pol; reflexivity. Qed.
Lemma holding_4 : holding pol 4 = false. Proof. destruct pol; reflexivity. Qed.

(** acquiring a fresh buffer *)
Lemma inv_acquire_fresh s i :
  Inv s -> t_pc (th s i) = 0 ->
  Inv (mkSys (heap s) (S (next s)) (pool s) (upd (th s) i (mkT 1 (next s) None))).
Proof.
  intros [Hb Hd Hp Hr Hy] Hpc. constructor; cbn [heap next pool th]; unfold hold; cbn [th].
  - intros x Hx. th_cases x i; cbn [t_buf t_pc] in *.
    + split; [lia|]. intros Hin. apply (proj2 Hp) in Hin. lia.
    + destruct (Hb x Hx). split; [lia|assumption].
  - intros x y Hxy Hx Hy'. th_cases x i; th_cases y i; cbn [t_buf t_pc] in *.
    + contradiction.
    + destruct (Hb y Hy'). lia.
    + destruct (Hb x Hx). lia.
    + apply Hd; assumption.
  - split; [apply Hp|]. intros b Hin. apply (proj2 Hp) in Hin. lia.
  - intros x Hx. th_cases x i; cbn [t_buf t_pc] in *; [discriminate|apply Hr; assumption].
  - intros x r Hx. th_cases x i; cbn [t_reply] in *; [discriminate|eapply Hy; eassumption].
Qed.

(** acquiring a buffer out of the pool *)
Lemma inv_acquire_pool s i b rest :
  Inv s -> t_pc (th s i) = 0 -> pool s = b :: rest ->
  Inv (mkSys (heap s) (next s) rest (upd (th s) i (mkT 1 b None))).
Proof.
  intros [Hb Hd Hp Hr Hy] Hpc Hpool. rewrite Hpool in *.
  destruct Hp as [Hnd Hlt]. inversion Hnd as [|b' rest' Hnin Hnd']; subst.
  constructor; cbn [heap next pool th]; unfold hold; cbn [th].
  - intros x Hx. th_cases x i; cbn [t_buf t_pc] in *.
    + split; [apply Hlt; left; reflexivity|assumption].
    + destruct (Hb x Hx) as [H1 H2]. split; [assumption|]. intros Hin. apply H2. right. assumption.
  - intros x y Hxy Hx Hy'. th_cases x i; th_cases y i; cbn [t_buf t_pc] in *.
    + contradiction.
    + destruct (Hb y Hy') as [_ H2]. intros ->. apply H2. left. reflexivity.
    + destruct (Hb x Hx) as [_ H2]. intros <-. apply H2. left. reflexivity.
    + apply Hd; assumption.
  - split; [assumption|]. intros c Hin. apply Hlt. right. assumption.
  - intros x Hx. th_cases x i; cbn [t_buf t_pc] in *; [discriminate|apply Hr; assumption].
  - intros x r Hx. th_cases x i; cbn [t_reply] in *; [discriminate|eapply Hy; eassumption].
Qed.

Lemma inv_step s i miss : Inv s -> Inv (step pol data s i miss).
Proof.
  intros HI. unfold step.
  destruct (t_pc (th s i)) as [|[|[|[|k]]]] eqn:Hpc.
  - (* acquire *)
    unfold acquire. generalize (inv_acquire_fresh s i HI Hpc).
    destruct pol eqn:Ep; try contradiction.
    + destruct (pool s); destruct miss; intros Hf; exact Hf.
    + destruct (pool s) as [|b rest] eqn:Hpool; destruct miss; intros Hf; try exact Hf.
      apply inv_acquire_pool; assumption.
  - (* read into the buffer *)
    destruct HI as [Hb Hd Hp Hr Hy].
    assert (Hi : hold s i) by (unfold hold; rewrite Hpc; apply holding_1).
    constructor; cbn [heap next pool th]; unfold hold; cbn [th].
    + intros x Hx. th_cases x i; cbn [t_buf t_pc] in *; [apply Hb; assumption|apply Hb; assumption].
    + intros x y Hxy Hx Hy'. th_cases x i; th_cases y i; cbn [t_buf t_pc] in *.
      * contradiction.
      * apply Hd; assumption.
      * apply Hd; assumption.
      * apply Hd; assumption.
    + assumption.
    + intros x Hx. th_cases x i; cbn [t_buf t_pc] in *.
      * try reflexivity; apply upd_same.
      * assert (Hxh : hold s x) by (unfold hold; rewrite Hx; apply holding_2).
        rewrite ?(upd_other (th s) i _ x) by assumption.
        rewrite upd_other; [apply Hr; assumption|]. apply Hd; assumption.
    + intros x r Hx. th_cases x i; cbn [t_reply] in *; [discriminate|eapply Hy; eassumption].
  - (* encode (the policy is a safe one) *)
    destruct HI as [Hb Hd Hp Hr Hy].
    assert (Hi : hold s i) by (unfold hold; rewrite Hpc; apply holding_2).
    assert (Henc : Inv (mkSys (heap s) (next s) (pool s)
                          (upd (th s) i (mkT 3 (t_buf (th s i)) (Some (heap s (t_buf (th s i)))))))).
    { constructor; cbn [heap next pool th]; unfold hold; cbn [th].
      - intros x Hx. th_cases x i; cbn [t_buf t_pc] in *; apply Hb; assumption.
      - intros x y Hxy Hx Hy'. th_cases x i; th_cases y i; cbn [t_buf t_pc] in *;
          try contradiction; apply Hd; assumption.
      - assumption.
      - intros x Hx. th_cases x i; cbn [t_buf t_pc] in *; [discriminate|apply Hr; assumption].
      - intros x r Hx. th_cases x i; cbn [t_reply] in *.
        + injection Hx as <-. apply Hr. assumption.
        + eapply Hy; eassumption. }
    destruct pol; try contradiction; exact Henc.
  - (* after the encoding *)
    destruct (bpolicy_eq_dec pol BPutAfterEncode) as [Ep|Ep].
    2:{ destruct pol; try contradiction; assumption. }
    rewrite Ep.
    destruct HI as [Hb Hd Hp Hr Hy].
    assert (Hi : hold s i) by (unfold hold; rewrite Hpc, Ep; reflexivity).
    destruct (Hb i Hi) as [Hlt Hnin].
    constructor; cbn [heap next pool th]; unfold hold; cbn [th].
    + intros x Hx. th_cases x i; cbn [t_buf t_pc] in *; [rewrite holding_4 in Hx; discriminate|].
      destruct (Hb x Hx) as [H1 H2]. split; [assumption|]. intros [He|Hin]; [|contradiction].
      apply (Hd x i); auto.
    + intros x y Hxy Hx Hy'. th_cases x i; th_cases y i; cbn [t_buf t_pc] in *;
        try (rewrite holding_4 in *; discriminate).
      apply Hd; assumption.
    + split; [constructor; [assumption|apply Hp]|]. intros b [<-|Hin]; [assumption|apply Hp; assumption].
    + intros x Hx. th_cases x i; cbn [t_buf t_pc] in *; [discriminate|apply Hr; assumption].
    + intros x r Hx. th_cases x i; cbn [t_reply] in *; eapply Hy; eassumption.
  - assumption.
Qed.

Lemma inv_run : forall sch s, Inv s -> Inv (run pol data s sch).
Proof.
  induction sch as [|[i miss] r IH]; intros s HI; [assumption|].
  cbn [run]. apply IH. apply inv_step. assumption.
Qed.

(** Any number of handler threads, any interleaving of their steps, any
    behaviour of the pool: the bytes encoded into the reply of a call are the
    bytes that were read for that call. *)
Theorem reply_is_what_was_read sch i r :
  t_reply (th (run pol data init sch) i) = Some r -> r = data i.
Proof. apply (inv_reply _ (inv_run sch init inv_init)). Qed.

End Safe.

(** A buffer given back before the encoding: two calls, the second one
    acquires the buffer the first one has just put back and reads into it; the
    first call's reply then carries the second call's bytes. *)
Definition crossed_schedule : list (nat * bool) :=
  [ (0, false); (0, false); (0, false);      (* call 0: acquire, read, put *)
    (1, false); (1, false);                  (* call 1: acquire (same buffer), read *)
    (0, false) ]%nat.                        (* call 0: encode *)

Lemma put_before_encode_crossed :
  let data := fun i : nat => match i with O => [10; 11; 12]%N | _ => [20; 21; 22]%N end in
  t_reply (th (run BPutBeforeEncode data init crossed_schedule) 0) = Some (data 1%nat) /\
  data 1%nat <> data 0%nat.
Proof. cbn. split; [reflexivity|discriminate]. Qed.
