(** Correspondence evaluator for C01: the stream stages of Sni/Stream.v and
    the close system of Sni/StreamClose.v, run on what the harness fed to the
    real sideConn, readResponse decoder, net.Pipe and proxy.  Payload bytes do
    not reach Coq: sizes, splits, message kinds and buffer sizes do, and the
    model runs on zero bytes of those sizes (the byte-for-byte comparison on
    real data is the harness's oracle). *)
From Coq Require Import List NArith Bool.
From Verif Require Import Lib.Bytes Sni.Wire Sni.Hello Sni.Stream Sni.StreamClose Gen.StreamConsts.
Import ListNotations.
Local Open Scope N_scope.

Definition zeros (n : N) : bytes := rep 0 n.

Fixpoint sumN (l : list N) : N := match l with [] => 0 | x :: r => x + sumN r end.

Definition pair_eqb (a b : N * N) : bool := (fst a =? fst b) && (snd a =? snd b).

(** the messages the raw peer sees for one Write each, then CloseWrite:
    (0, len) binary, (1, 3) the text message "EOF" *)
Definition model_write_frames (sizes : list N) (close_write : bool) : list (N * N) :=
  flat_map (fun n => map (fun f => (0, lenN f)) (frames_of gen_side_chunk (zeros n))) sizes
  ++ (if close_write then [(1, 3)] else []).

Definition model_write_ns (sizes : list N) : list N :=
  map (fun n => match side_write gen_side_chunk (zeros n) with WDone k _ => k | WFuel => 0 end) sizes.

Definition end_code (e : rerrs) : N :=
  match e with SNil => 0 | SEof => 1 | SErr => 2 | SBlock => 3 | SFuel => 4 end.

Definition place_aliased (p : place) : bool := match p with PInPlace => true | _ => false end.

(** Settle the close system: fire the first enabled system rule until none is. *)
Fixpoint settle (fuel : nat) (s : cstate) : cstate :=
  match fuel with
  | O => s
  | S f =>
      match filter (fun r => enabled r s) system_rules with
      | [] => s
      | r :: _ => settle f (fire r s)
      end
  end.

Inductive scase :=
| KWrite (sizes : list N) (close_write : bool) (ns : list N) (frames : list (N * N))
| KRead (script : list msg) (bufs : list N) (total : N) (ended : N)
| KReply (cap len : N) (ok : bool) (n : N) (aliased : bool)
| KPipe (writes reads chunks : list N)
| KClose (client_closes : bool) (other_read_ended : bool).

Definition check_case (c : scase) : bool :=
  match c with
  | KWrite sizes cw ns frames =>
      list_eqb N.eqb (model_write_ns sizes) ns &&
      list_eqb pair_eqb (model_write_frames sizes cw) frames
  | KRead script bufs total ended =>
      let '(outs, e, _) := side_reads bufs [] (mkS None script) in
      (sumN (map lenN outs) =? total) && (end_code e =? ended)
  | KReply cap len ok n aliased =>
      if cap <? len then negb ok
      else ok && (n =? len) &&
           Bool.eqb (place_aliased (dec_place gen_decode_alloc_max cap len)) aliased
  | KPipe writes reads chunks =>
      let '(outs, _) := pipe_reads reads (map zeros writes) in
      list_eqb N.eqb (map lenN outs) chunks
  | KClose client_closes ended =>
      let s0 := fire (if client_closes then EClientClose else EAppClose) cinit in
      let s := settle 16 s0 in
      Bool.eqb (if client_closes then ra s else rc s) ended
  end.

Fixpoint mismatches_from (i : nat) (cs : list scase) : list nat :=
  match cs with
  | [] => []
  | c :: r => if check_case c then mismatches_from (S i) r else i :: mismatches_from (S i) r
  end.

Definition mismatches (cs : list scase) : list nat := mismatches_from 0 cs.
