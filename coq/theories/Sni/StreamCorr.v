(** Correspondence evaluator for C01: the stream stages of Sni/Stream.v and
    the close system of Sni/StreamClose.v, run on what the harness fed to the
    real sideConn, readResponse decoder, net.Pipe and proxy.  Payload bytes do
    not reach Coq: sizes, splits, message kinds and buffer sizes do, and the
    model runs on zero bytes of those sizes (the byte-for-byte comparison on
    real data is the harness's oracle). *)
From Coq Require Import List NArith Bool.
From Verif Require Import Lib.Bytes Sni.Wire Sni.Hello Sni.Handover Sni.Stream Sni.StreamClose Sni.SideRead
  Gen.StreamConsts Gen.HelloConsts.
Import ListNotations.
Local Open Scope N_scope.

Definition zeros (n : N) : bytes := rep 0 n.

Fixpoint sumN (l : list N) : N := match l with [] => 0 | x :: r => x + sumN r end.

Definition pair_eqb (a b : N * N) : bool := (fst a =? fst b) && (snd a =? snd b).

(** the messages the raw peer sees for one Write each, then CloseWrite:
    (0, len) binary, (1, 3) the text message "EOF" *)
Definition model_write_frames (sizes : list N) (close_write : bool) : list (N * N) :=
  flat_map (fun n => map (fun f => (0, lenN f)) (frames_of gen_side_chunk (zeros n))) sizes
  ++ (if close_write then [(1, 3)] else []).

Definition model_write_ns (sizes : list N) : list N :=
  map (fun n => match side_write gen_side_chunk (zeros n) with WDone k _ => k | WFuel => 0 end) sizes.

Definition end_code (e : rerrs) : N :=
  match e with SNil => 0 | SEof => 1 | SErr => 2 | SBlock => 3 | SFuel => 4 end.

Definition place_aliased (p : place) : bool := match p with PInPlace => true | _ => false end.

(** Settle the close system: fire the first enabled rule that needs no
    further writes until none is. *)
Fixpoint settle (p : policy) (fuel : nat) (s : cstate) : cstate :=
  match fuel with
  | O => s
  | S f =>
      match filter (fun r => enabled p r s) read_rules with
      | [] => s
      | r :: _ => settle p f (fire p r s)
      end
  end.

(** The policy of the code under test; the legacy tunnel has no CloseWrite,
    so a half-closing JoinConn still closes it. *)
Definition corr_policy (mode : N) : policy :=
  match mode with
  | 0 => CloseBoth
  | _ => close_policy_of gen_join_defer_calls gen_closeall_calls
  end.

(** Reads issued after the first end, one result code each. *)
Fixpoint later_reads (n : nat) (s : sstate) : list N :=
  match n with
  | O => []
  | S n' =>
      let '(_, e, s', _) := side_read 4096 [] s in
      end_code e :: match e with SBlock => [] | _ => later_reads n' s' end
  end.

Definition rres_code (e : rres) : N :=
  match e with RNil => 0 | REofS => 1 | RErrS => 2 | RBlockS => 3 end.

(** Reads issued after the first end, with a 4096-byte buffer: 0 data, 1 eof, 2 error, 3 block *)
Fixpoint later_reads_f (n : nat) (s : rstate) : list N :=
  match n with
  | O => []
  | S n' =>
      let '(got, e, s', _) := side_read_f 4096 [] s in
      rres_code e :: match e with RBlockS => [] | _ => later_reads_f n' s' end
  end.

Inductive scase :=
| KWrite (sizes : list N) (close_write : bool) (ns : list N) (frames : list (N * N))
| KRead (script : list msg) (bufs : list N) (total : N) (ended : N) (later : list N)
| KReply (cap len : N) (ok : bool) (n : N) (aliased : bool)
| KPipe (writes reads chunks : list N)
| KWriteFail (sizes : list N) (ns : list N) (failed : bool)
| KClose (mode : N) (client_closes : bool) (first_ended later_ended : bool)
(** the front stage alone: TLSHelloConn on a scripted connection; per run the
    caller buffer size, the sizes the Reads returned, and how they ended
    (1 = io.EOF) *)
| KStage (input : bytes) (sched : list N) (runs : list (N * list N * N))
(** sideConn.Read over messages that arrive as fragments (zero-length
    messages and fragments, a message cut by the loss of the connection) *)
| KReadF (script : list fmsg) (bufs : list N) (total : N) (ended : N) (later : list N).

Definition check_case (c : scase) : bool :=
  match c with
  | KWrite sizes cw ns frames =>
      list_eqb N.eqb (model_write_ns sizes) ns &&
      list_eqb pair_eqb (model_write_frames sizes cw) frames
  | KRead script bufs total ended later =>
      let '(outs, e, s') := side_reads bufs [] (mkS None script) in
      (sumN (map lenN outs) =? total) && (end_code e =? ended) &&
      list_eqb N.eqb (later_reads (List.length later) s') later
  | KReply cap len ok n aliased =>
      if cap <? len then negb ok
      else ok && (n =? len) &&
           Bool.eqb (place_aliased (dec_place gen_decode_alloc_max cap len)) aliased
  | KWriteFail sizes ns failed =>
      (* the Writes before the failing one are complete; the failing one returns an n that some
         failure of NextWriter (k frames done) or of Close (k+1 frames counted) explains *)
      let fix go (sizes ns : list N) : bool :=
        match sizes, ns with
        | [], [] => true
        | sz :: sizes', n :: ns' =>
            match ns' with
            | [] =>
                if failed then
                  let k := N.to_nat (n / gen_side_chunk) in
                  let by_next := match side_write_f gen_side_chunk (zeros sz) (Some k) FNext with
                                 | WErrF n' _ _ => n' =? n | _ => false end in
                  let by_close := match k with
                                  | O => false
                                  | S k' => match side_write_f gen_side_chunk (zeros sz) (Some k') FClose with
                                            | WErrF n' _ _ => n' =? n | _ => false end
                                  end in
                  let by_last_close :=
                    match side_write_f gen_side_chunk (zeros sz) (Some k) FClose with
                    | WErrF n' _ _ => n' =? n | _ => false end in
                  by_next || by_close || by_last_close
                else n =? sz
            | _ => (n =? sz) && go sizes' ns'
            end
        | _, _ => false
        end in
      go (firstn (List.length ns) sizes) ns
  | KPipe writes reads chunks =>
      let '(outs, _) := pipe_reads reads (map zeros writes) in
      list_eqb N.eqb (map lenN outs) chunks
  | KStage input sched runs =>
      match sniff gen_hello_buf_size (br_new (mkConn input sched false)) with
      | Ok (_, b1) =>
          forallb (fun run : N * list N * N =>
                     let '(m, chunks, ended) := run in
                     match hc_reads gen_read_handover gen_hello_buf_size
                                    (repeat m (List.length chunks)) (hc_start 0 b1) with
                     | Some (cs, e, _) =>
                         list_eqb N.eqb (map lenN cs) chunks &&
                         (match e with None => 0 | Some REof => 1 | Some _ => 7 end =? ended)
                     | None => false
                     end) runs
      | _ => false
      end
  | KReadF script bufs total ended later =>
      let '(outs, e, s') := side_reads_f bufs [] (mkR None script) in
      (sumN (map lenN outs) =? total) && (rres_code e =? ended) &&
      list_eqb N.eqb (later_reads_f (List.length later) s') later
  | KClose mode client_closes first_ended later_ended =>
      let p := corr_policy mode in
      let s0 := fire p (if client_closes then EClientClose else EAppClose) cinit in
      let s := settle p 16 s0 in
      Bool.eqb (if client_closes then ra s else rc s) first_ended &&
      Bool.eqb (if client_closes then ra2 s else rc2 s) later_ended
  end.

Fixpoint mismatches_from (i : nat) (cs : list scase) : list nat :=
  match cs with
  | [] => []
  | c :: r => if check_case c then mismatches_from (S i) r else i :: mismatches_from (S i) r
  end.

Definition mismatches (cs : list scase) : list nat := mismatches_from 0 cs.
