(** The write deadline of a side connection (sniproxy/side_conn.go).

    SetWriteDeadline records the deadline; the writers hand the recorded value
    to the websocket (applyWriteDeadline) before they write, and the websocket
    applies what it was last given to every frame write.  [None] is the zero
    time: no deadline. *)
From Coq Require Import List NArith Bool.
Import ListNotations.
Local Open Scope N_scope.

(** the websocket's deadline after applyWriteDeadline; [skip_zero]: the
    variant that returns early when the recorded deadline is the zero time *)
Definition ws_after_apply (skip_zero : bool) (ws recorded : option N) : option N :=
  match recorded with
  | None => if skip_zero then ws else None
  | Some d => Some d
  end.

(** a frame write at instant t under the websocket's deadline *)
Definition write_ok (ws : option N) (t : N) : bool :=
  match ws with None => true | Some d => t <? d end.

(** A history of SetWriteDeadline calls, each followed by a write (which
    applies): the websocket's deadline after the last one. *)
Definition ws_after_sets (skip_zero : bool) (sets : list (option N)) : option N :=
  fold_left (ws_after_apply skip_zero) sets None.

(** Unconditional hand-over: the websocket holds exactly the last deadline
    set - in particular none after it was cleared, so a write at any later
    instant succeeds. *)
Lemma cleared_deadline_is_cleared sets t :
  ws_after_sets false (sets ++ [None]) = None /\ write_ok (ws_after_sets false (sets ++ [None])) t = true.
Proof. unfold ws_after_sets. rewrite fold_left_app. cbn. split; reflexivity. Qed.

(** The skipping variant: set d, clear, write at d: the old deadline is still
    in the websocket and the write fails. *)
Lemma skipped_clear_keeps_old_deadline d :
  ws_after_sets true [Some d; None] = Some d /\ write_ok (ws_after_sets true [Some d; None]) d = false.
Proof. cbn. rewrite N.ltb_irrefl. split; reflexivity. Qed.
