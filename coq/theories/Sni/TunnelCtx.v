(** The lifetime of the context a tunnel uses for its RPCs
    (sniproxy/tunnel.go newTunnel, endpoint_client.go Dial, proxy.go hostConn).

    Every Read / Write / Close of a multiplexed tunnel is an RPC made under
    t.ctx.  If that context is the one the DIAL was made under, the proxied
    connection lives only as long as the dial's context: once it is cancelled
    or its deadline passes every later RPC fails locally although neither side
    closed. *)
From Coq Require Import List NArith Bool String.
Import ListNotations.
Local Open Scope N_scope.

Inductive ctx_origin :=
| CtxOwn                       (* context.TODO() / context.Background(): never done *)
| CtxDial.                     (* the ctx parameter of Dial *)

(** the dial's context: done from instant [d] on (None: never) *)
Definition ctx_alive (dial_done : option N) (o : ctx_origin) (t : N) : bool :=
  match o with
  | CtxOwn => true
  | CtxDial => match dial_done with Some d => t <? d | None => true end
  end.

(** an RPC of the tunnel at instant t delivers its bytes iff the context is alive *)
Definition rpc_delivers (dial_done : option N) (o : ctx_origin) (t : N) : bool := ctx_alive dial_done o t.

Definition origin_of (stored : list string) : option ctx_origin :=
  if forallb (fun s => String.eqb s "context.TODO()" || String.eqb s "context.Background()") stored
  then Some CtxOwn else None.

(** Delivery does not depend on the lifetime of the dial's context. *)
Lemma own_ctx_always_delivers dial_done t : rpc_delivers dial_done CtxOwn t = true.
Proof. reflexivity. Qed.

(** A tunnel that keeps the dial's context: an RPC at or after the instant
    the dial context is done does not deliver; one before it does. *)
Lemma dial_ctx_dies d : rpc_delivers (Some d) CtxDial d = false /\ (0 < d -> rpc_delivers (Some d) CtxDial 0 = true).
Proof. unfold rpc_delivers, ctx_alive. rewrite N.ltb_irrefl. split; [reflexivity|]. intros H. now apply N.ltb_lt. Qed.
