(** Model of the sniproxy wire codec: sniproxy/encoder.go, decoder.go,
    msg_*.go, remote_err.go, endpoint_exchange.go, call_exchange.go and the
    frame entry points startCall (endpoint_server.go) and the header part of
    handleMessage (transport.go).

    Definitions only; proofs are in WireProofs.v so that the model still
    evaluates when a proof breaks. *)
From Coq Require Import List NArith ZArith Bool String.
From Verif Require Import Lib.Bytes.
Import ListNotations.
Local Open Scope N_scope.

(** * Field kinds and values *)

Inductive kind := KU64 | KInt | KStr | KBytes | KErr.

Definition kind_eqb (a b : kind) : bool :=
  match a, b with
  | KU64, KU64 | KInt, KInt | KStr, KStr | KBytes, KBytes | KErr, KErr => true
  | _, _ => false
  end.

(** [VErr None] is Go's nil [*remoteErr]; code 0 never appears inside [Some]. *)
Inductive value :=
| VU64 (n : N)
| VInt (z : Z)
| VBytes (b : bytes)
| VErr (e : option (Z * bytes)).

Definition schema := list kind.

Definition lenN (b : bytes) : N := N.of_nat (List.length b).

Definition wf_value (k : kind) (v : value) : Prop :=
  match k, v with
  | KU64, VU64 n => n < two64
  | KInt, VInt z => is_int64 z
  | KStr, VBytes b | KBytes, VBytes b => lenN b < two63
  | KErr, VErr None => True
  | KErr, VErr (Some (c, m)) => is_int64 c /\ c <> 0%Z /\ lenN m < two63
  | _, _ => False
  end.

Definition wf_valueb (k : kind) (v : value) : bool :=
  match k, v with
  | KU64, VU64 n => n <? two64
  | KInt, VInt z => ((- Z.of_N two63 <=? z) && (z <? Z.of_N two63))%Z
  | KStr, VBytes b | KBytes, VBytes b => lenN b <? two63
  | KErr, VErr None => true
  | KErr, VErr (Some (c, m)) =>
      ((- Z.of_N two63 <=? c) && (c <? Z.of_N two63))%Z
      && negb (c =? 0)%Z && (lenN m <? two63)
  | _, _ => false
  end.

(** * Encoder (encoder.go; the writer never fails in the model) *)

Definition enc_bytes (b : bytes) : bytes := le64 (lenN b) ++ b.

Definition enc_value (k : kind) (v : value) : bytes :=
  match k, v with
  | KU64, VU64 n => le64 n
  | KInt, VInt z => le64 (u64_of_int z)
  | KStr, VBytes b | KBytes, VBytes b => enc_bytes b
  | KErr, VErr None => le64 0
  | KErr, VErr (Some (c, m)) =>
      if (c =? 0)%Z then le64 0 else le64 (u64_of_int c) ++ enc_bytes m
  | _, _ => []
  end.

Fixpoint enc_schema (sch : schema) (vs : list value) : bytes :=
  match sch, vs with
  | k :: sch', v :: vs' => enc_value k v ++ enc_schema sch' vs'
  | _, _ => []
  end.

(** * Decoder (decoder.go) *)

Inductive derr :=
| EEof               (* io.ErrUnexpectedEOF *)
| ETail (n : N)      (* tailError *)
| ETooLong           (* errLengthOverflow *)
| EPanic.            (* a Go run-time panic: make() with an impossible size *)

Record dstate := mkD {
  inp : bytes;          (* what the reader still holds *)
  cnt : N;              (* decoder.n *)
  err : option derr;    (* sticky error *)
  alloc : N             (* ghost: upper bound on bytes handed out by make /
                           bytes.Buffer growth on this decode *)
}.

Definition init (input : bytes) : dstate := mkD input 0 None 0.

Definition set_err (e : derr) (d : dstate) : dstate :=
  mkD (inp d) (cnt d) (Some e) (alloc d).

(** The largest size Go's make([]byte, n) accepts on linux/amd64
    (runtime.maxAlloc = 2^48); beyond it the runtime panics. *)
Definition go_max_alloc : N := 281474976710656.

(** make([]byte, n) *)
Definition d_make (n : N) (d : dstate) : dstate :=
  if go_max_alloc <? n then set_err EPanic d
  else mkD (inp d) (cnt d) (err d) (alloc d + n).

(** decoder.read(buf) with len(buf) = n: io.ReadFull. *)
Definition d_read (n : N) (d : dstate) : bytes * dstate :=
  match err d with
  | Some _ => ([], d)
  | None =>
      if n <=? lenN (inp d) then
        let k := N.to_nat n in
        (firstn k (inp d), mkD (skipn k (inp d)) (cnt d + n) None (alloc d))
      else
        (inp d, mkD [] (cnt d + lenN (inp d)) (Some EEof) (alloc d))
  end.

Definition d_u8 (d : dstate) : N * dstate :=
  let '(got, d') := d_read 1 d in (de_bytes got, d').

(** decoder.u64: a short read leaves the unread high bytes zero. *)
Definition d_u64 (d : dstate) : N * dstate :=
  match err d with
  | Some _ => (0, d)
  | None => let '(got, d') := d_read 8 d in (de_bytes got, d')
  end.

Section WithAllocMax.
(** decodeAllocMax of decoder.go; regenerated into Gen/WireSchema.v. *)
Variable alloc_max : N.

(** decoder.bytes(buf) with len(buf) = cap. *)
Definition d_bytes (cap : N) (d : dstate) : bytes * dstate :=
  let '(n, d1) := d_u64 d in
  if n =? 0 then ([], d1)
  else match err d1 with
  | Some _ => ([], d1)
  | None =>
      if two63 <=? n then ([], set_err ETooLong d1)
      else if n <=? cap then d_read n d1
      else if n <=? alloc_max then
        let d2 := d_make n d1 in
        match err d2 with
        | Some _ => ([], d2)
        | None => d_read n d2
        end
      else
        (* io.CopyN into a bytes.Buffer: grows with what arrives *)
        let '(got, d2) := d_read n d1 in
        (got, mkD (inp d2) (cnt d2) (err d2) (alloc d2 + 4 * lenN got + 1024))
  end.

(** remoteErr.decodeFrom + decodeRemoteErr *)
Definition d_rerr (d : dstate) : value * dstate :=
  let '(c, d1) := d_u64 d in
  let code := int_of_u64 c in
  if (code =? 0)%Z then (VErr None, d1)
  else let '(m, d2) := d_bytes 0 d1 in (VErr (Some (code, m)), d2).

Definition dec_value (cap : N) (k : kind) (d : dstate) : value * dstate :=
  match k with
  | KU64 => let '(n, d') := d_u64 d in (VU64 n, d')
  | KInt => let '(n, d') := d_u64 d in (VInt (int_of_u64 n), d')
  | KStr => let '(b, d') := d_bytes 0 d in (VBytes b, d')
  | KBytes => let '(b, d') := d_bytes cap d in (VBytes b, d')
  | KErr => d_rerr d
  end.

Fixpoint dec_schema (cap : N) (sch : schema) (d : dstate)
  : list value * dstate :=
  match sch with
  | [] => ([], d)
  | k :: sch' =>
      let '(v, d1) := dec_value cap k d in
      let '(vs, d2) := dec_schema cap sch' d1 in
      (v :: vs, d2)
  end.

(** decoder.end() *)
Definition d_end (d : dstate) : dstate :=
  match err d with
  | Some _ => d
  | None =>
      let t := lenN (inp d) in
      mkD [] (cnt d) (if t =? 0 then None else Some (ETail t)) (alloc d)
  end.

(** * Frames *)

(** sendExchangeReq: id, type, body. *)
Definition request_frame (id typ : N) (body : bytes) : bytes :=
  le64 id ++ [typ] ++ body.

(** endpointExchange.encodeTo: id, type, error code, body. *)
Definition reply_frame (id typ ec : N) (body : bytes) : bytes :=
  le64 id ++ [typ; ec] ++ body.

(** newRequestMessage: [None] unknown type; [Some None] known type without a
    body (msgShutdown); [Some (Some (name, sch))]. *)
Definition request_table := N -> option (option (string * schema)).

Inductive call_result :=
| CErr (e : derr)
| CUnknown (id typ : N)
| CReq (id typ : N) (name : string) (fields : list value).

(** endpointServer.startCall *)
Definition start_call (tbl : request_table) (input : bytes)
  : call_result * dstate :=
  let d0 := init input in
  let '(id, d1) := d_u64 d0 in
  let '(t, d2) := d_u8 d1 in
  match err d2 with
  | Some e => (CErr e, d2)
  | None =>
      match tbl t with
      | None => (CUnknown id t, d_end d2)
      | Some None =>
          let d3 := d_end d2 in
          match err d3 with
          | Some e => (CErr e, d3)
          | None => (CReq id t EmptyString [], d3)
          end
      | Some (Some (name, sch)) =>
          let '(vs, d3) := dec_schema 0 sch d2 in
          let d4 := d_end d3 in
          match err d4 with
          | Some e => (CErr e, d4)
          | None => (CReq id t name vs, d4)
          end
      end
  end.

(** The header part of transport.handleMessage. *)
Inductive reply_header :=
| HShort (count : N)           (* logged and ignored *)
| HRemoteError (ec : N)        (* "got error: %d" *)
| HReply (id typ : N).

Definition parse_reply_header (input : bytes) : reply_header * dstate :=
  let d0 := init input in
  let '(id, d1) := d_u64 d0 in
  let '(t, d2) := d_u8 d1 in
  let '(ec, d3) := d_u8 d2 in
  match err d3 with
  | Some _ => (HShort (cnt d3), d3)
  | None => if ec =? 0 then (HReply id t, d3) else (HRemoteError ec, d3)
  end.

(** Client-side decode of a reply body into a response of schema [sch];
    trailing bytes are discarded by the caller (io.Copy to io.Discard). *)
Definition client_decode (cap : N) (sch : schema) (input : bytes)
  : reply_header * option (list value * dstate) :=
  let '(h, d) := parse_reply_header input in
  match h with
  | HReply _ _ => (h, Some (dec_schema cap sch d))
  | _ => (h, None)
  end.

End WithAllocMax.

(** * endpointServer.handleRead's buffer sizing (endpoint_server.go) *)

Inductive read_result :=
| RPanic
| RErrReply                       (* errRead reply, nothing read *)
| RRead (bufsize n : N).          (* make(bufsize), n bytes returned *)

Definition handle_read (max_read_size : N) (maxRead : Z) (avail : N)
  : read_result :=
  if (maxRead <? 0)%Z then RErrReply
  else
    let size := N.min (Z.to_N maxRead) max_read_size in
    if go_max_alloc <? size then RPanic
    else RRead size (N.min size avail).

(** tunnel.Read's check of the reply length against the caller's buffer. *)
Definition tunnel_read_result (buflen replylen : N) : option N :=
  if buflen <? replylen then None else Some replylen.

(** * The deployed protocol (what peers in the field speak) *)

Local Open Scope string_scope.

Definition deployed_msg_codes : list (string * N) :=
  [ ("msgShutdown", 0%N); ("msgHello", 1%N); ("msgDial", 2%N);
    ("msgWrite", 3%N); ("msgRead", 4%N); ("msgStatus", 5%N);
    ("msgClose", 6%N); ("msgShutdownHint", 7%N); ("msgDialSide", 8%N);
    ("msgDialSide2", 9%N) ].

Definition deployed_err_codes : list (string * N) :=
  [ ("errUnknown", 1%N); ("errUnknownType", 2%N); ("errBug", 3%N);
    ("errAccept", 4%N); ("errSessionNotFound", 5%N); ("errRead", 6%N);
    ("errWrite", 7%N); ("errClose", 8%N); ("errInternal", 9%N);
    ("errEOF", 10%N); ("errSiding", 11%N) ].

Definition deployed_schemas : list (string * schema) :=
  [ ("helloRequest", [KStr]); ("helloResponse", [KStr]);
    ("dialRequest", []); ("dialResponse", [KU64; KErr]);
    ("dialSideRequest", [KU64; KU64; KStr]);
    ("dialSide2Request", [KU64; KU64; KStr; KStr]);
    ("readRequest", [KU64; KInt]); ("readResponse", [KBytes; KErr]);
    ("writeRequest", [KU64; KBytes]); ("writeResponse", [KInt; KErr]);
    ("statusRequest", [KU64]); ("statusResponse", [KU64; KU64; KU64]);
    ("closeRequest", [KU64]); ("closeResponse", [KErr]) ].

(** Field order by name: a swap of two same-kind fields is a layout change. *)
Definition deployed_field_names : list (string * list string) :=
  [ ("helloRequest", ["msg"]); ("helloResponse", ["msg"]);
    ("dialRequest", []); ("dialResponse", ["session"; "err"]);
    ("dialSideRequest", ["session"; "key"; "token"]);
    ("dialSide2Request", ["session"; "key"; "token"; "tcpAddr"]);
    ("readRequest", ["session"; "maxRead"]); ("readResponse", ["bytes"; "err"]);
    ("writeRequest", ["session"; "bytes"]); ("writeResponse", ["written"; "err"]);
    ("statusRequest", ["session"]);
    ("statusResponse", ["uptime"; "totalRead"; "totalWritten"]);
    ("closeRequest", ["session"]); ("closeResponse", ["err"]) ].

(** request type code -> request struct (newRequestMessage) *)
Definition deployed_requests : list (N * option string) :=
  [ (0%N, None); (1%N, Some "helloRequest"); (2%N, Some "dialRequest");
    (8%N, Some "dialSideRequest"); (9%N, Some "dialSide2Request");
    (4%N, Some "readRequest"); (3%N, Some "writeRequest");
    (6%N, Some "closeRequest") ].

(** call type code -> (request struct, response struct): client call sites
    and the server's serveCall dispatch must both agree with this. *)
Definition deployed_pairing : list (N * (string * string)) :=
  [ (1%N, ("helloRequest", "helloResponse"));
    (2%N, ("dialRequest", "dialResponse"));
    (8%N, ("dialSideRequest", "dialResponse"));
    (9%N, ("dialSide2Request", "dialResponse"));
    (4%N, ("readRequest", "readResponse"));
    (3%N, ("writeRequest", "writeResponse"));
    (6%N, ("closeRequest", "closeResponse")) ].

Fixpoint assoc_str {A} (k : string) (l : list (string * A)) : option A :=
  match l with
  | [] => None
  | (k', a) :: r => if String.eqb k k' then Some a else assoc_str k r
  end.

Fixpoint assoc_N {A} (k : N) (l : list (N * A)) : option A :=
  match l with
  | [] => None
  | (k', a) :: r => if (k =? k')%N then Some a else assoc_N k r
  end.

Definition mk_request_table (reqs : list (N * option string))
  (schs : list (string * schema)) : request_table :=
  fun t =>
    match assoc_N t reqs with
    | None => None
    | Some None => Some None
    | Some (Some name) =>
        match assoc_str name schs with
        | Some sch => Some (Some (name, sch))
        | None => None
        end
    end.

Definition deployed_table : request_table :=
  mk_request_table deployed_requests deployed_schemas.

(** * What the translator emits (Gen/WireSchema.v) *)

(** One statement of an encodeTo / decodeFrom body, as recognised by the
    translator; anything it does not recognise is kept as [GUnknown]. *)
Inductive gfield :=
| GF (k : kind) (name : string)
| GUnknown (text : string).

Definition gfield_kind (g : gfield) : option kind :=
  match g with GF k _ => Some k | GUnknown _ => None end.

Fixpoint all_some {A} (l : list (option A)) : option (list A) :=
  match l with
  | [] => Some []
  | None :: _ => None
  | Some a :: r => match all_some r with Some r' => Some (a :: r') | None => None end
  end.

Definition schema_of_fields (gs : list gfield) : option schema :=
  all_some (map gfield_kind gs).

Definition gfield_eqb (a b : gfield) : bool :=
  match a, b with
  | GF k n, GF k' n' => kind_eqb k k' && String.eqb n n'
  | _, _ => false            (* an unknown statement equals nothing *)
  end.

Fixpoint list_eqb {A} (eqb : A -> A -> bool) (a b : list A) : bool :=
  match a, b with
  | [], [] => true
  | x :: a', y :: b' => eqb x y && list_eqb eqb a' b'
  | _, _ => false
  end.

Definition schema_eqb : schema -> schema -> bool := list_eqb kind_eqb.

(** Schemas of all generated message types, provided encode and decode
    sides list the same recognised fields in the same order. *)
Fixpoint gen_schemas_of (encs decs : list (string * list gfield))
  : option (list (string * schema)) :=
  match encs, decs with
  | [], [] => Some []
  | (n, e) :: encs', (n', d) :: decs' =>
      if String.eqb n n' && list_eqb gfield_eqb e d then
        match schema_of_fields e, gen_schemas_of encs' decs' with
        | Some s, Some r => Some ((n, s) :: r)
        | _, _ => None
        end
      else None
  | _, _ => None
  end.

(** * Where the buffer of a decoded byte field comes from (round 3, seeded change C13-g)

    [decoder.bytes(buf)] decodes in place when the caller's [buf] is large
    enough.  On the server entry the request objects come from
    [newRequestMessage] with no buffer ([BufFresh]: every decoded payload is
    its own allocation, owned by that request).  A buffer that belongs to the
    endpoint and is handed to every write request ([BufShared size]) is
    shared by all requests decoded on that endpoint.  The translator reads
    the policy off [startCall] / [newRequestMessage] (Gen/WireSchema.v
    [gen_write_buf]). *)
Inductive buf_policy := BufFresh | BufShared (size : N) | BufUnknown (text : string).
