(** placeholder, replaced below *)
From Coq Require Import List NArith String.
Inductive rj_step := RjEmpty | RjIP | RjSuffixes (l : list string) | RjFalse | RjUnknown (s : string).
Inductive dial_step := DNoLookup | DDomain | DLookup | DLookupErr | DHomeForward | DEndpoint | DEndpointErr | DDial | DUnknown (s : string).
