(** Model of where a front connection goes: sniproxy/proxy.go
    (isRejectedDomain, the order of hostConn) and sniproxy/server.go
    (Server.dial, Server.endpoint), plus the address rule of side connections
    (newSideConn / handleDialSide2).

    The translator emits isRejectedDomain and Server.dial statement by
    statement ([rj_step], [dial_step]); [run_rj] and [run_dial] interpret
    them, [decide] is the closed form they are proved equal to.
    Definitions only; proofs are in RouteProofs.v. *)
From Coq Require Import List NArith Bool String Ascii.
From Verif Require Import Lib.Bytes Sni.Wire.
Import ListNotations.
Local Open Scope N_scope.

(** * What the translator emits *)

Inductive rj_step :=
| RjEmpty                          (* if name == "" { return true } *)
| RjIP                             (* if ip := net.ParseIP(name); ip != nil { return true } *)
| RjSuffixes (l : list string)     (* for _, suf := range [...] { if HasSuffix(name, suf) { return true } } *)
| RjFalse                          (* return false *)
| RjUnknown (s : string).

(** Server.dial is emitted statement by statement with its conditions and
    return expressions (not as frozen text): the interpreter [run_dial] below
    gives the emitted list its meaning, and the theorems about refusals are
    stated over every list that satisfies a decidable predicate. *)

(** conditions over the two results of `dest, err := s.lookup(domain)` /
    `ep, err := s.endpoint(...)` *)
Inductive dcond :=
| CErrNonNil | CErrNil | CDestNil | CDestNonNil
| CAnd (a b : dcond) | COr (a b : dcond) | CUnknown (s : string).

(** return nil, <e> *)
Inductive dret :=
| XErr                   (* err *)
| XAnnotErr              (* errcode.Annotatef(err, ...): never nil *)
| XNotFoundDomain        (* endpointNotFoundError(domain) *)
| XNewErr (s : string).  (* another freshly made error *)

(** body of a guard, in continuation form *)
Inductive bstmt :=
| BEnd                                   (* falls out of the block *)
| BSetErrNotFound (k : bstmt)            (* err = endpointNotFoundError(domain); k *)
| BIf (c : dcond) (th k : bstmt)         (* if c { th }; k *)
| BRet (x : dret)
| BUnknown (s : string).

(** proxy.hostConn, statement by statement *)
Inductive host_step :=
| HDeferCloseFront      (* defer conn.Close() *)
| HWrap                 (* bc := NewTLSHelloConn(conn) *)
| HSniff                (* hello, err := bc.HelloInfo() *)
| HRetIfErr             (* if err != nil { return err } *)
| HRejectIf             (* if isRejectedDomain(hello.ServerName) { return errNameRejected } *)
| HAddr                 (* addr := conn.RemoteAddr().String() *)
| HDial                 (* remote, err := p.dialer.dial(ctx, hello, addr) *)
| HCloser               (* closer := &closerOnce{Closer: remote} *)
| HDeferCloseRemote     (* defer closer.Close() *)
| HJoin                 (* return netutil.JoinConn(ctx, remote, bc) *)
| HUnknown (s : string).

Inductive dial_step :=
| DNoLookup                              (* if s.lookup == nil { return nil, Internalf(...) } *)
| DDomain                                (* domain := hello.ServerName *)
| DLookup                                (* dest, err := s.lookup(domain) *)
| DGuard (c : dcond) (body : bstmt)      (* if c { body }   (no init, no else) *)
| DHomeForward                           (* if dest.Home {...} else if fwd := dest.ForwardTCP; fwd != "" {...} *)
| DEndpoint                              (* ep, err := s.endpoint(dest.Name) *)
| DDial                                  (* return ep.Dial(ctx, asAddr) *)
| DUnknown (s : string).

(** * Names are byte strings *)

Fixpoint bytes_of_string (s : string) : bytes :=
  match s with
  | EmptyString => []
  | String a r => N_of_ascii a :: bytes_of_string r
  end.

Fixpoint prefixb (p s : bytes) : bool :=
  match p, s with
  | [], _ => true
  | x :: p', y :: s' => (x =? y) && prefixb p' s'
  | _ :: _, [] => false
  end.

Fixpoint beqb (a b : bytes) : bool :=
  match a, b with
  | [], [] => true
  | x :: a', y :: b' => (x =? y) && beqb a' b'
  | _, _ => false
  end.

(** strings.HasSuffix *)
Definition has_suffix (s suf : bytes) : bool := prefixb (rev suf) (rev s).

(** * isRejectedDomain *)

Section Route.
(** net.ParseIP(name) != nil: an external function; every case the harness
    runs carries its value as computed by the real net.ParseIP. *)
Variable is_ip : bytes -> bool.

(** The result of running the emitted steps in order; [None]: fell off the
    end or met a statement the translator does not know. *)
Fixpoint run_rj (steps : list rj_step) (name : bytes) : option bool :=
  match steps with
  | [] => None
  | RjEmpty :: r => match name with [] => Some true | _ => run_rj r name end
  | RjIP :: r => if is_ip name then Some true else run_rj r name
  | RjSuffixes l :: r =>
      if existsb (fun suf => has_suffix name (bytes_of_string suf)) l then Some true
      else run_rj r name
  | RjFalse :: _ => Some false
  | RjUnknown _ :: _ => None
  end.

(** The specification: empty, an IP literal, or one of the suffixes. *)
Definition is_rejected (sufs : list string) (name : bytes) : bool :=
  match name with
  | [] => true
  | _ => is_ip name || existsb (fun suf => has_suffix name (bytes_of_string suf)) sufs
  end.

(** * hostConn and Server.dial *)

(** Dest *)
Record dest := mkDest { d_name : bytes; d_home : bool; d_forward : bytes }.

(** What the configured Lookup returned: a pair (pointer to Dest, error) with four shapes,
    and the error alone decides whether the name is refused. *)
Record lookup_res := mkLk {
  lk_dest : option dest;                   (* None: nil *Dest *)
  lk_err : bool                            (* err != nil *)
}.

Record server_cfg := mkCfg {
  has_lookup : bool;                       (* s.lookup != nil *)
  lookup : bytes -> lookup_res;
  has_dial_home : bool;                    (* s.dialHome != nil *)
  registry : bytes -> option N             (* s.endpoints: name -> live endpoint (an id) *)
}.

Inductive route :=
| RRejected                 (* errNameRejected: before any dial *)
| RNoLookup                 (* "server not accepting" *)
| RLookupErr                (* the lookup refused the name: its error is returned *)
| RNoDest                   (* neither destination nor error: endpointNotFoundError *)
| RHome                     (* s.dialHome(ctx) *)
| RHomeMissing              (* Home but no DialHome: endpointNotFoundError *)
| RForward (addr : bytes)   (* TCP forward *)
| RNotFound (name : bytes)  (* no endpoint connected under that name *)
| REndpoint (ep : N) (name : bytes)    (* ep.Dial(ctx, asAddr) on that endpoint *)
| ROtherErr                 (* some other freshly made error is returned *)
| RPanic                    (* nil pointer dereference / call of a nil function *)
| RNilConn                  (* `return nil, err` with err == nil: hostConn joins a nil connection *)
| RStuck.                   (* a statement the translator does not know *)

Definition nonemptyb (b : bytes) : bool := match b with [] => false | _ => true end.

(** ** The closed form (specification) *)

(** Server.dial *)
Definition decide_dial (cfg : server_cfg) (sni : bytes) : route :=
  if negb (has_lookup cfg) then RNoLookup
  else
    if lk_err (lookup cfg sni) then RLookupErr
    else
      match lk_dest (lookup cfg sni) with
      | None => RNoDest
      | Some d =>
          if d_home d then (if has_dial_home cfg then RHome else RHomeMissing)
          else if nonemptyb (d_forward d) then RForward (d_forward d)
          else
            match registry cfg (d_name d) with
            | Some ep => REndpoint ep (d_name d)
            | None => RNotFound (d_name d)
            end
      end.

(** hostConn after a successful HelloInfo, followed by Server.dial. *)
Definition decide (sufs : list string) (cfg : server_cfg) (sni : bytes) : route :=
  if is_rejected sufs sni then RRejected else decide_dial cfg sni.

(** ** The emitted statements, interpreted *)

(** where the current value of `err` came from *)
Inductive errsrc := FromLookup | FromEndpoint | NotFoundDom | NewErr.

Definition is_some {A} (o : option A) : bool := match o with Some _ => true | None => false end.

(** conditions see only whether dest and err are nil *)
Fixpoint eval_cond (dnil enil : bool) (c : dcond) : option bool :=
  match c with
  | CErrNonNil => Some (negb enil)
  | CErrNil => Some enil
  | CDestNil => Some dnil
  | CDestNonNil => Some (negb dnil)
  | CAnd a b => match eval_cond dnil enil a, eval_cond dnil enil b with
                | Some x, Some y => Some (x && y) | _, _ => None end
  | COr a b => match eval_cond dnil enil a, eval_cond dnil enil b with
               | Some x, Some y => Some (x || y) | _, _ => None end
  | CUnknown _ => None
  end.

Inductive bres :=
| BFall (e : option errsrc)     (* fell out of the block; err is now e *)
| BExit (e : option errsrc)     (* return nil, <e>;  None: a nil error *)
| BStuck.

Fixpoint run_body (dnil : bool) (e : option errsrc) (b : bstmt) : bres :=
  match b with
  | BEnd => BFall e
  | BSetErrNotFound k => run_body dnil (Some NotFoundDom) k
  | BIf c th k =>
      match eval_cond dnil (negb (is_some e)) c with
      | None => BStuck
      | Some true => match run_body dnil e th with
                     | BFall e' => run_body dnil e' k
                     | r => r
                     end
      | Some false => run_body dnil e k
      end
  | BRet XErr => BExit e
  | BRet XAnnotErr => BExit (Some (match e with Some x => x | None => NewErr end))
  | BRet XNotFoundDomain => BExit (Some NotFoundDom)
  | BRet (XNewErr _) => BExit (Some NewErr)
  | BUnknown _ => BStuck
  end.

Record dstate := mkSt {
  st_looked : bool;                 (* dest, err are declared *)
  st_dest : option dest;
  st_err : option errsrc;
  st_ep : option (option N)         (* None: ep not declared; Some None: nil ep *)
}.

Definition st0 : dstate := mkSt false None None None.

Definition route_of_exit (st : dstate) (e : option errsrc) : route :=
  match e with
  | None => RNilConn
  | Some FromLookup => RLookupErr
  | Some FromEndpoint => RNotFound (match st_dest st with Some d => d_name d | None => [] end)
  | Some NotFoundDom => RNoDest
  | Some NewErr => ROtherErr
  end.

Fixpoint run_dial (cfg : server_cfg) (sni : bytes) (steps : list dial_step) (st : dstate) : route :=
  match steps with
  | [] => RStuck
  | DNoLookup :: r => if negb (has_lookup cfg) then RNoLookup else run_dial cfg sni r st
  | DDomain :: r => run_dial cfg sni r st
  | DLookup :: r =>
      if has_lookup cfg then
        run_dial cfg sni r (mkSt true (lk_dest (lookup cfg sni))
                              (if lk_err (lookup cfg sni) then Some FromLookup else None) (st_ep st))
      else RPanic
  | DGuard c b :: r =>
      if negb (st_looked st) then RStuck else
      let dnil := negb (is_some (st_dest st)) in
      match eval_cond dnil (negb (is_some (st_err st))) c with
      | None => RStuck
      | Some false => run_dial cfg sni r st
      | Some true =>
          match run_body dnil (st_err st) b with
          | BFall e => run_dial cfg sni r (mkSt true (st_dest st) e (st_ep st))
          | BExit e => route_of_exit st e
          | BStuck => RStuck
          end
      end
  | DHomeForward :: r =>
      if negb (st_looked st) then RStuck else
      match st_dest st with
      | None => RPanic
      | Some d =>
          if d_home d then (if has_dial_home cfg then RHome else RHomeMissing)
          else if nonemptyb (d_forward d) then RForward (d_forward d)
          else run_dial cfg sni r st
      end
  | DEndpoint :: r =>
      if negb (st_looked st) then RStuck else
      match st_dest st with
      | None => RPanic
      | Some d =>
          let ep := registry cfg (d_name d) in
          run_dial cfg sni r
            (mkSt true (st_dest st) (match ep with Some _ => None | None => Some FromEndpoint end) (Some ep))
      end
  | DDial :: _ =>
      match st_ep st, st_dest st with
      | Some (Some ep), Some d => REndpoint ep (d_name d)
      | Some _, _ => RPanic
      | None, _ => RStuck
      end
  | DUnknown _ :: _ => RStuck
  end.

(** hostConn followed by the emitted Server.dial *)
Definition run_host (rj : list rj_step) (steps : list dial_step) (cfg : server_cfg) (sni : bytes) : route :=
  match run_rj rj sni with
  | None => RStuck
  | Some true => RRejected
  | Some false => run_dial cfg sni steps st0
  end.

(** ** What a route means for the connection *)

(** the connection's bytes are handed to some destination *)
Definition served (r : route) : bool :=
  match r with RHome | RForward _ | REndpoint _ _ => true | _ => false end.

(** hostConn returns an error and closes the front connection: nothing was dialled *)
Definition refusal (r : route) : bool :=
  match r with
  | RRejected | RNoLookup | RLookupErr | RNoDest | RHomeMissing | RNotFound _ | ROtherErr => true
  | _ => false
  end.

(** the goroutine (and with it the process) crashes, or the model cannot tell *)
Definition crashes (r : route) : bool :=
  match r with RPanic | RNilConn | RStuck => true | _ => false end.

(** ** hostConn: from the accepted front connection to the join *)

(** What happened to one front connection. *)
Record front_out := mkOut {
  fo_front_closed : bool;         (* conn.Close() ran (deferred, or inside JoinConn) *)
  fo_dial : option route;         (* the dialer was called, with this result *)
  fo_joined : bool;               (* JoinConn(remote, bc) ran: bytes flow to the dialled destination *)
  fo_remote_closed : bool         (* a connection that was dialled is closed again on return *)
}.

Inductive front_res := FOut (o : front_out) | FCrash | FStuck.

Record hstate := mkHs {
  hs_defer_front : bool;
  hs_sniffed : option (option bytes);   (* None: not yet; Some None: HelloInfo failed *)
  hs_err : bool;
  hs_dial : option route;
  hs_remote : bool;                     (* remote is a live connection *)
  hs_closer : bool;
  hs_defer_remote : bool
}.

Definition hs0 : hstate := mkHs false None false None false false false.

Definition ret_out (h : hstate) (joined : bool) : front_res :=
  FOut (mkOut (hs_defer_front h || joined) (hs_dial h) joined
              (hs_remote h && (hs_defer_remote h || joined))).

(** [sniff]: what HelloInfo returns (None: an error); [dial_ok]: whether the
    dial of a route that selects a destination succeeds (the endpoint accepts,
    the side connection arrives, the home / forward target answers). *)
Fixpoint run_front (rj : list rj_step) (dsteps : list dial_step) (cfg : server_cfg)
         (sniff : option bytes) (dial_ok : bool) (steps : list host_step) (h : hstate) : front_res :=
  match steps with
  | [] => FStuck
  | HDeferCloseFront :: r =>
      run_front rj dsteps cfg sniff dial_ok r
        (mkHs true (hs_sniffed h) (hs_err h) (hs_dial h) (hs_remote h) (hs_closer h) (hs_defer_remote h))
  | HWrap :: r | HAddr :: r => run_front rj dsteps cfg sniff dial_ok r h
  | HSniff :: r =>
      run_front rj dsteps cfg sniff dial_ok r
        (mkHs (hs_defer_front h) (Some sniff) (negb (is_some sniff)) (hs_dial h) (hs_remote h)
              (hs_closer h) (hs_defer_remote h))
  | HRetIfErr :: r =>
      match hs_sniffed h with
      | None => FStuck
      | Some _ => if hs_err h then ret_out h false else run_front rj dsteps cfg sniff dial_ok r h
      end
  | HRejectIf :: r =>
      match hs_sniffed h with
      | Some (Some name) =>
          match run_rj rj name with
          | Some true => ret_out h false
          | Some false => run_front rj dsteps cfg sniff dial_ok r h
          | None => FStuck
          end
      | Some None => FCrash          (* hello is nil *)
      | None => FStuck
      end
  | HDial :: r =>
      match hs_sniffed h with
      | Some (Some name) =>
          let rt := run_dial cfg name dsteps st0 in
          if crashes rt then FCrash
          else
            let ok := served rt && dial_ok in
            run_front rj dsteps cfg sniff dial_ok r
              (mkHs (hs_defer_front h) (hs_sniffed h) (negb ok) (Some rt) ok (hs_closer h) (hs_defer_remote h))
      | Some None => FCrash
      | None => FStuck
      end
  | HCloser :: r =>
      run_front rj dsteps cfg sniff dial_ok r
        (mkHs (hs_defer_front h) (hs_sniffed h) (hs_err h) (hs_dial h) (hs_remote h) true (hs_defer_remote h))
  | HDeferCloseRemote :: r =>
      if hs_closer h then
        run_front rj dsteps cfg sniff dial_ok r
          (mkHs (hs_defer_front h) (hs_sniffed h) (hs_err h) (hs_dial h) (hs_remote h) true true)
      else FStuck
  | HJoin :: _ =>
      match hs_dial h with
      | None => FStuck
      | Some _ => if hs_remote h then ret_out h true else FCrash   (* JoinConn on a nil connection *)
      end
  | HUnknown _ :: _ => FStuck
  end.

(** ** Decidable predicates on emitted lists *)

(** Whatever dest is, with err != nil the guard fires ... *)
Definition cond_when_err (c : dcond) : bool :=
  forallb (fun dnil => match eval_cond dnil false c with Some true => true | _ => false end) [true; false].

(** ... and its body returns a non-nil error. *)
Definition refusing_body (b : bstmt) : bool :=
  forallb (fun dnil => match run_body dnil (Some FromLookup) b with BExit (Some _) => true | _ => false end)
          [true; false].

(** The lookup is followed immediately by a guard that returns an error
    whenever the lookup returned one; nothing but the lookup-presence test and
    the domain assignment precedes it. *)
Fixpoint lookup_err_guarded (steps : list dial_step) : bool :=
  match steps with
  | DNoLookup :: r | DDomain :: r => lookup_err_guarded r
  | DLookup :: DGuard c b :: _ => cond_when_err c && refusing_body b
  | _ => false
  end.

(** The endpoints that get a Dial call for this connection (each entry:
    endpoint id).  Everything the connection's bytes can reach afterwards goes
    through that Dial's connection (netutil.JoinConn(ctx, remote, bc)). *)
Definition endpoint_dials (r : route) : list N :=
  match r with
  | REndpoint ep _ => [ep]
  | _ => []
  end.

(** ** Histories: the lookup's answers change between connections

    "the endpoint registered, AT DIAL TIME, under the name the configured
    lookup returns": the configured Lookup is not a constant function (a site
    moves to another endpoint, a name gets suspended or reinstated) and the
    registry changes (endpoints connect, disconnect, re-register).  What the
    server keeps in its [lookup] field decides whether a dial sees the
    current answer. *)

(** what NewServer stores in s.lookup *)
Inductive lookup_store :=
| LDirect                      (* config.Lookup itself *)
| LMemo                        (* a wrapper that remembers successful answers per domain *)
| LStoreUnknown (s : string).

Inductive hevent :=
| EvLookup (f : bytes -> lookup_res)     (* from now on the configured Lookup answers f *)
| EvRegistry (g : bytes -> option N)     (* from now on these endpoints are connected *)
| EvDial (sni : bytes).                     (* a front connection with this server name *)

Fixpoint memo_get (d : bytes) (m : list (bytes * dest)) : option dest :=
  match m with
  | [] => None
  | (k, x) :: r => if beqb d k then Some x else memo_get d r
  end.

(** the function Server.dial calls as s.lookup *)
Definition stored_lookup (store : lookup_store) (lk : bytes -> lookup_res) (memo : list (bytes * dest))
  : bytes -> lookup_res :=
  match store with
  | LDirect => lk
  | _ => fun d => match memo_get d memo with Some x => mkLk (Some x) false | None => lk d end
  end.

(** The routes of the dials of a history, in order. *)
Fixpoint run_hist (store : lookup_store) (rj : list rj_step) (steps : list dial_step)
         (has_lk has_home : bool) (lk : bytes -> lookup_res) (reg : bytes -> option N)
         (memo : list (bytes * dest)) (evs : list hevent) : list route :=
  match evs with
  | [] => []
  | EvLookup f :: r => run_hist store rj steps has_lk has_home f reg memo r
  | EvRegistry g :: r => run_hist store rj steps has_lk has_home lk g memo r
  | EvDial sni :: r =>
      match store with
      | LStoreUnknown _ => RStuck :: run_hist store rj steps has_lk has_home lk reg memo r
      | _ =>
          let eff := stored_lookup store lk memo in
          let memo' := match store, eff sni with
                       | LMemo, mkLk (Some x) false => (sni, x) :: memo
                       | _, _ => memo
                       end in
          run_host rj steps (mkCfg has_lk eff has_home reg) sni
            :: run_hist store rj steps has_lk has_home lk reg memo' r
      end
  end.

(** The specification: every dial is decided by what the configured lookup
    answers and what the registry holds at that dial. *)
Fixpoint spec_hist (sufs : list string) (has_lk has_home : bool) (lk : bytes -> lookup_res)
         (reg : bytes -> option N) (evs : list hevent) : list route :=
  match evs with
  | [] => []
  | EvLookup f :: r => spec_hist sufs has_lk has_home f reg r
  | EvRegistry g :: r => spec_hist sufs has_lk has_home lk g r
  | EvDial sni :: r =>
      decide sufs (mkCfg has_lk lk has_home reg) sni :: spec_hist sufs has_lk has_home lk reg r
  end.

(** ** The registry is looked up by exact equality of names

    Server.endpoint(name) is a single map index s.endpoints[name]: a name is
    connected only if an endpoint registered under exactly these bytes.  A name
    that differs from a registered one in letter case (or in any other way a
    normalisation would fold together) is a name whose endpoint is not
    connected. *)
Inductive reg_lookup :=
| RegExactIndex                 (* c, ok := s.endpoints[name]; nothing else reads the table *)
| RegOther (s : string).

Fixpoint reg_exact (l : list (bytes * N)) (n : bytes) : option N :=
  match l with
  | [] => None
  | (k, e) :: r => if beqb n k then Some e else reg_exact r n
  end.

(** a folding lookup: exact first, then the first entry whose normalised name matches *)
Fixpoint reg_scan (norm : bytes -> bytes) (l : list (bytes * N)) (n : bytes) : option N :=
  match l with
  | [] => None
  | (k, e) :: r => if beqb (norm n) (norm k) then Some e else reg_scan norm r n
  end.

Definition reg_folding (norm : bytes -> bytes) (l : list (bytes * N)) (n : bytes) : option N :=
  match reg_exact l n with Some e => Some e | None => reg_scan norm l n end.

(** ASCII lower case *)
Definition lower_byte (b : N) : N := if (65 <=? b) && (b <=? 90) then b + 32 else b.
Definition lower (s : bytes) : bytes := map lower_byte s.

(** how often the emitted Server.dial calls the lookup *)
Definition lookup_steps (steps : list dial_step) : nat :=
  List.length (filter (fun s => match s with DLookup => true | _ => false end) steps).

End Route.

(** * Remote address of the accepted connection (side_conn.go newSideConn,
      endpoint_server.go handleDialSide / handleDialSide2, endpoint_client.go
      Dial) *)

Inductive tunnel_mode := Legacy | Siding | SidingAddr.

(** What endpointClient.Dial puts in the request's tcpAddr field. *)
Definition request_addr (m : tunnel_mode) (front_addr : bytes) : bytes :=
  match m with
  | SidingAddr => front_addr         (* dialSide2Request{tcpAddr: asAddr} *)
  | _ => []                          (* dialSideRequest has no address; legacy dials no side conn *)
  end.

Inductive accepted_addr :=
| APipe                    (* legacy: the net.Pipe end *)
| AWebsocketPeer           (* conn.RemoteAddr() of the side websocket: the proxy *)
| AGiven (addr : bytes).   (* sideConnAddr{addr} *)

(** newSideConn(conn, addr) *)
Definition side_conn_addr (addr : bytes) : accepted_addr :=
  match addr with [] => AWebsocketPeer | _ => AGiven addr end.

Definition accepted_remote_addr (m : tunnel_mode) (decoded_addr : bytes) : accepted_addr :=
  match m with
  | Legacy => APipe
  | _ => side_conn_addr decoded_addr
  end.

(** * The deployed code the model was written against *)

Local Open Scope string_scope.

Definition deployed_suffixes : list string :=
  [ ".iproxy.cloud"; ".after.blue"; ".spothot.online"; ".speedy.red" ].

Definition deployed_rj_steps : list rj_step :=
  [ RjEmpty; RjIP; RjSuffixes deployed_suffixes; RjFalse ].

Definition deployed_dial_steps : list dial_step :=
  [ DNoLookup; DDomain; DLookup;
    DGuard CErrNonNil (BRet XErr);
    DGuard CDestNil (BRet XNotFoundDomain);
    DHomeForward; DEndpoint;
    DGuard CErrNonNil (BRet XAnnotErr);
    DDial ].

(** hostConn: callee/arity in source order; the rejection test precedes the
    only dial, and the connection handed to JoinConn is the dialled one. *)
Definition deployed_host_conn_calls : list string :=
  [ "conn.Close/0"; "NewTLSHelloConn/1"; "bc.HelloInfo/0"; "isRejectedDomain/1";
    "conn.RemoteAddr().String/0"; "conn.RemoteAddr/0"; "p.dialer.dial/3";
    "closer.Close/0"; "netutil.JoinConn/3" ].

Definition deployed_host_steps : list host_step :=
  [ HDeferCloseFront; HWrap; HSniff; HRetIfErr; HRejectIf; HAddr; HDial; HRetIfErr;
    HCloser; HDeferCloseRemote; HJoin ].

Definition host_step_eqb (a b : host_step) : bool :=
  match a, b with
  | HDeferCloseFront, HDeferCloseFront | HWrap, HWrap | HSniff, HSniff | HRetIfErr, HRetIfErr
  | HRejectIf, HRejectIf | HAddr, HAddr | HDial, HDial | HCloser, HCloser
  | HDeferCloseRemote, HDeferCloseRemote | HJoin, HJoin => true
  | _, _ => false
  end.

Definition rj_step_eqb (a b : rj_step) : bool :=
  match a, b with
  | RjEmpty, RjEmpty | RjIP, RjIP | RjFalse, RjFalse => true
  | RjSuffixes l, RjSuffixes l' => list_eqb String.eqb l l'
  | _, _ => false
  end.

Fixpoint dcond_eqb (a b : dcond) : bool :=
  match a, b with
  | CErrNonNil, CErrNonNil | CErrNil, CErrNil | CDestNil, CDestNil | CDestNonNil, CDestNonNil => true
  | CAnd a1 a2, CAnd b1 b2 | COr a1 a2, COr b1 b2 => dcond_eqb a1 b1 && dcond_eqb a2 b2
  | _, _ => false
  end.

Definition dret_eqb (a b : dret) : bool :=
  match a, b with
  | XErr, XErr | XAnnotErr, XAnnotErr | XNotFoundDomain, XNotFoundDomain => true
  | _, _ => false
  end.

Fixpoint bstmt_eqb (a b : bstmt) : bool :=
  match a, b with
  | BEnd, BEnd => true
  | BSetErrNotFound k, BSetErrNotFound k' => bstmt_eqb k k'
  | BIf c t k, BIf c' t' k' => dcond_eqb c c' && bstmt_eqb t t' && bstmt_eqb k k'
  | BRet x, BRet y => dret_eqb x y
  | _, _ => false
  end.

Definition dial_step_eqb (a b : dial_step) : bool :=
  match a, b with
  | DNoLookup, DNoLookup | DDomain, DDomain | DLookup, DLookup
  | DHomeForward, DHomeForward | DEndpoint, DEndpoint | DDial, DDial => true
  | DGuard c x, DGuard c' x' => dcond_eqb c c' && bstmt_eqb x x'
  | _, _ => false
  end.
