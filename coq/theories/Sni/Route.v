(** Model of where a front connection goes: sniproxy/proxy.go
    (isRejectedDomain, the order of hostConn) and sniproxy/server.go
    (Server.dial, Server.endpoint), plus the address rule of side connections
    (newSideConn / handleDialSide2).

    The translator emits isRejectedDomain and Server.dial statement by
    statement ([rj_step], [dial_step]); [run_rj] interprets the former, the
    latter is compared with the deployed list the model was written against.
    Definitions only; proofs are in RouteProofs.v. *)
From Coq Require Import List NArith Bool String Ascii.
From Verif Require Import Lib.Bytes Sni.Wire.
Import ListNotations.
Local Open Scope N_scope.

(** * What the translator emits *)

Inductive rj_step :=
| RjEmpty                          (* if name == "" { return true } *)
| RjIP                             (* if ip := net.ParseIP(name); ip != nil { return true } *)
| RjSuffixes (l : list string)     (* for _, suf := range [...] { if HasSuffix(name, suf) { return true } } *)
| RjFalse                          (* return false *)
| RjUnknown (s : string).

Inductive dial_step :=
| DNoLookup | DDomain | DLookup | DLookupErr | DHomeForward
| DEndpoint | DEndpointErr | DDial | DUnknown (s : string).

(** * Names are byte strings *)

Fixpoint bytes_of_string (s : string) : bytes :=
  match s with
  | EmptyString => []
  | String a r => N_of_ascii a :: bytes_of_string r
  end.

Fixpoint prefixb (p s : bytes) : bool :=
  match p, s with
  | [], _ => true
  | x :: p', y :: s' => (x =? y) && prefixb p' s'
  | _ :: _, [] => false
  end.

Fixpoint beqb (a b : bytes) : bool :=
  match a, b with
  | [], [] => true
  | x :: a', y :: b' => (x =? y) && beqb a' b'
  | _, _ => false
  end.

(** strings.HasSuffix *)
Definition has_suffix (s suf : bytes) : bool := prefixb (rev suf) (rev s).

(** * isRejectedDomain *)

Section Route.
(** net.ParseIP(name) != nil: an external function; every case the harness
    runs carries its value as computed by the real net.ParseIP. *)
Variable is_ip : bytes -> bool.

(** The result of running the emitted steps in order; [None]: fell off the
    end or met a statement the translator does not know. *)
Fixpoint run_rj (steps : list rj_step) (name : bytes) : option bool :=
  match steps with
  | [] => None
  | RjEmpty :: r => match name with [] => Some true | _ => run_rj r name end
  | RjIP :: r => if is_ip name then Some true else run_rj r name
  | RjSuffixes l :: r =>
      if existsb (fun suf => has_suffix name (bytes_of_string suf)) l then Some true
      else run_rj r name
  | RjFalse :: _ => Some false
  | RjUnknown _ :: _ => None
  end.

(** The specification: empty, an IP literal, or one of the suffixes. *)
Definition is_rejected (sufs : list string) (name : bytes) : bool :=
  match name with
  | [] => true
  | _ => is_ip name || existsb (fun suf => has_suffix name (bytes_of_string suf)) sufs
  end.

(** * hostConn and Server.dial *)

(** Dest *)
Record dest := mkDest { d_name : bytes; d_home : bool; d_forward : bytes }.

Record server_cfg := mkCfg {
  has_lookup : bool;                       (* s.lookup != nil *)
  lookup : bytes -> option dest;           (* None: the lookup returned an error *)
  has_dial_home : bool;                    (* s.dialHome != nil *)
  registry : bytes -> option N             (* s.endpoints: name -> live endpoint (an id) *)
}.

Inductive route :=
| RRejected                 (* errNameRejected: before any dial *)
| RNoLookup                 (* "server not accepting" *)
| RLookupErr                (* the lookup refused the name *)
| RHome                     (* s.dialHome(ctx) *)
| RHomeMissing              (* Home but no DialHome: endpointNotFoundError *)
| RForward (addr : bytes)   (* TCP forward *)
| RNotFound (name : bytes)  (* no endpoint connected under that name *)
| REndpoint (ep : N) (name : bytes).   (* ep.Dial(ctx, asAddr) on that endpoint *)

Definition nonemptyb (b : bytes) : bool := match b with [] => false | _ => true end.

(** hostConn after a successful HelloInfo, followed by Server.dial. *)
Definition decide (sufs : list string) (cfg : server_cfg) (sni : bytes) : route :=
  if is_rejected sufs sni then RRejected
  else if negb (has_lookup cfg) then RNoLookup
  else
    match lookup cfg sni with
    | None => RLookupErr
    | Some d =>
        if d_home d then (if has_dial_home cfg then RHome else RHomeMissing)
        else if nonemptyb (d_forward d) then RForward (d_forward d)
        else
          match registry cfg (d_name d) with
          | Some ep => REndpoint ep (d_name d)
          | None => RNotFound (d_name d)
          end
    end.

(** The endpoints that get a Dial call for this connection (each entry:
    endpoint id).  Everything the connection's bytes can reach afterwards goes
    through that Dial's connection (netutil.JoinConn(ctx, remote, bc)). *)
Definition endpoint_dials (r : route) : list N :=
  match r with
  | REndpoint ep _ => [ep]
  | _ => []
  end.

End Route.

(** * Remote address of the accepted connection (side_conn.go newSideConn,
      endpoint_server.go handleDialSide / handleDialSide2, endpoint_client.go
      Dial) *)

Inductive tunnel_mode := Legacy | Siding | SidingAddr.

(** What endpointClient.Dial puts in the request's tcpAddr field. *)
Definition request_addr (m : tunnel_mode) (front_addr : bytes) : bytes :=
  match m with
  | SidingAddr => front_addr         (* dialSide2Request{tcpAddr: asAddr} *)
  | _ => []                          (* dialSideRequest has no address; legacy dials no side conn *)
  end.

Inductive accepted_addr :=
| APipe                    (* legacy: the net.Pipe end *)
| AWebsocketPeer           (* conn.RemoteAddr() of the side websocket: the proxy *)
| AGiven (addr : bytes).   (* sideConnAddr{addr} *)

(** newSideConn(conn, addr) *)
Definition side_conn_addr (addr : bytes) : accepted_addr :=
  match addr with [] => AWebsocketPeer | _ => AGiven addr end.

Definition accepted_remote_addr (m : tunnel_mode) (decoded_addr : bytes) : accepted_addr :=
  match m with
  | Legacy => APipe
  | _ => side_conn_addr decoded_addr
  end.

(** * The deployed code the model was written against *)

Local Open Scope string_scope.

Definition deployed_suffixes : list string :=
  [ ".iproxy.cloud"; ".after.blue"; ".spothot.online"; ".speedy.red" ].

Definition deployed_rj_steps : list rj_step :=
  [ RjEmpty; RjIP; RjSuffixes deployed_suffixes; RjFalse ].

Definition deployed_dial_steps : list dial_step :=
  [ DNoLookup; DDomain; DLookup; DLookupErr; DHomeForward; DEndpoint; DEndpointErr; DDial ].

(** hostConn: callee/arity in source order; the rejection test precedes the
    only dial, and the connection handed to JoinConn is the dialled one. *)
Definition deployed_host_conn_calls : list string :=
  [ "conn.Close/0"; "NewTLSHelloConn/1"; "bc.HelloInfo/0"; "isRejectedDomain/1";
    "conn.RemoteAddr().String/0"; "conn.RemoteAddr/0"; "p.dialer.dial/3";
    "closer.Close/0"; "netutil.JoinConn/3" ].

Definition rj_step_eqb (a b : rj_step) : bool :=
  match a, b with
  | RjEmpty, RjEmpty | RjIP, RjIP | RjFalse, RjFalse => true
  | RjSuffixes l, RjSuffixes l' => list_eqb String.eqb l l'
  | _, _ => false
  end.

Definition dial_step_eqb (a b : dial_step) : bool :=
  match a, b with
  | DNoLookup, DNoLookup | DDomain, DDomain | DLookup, DLookup
  | DLookupErr, DLookupErr | DHomeForward, DHomeForward | DEndpoint, DEndpoint
  | DEndpointErr, DEndpointErr | DDial, DDial => true
  | _, _ => false
  end.
