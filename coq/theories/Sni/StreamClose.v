(** Close propagation through netutil.JoinConn and the two kinds of dialled
    connection (tunnel over RPC + net.Pipe; sideConn over a websocket).

    The data is abstracted away; what is left is which ends are closed and
    which of the four blocked parties (the proxy's two copy loops, the
    application's Read, the client's Read) have returned.  Every rule sets
    flags and never clears one.  The justification of each rule from the Go
    code is given next to it; the end-to-end harness observes the outcome of
    each rule chain in every mode and direction.

    Everything here is finite, so the theorems are proved by evaluating a
    decision procedure over all 256 states. *)
From Coq Require Import List Bool Arith Lia.
Import ListNotations.

Record cstate := mkC {
  cc : bool;   (* the client closed its end of the front connection *)
  ac : bool;   (* the endpoint application closed the accepted connection *)
  fp : bool;   (* the proxy closed the front connection (closeAll: c2.Close) *)
  rp : bool;   (* the proxy closed the dialled connection (closeAll: c1.Close):
                  legacy: tunnel.Close -> closeRequest -> handleClose closes the pipe's client end;
                  side:   sideConn.Close -> CloseWrite sends the text frame, then the websocket is closed *)
  g1 : bool;   (* io.Copy(remote, bc) has returned *)
  g2 : bool;   (* io.Copy(bc, remote) has returned *)
  ra : bool;   (* the application's pending Read has returned an end (EOF or error) *)
  rc : bool    (* the client's pending Read has returned an end *)
}.

Definition cinit : cstate := mkC false false false false false false false false.

Inductive rule :=
| EClientClose      (* environment *)
| EAppClose         (* environment *)
| G1ReadEnds        (* bc.Read returns EOF (client closed) or an error (front closed locally) *)
| G1WriteFails      (* remote.Write fails: legacy: pipe Write on a closed pipe -> errWrite reply;
                       side: NextWriter/Write on a closed websocket *)
| G2ReadEnds        (* remote.Read ends: legacy: application closed -> pipe EOF -> errEOF reply -> io.EOF,
                       or handleClose closed the pipe under the pending handleRead -> errRead reply;
                       side: text frame -> io.EOF, or the local websocket was closed -> NextReader error *)
| G2WriteFails      (* bc.Write on a closed front connection *)
| CloseAll          (* the first copy loop to return runs closeAll: c1.Close(); c2.Close() *)
| AppReadEnds       (* legacy: the pipe's client end is closed -> the application's Read returns EOF;
                       side: the text frame arrives -> io.EOF, later the closed websocket -> error;
                       or the application closed the connection itself *)
| ClientReadEnds.   (* the proxy closed the front connection -> the client's Read returns EOF;
                       or the client closed the connection itself *)

Definition all_rules : list rule :=
  [EClientClose; EAppClose; G1ReadEnds; G1WriteFails; G2ReadEnds; G2WriteFails; CloseAll;
   AppReadEnds; ClientReadEnds].

(** Rules of the system itself (not the environment). *)
Definition system_rules : list rule :=
  [G1ReadEnds; G1WriteFails; G2ReadEnds; G2WriteFails; CloseAll; AppReadEnds; ClientReadEnds].

Definition enabled (r : rule) (s : cstate) : bool :=
  match r with
  | EClientClose => negb (cc s)
  | EAppClose => negb (ac s)
  | G1ReadEnds => negb (g1 s) && (cc s || fp s)
  | G1WriteFails => negb (g1 s) && (rp s || ac s)
  | G2ReadEnds => negb (g2 s) && (ac s || rp s)
  | G2WriteFails => negb (g2 s) && (fp s || cc s)
  | CloseAll => (g1 s || g2 s) && negb (fp s && rp s)
  | AppReadEnds => negb (ra s) && (rp s || ac s)
  | ClientReadEnds => negb (rc s) && (fp s || cc s)
  end.

Definition fire (r : rule) (s : cstate) : cstate :=
  match r with
  | EClientClose => mkC true (ac s) (fp s) (rp s) (g1 s) (g2 s) (ra s) (rc s)
  | EAppClose => mkC (cc s) true (fp s) (rp s) (g1 s) (g2 s) (ra s) (rc s)
  | G1ReadEnds | G1WriteFails => mkC (cc s) (ac s) (fp s) (rp s) true (g2 s) (ra s) (rc s)
  | G2ReadEnds | G2WriteFails => mkC (cc s) (ac s) (fp s) (rp s) (g1 s) true (ra s) (rc s)
  | CloseAll => mkC (cc s) (ac s) true true (g1 s) (g2 s) (ra s) (rc s)
  | AppReadEnds => mkC (cc s) (ac s) (fp s) (rp s) (g1 s) (g2 s) true (rc s)
  | ClientReadEnds => mkC (cc s) (ac s) (fp s) (rp s) (g1 s) (g2 s) (ra s) true
  end.

Definition b2n (b : bool) : nat := if b then 1 else 0.

(** Number of flags set: grows with every step. *)
Definition weight (s : cstate) : nat :=
  b2n (cc s) + b2n (ac s) + b2n (fp s) + b2n (rp s) + b2n (g1 s) + b2n (g2 s) + b2n (ra s) + b2n (rc s).

(** No rule of the system itself is enabled. *)
Definition quiescent (s : cstate) : bool :=
  forallb (fun r => negb (enabled r s)) system_rules.

(** ** Every step makes progress *)
Definition step_grows_b (s : cstate) : bool :=
  forallb (fun r => if enabled r s then Nat.ltb (weight s) (weight (fire r s)) else true) all_rules.

Lemma step_grows_all : forall a b c d e f g h, step_grows_b (mkC a b c d e f g h) = true.
Proof. intros [] [] [] [] [] [] [] []; reflexivity. Qed.

Theorem step_grows r s : enabled r s = true -> weight s < weight (fire r s).
Proof.
  intros H. destruct s as [a b c d e f g h].
  pose proof (step_grows_all a b c d e f g h) as G. unfold step_grows_b in G.
  rewrite forallb_forall in G.
  assert (Hr : In r all_rules) by (destruct r; cbn; tauto).
  specialize (G r Hr). rewrite H in G. now apply Nat.ltb_lt.
Qed.

Theorem weight_bound s : weight s <= 8.
Proof. destruct s as [[] [] [] [] [] [] [] []]; cbn; lia. Qed.

(** ** When nothing more can happen, both readers have been released *)
Definition close_ends_reads_b (s : cstate) : bool :=
  if quiescent s && (cc s || ac s) then ra s && rc s && g1 s && g2 s && fp s && rp s else true.

Lemma close_ends_reads_all : forall a b c d e f g h, close_ends_reads_b (mkC a b c d e f g h) = true.
Proof. intros [] [] [] [] [] [] [] []; reflexivity. Qed.

(** In every state - reachable or not - in which one side has closed and no
    rule of the system is enabled, the application's and the client's reads
    have ended, both copy loops have returned and both connections are closed. *)
Theorem close_ends_reads s :
  quiescent s = true -> cc s = true \/ ac s = true ->
  ra s = true /\ rc s = true /\ g1 s = true /\ g2 s = true /\ fp s = true /\ rp s = true.
Proof.
  intros Hq Hc. destruct s as [a b c d e f g h].
  pose proof (close_ends_reads_all a b c d e f g h) as G. unfold close_ends_reads_b in G.
  rewrite Hq in G.
  assert (Hc' : cc (mkC a b c d e f g h) || ac (mkC a b c d e f g h) = true)
    by (destruct Hc as [-> | ->]; [reflexivity|apply orb_true_r]).
  rewrite Hc' in G. cbn [andb] in G.
  repeat (apply andb_true_iff in G as [G ?]). repeat split; assumption.
Qed.

(** ** Runs *)
Fixpoint run_rules (s : cstate) (rs : list rule) : option cstate :=
  match rs with
  | [] => Some s
  | r :: rest => if enabled r s then run_rules (fire r s) rest else None
  end.

(** A run can take at most 8 steps from any state: after a close, every
    execution reaches a quiescent state, and there the reads have ended. *)
Theorem runs_are_short : forall rs s s',
  run_rules s rs = Some s' -> weight s + length rs <= weight s'.
Proof.
  induction rs as [|r rs IH]; intros s s'; cbn [run_rules length].
  - intros [= ->]. lia.
  - destruct (enabled r s) eqn:E; [|discriminate]. intros H.
    specialize (IH _ _ H). pose proof (step_grows r s E). lia.
Qed.

Corollary run_length_bound rs s s' : run_rules s rs = Some s' -> length rs <= 8.
Proof. intros H. pose proof (runs_are_short rs s s' H). pose proof (weight_bound s'). lia. Qed.

(** A pending read is never stuck: while one side has closed and a reader
    has not been released, some rule of the system is enabled. *)
Theorem never_stuck s :
  cc s = true \/ ac s = true -> ra s = false \/ rc s = false ->
  exists r, In r system_rules /\ enabled r s = true.
Proof.
  intros Hc Hr. destruct (quiescent s) eqn:Q.
  - destruct (close_ends_reads s Q Hc) as (Ha & Hcn & _). destruct Hr; congruence.
  - unfold quiescent in Q. apply not_true_iff_false in Q.
    assert (E : existsb (fun r => enabled r s) system_rules = true).
    { destruct (existsb (fun r => enabled r s) system_rules) eqn:X; [reflexivity|].
      exfalso. apply Q. apply forallb_forall. intros r Hin.
      destruct (enabled r s) eqn:Y; [|reflexivity].
      assert (existsb (fun r => enabled r s) system_rules = true)
        by (apply existsb_exists; exists r; auto). congruence. }
    apply existsb_exists in E. destruct E as (r & Hin & He). eauto.
Qed.
