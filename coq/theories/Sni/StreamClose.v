(** Close propagation through netutil.JoinConn and the two kinds of dialled
    connection (tunnel over RPC + net.Pipe; sideConn over a websocket).

    The data is abstracted away; what is left is which ends are closed and
    which of the blocked parties (the proxy's two copy loops, the
    application's pending Read and its later Reads, the client's pending Read
    and its later Reads) have returned.  Every rule sets flags and never
    clears one.  The justification of each rule from the Go code is given next
    to it; the end-to-end harness observes the outcome of each rule chain in
    every mode and direction, including Reads issued after the first end.

    The system has one parameter, [policy]: what a copy loop of JoinConn does
    when it returns.  The code closes both connections ([CloseBoth]: the
    deferred closeAll in the `join` closure; regenerated from the source in
    Gen/StreamConsts.v and checked in StreamGen.v).  The theorems need exactly
    that: under [HalfClose] (only the end marker is passed on) a Read issued
    after the first end is stranded, because sideConn.Read does not remember
    the end marker (Sni/StreamProofs.v: later_read_blocks_while_open).

    Everything here is finite, so the theorems are proved by evaluating a
    decision procedure over all 2048 states. *)
From Coq Require Import List Bool Arith Lia String.
Import ListNotations.

Inductive policy :=
| CloseBoth    (* join: defer func() { closeAll(); ... }() with closeAll = c1.Close(); c2.Close() *)
| HalfClose.   (* a clean EOF is passed on with CloseWrite only; closeAll when both loops are done
                  or when the destination cannot half-close (the front connection) *)

(** The policy read off what the translator extracted from JoinConn: the
    calls in the deferred function of the `join` closure and the calls made by
    closeAll.  Anything but "closeAll unconditionally, closing both
    connections" counts as the weaker policy, for which no theorem holds. *)
Definition str_in (x : string) (l : list string) : bool := existsb (String.eqb x) l.

Definition close_policy_of (join_defer closeall : list string) : policy :=
  if str_in "closeAll/0" join_defer && str_in "c1.Close/0" closeall && str_in "c2.Close/0" closeall
  then CloseBoth else HalfClose.

Record cstate := mkC {
  cc : bool;   (* the client closed its end of the front connection *)
  ac : bool;   (* the endpoint application closed the accepted connection *)
  fp : bool;   (* the proxy closed the front connection (closeAll: c2.Close) *)
  rt : bool;   (* the end marker reached the application's connection:
                  side: the "EOF" text frame of CloseWrite; legacy: the pipe's client end closed *)
  rp : bool;   (* the proxy closed the dialled connection (closeAll: c1.Close):
                  legacy: tunnel.Close -> closeRequest -> handleClose closes the pipe's client end;
                  side:   sideConn.Close -> CloseWrite, then the websocket itself is closed *)
  g1 : bool;   (* io.Copy(remote, bc) has returned *)
  g2 : bool;   (* io.Copy(bc, remote) has returned *)
  ra : bool;   (* the application's pending Read has returned an end (EOF or error) *)
  ra2 : bool;  (* a Read the application issued after that has returned *)
  rc : bool;   (* the client's pending Read has returned an end *)
  rc2 : bool   (* a Read the client issued after that has returned *)
}.

Definition cinit : cstate :=
  mkC false false false false false false false false false false false.

Inductive rule :=
| EClientClose      (* environment *)
| EAppClose         (* environment *)
| G1ReadEnds        (* bc.Read returns EOF (client closed) or an error (front closed locally) *)
| G1WriteFails      (* remote.Write fails: legacy: pipe Write on a closed pipe -> errWrite reply;
                       side: NextWriter/Write on a closed websocket *)
| G2ReadEnds        (* remote.Read ends: legacy: application closed -> pipe EOF -> errEOF reply -> io.EOF,
                       or handleClose closed the pipe under the pending handleRead -> errRead reply;
                       side: text frame -> io.EOF, or the local websocket was closed -> NextReader error *)
| G2WriteFails      (* bc.Write on a closed front connection *)
| CopyEnd           (* what the policy does once a copy loop has returned *)
| AppReadEnds       (* the pending Read: the end marker arrives (side: text frame -> io.EOF; legacy: pipe
                       closed -> io.EOF), or the connection is closed, or the application closed it itself *)
| AppLaterReadEnds  (* a Read after the first end: side: sideConn.Read has forgotten the marker and calls
                       NextReader again, which returns only when the websocket is closed;
                       legacy: the closed pipe keeps returning EOF; or the application closed it itself *)
| ClientReadEnds    (* the proxy closed the front connection -> EOF; or the client closed it itself *)
| ClientLaterReadEnds. (* TCP: the end is sticky *)

Definition all_rules : list rule :=
  [EClientClose; EAppClose; G1ReadEnds; G1WriteFails; G2ReadEnds; G2WriteFails; CopyEnd;
   AppReadEnds; AppLaterReadEnds; ClientReadEnds; ClientLaterReadEnds].

(** Rules of the system itself (not the environment). *)
Definition system_rules : list rule :=
  [G1ReadEnds; G1WriteFails; G2ReadEnds; G2WriteFails; CopyEnd; AppReadEnds; AppLaterReadEnds;
   ClientReadEnds; ClientLaterReadEnds].

Definition all_closed (s : cstate) : bool := fp s && rt s && rp s.

Definition enabled (p : policy) (r : rule) (s : cstate) : bool :=
  match r with
  | EClientClose => negb (cc s)
  | EAppClose => negb (ac s)
  | G1ReadEnds => negb (g1 s) && (cc s || fp s)
  | G1WriteFails => negb (g1 s) && (rp s || ac s)
  | G2ReadEnds => negb (g2 s) && (ac s || rp s)
  | G2WriteFails => negb (g2 s) && (fp s || cc s)
  | CopyEnd =>
      match p with
      | CloseBoth => (g1 s || g2 s) && negb (all_closed s)
      | HalfClose =>
          (* client->application loop ended: CloseWrite on the dialled connection only;
             the other loop ended (the front connection cannot half-close), or both: closeAll *)
          (g1 s && negb (rt s)) || (g2 s && negb (all_closed s))
      end
  | AppReadEnds => negb (ra s) && (rt s || rp s || ac s)
  | AppLaterReadEnds => ra s && negb (ra2 s) && (rp s || ac s)
  | ClientReadEnds => negb (rc s) && (fp s || cc s)
  | ClientLaterReadEnds => rc s && negb (rc2 s) && (fp s || cc s)
  end.

Definition set_closed (s : cstate) (f t p : bool) : cstate :=
  mkC (cc s) (ac s) (fp s || f) (rt s || t) (rp s || p) (g1 s) (g2 s) (ra s) (ra2 s) (rc s) (rc2 s).

Definition fire (p : policy) (r : rule) (s : cstate) : cstate :=
  match r with
  | EClientClose => mkC true (ac s) (fp s) (rt s) (rp s) (g1 s) (g2 s) (ra s) (ra2 s) (rc s) (rc2 s)
  | EAppClose => mkC (cc s) true (fp s) (rt s) (rp s) (g1 s) (g2 s) (ra s) (ra2 s) (rc s) (rc2 s)
  | G1ReadEnds | G1WriteFails =>
      mkC (cc s) (ac s) (fp s) (rt s) (rp s) true (g2 s) (ra s) (ra2 s) (rc s) (rc2 s)
  | G2ReadEnds | G2WriteFails =>
      mkC (cc s) (ac s) (fp s) (rt s) (rp s) (g1 s) true (ra s) (ra2 s) (rc s) (rc2 s)
  | CopyEnd =>
      match p with
      | CloseBoth => set_closed s true true true
      | HalfClose => if g2 s then set_closed s true true true else set_closed s false true false
      end
  | AppReadEnds => mkC (cc s) (ac s) (fp s) (rt s) (rp s) (g1 s) (g2 s) true (ra2 s) (rc s) (rc2 s)
  | AppLaterReadEnds => mkC (cc s) (ac s) (fp s) (rt s) (rp s) (g1 s) (g2 s) (ra s) true (rc s) (rc2 s)
  | ClientReadEnds => mkC (cc s) (ac s) (fp s) (rt s) (rp s) (g1 s) (g2 s) (ra s) (ra2 s) true (rc2 s)
  | ClientLaterReadEnds => mkC (cc s) (ac s) (fp s) (rt s) (rp s) (g1 s) (g2 s) (ra s) (ra2 s) (rc s) true
  end.

Definition b2n (b : bool) : nat := if b then 1 else 0.

(** Number of flags set: grows with every step. *)
Definition weight (s : cstate) : nat :=
  b2n (cc s) + b2n (ac s) + b2n (fp s) + b2n (rt s) + b2n (rp s) + b2n (g1 s) + b2n (g2 s)
  + b2n (ra s) + b2n (ra2 s) + b2n (rc s) + b2n (rc2 s).

(** The rules that do not need anybody to write: a party that only reads
    (an application waiting in Read, a copy loop waiting in Read) is released
    by these alone.  The two write-failure rules can fire only if data is
    being written after the close, which nothing obliges anybody to do. *)
Definition read_rules : list rule :=
  [G1ReadEnds; G2ReadEnds; CopyEnd; AppReadEnds; AppLaterReadEnds; ClientReadEnds; ClientLaterReadEnds].

(** No rule is enabled that could fire without further writes. *)
Definition quiescent (p : policy) (s : cstate) : bool :=
  forallb (fun r => negb (enabled p r s)) read_rules.

(** ** Every step makes progress (either policy) *)
Definition step_grows_b (p : policy) (s : cstate) : bool :=
  forallb (fun r => if enabled p r s then Nat.ltb (weight s) (weight (fire p r s)) else true) all_rules.

Lemma step_grows_all : forall p a b c d e f g h i j k,
  step_grows_b p (mkC a b c d e f g h i j k) = true.
Proof. intros [] [] [] [] [] [] [] [] [] [] [] []; reflexivity. Qed.

Theorem step_grows p r s : enabled p r s = true -> weight s < weight (fire p r s).
Proof.
  intros H. destruct s as [a b c d e f g h i j k].
  pose proof (step_grows_all p a b c d e f g h i j k) as G. unfold step_grows_b in G.
  rewrite forallb_forall in G.
  assert (Hr : In r all_rules) by (destruct r; cbn; tauto).
  specialize (G r Hr). rewrite H in G. now apply Nat.ltb_lt.
Qed.

Theorem weight_bound s : weight s <= 11.
Proof. destruct s as [[] [] [] [] [] [] [] [] [] [] []]; cbn; lia. Qed.

(** ** Closing both connections: when nothing more can happen, every reader
    has been released - the pending Reads and the later ones *)
Definition all_released (s : cstate) : bool :=
  ra s && ra2 s && rc s && rc2 s && g1 s && g2 s && fp s && rp s.

Definition close_ends_reads_b (s : cstate) : bool :=
  if quiescent CloseBoth s && (cc s || ac s) then all_released s else true.

Lemma close_ends_reads_all : forall a b c d e f g h i j k,
  close_ends_reads_b (mkC a b c d e f g h i j k) = true.
Proof. intros [] [] [] [] [] [] [] [] [] [] []; reflexivity. Qed.

(** In every state - reachable or not - in which one side has closed and no
    rule of the system is enabled, the application's and the client's pending
    and later Reads have returned, both copy loops have returned and both
    connections are closed: provided a returning copy loop closes both.
    (Quiescence is taken over [read_rules] only: nobody has to write.) *)
Theorem close_ends_reads p s :
  p = CloseBoth ->
  quiescent p s = true -> cc s = true \/ ac s = true ->
  ra s = true /\ ra2 s = true /\ rc s = true /\ rc2 s = true /\
  g1 s = true /\ g2 s = true /\ fp s = true /\ rp s = true.
Proof.
  intros -> Hq Hc. destruct s as [a b c d e f g h i j k].
  pose proof (close_ends_reads_all a b c d e f g h i j k) as G. unfold close_ends_reads_b in G.
  rewrite Hq in G.
  assert (Hc' : cc (mkC a b c d e f g h i j k) || ac (mkC a b c d e f g h i j k) = true)
    by (destruct Hc as [-> | ->]; [reflexivity|apply orb_true_r]).
  rewrite Hc' in G. cbn [andb] in G. unfold all_released in G.
  repeat (apply andb_true_iff in G as [G ?]). repeat split; assumption.
Qed.

(** ** Runs *)
Fixpoint run_rules (p : policy) (s : cstate) (rs : list rule) : option cstate :=
  match rs with
  | [] => Some s
  | r :: rest => if enabled p r s then run_rules p (fire p r s) rest else None
  end.

Theorem runs_are_short p : forall rs s s',
  run_rules p s rs = Some s' -> weight s + List.length rs <= weight s'.
Proof.
  induction rs as [|r rs IH]; intros s s'; cbn [run_rules List.length].
  - intros [= ->]. lia.
  - destruct (enabled p r s) eqn:E; [|discriminate]. intros H.
    specialize (IH _ _ H). pose proof (step_grows p r s E). lia.
Qed.

Corollary run_length_bound p rs s s' : run_rules p s rs = Some s' -> List.length rs <= 11.
Proof. intros H. pose proof (runs_are_short p rs s s' H). pose proof (weight_bound s'). lia. Qed.

(** A Read is never stuck: while one side has closed and some reader has not
    been released, some rule of the system is enabled. *)
Theorem never_stuck s :
  cc s = true \/ ac s = true ->
  ra s = false \/ ra2 s = false \/ rc s = false \/ rc2 s = false ->
  exists r, In r read_rules /\ enabled CloseBoth r s = true.
Proof.
  intros Hc Hr. destruct (quiescent CloseBoth s) eqn:Q.
  - destruct (close_ends_reads CloseBoth s eq_refl Q Hc) as (H1 & H2 & H3 & H4 & _).
    destruct Hr as [|[|[|]]]; congruence.
  - unfold quiescent in Q. apply not_true_iff_false in Q.
    assert (E : existsb (fun r => enabled CloseBoth r s) read_rules = true).
    { destruct (existsb (fun r => enabled CloseBoth r s) read_rules) eqn:X; [reflexivity|].
      exfalso. apply Q. apply forallb_forall. intros r Hin.
      destruct (enabled CloseBoth r s) eqn:Y; [|reflexivity].
      assert (existsb (fun r => enabled CloseBoth r s) read_rules = true)
        by (apply existsb_exists; exists r; auto). congruence. }
    apply existsb_exists in E. destruct E as (r & Hin & He). eauto.
Qed.

(** ** The dependency made explicit: passing on only the end marker strands
    the application's later Reads.  The client closes; the copy loop passes the
    end marker on; the pending Read returns EOF; nothing else can happen unless
    the application writes or closes; a later Read has not returned. *)
Theorem half_close_strands_later_reads :
  exists s,
    run_rules HalfClose cinit [EClientClose; G1ReadEnds; CopyEnd; AppReadEnds; ClientReadEnds;
                               ClientLaterReadEnds] = Some s /\
    quiescent HalfClose s = true /\ cc s = true /\ ra s = true /\ ra2 s = false.
Proof. eexists. repeat split; reflexivity. Qed.
