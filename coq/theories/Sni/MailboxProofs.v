(** Proofs about the model of Sni/Mailbox.v: for every sequence of
    operations (every schedule of any number of dialling goroutines and any
    deliveries). *)
From Coq Require Import List Arith NArith Bool Lia.
From Verif Require Import Sni.Mailbox.
Import ListNotations.
Local Open Scope N_scope.

(** * Finite maps as association lists *)

Lemma map_get_del_same id m : map_get id (map_del id m) = None.
Proof.
  induction m as [|[k h] m IH]; [reflexivity|]. cbn [map_del].
  destruct (N.eqb_spec k id) as [->|Hne]; [exact IH|].
  cbn [map_get]. destruct (N.eqb_spec k id); [contradiction|exact IH].
Qed.

Lemma map_get_del_other id id' m : id' <> id -> map_get id' (map_del id m) = map_get id' m.
Proof.
  intros Hne. induction m as [|[k h] m IH]; [reflexivity|]. cbn [map_del map_get].
  destruct (N.eqb_spec k id) as [->|Hk].
  - destruct (N.eqb_spec id id'); [congruence|exact IH].
  - cbn [map_get]. destruct (N.eqb_spec k id'); [reflexivity|exact IH].
Qed.

Lemma map_get_set_same id h m : map_get id (map_set id h m) = Some h.
Proof. unfold map_set. cbn [map_get]. now rewrite N.eqb_refl. Qed.

Lemma map_get_set_other id id' h m : id' <> id -> map_get id' (map_set id h m) = map_get id' m.
Proof.
  intros Hne. unfold map_set. cbn [map_get].
  destruct (N.eqb_spec id id'); [congruence|]. now apply map_get_del_other.
Qed.

(** * The heap of boxes *)

Lemma upd_box_length h f bs : length (upd_box h f bs) = length bs.
Proof. revert h; induction bs as [|b r IH]; intros [|h]; cbn; auto. Qed.

Lemma upd_box_nth_same h f bs : nth_error (upd_box h f bs) h = option_map f (nth_error bs h).
Proof. revert h; induction bs as [|b r IH]; intros [|h]; cbn; auto. Qed.

Lemma upd_box_nth_other h h' f bs : h <> h' -> nth_error (upd_box h f bs) h' = nth_error bs h'.
Proof.
  revert h h'; induction bs as [|b r IH]; intros [|h] [|h'] Hne; cbn; auto; try congruence.
Qed.

Definition same_key (b b' : box) : Prop := bx_id b' = bx_id b /\ bx_key b' = bx_key b.

Lemma upd_box_stable h f bs h' b :
  (forall x, same_key x (f x)) ->
  nth_error bs h' = Some b ->
  exists b', nth_error (upd_box h f bs) h' = Some b' /\ same_key b b'.
Proof.
  intros Hf Hn. destruct (Nat.eq_dec h h') as [->|Hne].
  - rewrite upd_box_nth_same, Hn. eexists. split; [reflexivity|apply Hf].
  - rewrite upd_box_nth_other by assumption. exists b. split; [assumption|split; reflexivity].
Qed.

Lemma close_same x : same_key x (close_box x). Proof. split; reflexivity. Qed.
Lemma take_same x : same_key x (take_box x). Proof. split; reflexivity. Qed.
Lemma put_same t x : same_key x (put_box t x).
Proof. unfold put_box. destruct (bx_ch x); split; reflexivity. Qed.

(** * One step *)

(** Boxes are never removed and never change id or key; the log only grows. *)
Lemma step_stable o p o' v :
  step o p = (o', v) ->
  (forall h b, nth_error (o_boxes o) h = Some b ->
     exists b', nth_error (o_boxes o') h = Some b' /\ same_key b b') /\
  (forall e, In e (o_log o) -> In e (o_log o')) /\
  (forall e, In e (o_recv o) -> In e (o_recv o')).
Proof.
  destruct p as [|id key|id key tag|h pc|h]; cbn [step].
  - intros [= <- <-]. cbn. repeat split; auto. intros h b Hb. exists b. repeat split; auto.
  - intros [= <- <-]. cbn [o_boxes o_log o_recv]. split; [|split; auto].
    intros h b Hb.
    destruct (map_get id (o_map o)) as [cur|].
    + destruct (upd_box_stable cur close_box (o_boxes o) h b close_same Hb) as (b' & Hb' & Hs).
      exists b'. split; [|assumption]. rewrite nth_error_app1; [assumption|].
      apply nth_error_Some. congruence.
    + exists b. split; [|split; reflexivity]. rewrite nth_error_app1; [assumption|].
      apply nth_error_Some. congruence.
  - destruct (map_get id (o_map o)) as [h|].
    2:{ intros [= <- <-]. repeat split; auto. intros h b Hb. exists b. repeat split; auto. }
    destruct (nth_error (o_boxes o) h) as [b0|] eqn:E0.
    2:{ intros [= <- <-]. repeat split; auto. intros h' b Hb. exists b. repeat split; auto. }
    destruct (box_match b0 id key).
    2:{ intros [= <- <-]. repeat split; auto. intros h' b Hb. exists b. repeat split; auto. }
    intros [= <- <-]. cbn [o_boxes o_log o_recv]. split; [|split; auto].
    + intros h' b Hb. apply upd_box_stable; [apply put_same|assumption].
    + intros e He. destruct (bx_ch b0); [assumption|now right].
  - destruct (nth_error (o_boxes o) h) as [b0|] eqn:E0.
    2:{ intros [= <- <-]. repeat split; auto. intros h' b Hb. exists b. repeat split; auto. }
    destruct (bx_ch b0) as [tag|].
    + destruct (bx_closed b0 && pc).
      { intros [= <- <-]. repeat split; auto. intros h' b Hb. exists b. repeat split; auto. }
      intros [= <- <-]. cbn [o_boxes o_log o_recv]. split; [|split; auto].
      * intros h' b Hb. apply upd_box_stable; [apply take_same|assumption].
      * intros e He. now right.
    + destruct (bx_closed b0); intros [= <- <-]; repeat split; auto;
        intros h' b Hb; exists b; repeat split; auto.
  - destruct (nth_error (o_boxes o) h) as [b0|] eqn:E0.
    2:{ intros [= <- <-]. repeat split; auto. intros h' b Hb. exists b. repeat split; auto. }
    intros [= <- <-]. cbn [o_boxes o_log o_recv]. split; [|split; auto].
    intros h' b Hb. apply upd_box_stable; [apply close_same|assumption].
Qed.

(** The invariant: the map points at boxes carrying the id they are filed
    under; a connection sitting in a box, and every connection ever received
    from a box, was logged as delivered under exactly that box's id and key. *)
Definition oinv (o : office) : Prop :=
  (forall id h, map_get id (o_map o) = Some h ->
     exists b, nth_error (o_boxes o) h = Some b /\ bx_id b = id) /\
  (forall h b tag, nth_error (o_boxes o) h = Some b -> bx_ch b = Some tag ->
     In (bx_id b, bx_key b, tag) (o_log o)) /\
  (forall h tag, In (h, tag) (o_recv o) ->
     exists b, nth_error (o_boxes o) h = Some b /\ In (bx_id b, bx_key b, tag) (o_log o)).

Lemma oinv_init : oinv office_init.
Proof.
  repeat split; cbn; intros; try discriminate; try contradiction.
  destruct h; discriminate.
Qed.

Lemma step_inv o p o' v : oinv o -> step o p = (o', v) -> oinv o'.
Proof.
  intros (Imap & Ich & Irecv) Hstep.
  pose proof (step_stable o p o' v Hstep) as (Sbox & Slog & Srecv).
  (* received connections: old ones stay justified because boxes and log are stable *)
  assert (Irecv_old : forall h tag, In (h, tag) (o_recv o) ->
            exists b, nth_error (o_boxes o') h = Some b /\ In (bx_id b, bx_key b, tag) (o_log o')).
  { intros h tag Hin. destruct (Irecv h tag Hin) as (b & Hb & Hl).
    destruct (Sbox h b Hb) as (b' & Hb' & Hid & Hkey). exists b'. split; [assumption|].
    rewrite Hid, Hkey. auto. }
  destruct p as [|id key|id key tag|h pc|h]; cbn [step] in Hstep.
  - injection Hstep as <- <-. repeat split; assumption.
  - injection Hstep as <- <-. unfold oinv. cbn [o_boxes o_map o_log o_recv] in *.
    set (boxes := match map_get id (o_map o) with
                  | Some cur => upd_box cur close_box (o_boxes o) | None => o_boxes o end) in *.
    assert (Hlen : length boxes = length (o_boxes o)).
    { unfold boxes. destruct (map_get id (o_map o)); [apply upd_box_length|reflexivity]. }
    assert (Hold : forall h b, nth_error boxes h = Some b ->
              exists b0, nth_error (o_boxes o) h = Some b0 /\ bx_id b0 = bx_id b /\
                         bx_key b0 = bx_key b /\ bx_ch b0 = bx_ch b).
    { unfold boxes. intros h b Hb. destruct (map_get id (o_map o)) as [cur|].
      - destruct (Nat.eq_dec cur h) as [->|Hne].
        + rewrite upd_box_nth_same in Hb. destruct (nth_error (o_boxes o) h) as [b0|]; [|discriminate].
          injection Hb as <-. exists b0. repeat split; reflexivity.
        + rewrite upd_box_nth_other in Hb by assumption. exists b. repeat split; auto.
      - exists b. repeat split; auto. }
    split; [|split].
    + intros id' h Hg. destruct (N.eq_dec id' id) as [->|Hne].
      * rewrite map_get_set_same in Hg. injection Hg as <-.
        exists (mkBox id key None false). split; [|reflexivity].
        rewrite nth_error_app2 by lia. now rewrite Nat.sub_diag.
      * rewrite map_get_set_other in Hg by assumption.
        destruct (Imap id' h Hg) as (b & Hb & Hid).
        destruct (Sbox h b Hb) as (b' & Hb' & Hid' & _). exists b'. split; [assumption|congruence].
    + intros h b tag Hb Hc.
      destruct (Nat.lt_ge_cases h (length boxes)) as [Hlt|Hge].
      * rewrite nth_error_app1 in Hb by assumption.
        destruct (Hold h b Hb) as (b0 & Hb0 & Hi & Hk & Hch).
        rewrite <- Hi, <- Hk. apply (Ich h b0 tag Hb0). congruence.
      * rewrite nth_error_app2 in Hb by assumption.
        destruct (h - length boxes)%nat as [|n]; cbn in Hb; [|destruct n; discriminate].
        injection Hb as <-. discriminate.
    + assumption.
  - destruct (map_get id (o_map o)) as [h|] eqn:Eg.
    2:{ injection Hstep as <- <-. repeat split; assumption. }
    destruct (nth_error (o_boxes o) h) as [b0|] eqn:E0.
    2:{ injection Hstep as <- <-. repeat split; assumption. }
    destruct (box_match b0 id key) eqn:Em.
    2:{ injection Hstep as <- <-. repeat split; assumption. }
    injection Hstep as <- <-. unfold oinv. cbn [o_boxes o_map o_log o_recv] in *.
    apply andb_true_iff in Em as [Ei Ek]. apply N.eqb_eq in Ei, Ek.
    split; [|split; [|assumption]].
    + intros id' h' Hg. destruct (Imap id' h' Hg) as (b & Hb & Hid).
      destruct (Sbox h' b Hb) as (b' & Hb' & Hid' & _). exists b'. split; [assumption|congruence].
    + intros h' b tag' Hb Hc.
      destruct (Nat.eq_dec h h') as [<-|Hne].
      * rewrite upd_box_nth_same, E0 in Hb. injection Hb as <-.
        unfold put_box in *. destruct (bx_ch b0) as [old|] eqn:Eold.
        -- apply (Ich h b0 tag' E0). congruence.
        -- cbn in Hc |- *. injection Hc as <-. left. congruence.
      * rewrite upd_box_nth_other in Hb by assumption.
        apply Slog. apply (Ich h' b tag' Hb Hc).
  - destruct (nth_error (o_boxes o) h) as [b0|] eqn:E0.
    2:{ injection Hstep as <- <-. repeat split; assumption. }
    destruct (bx_ch b0) as [tag|] eqn:Ech.
    + destruct (bx_closed b0 && pc).
      { injection Hstep as <- <-. repeat split; assumption. }
      injection Hstep as <- <-. unfold oinv. cbn [o_boxes o_map o_log o_recv] in *.
      split; [|split].
      * intros id' h' Hg. destruct (Imap id' h' Hg) as (b & Hb & Hid).
        destruct (Sbox h' b Hb) as (b' & Hb' & Hid' & _). exists b'. split; [assumption|congruence].
      * intros h' b tag' Hb Hc.
        destruct (Nat.eq_dec h h') as [<-|Hne].
        -- rewrite upd_box_nth_same, E0 in Hb. injection Hb as <-. discriminate.
        -- rewrite upd_box_nth_other in Hb by assumption. apply (Ich h' b tag' Hb Hc).
      * intros h' tag' [[= <- <-]|Hin]; [|apply Irecv_old; assumption].
        exists (take_box b0). rewrite upd_box_nth_same, E0. split; [reflexivity|].
        apply (Ich h b0 tag E0 Ech).
    + destruct (bx_closed b0); injection Hstep as <- <-; repeat split; assumption.
  - destruct (nth_error (o_boxes o) h) as [b0|] eqn:E0.
    2:{ injection Hstep as <- <-. repeat split; assumption. }
    injection Hstep as <- <-. unfold oinv. cbn [o_boxes o_map o_log o_recv] in *.
    split; [|split; [|assumption]].
    + intros id' h' Hg.
      assert (Hg0 : map_get id' (o_map o) = Some h').
      { destruct (map_get (bx_id b0) (o_map o)) as [hm|]; [|assumption].
        destruct (nth_error (o_boxes o) hm) as [bm|]; [|assumption].
        destruct (box_match bm (bx_id b0) (bx_key b0)); [|assumption].
        destruct (N.eq_dec id' (bx_id b0)) as [->|Hne].
        - now rewrite map_get_del_same in Hg.
        - now rewrite map_get_del_other in Hg. }
      destruct (Imap id' h' Hg0) as (b & Hb & Hid).
      destruct (Sbox h' b Hb) as (b' & Hb' & Hid' & _). exists b'. split; [assumption|congruence].
    + intros h' b tag' Hb Hc.
      destruct (Nat.eq_dec h h') as [<-|Hne].
      * rewrite upd_box_nth_same, E0 in Hb. injection Hb as <-.
        apply (Ich h b0 tag' E0 Hc).
      * rewrite upd_box_nth_other in Hb by assumption. apply (Ich h' b tag' Hb Hc).
Qed.

Lemma run_inv : forall ps o o' vs, oinv o -> run o ps = (o', vs) -> oinv o'.
Proof.
  induction ps as [|p ps IH]; intros o o' vs Hinv; cbn [run].
  - now intros [= <- <-].
  - destruct (step o p) as [o1 v] eqn:E1. destruct (run o1 ps) as [o2 vs2] eqn:E2.
    intros [= <- <-]. eapply IH; [|eassumption]. eapply step_inv; eassumption.
Qed.

(** Every log entry is a delivery operation of the run. *)
Lemma step_log o p o' v e :
  step o p = (o', v) -> In e (o_log o') ->
  In e (o_log o) \/ (exists id key tag, e = (id, key, tag) /\ p = ODeliver id key tag).
Proof.
  destruct p as [|id key|id key tag|h pc|h]; cbn [step].
  - intros [= <- <-]. auto.
  - intros [= <- <-]. auto.
  - destruct (map_get id (o_map o)) as [h|]; [|intros [= <- <-]; auto].
    destruct (nth_error (o_boxes o) h) as [b0|]; [|intros [= <- <-]; auto].
    destruct (box_match b0 id key); [|intros [= <- <-]; auto].
    intros [= <- <-]. cbn [o_log]. destruct (bx_ch b0); [auto|].
    intros [<-|Hin]; [right; eauto|auto].
  - destruct (nth_error (o_boxes o) h) as [b0|]; [|intros [= <- <-]; auto].
    destruct (bx_ch b0); [destruct (bx_closed b0 && pc)|destruct (bx_closed b0)];
      intros [= <- <-]; auto.
  - destruct (nth_error (o_boxes o) h) as [b0|]; [|intros [= <- <-]; auto].
    intros [= <- <-]. auto.
Qed.

Lemma run_log : forall ps o o' vs id key tag,
  run o ps = (o', vs) -> In (id, key, tag) (o_log o') ->
  In (id, key, tag) (o_log o) \/ In (ODeliver id key tag) ps.
Proof.
  induction ps as [|p ps IH]; intros o o' vs id key tag; cbn [run].
  - intros [= <- <-]. auto.
  - destruct (step o p) as [o1 v] eqn:E1. destruct (run o1 ps) as [o2 vs2] eqn:E2.
    intros [= <- <-] Hin.
    destruct (IH o1 o2 vs2 id key tag E2 Hin) as [H1|H1]; [|right; now right].
    destruct (step_log o p o1 v _ E1 H1) as [H0|(i & k & t & [= -> -> ->] & ->)]; [auto|].
    right. now left.
Qed.

(** ** Mailbox isolation: a connection comes out of a box only if it was
    delivered with exactly that box's id and key. *)
Theorem mailbox_isolation ps o vs h tag :
  run office_init ps = (o, vs) ->
  In (h, tag) (o_recv o) ->
  exists b, nth_error (o_boxes o) h = Some b /\
            In (ODeliver (bx_id b) (bx_key b) tag) ps.
Proof.
  intros Hrun Hin.
  destruct (run_inv ps office_init o vs oinv_init Hrun) as (_ & _ & Irecv).
  destruct (Irecv h tag Hin) as (b & Hb & Hl). exists b. split; [assumption|].
  destruct (run_log ps office_init o vs _ _ _ Hrun Hl) as [[]|H]. exact H.
Qed.

(** ** No misdelivery between honest parties.  If the dials used pairwise
    different session ids (which the counter guarantees, see [ids_unique])
    and every delivery names the box it was made for, then a dial receives
    the connection made for it and no other - whatever the keys are. *)
Definition boxes_distinct (o : office) : Prop :=
  forall h1 h2 b1 b2, nth_error (o_boxes o) h1 = Some b1 -> nth_error (o_boxes o) h2 = Some b2 ->
    bx_id b1 = bx_id b2 -> h1 = h2.

Definition deliveries_honest (o : office) (ps : list op) : Prop :=
  forall id key tag, In (ODeliver id key tag) ps ->
    exists b, nth_error (o_boxes o) (N.to_nat tag) = Some b /\ bx_id b = id.

Theorem no_misdelivery ps o vs h tag :
  run office_init ps = (o, vs) ->
  boxes_distinct o -> deliveries_honest o ps ->
  In (h, tag) (o_recv o) -> N.to_nat tag = h.
Proof.
  intros Hrun Hd Hh Hin.
  destruct (mailbox_isolation ps o vs h tag Hrun Hin) as (b & Hb & Hdel).
  destruct (Hh _ _ _ Hdel) as (b' & Hb' & Hid).
  eapply Hd; eauto.
Qed.

(** Box ids are the ids given to newBox, in order. *)
Fixpoint newbox_ids (ps : list op) : list N :=
  match ps with
  | [] => []
  | ONewBox id _ :: r => id :: newbox_ids r
  | _ :: r => newbox_ids r
  end.

Lemma step_box_ids o p o' v :
  step o p = (o', v) ->
  map bx_id (o_boxes o') = map bx_id (o_boxes o) ++ newbox_ids [p].
Proof.
  assert (U : forall h f bs, (forall x, same_key x (f x)) ->
              map bx_id (upd_box h f bs) = map bx_id bs).
  { intros h f bs Hf. revert h. induction bs as [|b r IH]; intros [|h]; cbn; auto.
    - f_equal. apply Hf.
    - f_equal. apply IH. }
  destruct p as [|id key|id key tag|h pc|h]; cbn [step newbox_ids].
  - intros [= <- <-]. cbn. now rewrite app_nil_r.
  - intros [= <- <-]. cbn [o_boxes]. rewrite map_app. cbn. f_equal.
    destruct (map_get id (o_map o)); [apply U, close_same|reflexivity].
  - rewrite app_nil_r.
    destruct (map_get id (o_map o)) as [h|]; [|now intros [= <- <-]].
    destruct (nth_error (o_boxes o) h) as [b0|]; [|now intros [= <- <-]].
    destruct (box_match b0 id key); [|now intros [= <- <-]].
    intros [= <- <-]. cbn [o_boxes]. apply U, put_same.
  - rewrite app_nil_r.
    destruct (nth_error (o_boxes o) h) as [b0|]; [|now intros [= <- <-]].
    destruct (bx_ch b0); [destruct (bx_closed b0 && pc)|destruct (bx_closed b0)];
      intros [= <- <-]; try reflexivity. cbn [o_boxes]. apply U, take_same.
  - rewrite app_nil_r.
    destruct (nth_error (o_boxes o) h) as [b0|]; [|now intros [= <- <-]].
    intros [= <- <-]. cbn [o_boxes]. apply U, close_same.
Qed.

Lemma newbox_ids_cons p ps : newbox_ids (p :: ps) = newbox_ids [p] ++ newbox_ids ps.
Proof. destruct p; reflexivity. Qed.

Lemma run_box_ids : forall ps o o' vs,
  run o ps = (o', vs) -> map bx_id (o_boxes o') = map bx_id (o_boxes o) ++ newbox_ids ps.
Proof.
  induction ps as [|p ps IH]; intros o o' vs; cbn [run].
  - intros [= <- <-]. cbn. now rewrite app_nil_r.
  - destruct (step o p) as [o1 v] eqn:E1. destruct (run o1 ps) as [o2 vs2] eqn:E2.
    intros [= <- <-]. rewrite (IH _ _ _ E2), (step_box_ids _ _ _ _ E1), <- app_assoc.
    f_equal. symmetry. apply newbox_ids_cons.
Qed.

Lemma NoDup_nth_inj {A} (l : list A) i j x :
  NoDup l -> nth_error l i = Some x -> nth_error l j = Some x -> i = j.
Proof.
  intros Hn. revert i j. induction Hn as [|a l Hnin Hn IH]; intros [|i] [|j]; cbn; try discriminate; auto.
  - intros [= ->] Hj. apply nth_error_In in Hj. contradiction.
  - intros Hi [= ->]. apply nth_error_In in Hi. contradiction.
Qed.

(** The dials' ids pairwise different => the boxes are distinct. *)
Lemma boxes_distinct_of_ids ps o vs :
  run office_init ps = (o, vs) -> NoDup (newbox_ids ps) -> boxes_distinct o.
Proof.
  intros Hrun Hnd h1 h2 b1 b2 H1 H2 Heq.
  pose proof (run_box_ids ps office_init o vs Hrun) as Hids. cbn [office_init o_boxes map app] in Hids.
  rewrite <- Hids in Hnd.
  eapply (NoDup_nth_inj (map bx_id (o_boxes o))); [exact Hnd| |].
  - rewrite nth_error_map, H1. reflexivity.
  - rewrite nth_error_map, H2. cbn. now rewrite Heq.
Qed.

(** ** The counter: ids are handed out once. *)
Lemma run_ids : forall ps o o' vs,
  run o ps = (o', vs) ->
  o_next o <= o_next o' /\
  (forall i, In i (ids_of vs) -> o_next o <= i < o_next o') /\ NoDup (ids_of vs).
Proof.
  induction ps as [|p ps IH]; intros o o' vs; cbn [run].
  - intros [= <- <-]. cbn. split; [lia|]. split; [contradiction|constructor].
  - destruct (step o p) as [o1 v] eqn:E1. destruct (run o1 ps) as [o2 vs2] eqn:E2.
    intros [= <- <-]. destruct (IH _ _ _ E2) as (Hle & Hin & Hnd).
    assert (Hn1 : (o_next o1 = o_next o /\ forall i, v <> VId i) \/
                  (o_next o1 = o_next o + 1 /\ v = VId (o_next o))).
    { destruct p as [|id key|id key tag|h pc|h]; cbn [step] in E1.
      - injection E1 as <- <-. right. auto.
      - injection E1 as <- <-. left. split; [reflexivity|discriminate].
      - left. destruct (map_get id (o_map o)) as [h|]; [|injection E1 as <- <-; split; [reflexivity|discriminate]].
        destruct (nth_error (o_boxes o) h) as [b0|]; [|injection E1 as <- <-; split; [reflexivity|discriminate]].
        destruct (box_match b0 id key); injection E1 as <- <-; split; try reflexivity; discriminate.
      - left. destruct (nth_error (o_boxes o) h) as [b0|]; [|injection E1 as <- <-; split; [reflexivity|discriminate]].
        destruct (bx_ch b0); [destruct (bx_closed b0 && pc)|destruct (bx_closed b0)];
          injection E1 as <- <-; split; try reflexivity; discriminate.
      - left. destruct (nth_error (o_boxes o) h) as [b0|]; injection E1 as <- <-;
          split; try reflexivity; discriminate. }
    destruct Hn1 as [[Hn Hv]|[Hn ->]].
    + assert (Hids : ids_of (v :: vs2) = ids_of vs2).
      { destruct v; try reflexivity. exfalso. eapply Hv. reflexivity. }
      rewrite Hids. split; [lia|]. split; [|assumption].
      intros i Hi. specialize (Hin i Hi). lia.
    + cbn [ids_of]. split; [lia|]. split.
      * intros i [<-|Hi]; [lia|]. specialize (Hin i Hi). lia.
      * constructor; [|assumption]. intros Hi. specialize (Hin _ Hi). lia.
Qed.

Theorem ids_unique ps o vs :
  run office_init ps = (o, vs) -> NoDup (ids_of vs).
Proof. intros H. now destruct (run_ids ps office_init o vs H) as (_ & _ & Hnd). Qed.

(** ** cleanUp touches only the entry of its own session id, and only when
    that entry still carries its own key. *)
Theorem cleanup_local o h o' v :
  step o (OCleanUp h) = (o', v) ->
  forall b, nth_error (o_boxes o) h = Some b ->
  (forall id, id <> bx_id b -> map_get id (o_map o') = map_get id (o_map o)) /\
  (forall h' b', map_get (bx_id b) (o_map o) = Some h' -> nth_error (o_boxes o) h' = Some b' ->
     bx_key b' <> bx_key b -> map_get (bx_id b) (o_map o') = Some h').
Proof.
  cbn [step]. intros Hstep b Hb. rewrite Hb in Hstep. injection Hstep as <- <-. cbn [o_map].
  split.
  - intros id Hne.
    destruct (map_get (bx_id b) (o_map o)) as [hm|]; [|reflexivity].
    destruct (nth_error (o_boxes o) hm) as [bm|]; [|reflexivity].
    destruct (box_match bm (bx_id b) (bx_key b)); [|reflexivity].
    now apply map_get_del_other.
  - intros h' b' Hg Hb' Hk. rewrite Hg, Hb'.
    unfold box_match. destruct (N.eqb_spec (bx_key b') (bx_key b)); [contradiction|].
    now rewrite andb_false_r.
Qed.

(** * The session table *)

Definition cinv (ps : list cop) (t : ctable) : Prop :=
  forall id c, t_get id (t_map t) = Some c -> c_sess c = id /\ In (CAdd c) ps.

Lemma t_get_del_other id id' m : id' <> id -> t_get id' (t_del id m) = t_get id' m.
Proof.
  intros Hne. induction m as [|[k c] m IH]; [reflexivity|]. cbn [t_del t_get].
  destruct (N.eqb_spec k id) as [->|Hk].
  - destruct (N.eqb_spec id id'); [congruence|exact IH].
  - cbn [t_get]. destruct (N.eqb_spec k id'); [reflexivity|exact IH].
Qed.

Lemma t_get_del_same id m : t_get id (t_del id m) = None.
Proof.
  induction m as [|[k c] m IH]; [reflexivity|]. cbn [t_del].
  destruct (N.eqb_spec k id) as [->|Hne]; [exact IH|].
  cbn [t_get]. destruct (N.eqb_spec k id); [contradiction|exact IH].
Qed.

Lemma cstep_inv pre p t t' v :
  cinv pre t -> cstep t p = (t', v) -> cinv (pre ++ [p]) t'.
Proof.
  intros Hinv. assert (Hw : cinv (pre ++ [p]) t).
  { intros id c Hg. destruct (Hinv id c Hg). split; [assumption|apply in_or_app; now left]. }
  destruct p as [c|id|id|]; cbn [cstep]; destruct (t_closed t); try (intros [= <- <-]; exact Hw).
  - destruct (t_get (c_sess c) (t_map t)) eqn:E; intros [= <- <-]; [exact Hw|].
    intros id c' Hg. cbn [t_map t_get] in Hg.
    destruct (N.eqb_spec (c_sess c) id) as [<-|Hne].
    + injection Hg as <-. split; [reflexivity|]. apply in_or_app. right. now left.
    + apply Hw, Hg.
  - destruct (t_get id (t_map t)); intros [= <- <-]; exact Hw.
  - destruct (t_get id (t_map t)) eqn:E; intros [= <- <-]; [|exact Hw].
    intros id' c' Hg. cbn [t_map] in Hg.
    destruct (N.eq_dec id' id) as [->|Hne].
    + now rewrite t_get_del_same in Hg.
    + rewrite t_get_del_other in Hg by assumption. apply Hw, Hg.
Qed.

Lemma crun_inv : forall ps pre t t' vs,
  cinv pre t -> crun t ps = (t', vs) -> cinv (pre ++ ps) t'.
Proof.
  induction ps as [|p ps IH]; intros pre t t' vs Hinv; cbn [crun].
  - intros [= <- <-]. now rewrite app_nil_r.
  - destruct (cstep t p) as [t1 v] eqn:E1. destruct (crun t1 ps) as [t2 vs2] eqn:E2.
    intros [= <- <-]. replace (pre ++ p :: ps) with ((pre ++ [p]) ++ ps) by now rewrite <- app_assoc.
    eapply IH; [|eassumption]. eapply cstep_inv; eassumption.
Qed.

(** ** Session isolation: after any history, a request for session [id]
    finds only a connection that was registered under session [id]. *)
Theorem session_isolation ps t vs id c t' :
  crun ctable_init ps = (t, vs) ->
  cstep t (CGet id) = (t', WFound c) ->
  c_sess c = id /\ In (CAdd c) ps /\ t' = t.
Proof.
  intros Hrun. assert (Hinv : cinv ps t).
  { apply (crun_inv ps [] ctable_init t vs); [|assumption]. intros i x. discriminate. }
  cbn [cstep]. destruct (t_closed t); [discriminate|].
  destruct (t_get id (t_map t)) as [c0|] eqn:E; [|discriminate].
  intros [= <- <-]. destruct (Hinv id c0 E). auto.
Qed.

(** A session id in use is refused to a second connection. *)
Theorem session_exclusive t c c0 :
  t_closed t = false -> t_get (c_sess c) (t_map t) = Some c0 ->
  cstep t (CAdd c) = (t, WConflict).
Proof. intros Hc Hg. cbn [cstep]. now rewrite Hc, Hg. Qed.
