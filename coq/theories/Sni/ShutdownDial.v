(** The endpoint's serve loop, its connection set and the threads it starts
    (sniproxy/endpoint_server.go, connections.go, endpoint.go), as an
    interleaving semantics:

    - the serve loop: running; leaving its loop (connection lost, kicked,
      msgShutdown); the deferred [cleanup()] = [conns.shutdown()] (one
      critical section: the set is marked closed and its content returned)
      followed by closing every connection of the returned map, one by one;
      [callWait.Wait()]; return, after which [Endpoint.serve] closes
      [serveDone];
    - one dial handler per msgDial ([handleDial]): it creates connection [h]
      (a pipe), offers its server end to the application through
      [Endpoint.sendAccept] (the select whose arms are read off the source:
      send into the bounded backlog [p.incoming], [p.closed], a timer), then
      registers the connection with [conns.add], which fails once the set has
      been shut down.  WHICH EXITS CLOSE THE CONNECTION is a parameter
      ([dshape], read off the source by Sni/DialSkel.v);
    - one thread per msgRead / msgWrite / msgClose for a session: look the
      session up (fails once the set is shut down), then block in the pipe
      until data arrives or the pipe is closed (read / write), resp. close
      the pipe and remove the session (close);
    - the application: [Endpoint.Accept] taking connections out of the
      backlog at any time, or never; [Endpoint.Close] closing [p.closed].

    A connection is "closed" when one end of its pipe has been closed: that
    is what makes the application's Read / Write on the other end return.

    Definitions only; proofs in ShutdownDialProofs.v. *)
From Coq Require Import List NArith Bool String.
From Verif Require Import Sni.SchedSkel Sni.ShutdownEndpoint Sni.DialSkel.
Import ListNotations.
Local Open Scope N_scope.

Inductive hpc :=
| HSend          (* inside sendAccept's select *)
| HAcceptFailed  (* acceptConn returned an error; the exit has not run yet *)
| HAdd           (* acceptConn returned nil (the connection is in the backlog or with the application); before conns.add *)
| HAddFailed     (* conns.add returned errAlreadyShutdown; the exit has not run yet *)
| HAdded         (* registered; the exit has not run yet *)
| HDone.         (* handleDial has returned *)

Record hthread := mkH { h_pc : hpc; h_timer : bool }.

Inductive okind := KRead | KCloseOp.   (* handleRead, handleWrite | handleClose *)
Inductive opc := PFind | PBlocked | PClosing | PDone.
Record othread := mkO { o_sess : N; o_kind : okind; o_pc : opc }.

Inductive spc :=
| LRun       (* in the loop *)
| LExiting   (* left the loop; the deferred function has not started *)
| LShut      (* conns.shutdown() done; closing the connections it returned *)
| LWait      (* callWait.Wait() *)
| LDone.    (* serve has returned: serveDone is closed *)

Record dstate := mkD {
  d_serve : spc;
  d_set_closed : bool;              (* connections.closed *)
  d_set : list N;                   (* connections.m *)
  d_snap : list N;                  (* what shutdown() returned and cleanup() has not closed yet *)
  d_incoming : list N;              (* p.incoming *)
  d_handed : list N;                (* returned by Accept to the application *)
  d_closed : list N;                (* connections whose pipe is closed *)
  d_eclosed : bool;                 (* p.closed *)
  d_handlers : list (N * hthread);  (* keyed by the connection they created *)
  d_ops : list (N * othread)
}.

Definition dinit : dstate := mkD LRun false [] [] [] [] [] false [] [].

Fixpoint getn {A} (t : N) (l : list (N * A)) : option A :=
  match l with
  | [] => None
  | (t', x) :: r => if t =? t' then Some x else getn t r
  end.

Fixpoint setn {A} (t : N) (x : A) (l : list (N * A)) : list (N * A) :=
  match l with
  | [] => [(t, x)]
  | (t', y) :: r => if t =? t' then (t, x) :: r else (t', y) :: setn t x r
  end.

Definition memn (h : N) (l : list N) : bool := existsb (N.eqb h) l.

Definition hdone (x : hthread) : bool := match h_pc x with HDone => true | _ => false end.
Definition odone (x : othread) : bool := match o_pc x with PDone => true | _ => false end.

(** Every thread registered in the list has finished (looked up the way the
    steps look threads up). *)
Definition all_done {A} (done : A -> bool) (l : list (N * A)) : bool :=
  forallb (fun p => match getn (fst p) l with Some x => done x | None => true end) l.

Inductive daction :=
| DDial (h : N)                 (* serve loop: msgDial arrives; go handleDial, which creates connection h *)
| DTimer (h : N)                (* sendAccept's timer fires *)
| DArm (h : N) (i : nat)        (* arm i of sendAccept's select *)
| DExitFail (h : N)             (* handleDial returns after acceptConn failed *)
| DAddStep (h : N)              (* conns.add *)
| DExitAddFail (h : N)          (* handleDial returns after conns.add failed *)
| DExitOK (h : N)               (* handleDial returns after both succeeded *)
| DOp (t : N) (h : N) (k : okind)  (* serve loop: msgRead/msgWrite/msgClose for session h arrives; go handler t *)
| DFind (t : N)                 (* findSession *)
| DOpRet (t : N) (data : bool)  (* the blocked pipe operation returns: with data (the application moved), or because the pipe is closed *)
| DOpClose (t : N)              (* handleClose: conn.Close(); conns.remove *)
| DLoss                         (* the serve loop leaves its loop *)
| DShutdown                     (* deferred cleanup(): conns.shutdown() *)
| DCleanOne                     (* cleanup(): the next connection of the returned map is closed *)
| DCleanDone                    (* cleanup() returns; callWait.Wait() begins *)
| DJoin                         (* callWait.Wait() returns; serve returns; close(serveDone) *)
| DAccept                       (* the application: Accept returns the head of the backlog *)
| DEpClose.                     (* the application: Endpoint.Close closes p.closed *)

Section WithCfg.
Variable g : ecfg.      (* sendAccept's arms and the capacity of the backlog *)
Variable sh : dshape.   (* which exits of handleDial close the connection *)

Definition w_serve (v : spc) (s : dstate) : dstate :=
  mkD v (d_set_closed s) (d_set s) (d_snap s) (d_incoming s) (d_handed s) (d_closed s) (d_eclosed s)
      (d_handlers s) (d_ops s).
Definition w_handlers (v : list (N * hthread)) (s : dstate) : dstate :=
  mkD (d_serve s) (d_set_closed s) (d_set s) (d_snap s) (d_incoming s) (d_handed s) (d_closed s)
      (d_eclosed s) v (d_ops s).
Definition w_ops (v : list (N * othread)) (s : dstate) : dstate :=
  mkD (d_serve s) (d_set_closed s) (d_set s) (d_snap s) (d_incoming s) (d_handed s) (d_closed s)
      (d_eclosed s) (d_handlers s) v.
Definition w_closed (v : list N) (s : dstate) : dstate :=
  mkD (d_serve s) (d_set_closed s) (d_set s) (d_snap s) (d_incoming s) (d_handed s) v (d_eclosed s)
      (d_handlers s) (d_ops s).
Definition w_set (v : list N) (s : dstate) : dstate :=
  mkD (d_serve s) (d_set_closed s) v (d_snap s) (d_incoming s) (d_handed s) (d_closed s) (d_eclosed s)
      (d_handlers s) (d_ops s).
Definition w_incoming (v : list N) (s : dstate) : dstate :=
  mkD (d_serve s) (d_set_closed s) (d_set s) (d_snap s) v (d_handed s) (d_closed s) (d_eclosed s)
      (d_handlers s) (d_ops s).

Definition close_if (b : bool) (h : N) (s : dstate) : dstate :=
  if b then w_closed (h :: d_closed s) s else s.

Local Open Scope string_scope.

(** What arm [a] of sendAccept's select does for handler [x] in state [s]:
    [Some true] the connection goes into the backlog, [Some false] the
    handler gives up, [None] the arm is not ready. *)
Definition send_outcome (s : dstate) (x : hthread) (a : arm) : option bool :=
  match a with
  | ASend ch =>
      if String.eqb ch "p.incoming" && (N.of_nat (List.length (d_incoming s)) <? incoming_cap g)%N
      then Some true else None
  | ARecv ch =>
      if String.eqb ch "p.closed" then (if d_eclosed s then Some false else None)
      else if String.eqb ch "timer.C" then (if h_timer x then Some false else None)
      else None
  | ADefault => Some false
  | AUnknown _ => None
  end.

Local Close Scope string_scope.

Definition dstep (s : dstate) (a : daction) : option dstate :=
  match a with
  | DDial h =>
      match d_serve s, getn h (d_handlers s) with
      | LRun, None => Some (w_handlers (setn h (mkH HSend false) (d_handlers s)) s)
      | _, _ => None
      end
  | DTimer h =>
      match getn h (d_handlers s) with
      | Some x =>
          match h_pc x, h_timer x with
          | HSend, false => Some (w_handlers (setn h (mkH HSend true) (d_handlers s)) s)
          | _, _ => None
          end
      | None => None
      end
  | DArm h i =>
      match getn h (d_handlers s) with
      | Some x =>
          match h_pc x, nth_error (send_arms g) i with
          | HSend, Some a =>
              match send_outcome s x a with
              | Some true =>
                  Some (w_incoming (d_incoming s ++ [h])
                          (w_handlers (setn h (mkH HAdd (h_timer x)) (d_handlers s)) s))
              | Some false =>
                  Some (w_handlers (setn h (mkH HAcceptFailed (h_timer x)) (d_handlers s)) s)
              | None => None
              end
          | _, _ => None
          end
      | None => None
      end
  | DExitFail h =>
      match getn h (d_handlers s) with
      | Some x =>
          match h_pc x with
          | HAcceptFailed =>
              Some (close_if (sh_accept_fail_closes sh) h
                      (w_handlers (setn h (mkH HDone (h_timer x)) (d_handlers s)) s))
          | _ => None
          end
      | None => None
      end
  | DAddStep h =>
      match getn h (d_handlers s) with
      | Some x =>
          match h_pc x with
          | HAdd =>
              if d_set_closed s
              then Some (w_handlers (setn h (mkH HAddFailed (h_timer x)) (d_handlers s)) s)
              else Some (w_set (h :: d_set s)
                           (w_handlers (setn h (mkH HAdded (h_timer x)) (d_handlers s)) s))
          | _ => None
          end
      | None => None
      end
  | DExitAddFail h =>
      match getn h (d_handlers s) with
      | Some x =>
          match h_pc x with
          | HAddFailed =>
              Some (close_if (sh_add_fail_closes sh) h
                      (w_handlers (setn h (mkH HDone (h_timer x)) (d_handlers s)) s))
          | _ => None
          end
      | None => None
      end
  | DExitOK h =>
      match getn h (d_handlers s) with
      | Some x =>
          match h_pc x with
          | HAdded =>
              Some (close_if (sh_success_closes sh) h
                      (w_handlers (setn h (mkH HDone (h_timer x)) (d_handlers s)) s))
          | _ => None
          end
      | None => None
      end
  | DOp t h k =>
      match d_serve s, getn t (d_ops s) with
      | LRun, None => Some (w_ops (setn t (mkO h k PFind) (d_ops s)) s)
      | _, _ => None
      end
  | DFind t =>
      match getn t (d_ops s) with
      | Some x =>
          match o_pc x with
          | PFind =>
              if negb (d_set_closed s) && memn (o_sess x) (d_set s)
              then Some (w_ops (setn t (mkO (o_sess x) (o_kind x)
                                          (match o_kind x with KRead => PBlocked | KCloseOp => PClosing end))
                                     (d_ops s)) s)
              else Some (w_ops (setn t (mkO (o_sess x) (o_kind x) PDone) (d_ops s)) s)
          | _ => None
          end
      | None => None
      end
  | DOpRet t data =>
      match getn t (d_ops s) with
      | Some x =>
          match o_pc x with
          | PBlocked =>
              if data || memn (o_sess x) (d_closed s)
              then Some (w_ops (setn t (mkO (o_sess x) (o_kind x) PDone) (d_ops s)) s)
              else None
          | _ => None
          end
      | None => None
      end
  | DOpClose t =>
      match getn t (d_ops s) with
      | Some x =>
          match o_pc x with
          | PClosing =>
              let s1 := w_closed (o_sess x :: d_closed s)
                          (w_ops (setn t (mkO (o_sess x) (o_kind x) PDone) (d_ops s)) s) in
              (* conns.remove fails once the set is shut down *)
              Some (if d_set_closed s then s1
                    else w_set (List.remove N.eq_dec (o_sess x) (d_set s)) s1)
          | _ => None
          end
      | None => None
      end
  | DLoss =>
      match d_serve s with LRun => Some (w_serve LExiting s) | _ => None end
  | DShutdown =>
      match d_serve s with
      | LExiting =>
          Some (mkD LShut true (d_set s) (d_set s) (d_incoming s) (d_handed s) (d_closed s) (d_eclosed s)
                    (d_handlers s) (d_ops s))
      | _ => None
      end
  | DCleanOne =>
      match d_serve s, d_snap s with
      | LShut, h :: r =>
          Some (mkD LShut (d_set_closed s) (d_set s) r (d_incoming s) (d_handed s) (h :: d_closed s)
                    (d_eclosed s) (d_handlers s) (d_ops s))
      | _, _ => None
      end
  | DCleanDone =>
      match d_serve s, d_snap s with
      | LShut, [] => Some (w_serve LWait s)
      | _, _ => None
      end
  | DJoin =>
      match d_serve s with
      | LWait =>
          if all_done hdone (d_handlers s) && all_done odone (d_ops s)
          then Some (w_serve LDone s) else None
      | _ => None
      end
  | DAccept =>
      match d_incoming s with
      | h :: r =>
          Some (mkD (d_serve s) (d_set_closed s) (d_set s) (d_snap s) r (h :: d_handed s) (d_closed s)
                    (d_eclosed s) (d_handlers s) (d_ops s))
      | [] => None
      end
  | DEpClose =>
      Some (mkD (d_serve s) (d_set_closed s) (d_set s) (d_snap s) (d_incoming s) (d_handed s) (d_closed s)
                true (d_handlers s) (d_ops s))
  end.

Fixpoint dexec (s : dstate) (acts : list daction) : option dstate :=
  match acts with
  | [] => Some s
  | a :: r => match dstep s a with Some s' => dexec s' r | None => None end
  end.

Definition dreachable (s : dstate) : Prop := exists acts, dexec dinit acts = Some s.

(** Steps that need nobody outside the endpoint's own goroutines: not the
    application (Accept, Close, moving data through a pipe), not the peer
    (new calls).  A timer firing counts as internal: it needs nobody. *)
Definition internal (a : daction) : bool :=
  match a with
  | DTimer _ | DArm _ _ | DExitFail _ | DAddStep _ | DExitAddFail _ | DExitOK _
  | DFind _ | DOpClose _ | DShutdown | DCleanOne | DCleanDone | DJoin => true
  | DOpRet _ data => negb data
  | _ => false
  end.

(** An upper bound on the internal steps still to come. *)
Definition hmeasure (x : hthread) : nat :=
  match h_pc x with
  | HSend => if h_timer x then 4 else 5
  | HAdd => 3
  | HAcceptFailed | HAddFailed | HAdded => 1
  | HDone => 0
  end.

Definition omeasure (x : othread) : nat :=
  match o_pc x with PFind => 2 | PBlocked | PClosing => 1 | PDone => 0 end.

Definition smeasure (s : dstate) : nat :=
  match d_serve s with
  | LRun => 0          (* (not used: the bound is for states in which the loop has been left) *)
  | LExiting => List.length (d_set s) + 3
  | LShut => List.length (d_snap s) + 2
  | LWait => 1
  | LDone => 0
  end.

Fixpoint sum_by {A} (m : A -> nat) (l : list (N * A)) : nat :=
  match l with
  | [] => 0
  | (_, x) :: r => m x + sum_by m r
  end.

Definition dmeasure (s : dstate) : nat :=
  smeasure s + sum_by hmeasure (d_handlers s) + sum_by omeasure (d_ops s).

Fixpoint count_internal (acts : list daction) : nat :=
  match acts with
  | [] => 0
  | a :: r => (if internal a then 1 else 0) + count_internal r
  end.

End WithCfg.
