(** What a read / write handler of the endpoint holds while it is blocked in
    the session's conn.Read / conn.Write (sniproxy/endpoint_server.go).

    In the multiplexed tunnel every open session always has one read call
    outstanding: the proxy's copy loop asks for the next bytes, and the
    handler blocks in conn.Read for as long as the application is silent.
    Anything shared between sessions that a handler holds across that blocking
    call is therefore held for a session's whole idle time.  The model: any
    number of sessions, each with a handler thread
        pc 0  the request has arrived      (acquire what the code acquires)
        pc 1  blocked in conn.Read         (returns once the application has written)
        pc 2  done                         (released)
    Definitions only; proofs are in ReadHoldProofs.v. *)
From Coq Require Import List NArith Bool String.
Import ListNotations.

(** what is held across the blocking call *)
Inductive hold :=
| HoldNone                 (* nothing shared between sessions *)
| HoldSem (cap : nat).     (* one of [cap] slots of a semaphore / buffered channel of the endpoint *)

Record hsess := mkHS { hs_pc : nat; hs_data : bool (* the application has written *) }.

Definition slots_used (st : list hsess) : nat :=
  List.length (filter (fun s => Nat.eqb (hs_pc s) 1) st).

(** can session i's handler take its next step? *)
Definition h_enabled (pol : hold) (st : list hsess) (i : nat) : bool :=
  match nth_error st i with
  | None => false
  | Some s =>
      match hs_pc s with
      | 0 => match pol with HoldNone => true | HoldSem cap => Nat.ltb (slots_used st) cap end
      | 1 => hs_data s
      | _ => false
      end
  end.

Fixpoint set_nth {A} (l : list A) (i : nat) (v : A) : list A :=
  match l, i with
  | [], _ => []
  | _ :: r, O => v :: r
  | x :: r, S i' => x :: set_nth r i' v
  end.

Definition hstep (pol : hold) (st : list hsess) (i : nat) : list hsess :=
  if h_enabled pol st i then
    match nth_error st i with
    | Some s => set_nth st i (mkHS (S (hs_pc s)) (hs_data s))
    | None => st
    end
  else st.

(** the translator's list of things acquired before and still held at the
    blocking call, as a policy *)
Definition hold_of (held : list string) : hold :=
  match held with [] => HoldNone | _ => HoldSem 1 end.   (* any shared thing bounds the sessions; 1 is the tightest reading *)

Definition holds_nothingb (held : list string) : bool :=
  match held with [] => true | _ => false end.
