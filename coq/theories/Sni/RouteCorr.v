(** Correspondence evaluator for C02: the routing decision, the mail office,
    the session table and the address rule, run on what the harness fed to
    the real code. *)
From Coq Require Import List NArith Bool String.
From Verif Require Import Lib.Bytes Sni.Wire Sni.Route Sni.Mailbox Gen.RouteConsts.
Import ListNotations.
Local Open Scope N_scope.

Fixpoint assoc_bytes {A} (k : bytes) (l : list (bytes * A)) : option A :=
  match l with
  | [] => None
  | (k', a) :: r => if beqb k k' then Some a else assoc_bytes k r
  end.

Fixpoint index_bytes (k : bytes) (l : list bytes) (i : N) : option N :=
  match l with
  | [] => None
  | k' :: r => if beqb k k' then Some i else index_bytes k r (i + 1)
  end.

(** decision codes as the harness projects them *)
Definition route_code (eps : list bytes) (r : route) : N * bytes :=
  match r with
  | RRejected => (0, [])
  | RNoLookup => (1, [])
  | RLookupErr => (2, [])
  | ROtherErr => (2, [])
  | RHome => (3, [])
  | RHomeMissing => (5, [])
  | RNoDest => (5, [])
  | RNotFound _ => (5, [])
  | RForward a => (6, a)
  | REndpoint _ n => (7, n)
  | RPanic => (8, [])
  | RNilConn => (10, [])
  | RStuck => (11, [])
  end.

Definition obs_eqb (a b : obs) : bool :=
  match a, b with
  | VId x, VId y => x =? y
  | VHandle x, VHandle y => Nat.eqb x y
  | VDelivered, VDelivered | VNotFound, VNotFound | VMismatch, VMismatch
  | VClosed, VClosed | VBlocked, VBlocked | VDone, VDone | VBadHandle, VBadHandle => true
  | VConn x, VConn y => x =? y
  | _, _ => false
  end.

Definition cobj_eqb (a b : cobj) : bool := (c_sess a =? c_sess b) && (c_ident a =? c_ident b).

Fixpoint insert_c (c : cobj) (l : list cobj) : list cobj :=
  match l with
  | [] => [c]
  | x :: r => if c_sess c <=? c_sess x then c :: l else x :: insert_c c r
  end.
Definition sort_c (l : list cobj) : list cobj := fold_right insert_c [] l.

Definition cobs_eqb (a b : cobs) : bool :=
  match a, b with
  | WOk, WOk | WShutdown, WShutdown | WConflict, WConflict | WNotFound, WNotFound => true
  | WFound x, WFound y => cobj_eqb x y
  | WAll x, WAll y => list_eqb cobj_eqb (sort_c x) (sort_c y)
  | _, _ => false
  end.

Definition addr_code (a : accepted_addr) : N * bytes :=
  match a with APipe => (0, []) | AWebsocketPeer => (1, []) | AGiven x => (2, x) end.

Definition mode_of (m : N) : tunnel_mode :=
  match m with 0 => Legacy | 1 => Siding | _ => SidingAddr end.

Inductive rcase :=
| RcReject (name : bytes) (ip : bool) (obs_rejected : bool)
| RcRoute (has_lk : bool) (table : list (bytes * lookup_res)) (has_home : bool)
          (eps : list bytes) (sni : bytes) (ip : bool)
          (obs_rejected obs_dialed : bool) (obs_code : N) (obs_arg : bytes)
| RcFront (has_lk : bool) (entry : lookup_res) (has_home : bool) (eps : list bytes)
          (sniff_ok : bool) (name : bytes) (ip : bool) (dial_ok : bool)
          (obs_joined obs_closed : bool)
(** one server, a history of lookup changes (as tables), registry changes
    and dials; observed: the projected decision of every dial *)
| RcHist (has_home : bool) (evs : list (N * list (bytes * lookup_res) * list bytes * bytes))
         (obs : list (N * bytes))
| RcOffice (ops : list op) (expect : list obs)
| RcConns (ops : list cop) (expect : list cobs)
| RcIds (n : nat) (sorted_ids : list N)
| RcAddr (mode : N) (front : bytes) (obs_kind : N) (obs_addr : bytes).

Definition check_case (c : rcase) : bool :=
  match c with
  | RcReject name ip obs_rejected =>
      match run_rj (fun _ => ip) gen_rejected_steps name with
      | Some rj => Bool.eqb rj obs_rejected
                   && Bool.eqb (is_rejected (fun _ => ip) gen_rejected_suffixes name) obs_rejected
      | None => false
      end
  | RcRoute has_lk table has_home eps sni ip obs_rejected obs_dialed obs_code obs_arg =>
      let is_ip := fun _ : bytes => ip in
      (* a name the table does not list: the harness's lookup answers (nil, error) *)
      let cfg := mkCfg has_lk
                   (fun d => match assoc_bytes d table with Some x => x | None => mkLk None true end)
                   has_home (fun n => index_bytes n eps 0) in
      match run_rj is_ip gen_rejected_steps sni with
      | Some rj => Bool.eqb rj obs_rejected
      | None => false
      end &&
      (* the emitted statements, interpreted ... *)
      let r := run_host is_ip gen_rejected_steps gen_dial_steps cfg sni in
      let '(code, arg) := route_code eps r in
      Bool.eqb obs_dialed (negb (code =? 0)) &&
      (if obs_dialed then (code =? obs_code) && beqb arg obs_arg else true) &&
      (* ... and the closed form the theorems are about *)
      let '(code', arg') := route_code eps (decide is_ip gen_rejected_suffixes cfg sni) in
      (code' =? code) && beqb arg' arg
  | RcFront has_lk entry has_home eps sniff_ok name ip dial_ok obs_joined obs_closed =>
      (* the emitted hostConn + Server.dial on one end-to-end refusal scenario *)
      let cfg := mkCfg has_lk (fun _ => entry) has_home (fun n => index_bytes n eps 0) in
      match run_front (fun _ => ip) gen_rejected_steps gen_dial_steps cfg
                      (if sniff_ok then Some name else None) dial_ok gen_host_steps hs0 with
      | FOut o => Bool.eqb (fo_joined o) obs_joined &&
                  (if obs_joined then true else Bool.eqb (fo_front_closed o) obs_closed)
      | _ => false
      end
  | RcHist has_home evs obs =>
      (* event kinds: 0 the lookup now answers by this table (a name it does not list: (nil, error)),
         1 these endpoints are now connected, 2 a dial of this name *)
      let ev := fun e : N * list (bytes * lookup_res) * list bytes * bytes =>
        let '(k, table, eps, sni) := e in
        match k with
        | 0 => EvLookup (fun d => match assoc_bytes d table with Some x => x | None => mkLk None true end)
        | 1 => EvRegistry (fun n => index_bytes n eps 0)
        | _ => EvDial sni
        end in
      let is_ip := fun _ : bytes => false in
      let none := fun _ : bytes => mkLk None true in
      let noreg := fun _ : bytes => @None N in
      let got := run_hist is_ip gen_lookup_store gen_rejected_steps gen_dial_steps true has_home
                          none noreg [] (map ev evs) in
      let spec := spec_hist is_ip gen_rejected_suffixes true has_home none noreg (map ev evs) in
      let code_eqb := fun a b : N * bytes => (fst a =? fst b) && beqb (snd a) (snd b) in
      list_eqb code_eqb (map (route_code []) got) obs &&
      list_eqb code_eqb (map (route_code []) spec) obs
  | RcOffice ops expect => list_eqb obs_eqb (snd (run office_init ops)) expect
  | RcConns ops expect => list_eqb cobs_eqb (snd (crun ctable_init ops)) expect
  | RcIds n ids => list_eqb N.eqb (ids_of (snd (run office_init (repeat ONext n)))) ids
  | RcAddr mode front obs_kind obs_addr =>
      let m := mode_of mode in
      let '(k, a) := addr_code (accepted_remote_addr m (request_addr m front)) in
      (k =? obs_kind) && beqb a obs_addr
  end.

Fixpoint mismatches_from (i : nat) (cs : list rcase) : list nat :=
  match cs with
  | [] => []
  | c :: r => if check_case c then mismatches_from (S i) r else i :: mismatches_from (S i) r
  end.

Definition mismatches (cs : list rcase) : list nat := mismatches_from 0 cs.
