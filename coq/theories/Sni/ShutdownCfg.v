(** The configuration of the blocking model (Sni/Shutdown.v) read off the
    skeleton regenerated from /repo's current source.  Definitions only, so
    that the model still evaluates when an obligation of ShutdownGen.v no
    longer checks. *)
From Coq Require Import List NArith Bool String.
From Verif Require Import Sni.SchedSkel Sni.Shutdown Sni.ShutdownEndpoint Gen.TransportSkel.
From Verif Require Import Sni.DialSkel Gen.DialSkel.
Import ListNotations.
Local Open Scope string_scope.

Definition cap_of (name : string) : N :=
  match assoc_s name gen_chan_caps with Some n => n | None => 0%N end.

(** The select statements of asyncCall, call (its outermost select: the
    translator lists nested selects first) and handleMessage's two hand-off
    points, as they are in the source now. *)
Definition gen_cfg : cfg :=
  mkCfg (nth 0 (points_of "transport.asyncCall" gen_transport_blocking) [])
        (last (points_of "transport.call" gen_transport_blocking) [])
        (nth 0 (points_of "transport.handleMessage" gen_transport_blocking) [])
        (nth 1 (points_of "transport.handleMessage" gen_transport_blocking) [])
        (last (points_of "connMailBox.receive" gen_transport_blocking) [])
        (cap_of "calls") (cap_of "pendingFetch").


(** The endpoint side: the selects of Endpoint.Accept, Endpoint.Close and
    Endpoint.sendAccept as they are in the source now; cap(p.incoming) is
    the constant in newEndpoint (checked against the frozen skeleton of
    newEndpoint in ShutdownGen.v). *)
Definition gen_ecfg : ecfg :=
  mkECfg (nth 0 (points_of "Endpoint.Accept" gen_transport_blocking) [])
         (nth 0 (points_of "Endpoint.Close" gen_transport_blocking) [])
         (nth 0 (points_of "Endpoint.sendAccept" gen_transport_blocking) [])
         10.

(** Which exits of endpointServer.handleDial close the connection it
    created, read off the statements the translator extracted from the
    source now (Sni/DialSkel.v).  A body that is not understood yields the
    worst shape: it closes nowhere it should and where it should not. *)
Definition worst_shape : dshape := mkDShape false false true false.

Definition gen_dshape : dshape :=
  match dshape_of gen_handleDial with Some sh => sh | None => worst_shape end.

Definition gen_sshape : sshape :=
  match sshape_of gen_handleDialSide2 with Some sh => sh | None => mkSShape false true false end.

(** The blocking points of transport.shutdown (after its call has returned),
    as they are in the source now: what endpointClient.Close waits at before
    it reaches c.conn.Close() (Sni/ShutdownClose.v). *)
Definition gen_clpoints : list (list arm) := points_of "transport.shutdown" gen_transport_blocking.
