(** Proofs about the model of Sni/Hello.v. *)
From Coq Require Import List NArith ZArith Bool Lia.
From Coq Require Import ZifyN ZifyNat ZifyBool.
From Verif Require Import Lib.Bytes Sni.Wire Sni.WireProofs Sni.Hello.
Import ListNotations.
Local Open Scope N_scope.

Ltac Zify.zify_post_hook ::= Z.div_mod_to_equations.

(** * The connection and bufio.Reader *)

Lemma lenN_cons {A} (x : A) l : N.of_nat (length (x :: l)) = 1 + N.of_nat (length l).
Proof. cbn [length]. lia. Qed.

Lemma lenN_0 (l : bytes) : lenN l = 0 <-> l = [].
Proof. unfold lenN. destruct l; cbn [length]; split; intros H; try reflexivity; try discriminate; lia. Qed.

Lemma firstn_all_lenN (l : bytes) k : lenN l <= k -> firstn (N.to_nat k) l = l.
Proof. unfold lenN. intros H. apply firstn_all2. lia. Qed.

Lemma skipn_all_lenN (l : bytes) k : lenN l <= k -> skipn (N.to_nat k) l = [].
Proof. unfold lenN. intros H. apply skipn_all2. lia. Qed.

(** What a read on the connection can do. *)
Lemma conn_read_spec space c got e c' :
  0 < space ->
  conn_read space c = (got, e, c') ->
  got ++ c_rest c' = c_rest c /\ lenN got <= space /\
  ((e = None /\ got <> [] /\ (length (c_rest c') < length (c_rest c))%nat) \/
   (e = Some REof /\ got <> [] /\ c_rest c' = [] /\ (length (c_rest c') < length (c_rest c))%nat) \/
   (e = Some REof /\ got = [] /\ c_rest c = [] /\ c' = c)).
Proof.
  intros Hs. unfold conn_read.
  destruct (c_rest c) as [|x r] eqn:E.
  - intros [= <- <- <-]. rewrite E. repeat split; try (cbn; lia). right. right. auto.
  - set (seg := match c_sched c with [] => lenN (x :: r) | s :: _ => N.max 1 s end).
    set (k := N.min space (N.min seg (lenN (x :: r)))).
    assert (Hseg : 1 <= seg).
    { unfold seg. destruct (c_sched c); [unfold lenN; cbn [length]; lia | lia]. }
    assert (Hk : 1 <= k /\ k <= space /\ k <= lenN (x :: r)).
    { unfold k. unfold lenN in *. cbn [length] in *. lia. }
    assert (Hg : firstn (N.to_nat k) (x :: r) <> []).
    { destruct (N.to_nat k) eqn:Ek; [lia|]. cbn [firstn]. discriminate. }
    assert (Hl : (length (skipn (N.to_nat k) (x :: r)) < length (x :: r))%nat).
    { rewrite skipn_length. unfold lenN in Hk. lia. }
    assert (Hcat : firstn (N.to_nat k) (x :: r) ++ skipn (N.to_nat k) (x :: r) = x :: r)
      by apply firstn_skipn.
    assert (Hlen : lenN (firstn (N.to_nat k) (x :: r)) <= space)
      by (rewrite lenN_firstn by lia; lia).
    revert Hl Hcat. generalize (skipn (N.to_nat k) (x :: r)) as rest.
    intros rest Hl Hcat [= <- <- <-]. cbn [c_rest].
    split; [assumption|]. split; [assumption|].
    destruct rest as [|y rest'].
    + destruct (c_late c).
      * right. left. auto.
      * left. auto.
    + left. auto.
Qed.

(** The invariant of the reader: the buffer never exceeds its capacity and
    the only sticky error is the end of the stream. *)
Definition binv (cap : N) (b : br) : Prop :=
  lenN (b_buf b) <= cap /\
  (b_err b = None \/ (b_err b = Some REof /\ c_rest (b_conn b) = [])).

Lemma binv_new cap c : binv cap (br_new c).
Proof. split; [cbn; lia | left; reflexivity]. Qed.

Lemma fill_spec cap b :
  lenN (b_buf b) < cap ->
  exists b', fill cap b = Ok b' /\
    remaining b' = remaining b /\ binv cap b' /\
    b_pulled b' + lenN (b_buf b) = b_pulled b + lenN (b_buf b') /\
    (exists ext, b_buf b' = b_buf b ++ ext) /\
    ((b_err b' = None /\ (length (c_rest (b_conn b')) < length (c_rest (b_conn b)))%nat) \/
     b_err b' = Some REof).
Proof.
  intros Hlt. unfold fill.
  destruct (N.leb_spec cap (lenN (b_buf b))) as [H|_]; [lia|].
  destruct (conn_read (cap - lenN (b_buf b)) (b_conn b)) as [[got e] c'] eqn:E.
  apply conn_read_spec in E; [|lia].
  destruct E as (Hrest & Hlen & Hcase).
  eexists. split; [reflexivity|]. unfold remaining, binv. cbn [b_buf b_err b_conn b_pulled].
  split; [rewrite <- app_assoc, Hrest; reflexivity|].
  rewrite lenN_app.
  split; [|split; [lia|split; [eexists; reflexivity|]]].
  - split; [lia|].
    destruct Hcase as [(-> & _)|[(-> & _ & Hc & _)|(-> & _ & Hc & ->)]];
      [left; reflexivity|right; auto|right; auto].
  - destruct Hcase as [(-> & _ & Hl)|[(-> & _)|(-> & _)]]; auto.
Qed.

Lemma peek_loop_spec cap n : forall fuel b,
  binv cap b ->
  (length (c_rest (b_conn b)) < fuel)%nat ->
  exists b', peek_loop fuel cap n b = Ok b' /\
    remaining b' = remaining b /\ binv cap b' /\
    b_pulled b' + lenN (b_buf b) = b_pulled b + lenN (b_buf b') /\
    (exists ext, b_buf b' = b_buf b ++ ext) /\
    ((lenN (b_buf b') <? n) && (lenN (b_buf b') <? cap) && is_none (b_err b') = false).
Proof.
  induction fuel as [|f IH]; intros b Hinv Hfuel; [lia|].
  cbn [peek_loop].
  destruct ((lenN (b_buf b) <? n) && (lenN (b_buf b) <? cap) && is_none (b_err b)) eqn:C.
  - apply andb_true_iff in C as [C Cerr]. apply andb_true_iff in C as [Cn Ccap].
    destruct (fill_spec cap b ltac:(lia)) as (b1 & -> & Hrem & Hinv1 & Hp & [ext1 Hext] & Hcase).
    destruct Hcase as [(He & Hl)|He].
    + destruct (IH b1 Hinv1 ltac:(lia)) as (b' & -> & Hrem' & Hinv' & Hp' & [ext2 Hext'] & Hexit).
      exists b'. split; [reflexivity|]. split; [congruence|]. split; [assumption|].
      split; [lia|]. split; [|assumption].
      exists (ext1 ++ ext2). rewrite Hext', Hext, app_assoc. reflexivity.
    + (* error set: the loop stops at the next test *)
      exists b1. split.
      * destruct f; cbn [peek_loop]; rewrite He; cbn [is_none];
          rewrite !andb_false_r; reflexivity.
      * split; [assumption|]. split; [assumption|]. split; [assumption|].
        split; [eexists; eassumption|]. rewrite He. cbn [is_none]. now rewrite !andb_false_r.
  - exists b. split; [reflexivity|]. split; [reflexivity|]. split; [assumption|].
    split; [lia|]. split; [exists []; now rewrite app_nil_r|assumption].
Qed.

(** Peek returns the first n bytes of what is still owed, or everything and
    an EOF; nothing is consumed. *)
Lemma peek_spec cap n b :
  binv cap b ->
  exists out e b',
    peek cap n b = Ok (out, e, b') /\
    remaining b' = remaining b /\ binv cap b' /\
    b_pulled b' + lenN (b_buf b) = b_pulled b + lenN (b_buf b') /\
    (if cap <? n then e = Some RFull
     else if lenN (remaining b) <? n then e = Some REof /\ out = remaining b
     else e = None /\ out = firstn (N.to_nat n) (remaining b)).
Proof.
  intros Hinv. unfold peek.
  destruct (peek_loop_spec cap n (S (length (c_rest (b_conn b)))) b Hinv ltac:(lia))
    as (b' & -> & Hrem & Hinv' & Hp & [ext Hext] & Hexit).
  destruct (N.ltb_spec cap n) as [Hbig|Hfit].
  - exists (b_buf b'), (Some RFull), b'. repeat split; try assumption; apply Hinv'.
  - destruct Hinv' as [Hcap' Herr'].
    destruct (N.ltb_spec (lenN (b_buf b')) n) as [Hshort|Hlong].
    + (* fewer than n bytes buffered: the stream has ended *)
      assert (He : b_err b' = Some REof /\ c_rest (b_conn b') = []).
      { destruct Herr' as [Hn|Hn]; [|assumption].
        rewrite Hn in Hexit. cbn [is_none] in Hexit.
        destruct (N.ltb_spec (lenN (b_buf b')) n); destruct (N.ltb_spec (lenN (b_buf b')) cap);
          cbn in Hexit; try discriminate; lia. }
      destruct He as [He Hc].
      exists (b_buf b'), (Some REof), (clear_err b').
      rewrite He. split; [reflexivity|].
      unfold remaining in *. cbn [clear_err b_buf b_conn b_err b_pulled].
      split; [assumption|]. split; [split; [assumption|left; reflexivity]|].
      split; [assumption|].
      rewrite <- Hrem, Hc, app_nil_r.
      destruct (N.ltb_spec (lenN (b_buf b')) n); [auto|lia].
    + exists (firstn (N.to_nat n) (b_buf b')), None, b'.
      split; [reflexivity|]. split; [assumption|]. split; [split; assumption|].
      split; [assumption|].
      rewrite <- Hrem. unfold remaining. rewrite lenN_app.
      destruct (N.ltb_spec (lenN (b_buf b') + lenN (c_rest (b_conn b'))) n); [lia|].
      split; [reflexivity|].
      rewrite firstn_app.
      replace (N.to_nat n - length (b_buf b'))%nat with 0%nat by (unfold lenN in Hlong; lia).
      now rewrite firstn_O, app_nil_r.
Qed.

(** Read hands out the next bytes owed, in order, without loss.  An error is
    only ever the end of the stream, reported when nothing more is owed
    (possibly together with the last bytes). *)
Lemma bread_spec cap m b got e b' :
  0 < cap -> binv cap b ->
  bread cap m b = (got, e, b') ->
  got ++ remaining b' = remaining b /\ binv cap b' /\ lenN got <= m /\
  (e = None \/ (e = Some REof /\ remaining b' = [])) /\
  (0 < m -> remaining b <> [] -> got <> []).
Proof.
  destruct b as [buf err c pulled]. unfold binv, bread, remaining.
  cbn [b_buf b_err b_conn b_pulled clear_err].
  intros Hcap [Hb Herr].
  destruct (N.eqb_spec m 0) as [->|Hm].
  - destruct buf as [|x r].
    + intros [= <- <- <-]. cbn [b_buf b_conn b_err app].
      split; [reflexivity|]. split; [split; [cbn; lia|left; reflexivity]|].
      split; [cbn; lia|]. split; [|lia].
      destruct Herr as [->|[-> Hc]]; [left; reflexivity|right; auto].
    + intros [= <- <- <-]. cbn [b_buf b_conn b_err]. split; [reflexivity|].
      split; [split; assumption|]. split; [cbn; lia|]. split; [auto|lia].
  - destruct buf as [|x r].
    + destruct err as [e0|].
      * intros [= <- <- <-]. cbn [b_buf b_conn b_err app].
        destruct Herr as [Hn|[[= ->] Hc]]; [discriminate|].
        split; [reflexivity|]. split; [split; [cbn; lia|left; reflexivity]|].
        split; [cbn; lia|]. split; [right; auto|]. intros _ Hne. now rewrite Hc in Hne.
      * destruct (N.leb_spec cap m) as [Hbig|Hsmall].
        -- destruct (conn_read m c) as [[g e1] c1] eqn:E.
           apply conn_read_spec in E; [|lia]. destruct E as (Hrest & Hlen & Hcase).
           intros [= <- <- <-]. cbn [b_buf b_conn b_err app].
           split; [assumption|]. split; [split; [cbn; lia|left; reflexivity]|].
           split; [assumption|].
           destruct Hcase as [(-> & Hne & _)|[(-> & Hne & Hc & _)|(-> & -> & Hc & ->)]].
           ++ split; [left; reflexivity|]. auto.
           ++ split; [right; auto|]. auto.
           ++ split; [right; auto|]. intros _ Hne. now rewrite Hc in Hne.
        -- destruct (conn_read cap c) as [[g e1] c1] eqn:E.
           apply conn_read_spec in E; [|lia]. destruct E as (Hrest & Hlen & Hcase).
           destruct g as [|y g'].
           ++ intros [= <- <- <-]. cbn [b_buf b_conn b_err app].
              destruct Hcase as [(_ & Hne & _)|[(_ & Hne & _)|(-> & _ & Hc & ->)]]; try contradiction.
              split; [reflexivity|]. split; [split; [cbn; lia|left; reflexivity]|].
              split; [cbn; lia|]. split; [right; auto|]. intros _ Hne. now rewrite Hc in Hne.
           ++ intros [= <- <- <-]. cbn [b_buf b_conn b_err].
              split; [rewrite app_assoc, firstn_skipn; assumption|].
              split.
              { split.
                - pose proof (skipn_length (N.to_nat m) (y :: g')) as L. unfold lenN in *. lia.
                - destruct Hcase as [(-> & _)|[(-> & _ & Hc & _)|(_ & [=] & _)]];
                    [left; reflexivity|right; auto]. }
              split.
              { pose proof (firstn_le_length (N.to_nat m) (y :: g')) as L1.
                pose proof (firstn_length (N.to_nat m) (y :: g')) as L2.
                unfold lenN. lia. }
              split; [left; reflexivity|]. intros _ _.
              destruct (N.to_nat m) eqn:Em; [lia|]. cbn [firstn]. discriminate.
    + intros [= <- <- <-]. cbn [b_buf b_conn b_err].
      split; [rewrite app_assoc, firstn_skipn; reflexivity|].
      split.
      { split; [|assumption].
        pose proof (skipn_length (N.to_nat m) (x :: r)) as L. unfold lenN in *. lia. }
      split.
      { pose proof (firstn_length (N.to_nat m) (x :: r)) as L2. unfold lenN. lia. }
      split; [left; reflexivity|]. intros _ _.
      destruct (N.to_nat m) eqn:Em; [lia|]. cbn [firstn]. discriminate.
Qed.

(** Any sequence of Reads: the chunks, in order, are a prefix of what was
    owed, and what is left is still owed. *)
Lemma breads_spec cap : forall ms b chunks e b',
  0 < cap -> binv cap b ->
  breads cap ms b = (chunks, e, b') ->
  concat chunks ++ remaining b' = remaining b /\ binv cap b' /\
  (e <> None -> remaining b' = [] /\ e = Some REof).
Proof.
  induction ms as [|m ms IH]; intros b chunks e b' Hcap Hinv.
  - intros [= <- <- <-]. cbn [concat app]. repeat split; try assumption; try apply Hinv. congruence.
    congruence.
  - cbn [breads].
    destruct (bread cap m b) as [[got e1] b1] eqn:E1.
    destruct (bread_spec cap m b got e1 b1 Hcap Hinv E1) as (Hrem & Hinv1 & _ & He1 & _).
    destruct e1 as [e1|].
    + intros [= <- <- <-]. cbn [concat]. rewrite app_nil_r.
      split; [assumption|]. split; [assumption|]. intros _.
      destruct He1 as [|(-> & Hr)]; [discriminate|]. auto.
    + destruct (breads cap ms b1) as [[l e2] b2] eqn:E2.
      intros [= <- <- <-].
      destruct (IH b1 l e2 b2 Hcap Hinv1 E2) as (Hrem2 & Hinv2 & He2).
      cbn [concat]. rewrite <- app_assoc, Hrem2. auto.
Qed.

(** Reading with non-empty buffers makes progress while bytes are owed: the
    number of bytes still owed strictly decreases. *)
Lemma bread_progress cap m b got e b' :
  0 < cap -> binv cap b -> 0 < m -> remaining b <> [] ->
  bread cap m b = (got, e, b') ->
  (length (remaining b') < length (remaining b))%nat /\ got <> [].
Proof.
  intros Hcap Hinv Hm Hne E.
  destruct (bread_spec cap m b got e b' Hcap Hinv E) as (Hrem & _ & _ & _ & Hp).
  pose proof (Hp Hm Hne) as Hg. split; [|assumption].
  rewrite <- Hrem, app_length. destruct got; [contradiction|cbn [length]; lia].
Qed.

(** * HelloInfo is a function of the byte stream alone *)

Lemma firstn5 (s : bytes) :
  5 <= lenN s ->
  exists a b c d e r, s = a :: b :: c :: d :: e :: r /\
    firstn (N.to_nat 5) s = [a; b; c; d; e].
Proof.
  unfold lenN. intros H.
  destruct s as [|a [|b [|c [|d [|e r]]]]]; cbn [length] in H; try lia.
  exists a, b, c, d, e, r. split; reflexivity.
Qed.

Theorem sniff_spec cap b :
  5 <= cap -> binv cap b -> b_buf b = [] -> b_pulled b = 0 ->
  exists b',
    sniff cap b = Ok (sniff_pure cap (remaining b), b') /\
    remaining b' = remaining b /\ binv cap b' /\
    b_pulled b' = lenN (b_buf b') /\ b_pulled b' <= cap.
Proof.
  intros Hcap Hinv Hbuf Hpul. unfold sniff, sniff_pure, header_len.
  destruct (peek_spec cap 5 b Hinv) as (hdr & e1 & b1 & -> & Hrem1 & Hinv1 & Hp1 & Hres1).
  rewrite Hbuf, Hpul, lenN_nil in Hp1.
  remember (remaining b) as s eqn:Es.
  assert (Hpul1 : b_pulled b1 = lenN (b_buf b1)) by lia.
  assert (Hle1 : b_pulled b1 <= cap) by (destruct Hinv1; lia).
  destruct (N.ltb_spec cap 5) as [|_]; [lia|].
  destruct (N.ltb_spec (lenN s) 5) as [Hshort|Hlong].
  - destruct Hres1 as [-> ->]. exists b1. auto.
  - destruct Hres1 as [-> ->].
    destruct (firstn5 s Hlong) as (t & v1 & v2 & l1 & l2 & r & Hs & ->).
    destruct s as [|t' [|v1' [|v2' [|l1' [|l2' r']]]]]; try discriminate.
    injection Hs as -> -> -> -> -> ->.
    destruct (N.eqb_spec t rec_handshake) as [->|Hnt]; cbn [negb].
    + destruct (peek_spec cap (5 + (l1 * 256 + l2)) b1 Hinv1)
        as (hello & e2 & b2 & -> & Hrem2 & Hinv2 & Hp2 & Hres2).
      rewrite Hrem1 in Hres2.
      assert (Hpul2 : b_pulled b2 = lenN (b_buf b2)) by lia.
      assert (Hle2 : b_pulled b2 <= cap) by (destruct Hinv2; lia).
      assert (Hrem : remaining b2 = rec_handshake :: v1 :: v2 :: l1 :: l2 :: r) by congruence.
      destruct (N.ltb_spec cap (5 + (l1 * 256 + l2))).
      * subst e2. exists b2. auto.
      * destruct (N.ltb_spec (lenN (rec_handshake :: v1 :: v2 :: l1 :: l2 :: r))
                    (5 + (l1 * 256 + l2))).
        -- destruct Hres2 as [-> ->]. exists b2. auto.
        -- destruct Hres2 as [-> ->].
           destruct (tls_sink _) as [[name protos]| |]; exists b2; auto.
    + exists b1. auto.
Qed.

(** * cryptobyte readers against the builders *)

Lemma take_app a r : take (lenN a) (a ++ r) = Some (a, r).
Proof.
  unfold take. rewrite lenN_app.
  destruct (N.leb_spec (lenN a) (lenN a + lenN r)); [|lia].
  now rewrite firstn_lenN_app, skipn_lenN_app.
Qed.

Lemma rd_u16_be16 v r : v < 65536 -> rd_u16 (be16 v ++ r) = Some (v, r).
Proof. intros H. unfold be16. cbn [app rd_u16]. f_equal. f_equal. lia. Qed.

Lemma rd_lp8_lp8 b r : lenN b < 256 -> rd_lp8 (lp8 b ++ r) = Some (b, r).
Proof. intros H. unfold rd_lp8, lp8. cbn [app rd_u8]. apply take_app. Qed.

Lemma rd_lp16_lp16 b r : lenN b < 65536 -> rd_lp16 (lp16 b ++ r) = Some (b, r).
Proof.
  intros H. unfold rd_lp16, lp16. rewrite <- app_assoc, rd_u16_be16 by assumption.
  apply take_app.
Qed.

Lemma all_u16_be16s l : all_u16 (concat (map be16 l)) = true.
Proof. induction l as [|x l IH]; [reflexivity|]. cbn [map concat be16 app all_u16]. exact IH. Qed.

Lemma nonempty_false {A} (l : list A) : nonempty l = false <-> l = [].
Proof. destruct l; cbn; split; congruence. Qed.

Lemma nonempty_true {A} (l : list A) : nonempty l = true <-> l <> [].
Proof. destruct l; cbn; split; congruence. Qed.

(** A loop of item readers undoes a concatenation of encoded items. *)
Lemma parse_many_concat {A} (item : bytes -> option (A * bytes)) (enc : A -> bytes) :
  forall xs fuel,
  (forall x, In x xs -> enc x <> [] /\ forall r, item (enc x ++ r) = Some (x, r)) ->
  (length xs <= fuel)%nat ->
  parse_many item fuel (concat (map enc xs)) = POk xs.
Proof.
  induction xs as [|x xs IH]; intros fuel H Hf.
  - destruct fuel; reflexivity.
  - cbn [map concat]. destruct (H x (or_introl eq_refl)) as [Hne Hit].
    destruct fuel as [|f]; [cbn [length] in Hf; lia|].
    destruct (enc x ++ concat (map enc xs)) as [|y s] eqn:E.
    { destruct (enc x); [contradiction|discriminate]. }
    cbn [parse_many]. rewrite <- E, Hit.
    rewrite IH; [reflexivity| |cbn [length] in Hf; lia].
    intros x' Hx'. apply H. now right.
Qed.

Lemma concat_length_ge {A} (enc : A -> bytes) xs :
  (forall x, In x xs -> enc x <> []) ->
  (length xs <= length (concat (map enc xs)))%nat.
Proof.
  induction xs as [|x xs IH]; intros H; [cbn; lia|].
  cbn [map concat length]. rewrite app_length.
  specialize (IH (fun x' Hx' => H x' (or_intror Hx'))).
  specialize (H x (or_introl eq_refl)). destruct (enc x); [contradiction|cbn [length]; lia].
Qed.

Lemma many_concat {A} (item : bytes -> option (A * bytes)) (enc : A -> bytes) xs :
  (forall x, In x xs -> enc x <> [] /\ forall r, item (enc x ++ r) = Some (x, r)) ->
  many item (concat (map enc xs)) = POk xs.
Proof.
  intros H. unfold many. apply parse_many_concat; [assumption|].
  apply concat_length_ge. intros x Hx. apply H, Hx.
Qed.

(** * Fuel always suffices *)

Definition consuming {A} (item : bytes -> option (A * bytes)) : Prop :=
  forall s x r, item s = Some (x, r) -> (length r < length s)%nat.

Lemma parse_many_fuel {A} (item : bytes -> option (A * bytes)) :
  consuming item ->
  forall fuel s, (length s <= fuel)%nat -> parse_many item fuel s <> PFuel.
Proof.
  intros Hc. induction fuel as [|f IH]; intros s Hf.
  - destruct s; [discriminate|cbn [length] in Hf; lia].
  - destruct s as [|y s']; [discriminate|]. cbn [parse_many].
    destruct (item (y :: s')) as [[x r]|] eqn:E; [|discriminate].
    apply Hc in E. specialize (IH r ltac:(cbn [length] in *; lia)).
    destruct (parse_many item f r); congruence.
Qed.

Lemma many_fuel {A} (item : bytes -> option (A * bytes)) s :
  consuming item -> many item s <> PFuel.
Proof. intros Hc. apply parse_many_fuel; [assumption|lia]. Qed.

Lemma take_length k s a r : take k s = Some (a, r) -> (length r <= length s)%nat.
Proof.
  unfold take. destruct (k <=? lenN s); [|discriminate]. intros [= <- <-].
  rewrite skipn_length. lia.
Qed.

Lemma rd_u8_length s x r : rd_u8 s = Some (x, r) -> (length r < length s)%nat.
Proof. destruct s; [discriminate|]. intros [= <- <-]. cbn [length]. lia. Qed.

Lemma rd_u16_length s x r : rd_u16 s = Some (x, r) -> (length r < length s)%nat.
Proof. destruct s as [|a [|b s]]; try discriminate. intros [= <- <-]. cbn [length]. lia. Qed.

Lemma rd_u32_length s x r : rd_u32 s = Some (x, r) -> (length r < length s)%nat.
Proof.
  destruct s as [|a [|b [|c [|d s]]]]; try discriminate. intros [= <- <-]. cbn [length]. lia.
Qed.

Lemma rd_lp8_length s x r : rd_lp8 s = Some (x, r) -> (length r < length s)%nat.
Proof.
  unfold rd_lp8. destruct (rd_u8 s) as [[n r0]|] eqn:E; [|discriminate].
  intros H. apply rd_u8_length in E. apply take_length in H. lia.
Qed.

Lemma rd_lp16_length s x r : rd_lp16 s = Some (x, r) -> (length r < length s)%nat.
Proof.
  unfold rd_lp16. destruct (rd_u16 s) as [[n r0]|] eqn:E; [|discriminate].
  intros H. apply rd_u16_length in E. apply take_length in H. lia.
Qed.

Lemma rd_ext_consuming : consuming rd_ext.
Proof.
  intros s x r. unfold rd_ext.
  destruct (rd_u16 s) as [[t r0]|] eqn:E; [|discriminate].
  destruct (rd_lp16 r0) as [[d r1]|] eqn:E1; [|discriminate].
  intros [= <- <-]. apply rd_u16_length in E. apply rd_lp16_length in E1. lia.
Qed.

Lemma rd_name_consuming : consuming rd_name.
Proof.
  intros s x r. unfold rd_name.
  destruct (rd_u8 s) as [[t r0]|] eqn:E; [|discriminate].
  destruct (rd_lp16 r0) as [[d r1]|] eqn:E1; [|discriminate].
  destruct (nonempty d); [|discriminate].
  intros [= <- <-]. apply rd_u8_length in E. apply rd_lp16_length in E1. lia.
Qed.

Lemma rd_proto_consuming : consuming rd_proto.
Proof.
  intros s x r. unfold rd_proto.
  destruct (rd_lp8 s) as [[d r1]|] eqn:E1; [|discriminate].
  destruct (nonempty d); [|discriminate].
  intros [= <- <-]. now apply rd_lp8_length in E1.
Qed.

Lemma rd_key_share_consuming : consuming rd_key_share.
Proof.
  intros s x r. unfold rd_key_share.
  destruct (rd_u16 s) as [[t r0]|] eqn:E; [|discriminate].
  destruct (rd_lp16 r0) as [[d r1]|] eqn:E1; [|discriminate].
  destruct (nonempty d); [|discriminate].
  intros [= <- <-]. apply rd_u16_length in E. apply rd_lp16_length in E1. lia.
Qed.

Lemma rd_psk_identity_consuming : consuming rd_psk_identity.
Proof.
  intros s x r. unfold rd_psk_identity.
  destruct (rd_lp16 s) as [[d r0]|] eqn:E; [|discriminate].
  destruct (rd_u32 r0) as [[t r1]|] eqn:E1; [|discriminate].
  destruct (nonempty d); [|discriminate].
  intros [= <- <-]. apply rd_lp16_length in E. apply rd_u32_length in E1. lia.
Qed.

Lemma rd_binder_consuming : consuming rd_binder.
Proof.
  intros s x r. unfold rd_binder.
  destruct (rd_lp8 s) as [[d r1]|] eqn:E1; [|discriminate].
  destruct (nonempty d); [|discriminate].
  intros [= <- <-]. now apply rd_lp8_length in E1.
Qed.

Lemma pres_ok_fuel {A} (p : pres A) : p <> PFuel -> pres_ok p <> PFuel.
Proof. destruct p; cbn; congruence. Qed.

Lemma of_bool_fuel b : of_bool b <> PFuel.
Proof. destruct b; discriminate. Qed.

Lemma pand_fuel a b : a <> PFuel -> b <> PFuel -> pand a b <> PFuel.
Proof. destruct a; cbn; congruence. Qed.

Lemma other_ext_ok_fuel t d last : other_ext_ok t d last <> PFuel.
Proof.
  unfold other_ext_ok, u16_list16.
  repeat match goal with
  | |- context [if ?c then _ else _] => destruct c
  | |- context [match ?x with Some _ => _ | None => _ end] => destruct x as [[? ?]|]
  end;
  try discriminate; try apply of_bool_fuel;
  repeat (apply pand_fuel || apply pres_ok_fuel || apply of_bool_fuel
          || (apply many_fuel; first [apply rd_key_share_consuming
                                     |apply rd_psk_identity_consuming
                                     |apply rd_binder_consuming])
          || discriminate).
Qed.

Lemma proc_exts_fuel : forall l seen name protos, proc_exts seen name protos l <> PFuel.
Proof.
  induction l as [|[t d] l IH]; intros seen name protos; cbn [proc_exts]; [discriminate|].
  destruct (existsb (N.eqb t) seen); [discriminate|].
  destruct (t =? ext_server_name).
  - destruct (rd_lp16 d) as [[nl r]|]; [|discriminate].
    destruct (negb (nonempty nl)); [discriminate|].
    pose proof (many_fuel rd_name nl rd_name_consuming) as F.
    destruct (many rd_name nl) as [names| |]; [|discriminate|congruence].
    destruct (pick_name name names); [|discriminate].
    destruct (nonempty r); [discriminate|apply IH].
  - destruct (t =? ext_alpn).
    + destruct (rd_lp16 d) as [[pl r]|]; [|discriminate].
      destruct (negb (nonempty pl)); [discriminate|].
      pose proof (many_fuel rd_proto pl rd_proto_consuming) as F.
      destruct (many rd_proto pl) as [ps| |]; [|discriminate|congruence].
      destruct (nonempty r); [discriminate|apply IH].
    + pose proof (other_ext_ok_fuel t d (negb (nonempty l))) as F.
      destruct (other_ext_ok t d (negb (nonempty l))); [apply IH|discriminate|congruence].
Qed.

Lemma unmarshal_hello_fuel msg : unmarshal_hello msg <> PFuel.
Proof.
  unfold unmarshal_hello.
  repeat match goal with
  | |- context [match ?x with Some _ => _ | None => _ end] => destruct x as [[? ?]|]; [|discriminate]
  end.
  destruct (negb (all_u16 _)); [discriminate|].
  destruct (rd_lp8 _) as [[? s5]|]; [|discriminate].
  destruct s5; [discriminate|].
  destruct (rd_lp16 _) as [[exts s6]|]; [|discriminate].
  destruct (nonempty s6); [discriminate|].
  pose proof (many_fuel rd_ext exts rd_ext_consuming) as F.
  destruct (many rd_ext exts); [apply proc_exts_fuel|discriminate|congruence].
Qed.

Theorem tls_sink_fuel rec : tls_sink rec <> PFuel.
Proof.
  unfold tls_sink.
  destruct rec as [|t [|v1 [|v2 [|l1 [|l2 payload]]]]]; try discriminate.
  repeat match goal with
  | |- context [if ?c then _ else _] => destruct c; [discriminate|]
  end.
  destruct (firstn _ payload) as [|ht [|h1 [|h2 [|h3 data]]]]; try discriminate.
  repeat match goal with
  | |- context [if ?c then _ else _] => destruct c; [discriminate|]
  end.
  apply unmarshal_hello_fuel.
Qed.

(** * The builder against the parser *)

Lemma rd_ext_enc e r :
  ext_type e < 65536 -> lenN (ext_data e) < 65536 ->
  rd_ext (enc_ext e ++ r) = Some ((ext_type e, ext_data e), r).
Proof.
  intros Ht Hd. unfold rd_ext, enc_ext.
  rewrite <- app_assoc, rd_u16_be16 by assumption.
  now rewrite rd_lp16_lp16.
Qed.

Lemma rd_name_enc tn r :
  nonempty (snd tn) = true -> lenN (snd tn) < 65536 ->
  rd_name (enc_name tn ++ r) = Some (tn, r).
Proof.
  intros Hn Hl. destruct tn as [t n]. unfold rd_name, enc_name. cbn [fst snd app rd_u8] in *.
  rewrite rd_lp16_lp16 by assumption. now rewrite Hn.
Qed.

Lemma rd_proto_enc p r :
  nonempty p = true -> lenN p < 256 -> rd_proto (lp8 p ++ r) = Some (p, r).
Proof. intros Hn Hl. unfold rd_proto. rewrite rd_lp8_lp8 by assumption. now rewrite Hn. Qed.

Lemma count_host_names_cons tn l :
  count_host_names (tn :: l) =
  ((if (fst tn =? 0)%N then 1 else 0) + count_host_names l)%nat.
Proof. unfold count_host_names. cbn [filter]. destruct (fst tn =? 0); reflexivity. Qed.

Lemma pick_name_no_host cur l :
  count_host_names l = 0%nat -> pick_name cur l = Some cur.
Proof.
  induction l as [|[t n] l IH]; [reflexivity|].
  rewrite count_host_names_cons. cbn [fst pick_name].
  destruct (t =? 0); [lia|]. intros H. apply IH. lia.
Qed.

Lemma host_name_no_host l : count_host_names l = 0%nat -> host_name_of l = [].
Proof.
  induction l as [|[t n] l IH]; [reflexivity|].
  rewrite count_host_names_cons. cbn [fst host_name_of].
  destruct (t =? 0); [lia|]. intros H. apply IH. lia.
Qed.

Lemma pick_name_ok l :
  forallb name_okb l = true -> (count_host_names l <= 1)%nat ->
  pick_name [] l = Some (host_name_of l).
Proof.
  induction l as [|[t n] l IH]; [reflexivity|].
  cbn [forallb]. rewrite count_host_names_cons. cbn [fst pick_name host_name_of].
  intros H Hc. apply andb_true_iff in H as [Hok Hall].
  unfold name_okb in Hok. cbn [fst snd] in Hok.
  destruct (t =? 0) eqn:Et.
  - cbn [nonempty]. cbn [negb orb] in Hok.
    apply andb_true_iff in Hok as [_ Hdot].
    destruct (ends_with_dot n); [discriminate|].
    apply pick_name_no_host. lia.
  - apply IH; [assumption|lia].
Qed.

Definition raw (e : ext) : N * bytes := (ext_type e, ext_data e).

Fixpoint has_sni (es : list ext) : bool :=
  match es with
  | [] => false
  | ESni _ :: _ => true
  | _ :: r => has_sni r
  end.

Fixpoint all_protos (es : list ext) : list bytes :=
  match es with
  | [] => []
  | EAlpn ps :: r => ps ++ all_protos r
  | _ :: r => all_protos r
  end.

Lemma existsb_eqb_cons t x seen :
  existsb (N.eqb t) (x :: seen) = (t =? x) || existsb (N.eqb t) seen.
Proof. reflexivity. Qed.

Lemma no_sni_if_seen : forall es seen,
  exts_okb seen es = true -> existsb (N.eqb ext_server_name) seen = true ->
  has_sni es = false.
Proof.
  induction es as [|e es IH]; intros seen H Hs; [reflexivity|].
  cbn [exts_okb] in H. apply andb_true_iff in H as [H H3]. apply andb_true_iff in H as [H1 H2].
  destruct e as [names|ps|t d]; cbn [has_sni ext_type] in *.
  - rewrite Hs in H1. discriminate.
  - apply (IH _ H3). rewrite existsb_eqb_cons, Hs. apply orb_true_r.
  - apply (IH _ H3). rewrite existsb_eqb_cons, Hs. apply orb_true_r.
Qed.

Lemma no_alpn_if_seen : forall es seen,
  exts_okb seen es = true -> existsb (N.eqb ext_alpn) seen = true ->
  all_protos es = [].
Proof.
  induction es as [|e es IH]; intros seen H Hs; [reflexivity|].
  cbn [exts_okb] in H. apply andb_true_iff in H as [H H3]. apply andb_true_iff in H as [H1 H2].
  destruct e as [names|ps|t d]; cbn [all_protos ext_type] in *.
  - apply (IH _ H3). rewrite existsb_eqb_cons, Hs. apply orb_true_r.
  - rewrite Hs in H1. discriminate.
  - apply (IH _ H3). rewrite existsb_eqb_cons, Hs. apply orb_true_r.
Qed.

Lemma all_protos_spec : forall es seen,
  exts_okb seen es = true -> all_protos es = spec_protos_exts es.
Proof.
  induction es as [|e es IH]; intros seen H; [reflexivity|].
  cbn [exts_okb] in H. apply andb_true_iff in H as [H H3]. apply andb_true_iff in H as [H1 H2].
  destruct e as [names|ps|t d]; cbn [all_protos spec_protos_exts ext_type] in *.
  - eapply IH; eassumption.
  - rewrite (no_alpn_if_seen es _ H3); [apply app_nil_r|].
    rewrite existsb_eqb_cons, N.eqb_refl. reflexivity.
  - eapply IH; eassumption.
Qed.

Lemma nonempty_map {A B} (f : A -> B) l : nonempty (map f l) = nonempty l.
Proof. destruct l; reflexivity. Qed.

(** The extension loop on the extensions of a well-formed hello. *)
Lemma proc_exts_ok : forall es seen name protos,
  exts_okb seen es = true ->
  (name = [] \/ existsb (N.eqb ext_server_name) seen = true) ->
  proc_exts seen name protos (map raw es)
  = POk (if has_sni es then spec_name_exts es else name, protos ++ all_protos es).
Proof.
  induction es as [|e es IH]; intros seen name protos H Hname.
  - cbn. now rewrite app_nil_r.
  - cbn [exts_okb] in H. apply andb_true_iff in H as [H H3]. apply andb_true_iff in H as [H1 H2].
    apply negb_true_iff in H1.
    cbn [map proc_exts raw]. unfold raw at 1. rewrite H1.
    unfold ext_okb in H2. apply andb_true_iff in H2 as [H2 Hk]. apply andb_true_iff in H2 as [Hd Ht].
    destruct e as [names|ps|t d]; cbn [ext_type ext_data has_sni spec_name_exts all_protos] in *.
    + (* server_name *)
      change (ext_server_name =? ext_server_name) with true. cbn iota.
      apply andb_true_iff in Hk as [Hk Hlen]. apply andb_true_iff in Hk as [Hk Hcnt].
      apply andb_true_iff in Hk as [Hne Hall].
      rewrite <- (app_nil_r (lp16 _)), rd_lp16_lp16 by lia.
      rewrite Hne. cbn [negb].
      rewrite many_concat.
      2:{ intros x Hx. rewrite forallb_forall in Hall. specialize (Hall x Hx).
          unfold name_okb in Hall. apply andb_true_iff in Hall as [Hall _].
          apply andb_true_iff in Hall as [Hn Hl].
          split; [unfold enc_name; discriminate|]. intros r. apply rd_name_enc; [assumption|now apply N.ltb_lt]. }
      assert (Hnm : name = []).
      { destruct Hname as [|Hs]; [assumption|]. rewrite Hs in H1. discriminate. }
      subst name. rewrite pick_name_ok by (try assumption; now apply Nat.leb_le).
      cbn [nonempty].
      rewrite IH; [|assumption|right; rewrite existsb_eqb_cons, N.eqb_refl; reflexivity].
      rewrite (no_sni_if_seen es _ H3); [reflexivity|].
      rewrite existsb_eqb_cons, N.eqb_refl. reflexivity.
    + (* ALPN *)
      change (ext_alpn =? ext_server_name) with false.
      change (ext_alpn =? ext_alpn) with true. cbn iota.
      apply andb_true_iff in Hk as [Hk Hlen]. apply andb_true_iff in Hk as [Hne Hall].
      rewrite <- (app_nil_r (lp16 _)), rd_lp16_lp16 by lia.
      rewrite Hne. cbn [negb].
      rewrite many_concat.
      2:{ intros x Hx. rewrite forallb_forall in Hall. specialize (Hall x Hx).
          unfold proto_okb in Hall. apply andb_true_iff in Hall as [Hn Hl].
          split; [unfold lp8; discriminate|]. intros r. apply rd_proto_enc; [assumption|now apply N.ltb_lt]. }
      cbn [nonempty].
      rewrite IH; [now rewrite app_assoc|assumption|].
      destruct Hname as [->|Hs]; [left; reflexivity|right].
      rewrite existsb_eqb_cons, Hs. apply orb_true_r.
    + (* any other extension *)
      apply andb_true_iff in Hk as [Hk Hok]. apply andb_true_iff in Hk as [Hns Hna].
      apply negb_true_iff in Hns, Hna. rewrite Hns, Hna.
      rewrite nonempty_map.
      destruct (other_ext_ok t d (negb (nonempty es))); try discriminate.
      apply IH; [assumption|].
      destruct Hname as [->|Hs]; [left; reflexivity|right].
      rewrite existsb_eqb_cons, Hs. apply orb_true_r.
Qed.

Lemma enc_ext_raw e : enc_ext e = be16 (fst (raw e)) ++ lp16 (snd (raw e)).
Proof. reflexivity. Qed.

Lemma exts_okb_bounds : forall es seen e,
  exts_okb seen es = true -> In e es ->
  ext_type e < 65536 /\ lenN (ext_data e) < 65536.
Proof.
  induction es as [|x es IH]; intros seen e H Hin; [contradiction|].
  cbn [exts_okb] in H. apply andb_true_iff in H as [H H3]. apply andb_true_iff in H as [H1 H2].
  destruct Hin as [->|Hin]; [|eapply IH; eassumption].
  unfold ext_okb in H2. apply andb_true_iff in H2 as [H2 _]. apply andb_true_iff in H2 as [Hd Ht].
  lia.
Qed.

Lemma many_rd_ext es seen :
  exts_okb seen es = true ->
  many rd_ext (concat (map enc_ext es)) = POk (map raw es).
Proof.
  intros H.
  (* parse items as exts, then map raw: do it directly on raw pairs *)
  revert H. generalize seen. clear seen.
  assert (G : forall es fuel seen, exts_okb seen es = true -> (length es <= fuel)%nat ->
              parse_many rd_ext fuel (concat (map enc_ext es)) = POk (map raw es)).
  { clear. induction es as [|e es IH]; intros fuel seen H Hf.
    - destruct fuel; reflexivity.
    - destruct (exts_okb_bounds _ _ e H (or_introl eq_refl)) as [Ht Hd].
      cbn [exts_okb] in H. apply andb_true_iff in H as [H H3].
      cbn [map concat]. destruct fuel as [|f]; [cbn [length] in Hf; lia|].
      destruct (enc_ext e ++ concat (map enc_ext es)) as [|y s] eqn:E.
      { unfold enc_ext, be16 in E. discriminate. }
      cbn [parse_many]. rewrite <- E, rd_ext_enc by assumption.
      rewrite (IH f _ H3) by (cbn [length] in Hf; lia). reflexivity. }
  intros seen H. unfold many. eapply G; [eassumption|].
  apply concat_length_ge. intros x _. unfold enc_ext, be16. discriminate.
Qed.

Lemma spec_name_has_sni es : has_sni es = false -> spec_name_exts es = [].
Proof.
  induction es as [|e es IH]; [reflexivity|].
  destruct e; cbn [has_sni spec_name_exts]; try discriminate; assumption.
Qed.

Lemma rd_u24_be24 v r : v < 16777216 -> rd_u24 (be24 v ++ r) = Some (v, r).
Proof. intros H. unfold be24. cbn [app rd_u24]. f_equal. f_equal. lia. Qed.

Lemma wf_hellob_spec h :
  wf_hellob h = true ->
  h_rec_vers h < 4096 /\ h_vers h < 65536 /\ lenN (h_random h) = 32 /\
  lenN (h_session h) < 256 /\
  lenN (concat (map be16 (h_suites h))) < 65536 /\
  lenN (h_compression h) < 256 /\
  match h_exts h with
  | None => True
  | Some es => lenN (concat (map enc_ext es)) < 65536 /\ exts_okb [] es = true
  end.
Proof.
  unfold wf_hellob. intros H.
  repeat match type of H with _ && _ = true => apply andb_true_iff in H as [H ?] end.
  repeat split; try (apply N.ltb_lt; assumption); try (apply N.eqb_eq; assumption).
  destruct (h_exts h); [|exact I].
  match goal with X : _ && _ = true |- _ => apply andb_true_iff in X as [? ?] end.
  split; [apply N.ltb_lt|]; assumption.
Qed.

(** clientHelloMsg.unmarshal on the message built from a well-formed spec
    yields exactly the name and protocols the spec says. *)
Lemma unmarshal_hello_ok h :
  wf_hellob h = true ->
  unmarshal_hello (hello_msg h) = POk (spec_name h, spec_protos h).
Proof.
  intros H. apply wf_hellob_spec in H.
  destruct H as (_ & Hv & Hr & Hs & Hc & Hm & He).
  unfold unmarshal_hello, hello_msg, hello_body, be24.
  change (take 4 (?a :: [?b; ?c; ?d] ++ ?r)) with (take (lenN [a; b; c; d]) ([a; b; c; d] ++ r)).
  rewrite take_app.
  rewrite rd_u16_be16 by assumption.
  rewrite <- Hr, take_app.
  rewrite rd_lp8_lp8 by assumption.
  rewrite rd_lp16_lp16 by assumption.
  rewrite all_u16_be16s. cbn [negb].
  rewrite rd_lp8_lp8 by assumption.
  unfold spec_name, spec_protos.
  destruct (h_exts h) as [es|]; [|reflexivity].
  destruct He as [Hl Hok].
  destruct (lp16 (concat (map enc_ext es))) as [|y s] eqn:E.
  { unfold lp16, be16 in E. discriminate. }
  rewrite <- E. rewrite <- (app_nil_r (lp16 _)), rd_lp16_lp16 by assumption.
  cbn [nonempty].
  rewrite (many_rd_ext es [] Hok).
  rewrite proc_exts_ok by (try assumption; left; reflexivity).
  cbn [app]. rewrite (all_protos_spec es [] Hok).
  destruct (has_sni es) eqn:S; [reflexivity|].
  now rewrite spec_name_has_sni.
Qed.

Lemma lenN_hello_msg h : lenN (hello_msg h) = 4 + lenN (hello_body h).
Proof. unfold hello_msg, be24, lenN. cbn [length app]. lia. Qed.

(** The throw-away server on a record holding a well-formed hello (and
    possibly more handshake bytes after it). *)
Theorem tls_sink_ok h extra :
  wf_hellob h = true ->
  lenN (hello_msg h ++ extra) <= max_plaintext ->
  tls_sink (build_hello h extra) = POk (spec_name h, spec_protos h).
Proof.
  intros Hwf Hlen.
  pose proof (wf_hellob_spec h Hwf) as (Hrv & _).
  unfold build_hello, tls_sink, be16 at 1 2.
  cbn [app].
  set (payload := hello_msg h ++ extra) in *.
  assert (Hpl : lenN payload / 256 mod 256 * 256 + lenN payload mod 256 = lenN payload).
  { unfold max_plaintext in Hlen. lia. }
  rewrite Hpl.
  change (rec_handshake =? rec_handshake) with true. cbn [negb].
  destruct (N.leb_spec 4096 (h_rec_vers h / 256 mod 256 * 256 + h_rec_vers h mod 256)) as [Hx|_];
    [lia|].
  unfold max_ciphertext, max_plaintext in *.
  destruct (N.ltb_spec 18432 (lenN payload)) as [Hx|_]; [lia|].
  destruct (N.ltb_spec (lenN payload) (lenN payload)) as [Hx|_]; [lia|].
  destruct (N.ltb_spec 16384 (lenN payload)) as [Hx|_]; [lia|].
  rewrite firstn_all_lenN by lia.
  assert (Hbody : lenN (hello_body h) < 16384).
  { unfold payload in Hlen. rewrite lenN_app, lenN_hello_msg in Hlen. lia. }
  destruct (N.eqb_spec (lenN payload) 0) as [Hz|_].
  { unfold payload in Hz. rewrite lenN_app, lenN_hello_msg in Hz. lia. }
  unfold payload at 1. unfold hello_msg at 1, be24. cbn [app].
  set (L := lenN (hello_body h)) in *.
  assert (HL : L / 65536 mod 256 * 65536 + L / 256 mod 256 * 256 + L mod 256 = L) by lia.
  rewrite HL. unfold max_handshake.
  destruct (N.ltb_spec 65536 L) as [Hx|_]; [lia|].
  destruct (N.ltb_spec (lenN payload) (4 + L)) as [Hx|_].
  { unfold payload in Hx. rewrite lenN_app, lenN_hello_msg in Hx. fold L in Hx. lia. }
  change (typ_client_hello =? typ_client_hello) with true. cbn [negb].
  replace (4 + L) with (lenN (hello_msg h)) by (rewrite lenN_hello_msg; reflexivity).
  unfold payload. rewrite firstn_lenN_app.
  now apply unmarshal_hello_ok.
Qed.

Lemma lenN_build_hello h extra :
  h_rec_vers h < 65536 ->
  lenN (build_hello h extra) = 5 + lenN (hello_msg h ++ extra).
Proof. intros _. unfold build_hello, be16, lenN. cbn [length app]. lia. Qed.

(** HelloInfo on a stream that starts with a well-formed hello in one
    record, whatever follows and however the bytes arrive. *)
Theorem sniff_exact cap h extra rest sched late :
  wf_hellob h = true ->
  lenN (hello_msg h ++ extra) <= max_plaintext ->
  5 + max_plaintext <= cap ->
  let stream := build_hello h extra ++ rest in
  exists b',
    sniff cap (br_new (mkConn stream sched late)) = Ok (SInfo (spec_name h) (spec_protos h), b') /\
    remaining b' = stream /\ binv cap b' /\ b_pulled b' <= cap.
Proof.
  intros Hwf Hlen Hcap stream.
  unfold max_plaintext in *.
  destruct (sniff_spec cap (br_new (mkConn stream sched late)) ltac:(lia) (binv_new _ _)
              eq_refl eq_refl) as (b' & Hs & Hrem & Hinv & _ & Hp).
  exists b'. split; [|auto].
  rewrite Hs. f_equal. f_equal.
  change (remaining (br_new (mkConn stream sched late))) with stream.
  pose proof (wf_hellob_spec h Hwf) as (Hrv & _).
  pose proof (tls_sink_ok h extra Hwf Hlen) as Hsink.
  unfold sniff_pure, header_len.
  assert (Hlb : lenN (build_hello h extra) = 5 + lenN (hello_msg h ++ extra))
    by (apply lenN_build_hello; lia).
  assert (Hls : lenN stream = 5 + lenN (hello_msg h ++ extra) + lenN rest).
  { unfold stream. rewrite lenN_app. lia. }
  destruct (N.ltb_spec (lenN stream) 5) as [Hx|_]; [lia|].
  set (payload := hello_msg h ++ extra) in *.
  assert (E : stream = rec_handshake :: (h_rec_vers h / 256 mod 256) :: (h_rec_vers h mod 256)
                       :: (lenN payload / 256 mod 256) :: (lenN payload mod 256)
                       :: (payload ++ rest)).
  { unfold stream, build_hello, be16. reflexivity. }
  rewrite E at 1.
  change (rec_handshake =? rec_handshake) with true. cbn [negb].
  assert (Hpl : lenN payload / 256 mod 256 * 256 + lenN payload mod 256 = lenN payload) by lia.
  rewrite Hpl.
  destruct (N.ltb_spec cap (5 + lenN payload)) as [Hx|_]; [lia|].
  destruct (N.ltb_spec (lenN stream) (5 + lenN payload)) as [Hx|_]; [lia|].
  rewrite <- Hlb. unfold stream. rewrite firstn_lenN_app, Hsink. reflexivity.
Qed.

(** * Whole-stream statements *)

Lemma sniff_pure_no_fuel cap s : sniff_pure cap s <> SFuel.
Proof.
  unfold sniff_pure.
  destruct (lenN s <? header_len); [discriminate|].
  destruct s as [|t [|v1 [|v2 [|l1 [|l2 r]]]]]; try discriminate.
  destruct (negb (t =? rec_handshake)); [discriminate|].
  destruct (cap <? _); [discriminate|]. destruct (_ <? _); [discriminate|].
  pose proof (tls_sink_fuel (firstn (N.to_nat (header_len + (l1 * 256 + l2)))
                               (t :: v1 :: v2 :: l1 :: l2 :: r))) as F.
  destruct (tls_sink _) as [[? ?]| |]; try discriminate. congruence.
Qed.

(** HelloInfo followed by any sequence of Reads, for any stream, any
    segmentation and any capacity >= 5: the result is the segmentation-free
    [sniff_pure]; at most [cap] bytes are pulled; the reads then deliver the
    stream from its first byte, in order, and all of it if read to the end. *)
Theorem sniff_then_reads cap stream sched late ms :
  5 <= cap ->
  exists b1,
    sniff cap (br_new (mkConn stream sched late)) = Ok (sniff_pure cap stream, b1) /\
    b_pulled b1 <= cap /\ binv cap b1 /\ remaining b1 = stream /\
    forall chunks e b2,
      breads cap ms b1 = (chunks, e, b2) ->
      concat chunks ++ remaining b2 = stream /\
      (e <> None -> concat chunks = stream /\ e = Some REof).
Proof.
  intros Hcap.
  destruct (sniff_spec cap (br_new (mkConn stream sched late)) Hcap (binv_new _ _) eq_refl eq_refl)
    as (b1 & Hs & Hrem & Hinv & _ & Hp).
  change (remaining (br_new (mkConn stream sched late))) with stream in *.
  exists b1. split; [assumption|]. split; [assumption|]. split; [assumption|].
  split; [assumption|].
  intros chunks e b2 E.
  destruct (breads_spec cap ms b1 chunks e b2 ltac:(lia) Hinv E) as (Hc & _ & He).
  split; [congruence|]. intros Hne. destruct (He Hne) as [Hr ->].
  rewrite Hr, app_nil_r in Hc. split; [congruence|reflexivity].
Qed.

(** The name HelloInfo reports is empty or the one crypto/tls's parse of the
    first record yields: there is no third possibility. *)
Theorem sniff_pure_name cap s name protos :
  sniff_pure cap s = SInfo name protos ->
  (name = [] /\ protos = []) \/
  exists l1 l2 v1 v2 r,
    s = rec_handshake :: v1 :: v2 :: l1 :: l2 :: r /\
    header_len + (l1 * 256 + l2) <= lenN s /\
    header_len + (l1 * 256 + l2) <= cap /\
    tls_sink (firstn (N.to_nat (header_len + (l1 * 256 + l2))) s) = POk (name, protos).
Proof.
  unfold sniff_pure.
  destruct (lenN s <? header_len); [discriminate|].
  destruct s as [|t [|v1 [|v2 [|l1 [|l2 r]]]]]; try discriminate.
  destruct (N.eqb_spec t rec_handshake) as [->|]; [|discriminate]. cbn [negb].
  destruct (N.ltb_spec cap (header_len + (l1 * 256 + l2))); [discriminate|].
  destruct (N.ltb_spec (lenN (rec_handshake :: v1 :: v2 :: l1 :: l2 :: r))
              (header_len + (l1 * 256 + l2))); [discriminate|].
  destruct (tls_sink _) as [[n p]| |] eqn:E; [| |discriminate].
  - intros [= <- <-]. right. exists l1, l2, v1, v2, r. auto.
  - intros [= <- <-]. left. auto.
Qed.

(** * A ClientHello fragmented over several records

    crypto/tls accepts a handshake message spread over several records;
    HelloInfo hands its throw-away server the first record only.  Whatever
    follows, a first record that holds a proper, non-empty prefix of the hello
    message reaches no callback: the result is an error or an empty name,
    never a name. *)

Definition frag_record (h : hello_spec) (k : N) : bytes :=
  rec_handshake :: be16 (h_rec_vers h) ++ be16 k ++ firstn (N.to_nat k) (hello_msg h).

Theorem tls_sink_fragment h k :
  0 < k -> k < lenN (hello_msg h) -> k < 65536 ->
  lenN (hello_body h) < 16777216 ->
  tls_sink (frag_record h k) = PFail.
Proof.
  intros Hk0 Hk Hk16 Hb. unfold frag_record, tls_sink, be16 at 1 2. cbn [app].
  assert (Hkk : k / 256 mod 256 * 256 + k mod 256 = k) by lia. rewrite Hkk.
  set (payload := firstn (N.to_nat k) (hello_msg h)).
  assert (Hpl : lenN payload = k) by (unfold payload; apply lenN_firstn; lia).
  destruct (negb (rec_handshake =? rec_handshake)); [reflexivity|].
  destruct (4096 <=? _); [reflexivity|]. destruct (max_ciphertext <? k); [reflexivity|].
  rewrite Hpl. destruct (N.ltb_spec k k); [lia|].
  rewrite firstn_all_lenN by lia.
  destruct (max_plaintext <? k); [reflexivity|].
  destruct (N.eqb_spec k 0); [lia|].
  unfold payload, hello_msg, be24.
  set (L := lenN (hello_body h)) in *.
  destruct (N.to_nat k) as [|[|[|[|k4]]]] eqn:Ek; try reflexivity.
  cbn [firstn app].
  assert (HL : L / 65536 mod 256 * 65536 + L / 256 mod 256 * 256 + L mod 256 = L) by lia.
  rewrite HL. destruct (max_handshake <? L); [reflexivity|].
  rewrite lenN_hello_msg in Hk. fold L in Hk.
  destruct (N.ltb_spec k (4 + L)); [reflexivity|lia].
Qed.

Theorem sniff_pure_fragment cap h k rest :
  0 < k -> k < lenN (hello_msg h) -> k < 65536 -> h_rec_vers h < 65536 ->
  lenN (hello_body h) < 16777216 ->
  match sniff_pure cap (frag_record h k ++ rest) with
  | SInfo name protos => name = [] /\ protos = []
  | SErr _ => True
  | SFuel => False
  end.
Proof.
  intros Hk0 Hk Hk16 Hv Hb.
  pose proof (tls_sink_fragment h k Hk0 Hk Hk16 Hb) as Hsink.
  assert (Hlen : lenN (frag_record h k) = 5 + k).
  { unfold frag_record, be16, lenN. cbn [length app]. rewrite firstn_length.
    unfold lenN in Hk. lia. }
  assert (Heq : sniff_pure cap (frag_record h k ++ rest) =
                if cap <? 5 + k then SErr RFull
                else if lenN (frag_record h k ++ rest) <? 5 + k then SErr REof
                else SInfo [] []).
  { unfold sniff_pure, header_len.
    destruct (N.ltb_spec (lenN (frag_record h k ++ rest)) 5) as [Hx|_].
    { rewrite lenN_app, Hlen in Hx. lia. }
    assert (E : frag_record h k ++ rest =
                rec_handshake :: (h_rec_vers h / 256 mod 256) :: (h_rec_vers h mod 256)
                :: (k / 256 mod 256) :: (k mod 256)
                :: (firstn (N.to_nat k) (hello_msg h) ++ rest)) by reflexivity.
    rewrite E at 1. change (rec_handshake =? rec_handshake) with true. cbn [negb].
    assert (Hkk : k / 256 mod 256 * 256 + k mod 256 = k) by lia. rewrite Hkk.
    destruct (cap <? 5 + k); [reflexivity|].
    destruct (lenN (frag_record h k ++ rest) <? 5 + k); [reflexivity|].
    rewrite <- Hlen, firstn_lenN_app, Hsink. reflexivity. }
  rewrite Heq. destruct (cap <? 5 + k); [exact I|].
  destruct (lenN (frag_record h k ++ rest) <? 5 + k); [exact I|]. auto.
Qed.
