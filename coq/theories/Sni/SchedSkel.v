(** Vocabulary of the skeletons the translator (gen/sni_rpc.go) extracts from
    sniproxy: blocking points (select statements and bare channel
    operations) with the channel expression of each arm, and statement
    skeletons as depth-prefixed lines. *)
From Coq Require Import List NArith Bool String.
Import ListNotations.
Local Open Scope string_scope.

Inductive arm :=
| ARecv (ch : string)
| ASend (ch : string)
| ADefault
| AUnknown (text : string).

Definition arm_eqb (a b : arm) : bool :=
  match a, b with
  | ARecv x, ARecv y => String.eqb x y
  | ASend x, ASend y => String.eqb x y
  | ADefault, ADefault => true
  | _, _ => false              (* an unknown arm equals nothing *)
  end.

Record bpoint := mkBP {
  bp_fn : string;              (* function the blocking point is in *)
  bp_kind : string;            (* select | send | recv *)
  bp_arms : list arm
}.

Fixpoint list_eqb {A} (eqb : A -> A -> bool) (a b : list A) : bool :=
  match a, b with
  | [], [] => true
  | x :: a', y :: b' => eqb x y && list_eqb eqb a' b'
  | _, _ => false
  end.

Definition lines_eqb : list string -> list string -> bool := list_eqb String.eqb.

Fixpoint assoc_s {A} (k : string) (l : list (string * A)) : option A :=
  match l with
  | [] => None
  | (k', a) :: r => if String.eqb k k' then Some a else assoc_s k r
  end.

(** The blocking points of one function, in source order. *)
Definition points_of (fn : string) (l : list bpoint) : list (list arm) :=
  map bp_arms (filter (fun b => String.eqb (bp_fn b) fn) l).

Definition has_arm (a : arm) (arms : list arm) : bool := existsb (arm_eqb a) arms.

(** [skel_is skel fn expected]: the regenerated skeleton of [fn] equals the
    frozen one line for line. *)
Definition skel_is (skel : list (string * list string)) (fn : string)
  (expected : list string) : bool :=
  match assoc_s fn skel with
  | Some ls => lines_eqb ls expected
  | None => false
  end.

Lemma list_eqb_eq {A} (eqb : A -> A -> bool) :
  (forall x y, eqb x y = true -> x = y) ->
  forall a b, list_eqb eqb a b = true -> a = b.
Proof.
  intros H. induction a as [|x a IH]; destruct b as [|y b]; cbn; try discriminate; auto.
  intros E. apply andb_prop in E. destruct E as [E1 E2].
  f_equal; [now apply H|now apply IH].
Qed.

Lemma arm_eqb_eq a b : arm_eqb a b = true -> a = b.
Proof.
  destruct a, b; cbn; try discriminate; try reflexivity;
    intros E; apply String.eqb_eq in E; now subst.
Qed.

Lemma has_arm_In a arms : has_arm a arms = true -> In a arms.
Proof.
  unfold has_arm. intros H. apply existsb_exists in H.
  destruct H as [x [Hx E]]. apply arm_eqb_eq in E. now subst.
Qed.
