(** Model of the endpoint registry of sniproxy/server.go:
    [Server.upgrade], [Server.unmap], [Server.endpoint] and the order of
    calls and defers in [Server.ServeBackName].

    Every accepted back connection is a thread that performs, in this order,

      AUpgrade     upgrade(): under [mu], delete the old entry of the name (its
                   client is closed in the background), map the new client
      AConnect     callback + OnConnect (returns the session value)
      AServeEnd    ep.serve() returns (peer gone, kicked, shut down ...: at
                   any time, for any reason)
      ADisconnect  deferred OnDisconnect(name, session)
      AUnmap       deferred unmap(): under [mu], delete the entry only if it is
                   still this client
      AClose       ep.Close(); ServeBackName returns

    and the threads interleave arbitrarily.  Each of the three registry
    operations is one atomic step because every access to [s.endpoints] lies
    between [mu.Lock()] and the deferred [mu.Unlock()] (obligation
    [gen_endpoints_locked] on the regenerated skeleton).

    Definitions only; proofs are in RegistryProofs.v. *)
From Coq Require Import List NArith ZArith Bool.
Import ListNotations.
Local Open Scope N_scope.

(** Association lists with map semantics (first binding wins; [set] removes
    the old binding), as Go maps. *)
Fixpoint get {A} (k : N) (l : list (N * A)) : option A :=
  match l with
  | [] => None
  | (k', a) :: r => if k =? k' then Some a else get k r
  end.

Fixpoint del {A} (k : N) (l : list (N * A)) : list (N * A) :=
  match l with
  | [] => []
  | (k', a) :: r => if k =? k' then del k r else (k', a) :: del k r
  end.

Definition set {A} (k : N) (a : A) (l : list (N * A)) : list (N * A) :=
  (k, a) :: del k l.

Inductive pc :=
| P1    (* mapped; callback / OnConnect not yet called *)
| P2    (* OnConnect called; serving *)
| P3    (* serve returned; defers not yet run *)
| P4    (* OnDisconnect called *)
| P5    (* unmap done *)
| P6.   (* Close done; ServeBackName returned *)

(** The connection is between its registration and its unregistration. *)
Definition live (p : pc) : bool :=
  match p with P1 | P2 | P3 | P4 => true | P5 | P6 => false end.

(** [th_crashed]: the OnConnect callback panicked: no session value, no
    notifications; the deferred unmap and Close still run. *)
Record thread := mkThread { th_name : N; th_pc : pc; th_sess : Z; th_crashed : bool }.

Inductive entry :=
| Connect (n : N) (s : Z) (t : N)       (* OnConnect(n) returned s, in thread t *)
| Disconnect (n : N) (s : Z) (t : N).   (* OnDisconnect(n, s), in thread t *)

Definition entry_thread (e : entry) : N :=
  match e with Connect _ _ t | Disconnect _ _ t => t end.

Record state := mkState {
  threads : list (N * thread);
  reg : list (N * N);        (* Server.endpoints: name -> connection *)
  ups : list (N * N);        (* ghost: upgrades, newest first (name, connection) *)
  log : list entry           (* notifications, oldest first *)
}.

Definition init : state := mkState [] [] [] [].

Inductive action :=
| AUpgrade (t n : N)
| AConnect (t : N) (s : Z)
| AServeEnd (t : N)
| ADisconnect (t : N)
| AUnmap (t : N)
| AClose (t : N)
| ALookup (n : N)
| AUpgradeFail (t n : N)     (* the websocket upgrade fails: ServeBackName returns before mapping *)
| ACrash (t : N).            (* callback / OnConnect panics: the deferred unmap and Close run *)

Definition set_pc (t : N) (th : thread) (p : pc) (s : state) : state :=
  mkState (set t (mkThread (th_name th) p (th_sess th) (th_crashed th)) (threads s)) (reg s) (ups s) (log s).

Definition pc_eqb (a b : pc) : bool :=
  match a, b with
  | P1, P1 | P2, P2 | P3, P3 | P4, P4 | P5, P5 | P6, P6 => true
  | _, _ => false
  end.

(** [step s a]: [None] when [a] is not the next action of its thread. *)
Definition step (s : state) (a : action) : option state :=
  match a with
  | AUpgrade t n =>
      match get t (threads s) with
      | Some _ => None
      | None =>
          Some (mkState (set t (mkThread n P1 0%Z false) (threads s))
                        (set n t (reg s))         (* delete old, map new: one critical section *)
                        ((n, t) :: ups s) (log s))
      end
  | AConnect t sv =>
      match get t (threads s) with
      | Some th =>
          if pc_eqb (th_pc th) P1 && negb (th_crashed th) then
            Some (mkState (set t (mkThread (th_name th) P2 sv false) (threads s)) (reg s) (ups s)
                          (log s ++ [Connect (th_name th) sv t]))
          else None
      | None => None
      end
  | AServeEnd t =>
      match get t (threads s) with
      | Some th => if pc_eqb (th_pc th) P2 && negb (th_crashed th)
                   then Some (set_pc t th P3 s) else None
      | None => None
      end
  | ADisconnect t =>
      match get t (threads s) with
      | Some th =>
          if pc_eqb (th_pc th) P3 && negb (th_crashed th) then
            Some (mkState (set t (mkThread (th_name th) P4 (th_sess th) (th_crashed th)) (threads s)) (reg s) (ups s)
                          (log s ++ [Disconnect (th_name th) (th_sess th) t]))
          else None
      | None => None
      end
  | AUnmap t =>
      match get t (threads s) with
      | Some th =>
          if pc_eqb (th_pc th) P4 then
            let r := match get (th_name th) (reg s) with
                     | Some t' => if t' =? t then del (th_name th) (reg s) else reg s
                     | None => reg s
                     end in
            Some (mkState (set t (mkThread (th_name th) P5 (th_sess th) (th_crashed th)) (threads s)) r (ups s) (log s))
          else None
      | None => None
      end
  | AClose t =>
      match get t (threads s) with
      | Some th => if pc_eqb (th_pc th) P5 then Some (set_pc t th P6 s) else None
      | None => None
      end
  | ALookup _ => Some s
  | AUpgradeFail _ _ => Some s
  | ACrash t =>
      match get t (threads s) with
      | Some th =>
          if pc_eqb (th_pc th) P1 then
            Some (mkState (set t (mkThread (th_name th) P4 0%Z true) (threads s)) (reg s) (ups s) (log s))
          else None
      | None => None
      end
  end.

Fixpoint exec (s : state) (acts : list action) : option state :=
  match acts with
  | [] => Some s
  | a :: r => match step s a with Some s' => exec s' r | None => None end
  end.

Definition reachable (s : state) : Prop := exists acts, exec init acts = Some s.

(** What [Server.endpoint(n)] returns. *)
Definition lookup_name (s : state) (n : N) : option N := get n (reg s).

(** The most recent connection under a name. *)
Definition newest (s : state) (n : N) : option N := get n (ups s).

(** The notifications of one connection. *)
Definition proj (t : N) (l : list entry) : list entry :=
  filter (fun e => entry_thread e =? t) l.
