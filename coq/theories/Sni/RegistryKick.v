(** The kick path of the endpoint registry: what makes a kicked connection
    end (sniproxy/server.go [upgrade], endpoint_client.go [Close]).

    The registry model (Sni/Registry.v) lets [ep.serve()] return "at any
    time, for any reason" ([AServeEnd]); its theorems are about what the
    notifications look like WHEN connections end.  That a kicked connection
    does end is not automatic: its peer may be connected and silent (it
    reads, and never answers anything -- a wedged client), and then
    [serve()] returns only once the websocket has been closed on the server
    side.  The connection's own thread closes it only after [serve()] has
    returned (the deferred [ep.Close()]), so the only other party is the
    goroutine [upgrade] starts for the client it displaces:

      KGrace t    the kicker's graceful part is over: the peer acknowledged
                  the shutdown call, or the call's time-out expired
      KForce t    the kicker finishes: it closes the websocket of connection
                  t -- if the source does that ([forces], read off the source
                  by the translator: upgrade's goroutine calls a method of
                  the old client that ends in an unconditional c.conn.Close())

    On top of a registry state: which peers are silent, which websockets
    have been closed on the server side, where each kicker is.

    Definitions only; proofs in RegistryKickProofs.v. *)
From Coq Require Import List NArith ZArith Bool.
From Verif Require Import Sni.Registry.
Import ListNotations.
Local Open Scope N_scope.

Inductive kpc := KWaiting | KTimedOut | KFinished.

Record kstate := mkK {
  k_reg : state;               (* the registry, as in Sni/Registry.v *)
  k_silent : list N;           (* connections whose peer never answers (any more) *)
  k_closed : list N;           (* connections whose websocket has been closed on the server side *)
  k_kick : list (N * kpc)      (* the kicker goroutine of a displaced connection *)
}.

Definition kinit : kstate := mkK init [] [] [].

Inductive kaction :=
| KAct (a : action)
| KSilent (t : N)      (* from now on the peer of connection t answers nothing *)
| KGrace (t : N)
| KForce (t : N).

Definition memN (t : N) (l : list N) : bool := existsb (N.eqb t) l.

Section WithShape.
Variable forces : bool.

Definition kstep (s : kstate) (a : kaction) : option kstate :=
  match a with
  | KAct (AUpgrade t n) =>
      match step (k_reg s) (AUpgrade t n) with
      | Some r =>
          let kick := match get n (reg (k_reg s)) with
                      | Some old => set old KWaiting (k_kick s)   (* go func(old) { old.Close() } *)
                      | None => k_kick s
                      end in
          Some (mkK r (k_silent s) (k_closed s) kick)
      | None => None
      end
  | KAct (AServeEnd t) =>
      (* serve returns when the peer leaves, fails or acknowledges a shutdown -- a silent
         peer does none of these -- or when the websocket has been closed under it *)
      if negb (memN t (k_silent s)) || memN t (k_closed s) then
        match step (k_reg s) (AServeEnd t) with
        | Some r => Some (mkK r (k_silent s) (k_closed s) (k_kick s))
        | None => None
        end
      else None
  | KAct (AClose t) =>
      match step (k_reg s) (AClose t) with
      | Some r => Some (mkK r (k_silent s) (t :: k_closed s) (k_kick s))   (* the deferred ep.Close() *)
      | None => None
      end
  | KAct a =>
      match step (k_reg s) a with
      | Some r => Some (mkK r (k_silent s) (k_closed s) (k_kick s))
      | None => None
      end
  | KSilent t => Some (mkK (k_reg s) (t :: k_silent s) (k_closed s) (k_kick s))
  | KGrace t =>
      match get t (k_kick s) with
      | Some KWaiting => Some (mkK (k_reg s) (k_silent s) (k_closed s) (set t KTimedOut (k_kick s)))
      | _ => None
      end
  | KForce t =>
      match get t (k_kick s) with
      | Some KTimedOut =>
          Some (mkK (k_reg s) (k_silent s) (if forces then t :: k_closed s else k_closed s)
                    (set t KFinished (k_kick s)))
      | _ => None
      end
  end.

Fixpoint kexec (s : kstate) (acts : list kaction) : option kstate :=
  match acts with
  | [] => Some s
  | a :: r => match kstep s a with Some s' => kexec s' r | None => None end
  end.

Definition kreachable (s : kstate) : Prop := exists acts, kexec kinit acts = Some s.

(** The registry actions of a history. *)
Fixpoint reg_actions (acts : list kaction) : list action :=
  match acts with
  | [] => []
  | KAct a :: r => a :: reg_actions r
  | _ :: r => reg_actions r
  end.

End WithShape.

(** ** An unmap from outside the connection's own thread (the seeded change C15-g)

    [Server.dial] -- the front path -- calling [unmap(name, ep)] for an
    endpoint whose dial answered with an error: the registry step of
    [AUnmap], taken while the connection is still serving. *)
Definition front_unmap (s : state) (t : N) : state :=
  match get t (threads s) with
  | Some th =>
      let r := match get (th_name th) (reg s) with
               | Some t' => if t' =? t then del (th_name th) (reg s) else reg s
               | None => reg s
               end in
      mkState (threads s) r (ups s) (log s)
  | None => s
  end.
