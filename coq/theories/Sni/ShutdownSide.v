(** The side dial's hand-over on the server when the dial fails
    (sniproxy/conn_mailbox.go, endpoint_client.go Dial, server.go
    serveBackSide), on top of the mail-office model of Sni/Mailbox.v.

    In a side mode every front connection gets a websocket of its own.  The
    endpoint dials it as soon as it has the dial request; the server's
    handler for it (Server.serveBackSide) DELIVERS it into the 1-slot channel
    of the dial's mailbox and then sits in [conn.wait(ctx)] until the
    connection is closed on the server side (after the hijack the request's
    context is not cancelled while the handler runs).  The dial RECEIVES the
    connection only after its call has returned successfully.  If the call
    fails instead -- the control connection was lost or kicked while the
    endpoint's handler was still waiting in sendAccept, or the endpoint
    answered with an error -- the deferred [box.cleanUp()] runs with the
    connection still in the channel.

    - [no_delivery_after_cleanup]: once cleanUp has taken the box out of the
      office no operation of anybody -- other dials, arriving side
      websockets with any id and key, other cleanUps -- changes what is in
      that box's channel.  So looking into the channel AFTER
      [office.remove] is final: there is no race between the drain and a
      late delivery.
    - [drained_orphan_closed]: what Dial defers now, [box.discard()] =
      cleanUp followed by the drain, closes the connection it finds there;
      serveBackSide's wait ends.
    - [old_cleanup_refuted]: the deferred cleanUp without the drain (the
      shape before the repair) on the history "new box, delivery, dial
      fails": the
      connection stays in a box nobody can reach, it is never closed, and
      serveBackSide's wait is never enabled, whatever happens afterwards. *)
From Coq Require Import List NArith Bool Lia Arith PeanoNat.
From Verif Require Import Sni.Mailbox Sni.MailboxProofs.
Import ListNotations.
Local Open Scope N_scope.

(** No entry of the office's map points at box [h]. *)
Definition unmapped (o : office) (h : nat) : Prop :=
  forall id, map_get id (o_map o) <> Some h.

(** What is in the channel of box [h]. *)
Definition chan_of (o : office) (h : nat) : option (option N) :=
  option_map bx_ch (nth_error (o_boxes o) h).

Lemma map_get_del_not id x m h :
  map_get id m <> Some h -> map_get id (map_del x m) <> Some h.
Proof.
  intros H. destruct (N.eq_dec id x) as [->|Hne].
  - rewrite map_get_del_same. discriminate.
  - now rewrite map_get_del_other.
Qed.

(** cleanUp takes its own box out of the map. *)
Lemma cleanup_unmaps o h o' v b :
  oinv o -> nth_error (o_boxes o) h = Some b -> step o (OCleanUp h) = (o', v) -> unmapped o' h.
Proof.
  intros (Imap & _) Hb Hs. cbn [step] in Hs. rewrite Hb in Hs. injection Hs as <- _.
  intros id Heq. cbn [o_map] in Heq.
  destruct (map_get (bx_id b) (o_map o)) as [hm|] eqn:Em.
  - destruct (nth_error (o_boxes o) hm) as [bm|] eqn:Eb.
    + destruct (box_match bm (bx_id b) (bx_key b)) eqn:Ebm.
      * destruct (N.eq_dec id (bx_id b)) as [->|Hne].
        -- rewrite map_get_del_same in Heq. discriminate.
        -- rewrite map_get_del_other in Heq by assumption.
           destruct (Imap id h Heq) as (b' & Hb' & Hid). congruence.
      * destruct (Imap id h Heq) as (b' & Hb' & Hid).
        assert (b' = b) by congruence. subst b'. subst id.
        rewrite Em in Heq. injection Heq as ->. assert (bm = b) by congruence. subst bm.
        unfold box_match in Ebm. now rewrite !N.eqb_refl in Ebm.
    + destruct (Imap id h Heq) as (b' & Hb' & Hid).
      assert (b' = b) by congruence. subst b'. subst id.
      rewrite Em in Heq. injection Heq as ->. congruence.
  - destruct (Imap id h Heq) as (b' & Hb' & Hid).
    assert (b' = b) by congruence. subst b'. subst id. congruence.
Qed.

(** A box that is not in the map stays out of it, and nothing but its own
    dial's receive touches its channel. *)
Lemma unmapped_step o p o' v h :
  unmapped o h -> (h < length (o_boxes o))%nat -> (forall pc, p <> OReceive h pc) ->
  step o p = (o', v) ->
  unmapped o' h /\ (h < length (o_boxes o'))%nat /\ chan_of o' h = chan_of o h.
Proof.
  intros Hu Hl Hp Hs. destruct p as [|id key|id key tag|h' pc|h']; cbn [step] in Hs.
  - injection Hs as <- _. repeat split; assumption.
  - cbv zeta in Hs. injection Hs as <- _. cbn [o_map o_boxes]. unfold chan_of. cbn [o_boxes].
    set (boxes := match map_get id (o_map o) with
                  | Some cur => upd_box cur close_box (o_boxes o) | None => o_boxes o end).
    assert (Len : length boxes = length (o_boxes o)).
    { unfold boxes. destruct (map_get id (o_map o)); [apply upd_box_length|reflexivity]. }
    assert (Nth : nth_error boxes h = nth_error (o_boxes o) h).
    { unfold boxes. destruct (map_get id (o_map o)) as [cur|] eqn:Ec; [|reflexivity].
      apply upd_box_nth_other. intros ->. exact (Hu id Ec). }
    split; [|split].
    + intros id' Heq. cbn [o_map] in Heq. destruct (N.eq_dec id' id) as [->|Hne].
      * rewrite map_get_set_same in Heq. injection Heq as Heq. lia.
      * rewrite map_get_set_other in Heq by assumption. exact (Hu id' Heq).
    + rewrite app_length. cbn [length]. lia.
    + rewrite nth_error_app1 by lia. now rewrite Nth.
  - destruct (map_get id (o_map o)) as [hm|] eqn:Em.
    2:{ injection Hs as <- _. repeat split; assumption. }
    destruct (nth_error (o_boxes o) hm) as [b|] eqn:Eb.
    2:{ injection Hs as <- _. repeat split; assumption. }
    destruct (box_match b id key).
    2:{ injection Hs as <- _. repeat split; assumption. }
    injection Hs as <- _. unfold chan_of. cbn [o_map o_boxes].
    assert (hm <> h) by (intros ->; exact (Hu id Em)).
    split; [exact Hu|]. split; [now rewrite upd_box_length|].
    now rewrite upd_box_nth_other.
  - assert (h' <> h) by (intros ->; exact (Hp pc eq_refl)).
    destruct (nth_error (o_boxes o) h') as [b|] eqn:Eb.
    2:{ injection Hs as <- _. repeat split; assumption. }
    destruct (bx_ch b) as [tag|].
    + destruct (bx_closed b && pc).
      * injection Hs as <- _. repeat split; assumption.
      * injection Hs as <- _. unfold chan_of. cbn [o_map o_boxes].
        split; [exact Hu|]. split; [now rewrite upd_box_length|].
        now rewrite upd_box_nth_other.
    + destruct (bx_closed b); injection Hs as <- _; repeat split; assumption.
  - destruct (nth_error (o_boxes o) h') as [b|] eqn:Eb.
    2:{ injection Hs as <- _. repeat split; assumption. }
    injection Hs as <- _. unfold chan_of. cbn [o_map o_boxes].
    split; [|split].
    + intros id.
      destruct (map_get (bx_id b) (o_map o)) as [hm|]; [|apply Hu].
      destruct (nth_error (o_boxes o) hm) as [bm|]; [|apply Hu].
      destruct (box_match bm (bx_id b) (bx_key b)); [|apply Hu].
      apply map_get_del_not. apply Hu.
    + now rewrite upd_box_length.
    + destruct (Nat.eq_dec h' h) as [->|Hne].
      * rewrite upd_box_nth_same. destruct (nth_error (o_boxes o) h); reflexivity.
      * now rewrite upd_box_nth_other.
Qed.

Theorem no_delivery_after_cleanup ps : forall o o' vs h,
  unmapped o h -> (h < length (o_boxes o))%nat -> (forall pc, ~ In (OReceive h pc) ps) ->
  run o ps = (o', vs) -> chan_of o' h = chan_of o h /\ unmapped o' h.
Proof.
  induction ps as [|p r IH]; intros o o' vs h Hu Hl Hp Hr; cbn [run] in Hr.
  - injection Hr as <- _. split; [reflexivity|assumption].
  - destruct (step o p) as [o1 v] eqn:Es. destruct (run o1 r) as [o2 vs2] eqn:Er.
    injection Hr as <- _.
    destruct (unmapped_step o p o1 v h Hu Hl) as (U1 & L1 & C1); [|exact Es|].
    { intros pc ->. apply (Hp pc). now left. }
    destruct (IH o1 o2 vs2 h U1 L1) as (C2 & U2); [|exact Er|].
    { intros pc Hin. apply (Hp pc). now right. }
    split; [congruence|assumption].
Qed.

(** ** The hand-over, with the shape of cleanUp as a parameter *)

Section Side.
Variable drains : bool.   (* Dial defers box.discard(): after cleanUp, a connection found in the channel is closed *)

Record sstate := mkS {
  s_office : office;
  s_closed : list N       (* side connections (by tag) closed on the server side *)
}.

Definition take_at (o : office) (h : nat) : office :=
  mkOffice (o_next o) (upd_box h take_box (o_boxes o)) (o_map o) (o_log o) (o_recv o).

Definition sstep (s : sstate) (p : op) : sstate :=
  let o' := fst (step (s_office s) p) in
  match p with
  | OCleanUp h =>
      match drains, chan_of o' h with
      | true, Some (Some tag) => mkS (take_at o' h) (tag :: s_closed s)
      | _, _ => mkS o' (s_closed s)
      end
  | _ => mkS o' (s_closed s)
  end.

Fixpoint srun (s : sstate) (ps : list op) : sstate :=
  match ps with
  | [] => s
  | p :: r => srun (sstep s p) r
  end.

(** Server.serveBackSide for connection [tag] is in [conn.wait(ctx)]: it can
    return when the connection has been closed on the server side. *)
Definition wait_enabled (s : sstate) (tag : N) : bool := existsb (N.eqb tag) (s_closed s).

End Side.

(** The deferred discard: the connection that was delivered and never
    received is closed by the failing dial. *)
Theorem drained_orphan_closed s h tag :
  chan_of (s_office s) h = Some (Some tag) ->
  wait_enabled (sstep true s (OCleanUp h)) tag = true.
Proof.
  intros Hc. unfold sstep.
  assert (G : chan_of (fst (step (s_office s) (OCleanUp h))) h = Some (Some tag)).
  { unfold chan_of in *. cbn [step].
    destruct (nth_error (o_boxes (s_office s)) h) as [b|] eqn:Eb; [|discriminate].
    cbn [fst o_boxes]. rewrite upd_box_nth_same, Eb. cbn in *. exact Hc. }
  rewrite G. unfold wait_enabled. cbn [s_closed existsb]. now rewrite N.eqb_refl.
Qed.

(** Without the drain the closed set never changes, and the office evolves
    exactly as in Sni/Mailbox.v. *)
Lemma srun_old ps : forall s,
  s_office (srun false s ps) = fst (run (s_office s) ps) /\ s_closed (srun false s ps) = s_closed s.
Proof.
  induction ps as [|p r IH]; intros s; cbn [srun run]; [split; reflexivity|].
  destruct (IH (sstep false s p)) as [I1 I2].
  assert (E : sstep false s p = mkS (fst (step (s_office s) p)) (s_closed s))
    by (unfold sstep; destruct p; reflexivity).
  rewrite E in *. cbn [s_office s_closed] in *.
  destruct (step (s_office s) p) as [o1 v]. cbn [fst] in *.
  destruct (run o1 r) as [o2 vs]. cbn [fst] in *. split; assumption.
Qed.

(** The history of one side dial that fails after the delivery: next id, new
    box (id 0, key 5), the side websocket (tag 7) is delivered, the call
    fails and the deferred cleanUp runs. *)
Definition failed_dial : list op := [ONext; ONewBox 0 5; ODeliver 0 5 7; OCleanUp 0].

Theorem old_cleanup_refuted :
  let s := srun false (mkS office_init []) failed_dial in
  chan_of (s_office s) 0 = Some (Some 7) /\ unmapped (s_office s) 0 /\
  forall ps, (forall pc, ~ In (OReceive 0 pc) ps) ->
    chan_of (s_office (srun false s ps)) 0 = Some (Some 7) /\
    wait_enabled (srun false s ps) 7 = false.
Proof.
  cbn zeta.
  assert (U : unmapped (s_office (srun false (mkS office_init []) failed_dial)) 0).
  { intros id. vm_compute. discriminate. }
  split; [vm_compute; reflexivity|]. split; [exact U|].
  intros ps Hp. destruct (srun_old ps (srun false (mkS office_init []) failed_dial)) as [E1 E2].
  rewrite E1. unfold wait_enabled. rewrite E2.
  destruct (run (s_office (srun false (mkS office_init []) failed_dial)) ps) as [o' vs] eqn:Er.
  cbn [fst].
  destruct (no_delivery_after_cleanup ps _ o' vs 0%nat U) as [C _]; [vm_compute; lia|exact Hp|exact Er|].
  split; [rewrite C; vm_compute; reflexivity|vm_compute; reflexivity].
Qed.

(** The same history with the deferred discard: the connection is closed and
    serveBackSide's wait is enabled. *)
Lemma failed_dial_now_closed :
  wait_enabled (srun true (mkS office_init []) failed_dial) 7 = true /\
  chan_of (s_office (srun true (mkS office_init []) failed_dial)) 0 = Some None.
Proof. vm_compute. split; reflexivity. Qed.

(** A dial that succeeds is not affected: it has received the connection
    before its cleanUp runs, the channel is empty, nothing is closed. *)
Lemma successful_dial_unaffected :
  s_closed (srun true (mkS office_init []) [ONext; ONewBox 0 5; ODeliver 0 5 7; OReceive 0 false; OCleanUp 0]) = [].
Proof. vm_compute. reflexivity. Qed.
