(** Obligations on what the translator regenerated from sniproxy/side_conn.go,
    tunnel.go, endpoint_server.go, msg_read.go, decoder.go, connection.go,
    proxy.go, tls_hello_conn.go and netutil/join_conn.go (Gen/StreamConsts.v). *)
From Coq Require Import List NArith Bool String Lia.
From Verif Require Import Lib.Bytes Sni.Wire Sni.WireProofs Sni.WireGen Gen.WireSchema.
From Verif Require Import Sni.Hello Sni.Stream Sni.StreamClose Sni.ReadBuf Sni.ReadBufProofs
  Sni.ReadHold Sni.ReadHoldProofs Sni.PendingAge Sni.PendingAgeProofs Sni.TunnelCtx Sni.SideDeadline
  Gen.StreamConsts Gen.HelloConsts.
Import ListNotations.
Local Open Scope N_scope.

(** The frame size is positive (the write loop advances) and a frame fits the
    websocket write buffer, so one Write produces one frame per message. *)
Lemma gen_side_chunk_pos : 0 < gen_side_chunk.
Proof. reflexivity. Qed.

Lemma gen_side_chunk_fits : gen_side_chunk <= gen_ws_write_buf.
Proof. vm_compute. discriminate. Qed.

(** io.Copy's 32 KiB buffer is below the cap of handleRead: a tunnel.Read of
    the copy loop is never cut short by the cap (it would still be correct). *)
Definition copy_buf : N := 32768.
Lemma gen_copy_fits_read_cap : copy_buf <= gen_max_read_size.
Proof. vm_compute. discriminate. Qed.

Lemma gen_hello_cap_ge5 : 5 <= gen_hello_buf_size.
Proof. vm_compute. discriminate. Qed.

(** JoinConn closes both connections as soon as either copy loop returns:
    the hypothesis of the close theorems (Sni/StreamClose.v). *)
Definition gen_close_policy : policy := close_policy_of gen_join_defer_calls gen_closeall_calls.

Lemma gen_close_policy_both : gen_close_policy = CloseBoth.
Proof. reflexivity. Qed.

(** handleRead reads into a buffer nobody else can reach, gives nothing
    away before it returns, and serveCall encodes the response afterwards:
    the skeleton under which every reply carries the bytes read for its own
    call ([reply_is_what_was_read]), whatever the other handler goroutines of
    the endpoint do in between. *)
Lemma gen_read_buf_owned : rb_ownedb gen_read_buf = true.
Proof. vm_compute. reflexivity. Qed.

(** handleRead and handleWrite hold nothing that is shared between sessions
    (no lock, no semaphore slot, no channel token) when they enter the
    blocking conn.Read / conn.Write. *)
Lemma gen_read_holds_nothing_shared :
  holds_nothingb gen_read_held = true /\ holds_nothingb gen_write_held = true.
Proof. split; reflexivity. Qed.

Lemma gen_read_hold_none : hold_of gen_read_held = HoldNone /\ hold_of gen_write_held = HoldNone.
Proof. split; reflexivity. Qed.

(** The send arm of transport.serve looks up and deletes only the entry
    under the id it has just handed out: no entry is dropped because of its
    distance to the newest id. *)
Lemma gen_pending_evict_same_id : evict_of gen_pending_evict_keys = EvictSameId.
Proof. reflexivity. Qed.

Local Open Scope string_scope.
(** The numeric bounds (integer literals >= 256, durations aside) in the files
    of the RPC path are the known ones: the 1 MiB cap of a read request.  A new
    bound - a window, a cap, a pool size - shows up here, and the streams size
    themselves along the emitted values. *)
(** sideConn.applyWriteDeadline passes the recorded deadline to the websocket
    whatever it is (no condition on it, no early return). *)
Lemma gen_sideconn_deadline_applied_unconditionally : gen_sideconn_deadline_unconditional = true.
Proof. reflexivity. Qed.

(** The context a tunnel keeps is its own (never done), and hostConn derives
    no cancellable / timeout context. *)
Lemma gen_tunnel_ctx_own : origin_of gen_tunnel_ctx_origin = Some CtxOwn /\ gen_hostconn_ctx_derivations = [].
Proof. split; reflexivity. Qed.

(** The durations written in the package are the known ones (accept timeout,
    graceful close, side-connection dial, shutdown, close deadline): a new
    bound in time shows up here, and the harness then keeps one connection per
    mode idle for slightly longer than it. *)
Definition known_sni_durations : list string :=
  ["endpoint.go:10000"; "endpoint.go:5000"; "endpoint_client.go:3000"; "endpoint_server.go:5000";
   "side_conn.go:3000"; "transport.go:3000"].

Lemma gen_sni_durations_known : list_eqb String.eqb gen_sni_durations known_sni_durations = true.
Proof. vm_compute. reflexivity. Qed.

Definition known_rpc_int_literals : list string := ["endpoint_server.go:1048576"].

Lemma gen_rpc_int_literals_known :
  list_eqb String.eqb gen_rpc_int_literals known_rpc_int_literals = true.
Proof. vm_compute. reflexivity. Qed.
Local Close Scope string_scope.

Lemma gen_read_buf_policy : policy_of gen_read_buf = Some BFresh.
Proof. reflexivity. Qed.

Local Open Scope string_scope.

(** The bodies the model of Sni/Stream.v and Sni/StreamClose.v was written against. *)
Definition frozen_stream_src : list (string * string) :=
  [ ("sideConn_Write", "{ c.writeMu.Lock() defer c.writeMu.Unlock() c.applyWriteDeadline() const chunk = 4096 if c.writeClosed { return 0, errcode.Internalf(""already closed"") } n := 0 for n < len(buf) { end := n + chunk if end > len(buf) { end = len(buf) } toSend := buf[n:end] w, err := c.Conn.NextWriter(websocket.BinaryMessage) if err != nil { return n, err } written, err := w.Write(toSend) if err != nil { n += written return n, err } n += len(toSend) if err := w.Close(); err != nil { return n, err } } return n, nil }");
    ("sideConn_Read", "{ c.readMu.Lock() defer c.readMu.Unlock() if c.curReader == nil { if err := c.nextReader(); err != nil { return 0, err } } for { n, err := c.curReader.Read(buf) if err != io.EOF { return n, err } c.curReader = nil if n > 0 { return n, nil } if err := c.nextReader(); err != nil { return 0, err } } }");
    ("sideConn_nextReader", "{ t, r, err := c.Conn.NextReader() if err != nil { if websocket.IsCloseError(err) { closeErr := err.(*websocket.CloseError) if closeErr.Code == websocket.CloseNormalClosure { return io.EOF } } return err } if t == websocket.TextMessage { return io.EOF } c.curReader = r return nil }");
    ("sideConn_CloseWrite", "{ c.writeMu.Lock() defer c.writeMu.Unlock() if c.writeClosed { return nil } c.writeClosed = true c.applyWriteDeadline() w, err := c.NextWriter(websocket.TextMessage) if err != nil { return err } if _, err := w.Write([]byte(""EOF"")); err != nil { return err } return w.Close() }");
    ("sideConn_Close", "{ deadline := time.Now().Add(3 * time.Second) c.SetDeadline(deadline) werr := c.CloseWrite() err := c.Conn.Close() c.closeOnce.Do(func() { close(c.closed) }) if werr != nil { return werr } return err }");
    ("tunnel_Read", "{ req := &readRequest{ session: t.session, maxRead: len(buf), } resp := &readResponse{bytes: buf} if err := t.tr.call(t.ctx, msgRead, req, resp); err != nil { return 0, err } if len(resp.bytes) > len(buf) { return 0, fmt.Errorf( ""read reply of %d bytes exceeds the %d requested"", len(resp.bytes), len(buf), ) } return len(resp.bytes), resp.err.toError() }");
    ("tunnel_Write", "{ req := &writeRequest{ session: t.session, bytes: bs, } resp := new(writeResponse) if err := t.tr.call(t.ctx, msgWrite, req, resp); err != nil { return 0, err } return resp.written, resp.err.toError() }");
    ("tunnel_Close", "{ req := &closeRequest{session: t.session} resp := new(closeResponse) if err := t.tr.call(t.ctx, msgClose, req, resp); err != nil { return err } return resp.err.toError() }");
    ("endpointServer_handleRead", "{ if s.options.Siding { return &readResponse{err: remoteErrSiding} } conn, rerr := s.findSession(req.session) if rerr != nil { return &readResponse{err: rerr} } size := req.maxRead if size < 0 { return &readResponse{ err: newRemoteErrString(errRead, ""negative read size""), } } if size > maxReadSize { size = maxReadSize } buf := make([]byte, size) n, err := conn.Read(buf) resp := &readResponse{bytes: buf[:n]} if err != nil { if err == io.EOF { resp.err = newRemoteErrString(errEOF, ""eof"") } else { resp.err = newRemoteErr(errRead, err) } } return resp }");
    ("endpointServer_handleWrite", "{ if s.options.Siding { return &writeResponse{err: remoteErrSiding} } conn, rerr := s.findSession(req.session) if rerr != nil { return &writeResponse{err: rerr} } n, err := conn.Write(req.bytes) resp := &writeResponse{written: n} if err != nil { resp.err = newRemoteErr(errWrite, err) } return resp }");
    ("endpointServer_handleClose", "{ if s.options.Siding { return &closeResponse{err: remoteErrSiding} } conn, rerr := s.findSession(req.session) if rerr != nil { return &closeResponse{err: rerr} } resp := &closeResponse{} err := conn.Close() if err != nil { resp.err = newRemoteErr(errClose, err) } if err := s.conns.remove(req.session); err != nil { resp.err = newRemoteErr(errClose, err) } return resp }");
    ("endpointServer_handleDial", "{ if s.options.Siding { return &dialResponse{err: remoteErrSiding} } if s.acceptConn == nil { return &dialResponse{err: remoteErrNotAccepting} } id := s.sessionID.next() conn := newConnection(id) defer func() { if conn != nil { conn.cleanup() } }() if err := s.acceptConn(conn.forServer()); err != nil { rerr := newRemoteErr(errAccept, err) return &dialResponse{session: id, err: rerr} } if err := s.conns.add(conn); err != nil { rerr := newRemoteErr(errAccept, err) return &dialResponse{session: id, err: rerr} } conn = nil return &dialResponse{session: id} }");
    ("readResponse_decodeFrom", "{ m.bytes = dec.bytes(m.bytes) m.err = decodeRemoteErr(dec) }");
    ("decoder_bytes", "{ n64 := d.u64() if n64 == 0 { return nil } if d.hasErr() { return nil } if n64 > math.MaxInt64 { d.err = errLengthOverflow return nil } n := int64(n64) if int64(len(buf)) >= n { buf = buf[:n] d.read(buf) return buf } if n <= decodeAllocMax { buf = make([]byte, n) d.read(buf) return buf } var bb bytes.Buffer m, err := io.CopyN(&bb, d.r, n) d.n += m if err == io.EOF { d.err = io.ErrUnexpectedEOF } else if err != nil { d.err = err } return bb.Bytes() }");
    ("newConnection", "{ client, server := net.Pipe() return &connection{ id: id, Conn: client, serverConn: server, } }");
    ("connection_cleanup", "{ c.Conn.Close() c.serverConn.Close() }");
    ("proxy_hostConn", "{ defer conn.Close() bc := NewTLSHelloConn(conn) hello, err := bc.HelloInfo() if err != nil { return err } if isRejectedDomain(hello.ServerName) { return errNameRejected } addr := conn.RemoteAddr().String() remote, err := p.dialer.dial(ctx, hello, addr) if err != nil { return err } closer := &closerOnce{Closer: remote} defer closer.Close() return netutil.JoinConn(ctx, remote, bc) }");
    ("TLSHelloConn_Read", "{ return c.br.Read(buf) }");
    ("JoinConn", "{ var wg sync.WaitGroup defer wg.Wait() var closeOnce sync.Once closeAll := func() { closeOnce.Do(func() { c1.Close() c2.Close() }) } defer closeAll() ctx, cancel := context.WithCancel(ctx) defer cancel() retErr := make(chan error, 3) wg.Add(1) go func(ctx context.Context) { defer wg.Done() <-ctx.Done() retErr <- ctx.Err() closeAll() }(ctx) var ioWait sync.WaitGroup join := func(c1, c2 net.Conn) { defer func() { closeAll() ioWait.Done() }() if _, err := io.Copy(c1, c2); err != nil { retErr <- err } } ioWait.Add(2) go join(c1, c2) go join(c2, c1) ioWait.Wait() select { case err := <-retErr: return err default: return nil } }") ].

Definition gen_stream_src : list (string * string) :=
  [ ("sideConn_Write", gen_stream_src_sideConn_Write);
    ("sideConn_Read", gen_stream_src_sideConn_Read);
    ("sideConn_nextReader", gen_stream_src_sideConn_nextReader);
    ("sideConn_CloseWrite", gen_stream_src_sideConn_CloseWrite);
    ("sideConn_Close", gen_stream_src_sideConn_Close);
    ("tunnel_Read", gen_stream_src_tunnel_Read);
    ("tunnel_Write", gen_stream_src_tunnel_Write);
    ("tunnel_Close", gen_stream_src_tunnel_Close);
    ("endpointServer_handleRead", gen_stream_src_endpointServer_handleRead);
    ("endpointServer_handleWrite", gen_stream_src_endpointServer_handleWrite);
    ("endpointServer_handleClose", gen_stream_src_endpointServer_handleClose);
    ("endpointServer_handleDial", gen_stream_src_endpointServer_handleDial);
    ("readResponse_decodeFrom", gen_stream_src_readResponse_decodeFrom);
    ("decoder_bytes", gen_stream_src_decoder_bytes);
    ("newConnection", gen_stream_src_newConnection);
    ("connection_cleanup", gen_stream_src_connection_cleanup);
    ("proxy_hostConn", gen_stream_src_proxy_hostConn);
    ("TLSHelloConn_Read", gen_stream_src_TLSHelloConn_Read);
    ("JoinConn", gen_stream_src_JoinConn) ].

(** Bodies that are accepted as well: reviewed variants under which the
    models are unchanged.
    - sideConn.Write / CloseWrite before the write deadline was moved under
      writeMu (repo fix: data race between Close and a writer): the extra
      statement c.applyWriteDeadline() only hands a recorded deadline to the
      websocket; frames, counts and the end marker are the same. *)
Definition accepted_stream_variants : list (string * string) :=
  [ ("sideConn_Write", "{ c.writeMu.Lock() defer c.writeMu.Unlock() const chunk = 4096 if c.writeClosed { return 0, errcode.Internalf(""already closed"") } n := 0 for n < len(buf) { end := n + chunk if end > len(buf) { end = len(buf) } toSend := buf[n:end] w, err := c.Conn.NextWriter(websocket.BinaryMessage) if err != nil { return n, err } written, err := w.Write(toSend) if err != nil { n += written return n, err } n += len(toSend) if err := w.Close(); err != nil { return n, err } } return n, nil }");
    ("sideConn_CloseWrite", "{ c.writeMu.Lock() defer c.writeMu.Unlock() if c.writeClosed { return nil } c.writeClosed = true w, err := c.NextWriter(websocket.TextMessage) if err != nil { return err } if _, err := w.Write([]byte(""EOF"")); err != nil { return err } return w.Close() }") ].

Definition stream_variant_ok (n x : string) : bool :=
  existsb (fun v => String.eqb (fst v) n && String.eqb (snd v) x) accepted_stream_variants.

Fixpoint src_diff (a b : list (string * string)) : list string :=
  match a, b with
  | (n, x) :: a', (_, y) :: b' =>
      if String.eqb x y || stream_variant_ok n x then src_diff a' b' else n :: src_diff a' b'
  | [], [] => []
  | _, _ => ["(lists differ in length)"]
  end.

Lemma gen_stream_src_frozen : src_diff gen_stream_src frozen_stream_src = [].
Proof. vm_compute. reflexivity. Qed.

(** * The legacy mode's bytes on the wire

    tunnel.Write sends the chunk in a writeRequest, the endpoint decodes it
    with the codec proved in C13 and writes the decoded bytes to the pipe;
    handleRead's bytes come back in a readResponse decoded into the caller's
    buffer.  For every chunk both decodes return the chunk. *)
Local Open Scope N_scope.

Definition write_request_name : string := "writeRequest"%string.

Lemma gen_write_request_schema :
  gen_table 3 = Some (Some ("writeRequest"%string, [KU64; KBytes])).
Proof. vm_compute. reflexivity. Qed.

Lemma gen_read_response_schema :
  assoc_str "readResponse" gen_schemas = Some [KBytes; KErr].
Proof. vm_compute. reflexivity. Qed.

Theorem legacy_write_wire id sess chunk :
  id < two64 -> sess < two64 -> lenN chunk < two63 ->
  fst (start_call gen_alloc_max gen_table
         (request_frame id 3 (enc_schema [KU64; KBytes] [VU64 sess; VBytes chunk])))
  = CReq id 3 "writeRequest" [VU64 sess; VBytes chunk].
Proof.
  intros Hid Hs Hc.
  apply (start_call_roundtrip gen_alloc_max gen_alloc_max_ok gen_table);
    [assumption|reflexivity|exact gen_write_request_schema|].
  repeat constructor; assumption.
Qed.

Theorem legacy_read_wire cap id data :
  id < two64 -> lenN data < two63 ->
  exists d,
    client_decode gen_alloc_max cap [KBytes; KErr]
      (reply_frame id 4 0 (enc_schema [KBytes; KErr] [VBytes data; VErr None]))
    = (HReply id 4, Some ([VBytes data; VErr None], d)) /\ err d = None.
Proof.
  intros Hid Hd.
  destruct (client_roundtrip gen_alloc_max gen_alloc_max_ok cap id 4 [KBytes; KErr]
              [VBytes data; VErr None] [] Hid eq_refl) as (d & E & He & _).
  { repeat constructor. assumption. }
  exists d. rewrite app_nil_r in E. auto.
Qed.
