(** Obligations of C03 on the skeleton regenerated from /repo's current
    source (Gen/TransportSkel.v).  The transport model (Sni/Rpc.v) was written
    against the statement skeletons frozen here; when the source of one of
    these functions changes shape, the corresponding [Lemma] stops checking
    and the check searches for a concrete failing input. *)
From Coq Require Import List NArith Bool String.
From Verif Require Import Sni.Wire Sni.WireGen Sni.SchedSkel Sni.Rpc Gen.WireSchema Gen.TransportSkel.
Import ListNotations.
Local Open Scope string_scope.

(** ** Ownership: [pending] is a local variable of [serve], used nowhere else *)

Lemma gen_pending_owned_by_serve :
  gen_pending_local_to_serve = true /\ gen_pending_refs = ["transport.serve"].
Proof. vm_compute. split; reflexivity. Qed.

(** ** The frozen skeletons *)

Definition frozen_serve : list string :=
  [ "0 defer close(tr.serveDone)";
      "0 assign id := uint64(0)";
      "0 assign pending := make(map[uint64]*callExchange)";
      "0 defer func";
      "1 range pending";
      "2 assign x.err = io.ErrUnexpectedEOF";
      "2 call x.done()";
      "0 assign readErr := make(chan error, 1)";
      "0 go func";
      "1 send readErr";
      "0 assign shutdownCalled := false";
      "0 for";
      "1 select";
      "2 case ARecv ""tr.calls""";
      "3 assign c.id = id";
      "3 assign id++";
      "3 if shutdownCalled";
      "4 assign c.err = errAlreadyShutdown";
      "4 call c.done()";
      "4 break";
      "3 else";
      "4 if c.typ == msgShutdown";
      "5 assign shutdownCalled = true";
      "3 assign err := tr.send(c)";
      "3 if err != nil";
      "4 assign c.err = err";
      "4 call c.done()";
      "4 return err";
      "3 assign old, found := pending[c.id]";
      "3 if found";
      "4 assign old.err = errTooLong";
      "4 call old.done()";
      "4 call delete(pending, c.id)";
      "3 assign pending[c.id] = c";
      "2 case ARecv ""tr.pendingFetch""";
      "3 assign c, found := pending[fetch.id]";
      "3 if found";
      "4 call delete(pending, fetch.id)";
      "3 send fetch.call";
      "2 case ARecv ""readErr""";
      "3 return err" ].

Lemma gen_serve_frozen : skel_is gen_transport_skel "transport.serve" frozen_serve = true.
Proof. vm_compute. reflexivity. Qed.

Definition frozen_handleMessage : list string :=
  [ "0 assign dec := newDecoder(r)";
      "0 assign id := dec.u64()";
      "0 assign typ := dec.u8()";
      "0 assign errcode := dec.u8()";
      "0 if dec.hasErr()";
      "1 assign err := dec.Err()";
      "1 if err == io.ErrUnexpectedEOF";
      "2 return nil";
      "1 return err";
      "0 if errcode != 0";
      "1 call dec.end()";
      "1 return fmt.Errorf(""got error: %d"", errcode)";
      "0 if typ == msgShutdownHint";
      "1 call tr.startShutdown()";
      "1 return nil";
      "0 assign ch := make(chan *callExchange)";
      "0 select";
      "1 case ASend ""tr.pendingFetch""";
      "1 case ARecv ""tr.serveDone""";
      "2 return io.ErrUnexpectedEOF";
      "0 decl var ex *callExchange";
      "0 select";
      "1 case ARecv ""ch""";
      "1 case ARecv ""tr.serveDone""";
      "2 return io.ErrUnexpectedEOF";
      "0 if ex == nil";
      "1 return nil";
      "0 if ex.typ != typ";
      "1 return nil";
      "0 defer ex.done()";
      "0 if ex.resp != nil";
      "1 call ex.resp.decodeFrom(dec)";
      "0 if dec.hasErr()";
      "1 assign ex.err = dec.Err()";
      "1 return nil";
      "0 assign _, err := io.Copy(io.Discard, r)";
      "0 if err != nil";
      "1 return err";
      "0 if ex.typ == msgShutdown";
      "1 return io.EOF";
      "0 return nil" ].

Lemma gen_handleMessage_frozen : skel_is gen_transport_skel "transport.handleMessage" frozen_handleMessage = true.
Proof. vm_compute. reflexivity. Qed.

Definition frozen_serveRead : list string :=
  [ "0 for";
      "1 assign typ, r, err := tr.conn.NextReader()";
      "1 if err != nil";
      "2 return err";
      "1 switch typ";
      "2 case websocket.TextMessage";
      "3 assign bs, err := io.ReadAll(r)";
      "3 if err != nil";
      "4 return err";
      "2 case websocket.BinaryMessage";
      "3 assign err := tr.handleMessage(r)";
      "3 if err != nil";
      "4 if err == io.EOF";
      "5 return nil";
      "4 return err";
      "2 default";
      "3 return fmt.Errorf(""unknown message type: %d"", typ)" ].

Lemma gen_serveRead_frozen : skel_is gen_transport_skel "transport.serveRead" frozen_serveRead = true.
Proof. vm_compute. reflexivity. Qed.

Definition frozen_newCallExchange : list string :=
  [ "0 assign x := &callExchange{ typ: c.typ, req: c.req, resp: c.resp, }";
      "0 assign x.done = func";
      "1 call c.done(x.err)";
      "0 return x" ].

Lemma gen_newCallExchange_frozen : skel_is gen_transport_skel "newCallExchange" frozen_newCallExchange = true.
Proof. vm_compute. reflexivity. Qed.

Definition frozen_send : list string :=
  [ "0 return sendExchangeReq(tr.conn, c)" ].

Lemma gen_send_frozen : skel_is gen_transport_skel "transport.send" frozen_send = true.
Proof. vm_compute. reflexivity. Qed.


(** ** Message type codes the transport itself looks at *)

Lemma gen_transport_codes :
  assoc_str "msgShutdown" gen_msg_codes = Some msg_shutdown /\
  assoc_str "msgShutdownHint" gen_msg_codes = Some msg_shutdown_hint.
Proof. vm_compute. split; reflexivity. Qed.

(** No client call site uses the hint type as a call type. *)
Definition no_hint_calls : bool :=
  forallb (fun c => negb (N.eqb (fst c) msg_shutdown_hint)) gen_client_calls.

Lemma gen_no_hint_calls : no_hint_calls = true.
Proof. vm_compute. reflexivity. Qed.
