(** Obligations of C03 on the skeleton regenerated from /repo's current
    source (Gen/TransportSkel.v).  The transport model (Sni/Rpc.v) was written
    against the statement skeletons frozen here; when the source of one of
    these functions changes shape, the corresponding [Lemma] stops checking
    and the check searches for a concrete failing input. *)
From Coq Require Import List NArith Bool String.
From Verif Require Import Lib.Bytes Sni.Wire Sni.WireGen Sni.SchedSkel Sni.Rpc Gen.WireSchema Gen.TransportSkel.
From Verif Require Import Sni.RpcProofs Sni.RpcCtx Sni.RpcCtxProofs Sni.RpcShut.
Import ListNotations.
Local Open Scope string_scope.

(** ** Ownership: [pending] is a local variable of [serve], used nowhere else *)

Lemma gen_pending_owned_by_serve :
  gen_pending_local_to_serve = true /\ gen_pending_refs = ["transport.serve"].
Proof. vm_compute. split; reflexivity. Qed.

(** ** The frozen skeletons *)

Definition frozen_serve : list string :=
  [ "0 defer close(tr.serveDone)";
      "0 assign id := uint64(0)";
      "0 assign pending := make(map[uint64]*callExchange)";
      "0 defer func";
      "1 range pending";
      "2 assign x.err = io.ErrUnexpectedEOF";
      "2 call x.done()";
      "0 assign readErr := make(chan error, 1)";
      "0 go func";
      "1 send readErr";
      "0 assign shutdownCalled := false";
      "0 for";
      "1 select";
      "2 case ARecv ""tr.calls""";
      "3 assign c.id = id";
      "3 assign id++";
      "3 if shutdownCalled";
      "4 assign c.err = errAlreadyShutdown";
      "4 call c.done()";
      "4 break";
      "3 else";
      "4 if c.typ == msgShutdown";
      "5 assign shutdownCalled = true";
      "3 assign err := tr.send(c)";
      "3 if err != nil";
      "4 assign c.err = err";
      "4 call c.done()";
      "4 return err";
      "3 assign old, found := pending[c.id]";
      "3 if found";
      "4 assign old.err = errTooLong";
      "4 call old.done()";
      "4 call delete(pending, c.id)";
      "3 assign pending[c.id] = c";
      "2 case ARecv ""tr.pendingFetch""";
      "3 assign c, found := pending[fetch.id]";
      "3 if found";
      "4 call delete(pending, fetch.id)";
      "3 send fetch.call";
      "2 case ARecv ""readErr""";
      "3 return err" ].

Lemma gen_serve_frozen : skel_is gen_transport_skel "transport.serve" frozen_serve = true.
Proof. vm_compute. reflexivity. Qed.

Definition frozen_handleMessage : list string :=
  [ "0 assign dec := newDecoder(r)";
      "0 assign id := dec.u64()";
      "0 assign typ := dec.u8()";
      "0 assign errcode := dec.u8()";
      "0 if dec.hasErr()";
      "1 assign err := dec.Err()";
      "1 if err == io.ErrUnexpectedEOF";
      "2 return nil";
      "1 return err";
      "0 if errcode != 0";
      "1 call dec.end()";
      "1 return fmt.Errorf(""got error: %d"", errcode)";
      "0 if typ == msgShutdownHint";
      "1 call tr.startShutdown()";
      "1 return nil";
      "0 assign ch := make(chan *callExchange)";
      "0 select";
      "1 case ASend ""tr.pendingFetch""";
      "1 case ARecv ""tr.serveDone""";
      "2 return io.ErrUnexpectedEOF";
      "0 decl var ex *callExchange";
      "0 select";
      "1 case ARecv ""ch""";
      "1 case ARecv ""tr.serveDone""";
      "2 return io.ErrUnexpectedEOF";
      "0 if ex == nil";
      "1 return nil";
      "0 if ex.typ != typ";
      "1 return nil";
      "0 defer ex.done()";
      "0 if ex.resp != nil";
      "1 call ex.resp.decodeFrom(dec)";
      "0 if dec.hasErr()";
      "1 assign ex.err = dec.Err()";
      "1 return nil";
      "0 assign _, err := io.Copy(io.Discard, r)";
      "0 if err != nil";
      "1 return err";
      "0 if ex.typ == msgShutdown";
      "1 return io.EOF";
      "0 return nil" ].

Lemma gen_handleMessage_frozen : skel_is gen_transport_skel "transport.handleMessage" frozen_handleMessage = true.
Proof. vm_compute. reflexivity. Qed.

Definition frozen_serveRead : list string :=
  [ "0 for";
      "1 assign typ, r, err := tr.conn.NextReader()";
      "1 if err != nil";
      "2 return err";
      "1 switch typ";
      "2 case websocket.TextMessage";
      "3 assign bs, err := io.ReadAll(r)";
      "3 if err != nil";
      "4 return err";
      "2 case websocket.BinaryMessage";
      "3 assign err := tr.handleMessage(r)";
      "3 if err != nil";
      "4 if err == io.EOF";
      "5 return nil";
      "4 return err";
      "2 default";
      "3 return fmt.Errorf(""unknown message type: %d"", typ)" ].

Lemma gen_serveRead_frozen : skel_is gen_transport_skel "transport.serveRead" frozen_serveRead = true.
Proof. vm_compute. reflexivity. Qed.

Definition frozen_newCallExchange : list string :=
  [ "0 assign x := &callExchange{ typ: c.typ, req: c.req, resp: c.resp, }";
      "0 assign x.done = func";
      "1 call c.done(x.err)";
      "0 return x" ].

Lemma gen_newCallExchange_frozen : skel_is gen_transport_skel "newCallExchange" frozen_newCallExchange = true.
Proof. vm_compute. reflexivity. Qed.

Definition frozen_send : list string :=
  [ "0 return sendExchangeReq(tr.conn, c)" ].

Lemma gen_send_frozen : skel_is gen_transport_skel "transport.send" frozen_send = true.
Proof. vm_compute. reflexivity. Qed.


(** ** Message type codes the transport itself looks at *)

Lemma gen_transport_codes :
  assoc_str "msgShutdown" gen_msg_codes = Some msg_shutdown /\
  assoc_str "msgShutdownHint" gen_msg_codes = Some msg_shutdown_hint.
Proof. vm_compute. split; reflexivity. Qed.

(** No client call site uses the hint type as a call type. *)
Definition no_hint_calls : bool :=
  forallb (fun c => negb (N.eqb (fst c) msg_shutdown_hint)) gen_client_calls.

Lemma gen_no_hint_calls : no_hint_calls = true.
Proof. vm_compute. reflexivity. Qed.

(** ** Contexts that end (Sni/RpcCtx.v)

    What [transport.call] and [transport.asyncCall] do in their select arm on
    [ctx.Done()]: return, and nothing else -- in particular no message to the
    serve goroutine.  The only place that asks serve to look a call up (a
    [pendingFetch]) is the reader, under the id it decoded from the reply
    frame; the only place that writes the id of an exchange is serve, when it
    takes the exchange off the queue.  So a caller that gives up cannot name
    a call to serve at all, let alone by an id read from its exchange before
    serve has assigned it. *)
Definition silent_arm (ls : list string) : bool :=
  match ls with
  | [l] => String.prefix "0 return " l
  | _ => false
  end.

Definition gen_giveup_shape : giveup_shape :=
  if forallb (fun a => silent_arm (snd a)) gen_ctx_done_arms
     && list_eqb String.eqb (map fst gen_ctx_done_arms) ["transport.asyncCall"; "transport.call"]
     && list_eqb String.eqb (map fst gen_pendingFetch_makers) ["transport.handleMessage"]
  then GuSilent else GuFetchField.

Lemma gen_giveup_silent : gen_giveup_shape = GuSilent.
Proof. vm_compute. reflexivity. Qed.

Lemma gen_ctx_done_arms_return_only :
  gen_ctx_done_arms = [ ("transport.asyncCall", ["0 return ctx.Err()"]);
                        ("transport.call", ["0 return ctx.Err()"]) ].
Proof. vm_compute. reflexivity. Qed.

Lemma gen_fetch_only_by_reader :
  gen_pendingFetch_makers = [("transport.handleMessage", "id")].
Proof. vm_compute. reflexivity. Qed.

Lemma gen_id_written_by_serve_only :
  gen_exchange_id_writers = [("transport.serve", "c.id = id")].
Proof. vm_compute. reflexivity. Qed.

(** ** The seeded change C03-e, as a counter-model

    [call()] gives up by sending serve a pendingFetch with [ex.id] read from
    its exchange (shape [GuFetchField]).  History: call 10 is taken (id 0),
    sent and recorded; call 11 is put into the queue; its context ends there
    -- its exchange still carries id 0 --; serve takes and sends it (id 1);
    the peer answers call 10.  With the silent give-up call 10 completes
    with the peer's reply.  With [GuFetchField] the entry of call 10 is
    gone: the reply is discarded, and nothing that can happen afterwards
    completes call 10 with a reply. *)
Local Open Scope N_scope.

Definition ctx_hello (k : N) : pcall := mkCall k 1 (assoc_str "helloResponse" gen_schemas) 0.
Definition ctx_hello_reply (id : N) (msg : bytes) : bytes :=
  reply_frame id 1 0 (enc_schema [KStr] [VBytes msg]).

Definition eviction_history : list xevent :=
  [ XEnqueue (ctx_hello 10); XTake true; XEnqueue (ctx_hello 11); XGiveUp 11; XTake true;
    XOther (EReply (ctx_hello_reply 0 [65])) ].

Theorem fetch_field_refuted :
  status (x_st (xrun gen_alloc_max two64 GuSilent eviction_history)) 10 = Some (ROk [VBytes [65]]) /\
  xview (xrun gen_alloc_max two64 GuSilent eviction_history) 11 = VCtx /\
  let s := xrun gen_alloc_max two64 GuFetchField eviction_history in
  status (x_st s) 10 = None /\ running (x_st s) = true /\ pending (x_st s) = [(1, ctx_hello 11)] /\
  forall tr, Forall (fun e => ~ enqueues 10 e) tr ->
    forall vs, status (x_st (xrun_from gen_alloc_max two64 GuFetchField s tr)) 10 <> Some (ROk vs).
Proof.
  split; [vm_compute; reflexivity|]. split; [vm_compute; reflexivity|].
  cbv zeta. split; [vm_compute; reflexivity|]. split; [vm_compute; reflexivity|].
  split; [vm_compute; reflexivity|].
  intros tr Hf vs. apply xabsent_never_succeeds; [|exact Hf].
  repeat split.
  - intros i c Hin. vm_compute in Hin. destruct Hin as [[= <- <-]|[]]. vm_compute. discriminate.
  - intros vs' Hin. vm_compute in Hin. exact Hin.
Qed.

(** ** A call rejected by serve is not sent and not recorded (Sni/RpcShut.v)

    The statements serve executes for a call it takes off the queue once
    [shutdownCalled] is set, following Go's control flow (the translator
    resolves which construct an unlabelled [break] leaves): the call is
    completed once, and neither [tr.send] nor the [pending] table occurs on
    that path.  This is a statement about control flow, not about text. *)
Local Open Scope string_scope.

Definition mentions (what line : string) : bool :=
  match String.index 0 what line with Some _ => true | None => false end.

Definition rejected_path_ok (l : list string) : bool :=
  forallb (fun x => negb (mentions "tr.send(" x) && negb (mentions "pending[" x)
                    && negb (String.prefix "unknown" x) && negb (String.prefix "if?" x)
                    && negb (String.prefix "case?" x)) l
  && Nat.eqb (List.length (filter (String.eqb "call c.done()") l)) 1
  && existsb (mentions "errAlreadyShutdown") l.

Lemma gen_rejected_call_not_sent : rejected_path_ok gen_rejected_call_path = true.
Proof. vm_compute. reflexivity. Qed.

(** The path of the seeded change C03-g, as the translator reads it: the
    break leaves only the switch. *)
Definition seeded_rejected_path : list string :=
  [ "do c.id = id"; "do id++"; "do c.err = errAlreadyShutdown"; "call c.done()";
    "do err := tr.send(c)"; "if? err != nil"; "do c.err = err"; "call c.done()"; "return err";
    "do old, found := pending[c.id]"; "if? found"; "do old.err = errTooLong"; "call old.done()";
    "call delete(pending, c.id)"; "do pending[c.id] = c" ].

(** With that path a call that passed the shutdown check in time and reached
    the queue behind the shutdown request is completed twice -- a second
    close of its done channel, a run-time panic -- when the transport winds
    down; in the model of the source as it is, the same history completes
    every call once. *)
Local Open Scope N_scope.

Definition shutdown_call (k : N) : pcall := mkCall k 0 None 0.

Definition behind_history : list event :=
  [ ECall (ctx_hello 10) true; ESignal; ECall (shutdown_call 20) true; ECall (ctx_hello 11) true; EReadErr ].

Theorem fallthrough_refuted :
  rejected_path_ok seeded_rejected_path = false /\
  wf_trace behind_history /\
  panicked (run_ft gen_alloc_max two64 behind_history) = true /\
  panicked (Rpc.run gen_alloc_max two64 behind_history) = false /\
  log (Rpc.run gen_alloc_max two64 behind_history) =
    [(11, RErr CShutdown); (20, RErr CExit); (10, RErr CExit)].
Proof.
  split; [vm_compute; reflexivity|]. split; [apply wf_traceb_spec; vm_compute; reflexivity|].
  split; [vm_compute; reflexivity|]. split; vm_compute; reflexivity.
Qed.

(** ** How handleMessage and the decoder read a frame (Sni/WireCut.v)

    handleMessage makes no read on the frame reader itself -- no [r.Read],
    no [io.ReadFull(r, ..)] of its own: header and body go through the
    decoder -- except for draining what is left to EOF; and every read the
    decoder makes from its reader is [io.ReadFull] (fixed-size fields and
    byte strings), [io.CopyN] (skipping the rest of an over-long byte
    string), [io.ReadAll], or the loop of [end] that reads until EOF.  None
    of them returns before its buffer is full or the frame has ended, so how
    the frame's bytes are cut into reads cannot matter (the [handle
    read_full] of the model). *)
Local Close Scope N_scope.
Lemma gen_handleMessage_no_direct_reads :
  gen_handleMessage_direct_reads = [] /\ gen_handleMessage_drains = ["io.Copy(io.Discard, r)"%string].
Proof. vm_compute. split; reflexivity. Qed.

Lemma gen_decoder_reads_full :
  gen_decoder_reads =
    [ ("decoder.read", "io.ReadFull", "once");
      ("decoder.rest", "io.ReadAll", "once");
      ("decoder.bytes", "io.CopyN", "once");
      ("decoder.end", "d.r.Read", "in a loop until EOF or error") ]%string.
Proof. vm_compute. reflexivity. Qed.
