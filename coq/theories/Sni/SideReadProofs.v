(** Proofs about Sni/SideRead.v. *)
From Coq Require Import List NArith ZArith Bool Lia.
From Coq Require Import ZifyN ZifyNat ZifyBool.
From Verif Require Import Lib.Bytes Sni.Wire Sni.SideRead.
Import ListNotations.
Local Open Scope N_scope.

Lemma is_nil_true {A} (l : list A) : is_nil l = true <-> l = [].
Proof. destruct l; split; intros H; try reflexivity; discriminate. Qed.

Lemma lenN_firstn_le (f : bytes) n : lenN (firstn n f) <= N.of_nat n.
Proof. unfold lenN. rewrite firstn_length. lia. Qed.

(** One call of the message reader. *)
Lemma frag_read_spec m k tog : forall frs got fin rest,
  0 < m ->
  frag_read m k tog frs = (got, fin, rest) ->
  got ++ concat rest = concat frs /\ lenN got <= m /\
  (fin = true -> rest = []) /\
  (fin = false -> got <> []) /\
  (concat frs <> [] -> got <> []).
Proof.
  induction frs as [|f frs IH]; intros got fin rest Hm.
  - cbn. intros [= <- <- <-]. cbn. repeat split; try lia; try discriminate; congruence.
  - cbn [frag_read]. destruct f as [|x f'].
    + intros E. destruct (IH got fin rest Hm E) as (H1 & H2 & H3 & H4 & H5). cbn [concat app]. auto.
    + set (f := x :: f') in *.
      set (n := N.to_nat (N.min (N.max 1 k) (N.min m (lenN f)))).
      assert (Hn1 : (1 <= n)%nat).
      { subst n. assert (0 < lenN f) by (subst f; unfold lenN; cbn [length]; lia). lia. }
      assert (Hnm : N.of_nat n <= m) by (subst n; lia).
      assert (Hgot : firstn n f <> []).
      { subst f. destruct n; [lia|]. cbn. discriminate. }
      assert (Hlen : lenN (firstn n f) <= m).
      { pose proof (lenN_firstn_le f n). lia. }
      destruct (skipn n f) as [|y r] eqn:Esk.
      * destruct (tog && is_nil (concat frs)) eqn:Et.
        -- intros [= <- <- <-]. apply andb_true_iff in Et. destruct Et as [_ Et].
           apply is_nil_true in Et. cbn [concat]. rewrite Et, !app_nil_r.
           rewrite <- (firstn_skipn n f) at 2. rewrite Esk, app_nil_r.
           repeat split; auto; discriminate.
        -- intros [= <- <- <-]. cbn [concat].
           rewrite <- (firstn_skipn n f) at 2. rewrite Esk, app_nil_r.
           repeat split; auto; discriminate.
      * intros [= <- <- <-]. cbn [concat]. rewrite app_assoc, <- Esk, firstn_skipn.
        repeat split; auto; discriminate.
Qed.

Lemma owed_cur_nil_frs c q : owed_cur [] c q = if c then owed_q q else [].
Proof. reflexivity. Qed.

(** The loop, for every current reader, every queue, every schedule. *)
Lemma sr_loop_spec m : forall q ks frs c got e s' ks',
  0 < m ->
  sr_loop q m ks frs c = (got, e, s', ks') ->
  read_post_f m (owed_cur frs c q) got e s'.
Proof.
  induction q as [|x q IH]; intros ks frs c got e s' ks' Hm;
    cbn [sr_loop]; destruct (match ks with [] => (m, false) | y :: _ => y end) as [k tog];
    destruct (frag_read m k tog frs) as [[g fin] rest] eqn:Ef;
    destruct (frag_read_spec m k tog frs g fin rest Hm Ef) as (Hcat & Hlen & Hfin & Hnf & Hne);
    unfold read_post_f, owed_cur.
  - (* empty queue *)
    destruct fin; cbn [negb].
    + rewrite (Hfin eq_refl) in Hcat. cbn [concat] in Hcat. rewrite app_nil_r in Hcat.
      destruct c; cbn [negb].
      * destruct g as [|b g'].
        -- intros [= <- <- <- <-]. cbn in Hcat. rewrite <- Hcat. unfold read_post_f; cbn; repeat split; try reflexivity; unfold lenN; cbn; lia.
        -- intros [= <- <- <- <-]. split; [assumption|]. split; [discriminate|].
           unfold owed_f. cbn [r_cur r_in owed_q]. rewrite app_nil_r, <- Hcat, app_nil_r. reflexivity.
      * intros [= <- <- <- <-]. split; [assumption|]. rewrite app_nil_r. split; [auto|].
        reflexivity.
    + intros [= <- <- <- <-]. split; [assumption|]. split; [apply Hnf; reflexivity|].
      unfold owed_f, owed_cur. cbn [r_cur r_in]. rewrite app_assoc, Hcat. reflexivity.
  - destruct fin; cbn [negb].
    + rewrite (Hfin eq_refl) in Hcat. cbn [concat] in Hcat. rewrite app_nil_r in Hcat.
      destruct c; cbn [negb].
      * destruct g as [|b g'].
        -- cbn in Hcat. rewrite <- Hcat. cbn [app].
           destruct x as [frs' c'| |code|].
           ++ intros E. specialize (IH (tl ks) frs' c' got e s' ks' Hm E).
              unfold read_post_f, owed_cur in IH. cbn [owed_q].
              destruct c'; [exact IH|]. rewrite app_nil_r in IH. exact IH.
           ++ intros [= <- <- <- <-]. unfold read_post_f; cbn; repeat split; try reflexivity; unfold lenN; cbn; lia.
           ++ intros [= <- <- <- <-]. unfold read_post_f; cbn; repeat split; try reflexivity; unfold lenN; cbn; lia.
           ++ intros [= <- <- <- <-]. unfold read_post_f; cbn; repeat split; try reflexivity; unfold lenN; cbn; lia.
        -- intros [= <- <- <- <-]. split; [assumption|]. split; [discriminate|].
           unfold owed_f. cbn [r_cur r_in]. rewrite <- Hcat. reflexivity.
      * intros [= <- <- <- <-]. split; [assumption|]. rewrite app_nil_r. split; [auto|].
        reflexivity.
    + intros [= <- <- <- <-]. split; [assumption|]. split; [apply Hnf; reflexivity|].
      unfold owed_f, owed_cur. cbn [r_cur r_in]. rewrite app_assoc, Hcat. reflexivity.
Qed.

(** sideConn.Read from every state of the curReader machine. *)
Theorem side_read_f_spec m ks s got e s' ks' :
  0 < m -> side_read_f m ks s = (got, e, s', ks') -> read_post_f m (owed_f s) got e s'.
Proof.
  intros Hm. unfold side_read_f, owed_f. destruct s as [[[frs c]|] q]; cbn [r_cur r_in].
  - apply sr_loop_spec; assumption.
  - destruct q as [|[frs c| |code|] q].
    + intros [= <- <- <- <-]. unfold read_post_f; cbn; repeat split; try reflexivity; unfold lenN; cbn; lia.
    + intros E. pose proof (sr_loop_spec m q ks frs c got e s' ks' Hm E) as H.
      unfold owed_cur in H. cbn [owed_q]. destruct c; [exact H|]. rewrite app_nil_r in H. exact H.
    + intros [= <- <- <- <-]. unfold read_post_f; cbn; repeat split; try reflexivity; unfold lenN; cbn; lia.
    + intros [= <- <- <- <-]. unfold read_post_f; cbn; repeat split; try reflexivity; unfold lenN; cbn; lia.
    + intros [= <- <- <- <-]. unfold read_post_f; cbn; repeat split; try reflexivity; unfold lenN; cbn; lia.
Qed.

(** Any sequence of buffer sizes: what was returned - including bytes
    returned together with an error - is exactly what had arrived and was
    owed, up to what is still owed. *)
Theorem side_reads_f_spec : forall ms ks s outs e s',
  Forall (fun m => 0 < m) ms ->
  side_reads_f ms ks s = (outs, e, s') ->
  concat outs ++ (match e with RNil => owed_f s' | _ => [] end) = owed_f s.
Proof.
  induction ms as [|m ms IH]; intros ks s outs e s' HF.
  - intros [= <- <- <-]. reflexivity.
  - inversion HF as [|? ? Hm HF']; subst. cbn [side_reads_f].
    destruct (side_read_f m ks s) as [[[got e1] s1] ks1] eqn:E1.
    pose proof (side_read_f_spec m ks s got e1 s1 ks1 Hm E1) as [_ Hp].
    destruct e1.
    + destruct (side_reads_f ms ks1 s1) as [[l e2] s2] eqn:E2. intros [= <- <- <-].
      specialize (IH ks1 s1 l e2 s2 HF' E2). destruct Hp as [_ Hp].
      cbn [concat]. rewrite <- app_assoc, IH. exact Hp.
    + intros [= <- <- <-]. destruct Hp as [-> ->]. reflexivity.
    + intros [= <- <- <-]. destruct Hp as [-> _]. cbn [concat]. rewrite !app_nil_r. reflexivity.
    + intros [= <- <- <-]. destruct Hp as [-> ->]. reflexivity.
Qed.

(** A message that was cut is never mistaken for a clean end: the Read that
    exhausts its fragments fails with an error, and so does every Read after
    it - never io.EOF, never a block. *)
Theorem cut_is_sticky m ks q :
  side_read_f m ks (mkR (Some ([], false)) q) = ([], RErrS, mkR (Some ([], false)) q, tl ks).
Proof.
  unfold side_read_f. cbn [r_cur r_in]. destruct q; cbn [sr_loop];
    destruct (match ks with [] => (m, false) | y :: _ => y end) as [k tog]; reflexivity.
Qed.

Theorem cut_never_eof m : forall q ks frs got e s' ks',
  0 < m -> sr_loop q m ks frs false = (got, e, s', ks') -> e = RNil \/ e = RErrS.
Proof.
  intros q ks frs got e s' ks' Hm. destruct q; cbn [sr_loop];
    destruct (match ks with [] => (m, false) | y :: _ => y end) as [k tog];
    destruct (frag_read m k tog frs) as [[g fin] rest]; destruct fin; cbn [negb];
    intros [= <- <- <- <-]; auto.
Qed.
