(** Caller memory and the reply decoder (sniproxy/decoder.go [bytes],
    msg_read.go [readResponse.decodeFrom], tunnel.go [Read]).

    [tunnel.Read(buf)] hands the caller's slice to the transport as the
    decode target of the reply: the reader goroutine decodes the bytes field
    of the reply straight into it.  [buf] is a window of somebody's array:
    what lies behind [len(buf)] -- up to [cap(buf)] and beyond -- belongs to
    the caller (the result of another Read that has already completed, for
    instance).  [decoder.bytes] decodes in place exactly when the length
    prefix does not exceed a LIMIT it computes from the slice; this file
    models the caller's array from the start of the window and states what
    the decoder may touch, with the limit as a parameter: [len(buf)] in the
    source (read off by the translator through the frozen codec source and
    the code refinement of decoder.bytes), [cap(buf)] in the seeded change
    C03-h.

    Definitions and proofs. *)
From Coq Require Import List NArith Bool Lia Arith PeanoNat.
From Verif Require Import Lib.Bytes Sni.Wire Sni.WireProofs.
Import ListNotations.
Local Open Scope N_scope.

Definition overlay (arr p : bytes) : bytes := p ++ skipn (List.length p) arr.

(** The caller's array (window ++ behind) after the bytes field of a reply
    has gone through [decoder.bytes] with the given limit.  Only the
    in-place branch writes into the caller's memory; the two allocating
    branches leave it alone. *)
Definition caller_array_after (limit : N) (window behind : bytes) (d : dstate) : bytes :=
  let '(n, d1) := d_u64 d in
  match err d1 with
  | Some _ => window ++ behind
  | None =>
      if (n =? 0) || (two63 <=? n) || negb (n <=? limit) then window ++ behind
      else overlay (window ++ behind) (fst (d_read n d1))
  end.

Lemma d_read_len n d : lenN (fst (d_read n d)) <= n.
Proof.
  unfold d_read. destruct (err d); [cbn; lia|].
  destruct (N.leb_spec n (lenN (inp d))) as [H|H]; cbn [fst].
  - unfold lenN. rewrite firstn_length. lia.
  - lia.
Qed.

Lemma skipn_twice {A} a : forall b (l : list A), skipn a (skipn b l) = skipn (b + a) l.
Proof.
  induction b as [|b IH]; intros l; [reflexivity|].
  destruct l as [|x l]; cbn [skipn Nat.add]; [now destruct a|apply IH].
Qed.

Lemma skipn_overlay arr p k :
  (List.length p <= k)%nat -> skipn k (overlay arr p) = skipn k arr.
Proof.
  intros H. unfold overlay.
  rewrite skipn_app. rewrite skipn_all2 by assumption. cbn [app].
  rewrite skipn_twice. f_equal. lia.
Qed.

(** The frame condition, for the limit of the source: whatever the reply --
    shorter than, as long as, or longer than the window, truncated, with any
    length prefix -- nothing behind [len(buf)] changes. *)
Theorem reply_decoder_writes_within_len window behind d :
  skipn (List.length window) (caller_array_after (lenN window) window behind d) = behind.
Proof.
  unfold caller_array_after. destruct (d_u64 d) as [n d1].
  assert (B : skipn (List.length window) (window ++ behind) = behind).
  { rewrite skipn_app, skipn_all, Nat.sub_diag. reflexivity. }
  destruct (err d1); [exact B|].
  destruct ((n =? 0) || (two63 <=? n) || negb (n <=? lenN window)) eqn:E; [exact B|].
  apply orb_false_elim in E. destruct E as [_ E]. apply negb_false_iff in E. apply N.leb_le in E.
  rewrite skipn_overlay; [exact B|].
  pose proof (d_read_len n d1) as L. unfold lenN in *. lia.
Qed.

(** ... and the window itself keeps its length. *)
Theorem reply_decoder_keeps_length limit window behind d :
  limit <= lenN (window ++ behind) ->
  List.length (caller_array_after limit window behind d) = List.length (window ++ behind).
Proof.
  intros Hl. unfold caller_array_after. destruct (d_u64 d) as [n d1].
  destruct (err d1); [reflexivity|].
  destruct ((n =? 0) || (two63 <=? n) || negb (n <=? limit)) eqn:E; [reflexivity|].
  apply orb_false_elim in E. destruct E as [_ E]. apply negb_false_iff in E. apply N.leb_le in E.
  unfold overlay. rewrite app_length, skipn_length.
  pose proof (d_read_len n d1) as L. unfold lenN in *. lia.
Qed.

(** The limit of the seeded change C03-h: a 2-byte window with 3 bytes of
    somebody else's data behind it inside its capacity of 5; a well-formed
    reply of 4 bytes.  Two of the bytes behind the window are overwritten. *)
Theorem reply_decoder_cap_limit_refuted :
  let window := [0; 0] in let behind := [9; 9; 9] in
  let reply_field := [4;0;0;0;0;0;0;0; 1; 2; 3; 4] in
  caller_array_after 5 window behind (init reply_field) = [1; 2; 3; 4; 9] /\
  skipn 2 (caller_array_after 5 window behind (init reply_field)) <> behind /\
  caller_array_after (lenN window) window behind (init reply_field) = [0; 0; 9; 9; 9].
Proof. cbv zeta. vm_compute. repeat split. discriminate. Qed.
