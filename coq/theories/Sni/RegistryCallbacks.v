(** The notifications of a connection under every callback configuration
    (seeded change C15-k).

    ServerConfig has two optional callbacks.  OnConnect(name) returns the
    session; OnDisconnect(name, session) is called when the connection has
    ended -- with session 0 when OnConnect is not configured.  The registry
    model (Sni/Registry.v) has both configured.  Here: what one accepted
    connection that has ended produces, as a function of which callbacks are
    configured and of the conditions under which ServeBackName installs the
    deferred disconnect call (read off the source:
    [gen_disconnect_defer_guard]). *)
From Coq Require Import List NArith ZArith Bool.
Import ListNotations.

Inductive cond := CHasConnect | CHasDisconnect.

Definition holds (hc hd : bool) (c : cond) : bool :=
  match c with CHasConnect => hc | CHasDisconnect => hd end.

Inductive note := NConnect (n : N) (s : Z) | NDisconnect (n : N) (s : Z).

(** One connection under name [n] to which OnConnect (if configured) gives
    the session [s]. *)
Definition notifications (guards : list cond) (hc hd : bool) (n : N) (s : Z) : list note :=
  (if hc then [NConnect n s] else []) ++
  (if forallb (holds hc hd) guards then [NDisconnect n (if hc then s else 0%Z)] else []).

Definition is_disconnect (x : note) : bool := match x with NDisconnect _ _ => true | _ => false end.
Definition is_connect (x : note) : bool := match x with NConnect _ _ => true | _ => false end.

Definition history (guards : list cond) (hc hd : bool) (conns : list (N * Z)) : list note :=
  flat_map (fun c => notifications guards hc hd (fst c) (snd c)) conns.

(** The guard of the source: the disconnect callback being configured, and
    nothing else. *)
Definition source_guard : list cond := [CHasDisconnect].

Theorem callback_balance : forall hc hd conns,
  length (filter is_disconnect (history source_guard hc hd conns)) = (if hd then length conns else 0) /\
  length (filter is_connect (history source_guard hc hd conns)) = (if hc then length conns else 0).
Proof.
  intros hc hd conns. induction conns as [|[n s] l [I1 I2]]; [destruct hc, hd; auto|].
  unfold history in *. cbn [flat_map]. rewrite !filter_app, !app_length, I1, I2.
  unfold notifications, source_guard. cbn [forallb holds fst snd].
  destruct hc, hd; cbn; auto.
Qed.

(** Each ended connection's own notifications: the disconnect carries the
    session OnConnect returned, or 0 without OnConnect. *)
Theorem callback_sessions : forall hc hd n s,
  notifications source_guard hc hd n s =
    match hc, hd with
    | true, true => [NConnect n s; NDisconnect n s]
    | true, false => [NConnect n s]
    | false, true => [NDisconnect n 0%Z]
    | false, false => []
    end.
Proof. intros [|] [|] n s; reflexivity. Qed.

(** The seeded change C15-k, kept as a counter-model: the defer nested in
    the OnConnect condition.  With both callbacks or neither nothing changes;
    with OnDisconnect alone no connection is ever reported as ended. *)
Definition nested_guard : list cond := [CHasConnect; CHasDisconnect].

Theorem nested_disconnect_refuted :
  (forall n s, notifications nested_guard true true n s = notifications source_guard true true n s) /\
  (forall n s, notifications nested_guard false false n s = notifications source_guard false false n s) /\
  (forall n s, notifications nested_guard true false n s = notifications source_guard true false n s) /\
  history nested_guard false true [(7%N, 1%Z); (7%N, 2%Z); (8%N, 3%Z)] = [] /\
  history source_guard false true [(7%N, 1%Z); (7%N, 2%Z); (8%N, 3%Z)]
    = [NDisconnect 7 0; NDisconnect 7 0; NDisconnect 8 0].
Proof. repeat split; reflexivity. Qed.
