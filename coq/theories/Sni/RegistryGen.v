(** Obligations of C15 on the skeleton regenerated from /repo's current
    sniproxy/server.go (Gen/ServerSkel.v).  The registry model
    (Sni/Registry.v) was written against the statement skeletons frozen here:
    [upgrade] deletes the old entry and maps the new one inside one critical
    section, [unmap] compares before deleting, [ServeBackName] runs
    upgrade; defer{unmap; Close}; callback; OnConnect; defer OnDisconnect;
    serve.  When the source changes shape the corresponding [Lemma] stops
    checking. *)
From Coq Require Import List NArith Bool String.
From Verif Require Import Sni.SchedSkel Gen.ServerSkel Sni.RegistryBracket.
Import ListNotations.
Local Open Scope string_scope.

(** ** Every access to Server.endpoints is under the mutex *)

Definition endpoints_lockedb : bool :=
  forallb (fun fu => forallb (fun u => snd u) (snd fu)) gen_endpoints_uses.

Definition endpoints_users : list string := map fst gen_endpoints_uses.

Lemma gen_endpoints_locked :
  endpoints_lockedb = true /\
  endpoints_users = ["Server.endpoint"; "Server.unmap"; "Server.upgrade"].
Proof. vm_compute. split; reflexivity. Qed.

(** ** The frozen skeletons *)

Definition frozen_endpoint : list string :=
  [ "0 call s.mu.Lock()";
      "0 defer s.mu.Unlock()";
      "0 assign c, ok := s.endpoints[name]";
      "0 if !ok";
      "1 return nil, errcode.NotFoundf(""not found"")";
      "0 return c, nil" ].

Lemma gen_endpoint_frozen : skel_is gen_server_skel "Server.endpoint" frozen_endpoint = true.
Proof. vm_compute. reflexivity. Qed.

Definition frozen_unmap : list string :=
  [ "0 call s.mu.Lock()";
      "0 defer s.mu.Unlock()";
      "0 if s.endpoints[name] == ep";
      "1 call delete(s.endpoints, name)" ].

Lemma gen_unmap_frozen : skel_is gen_server_skel "Server.unmap" frozen_unmap = true.
Proof. vm_compute. reflexivity. Qed.

Definition frozen_upgrade : list string :=
  [ "0 assign conn, err := s.upgrader.Upgrade(c.Resp, c.Req, nil)";
      "0 if err != nil";
      "1 return nil, err";
      "0 assign ep := newEndpointClient(conn, opt)";
      "0 if opt.Siding";
      "1 call ep.setToken with closure";
      "2 if s.sideToken == nil";
      "3 return """", nil";
      "2 return s.sideToken(name)";
      "0 call s.mu.Lock()";
      "0 defer s.mu.Unlock()";
      "0 assign old, found := s.endpoints[name]";
      "0 if found";
      "1 call delete(s.endpoints, name)";
      "1 go func";
      "2 assign err := old.Close()";
      "2 if err != nil";
      "2 else";
      "0 assign s.endpoints[name] = ep";
      "0 return ep, nil" ].

Lemma gen_upgrade_frozen : skel_is gen_server_skel "Server.upgrade" frozen_upgrade = true.
Proof. vm_compute. reflexivity. Qed.

Definition frozen_ServeBackName : list string :=
  [ "0 assign err := checkEndpointName(name)";
      "0 if err != nil";
      "1 return err";
      "0 assign query := c.Req.URL.Query()";
      "0 assign side := query.Get(""side"")";
      "0 if side != """"";
      "1 assign k, err := decodeSessionKey(side)";
      "1 if err != nil";
      "2 return errcode.InvalidArgf(""invalid session: %s"", err)";
      "1 return s.serveBackSide(c, name, k)";
      "0 assign opt, err := optionsFromQuery(query)";
      "0 if err != nil";
      "1 return err";
      "0 assign ep, err := s.upgrade(c, name, opt)";
      "0 if err != nil";
      "1 return err";
      "0 defer func";
      "1 call s.unmap(name, ep)";
      "1 call ep.Close()";
      "0 if s.callback != nil";
      "1 call s.callback(name, ep)";
      "0 decl var session int64";
      "0 if s.onConnect != nil";
      "1 assign session = s.onConnect(name)";
      "0 defer func";
      "1 if s.onDisconnect != nil";
      "2 call s.onDisconnect(name, session)";
      "0 assign err := ep.serve()";
      "0 if err != nil";
      "0 return nil" ].

Lemma gen_ServeBackName_frozen : skel_is gen_server_skel "Server.ServeBackName" frozen_ServeBackName = true.
Proof. vm_compute. reflexivity. Qed.

Definition frozen_ServeBack : list string :=
  [ "0 return s.ServeBackName(c, c.User)" ].

Lemma gen_ServeBack_frozen : skel_is gen_server_skel "Server.ServeBack" frozen_ServeBack = true.
Proof. vm_compute. reflexivity. Qed.


(** The registry functions contain no blocking channel operation: a
    critical section never waits. *)
Lemma gen_server_nonblocking : gen_server_blocking = [].
Proof. reflexivity. Qed.

(** ** The kick closes the websocket (Sni/RegistryKick.v)

    The goroutine [upgrade] starts for the client it displaces calls exactly
    one method of it, and that method ends in an unconditional
    [c.conn.Close()] (a top-level statement of its body): whatever the peer
    does, the kicked connection's websocket is closed when the graceful part
    is over. *)
Definition gen_kick_forces : bool :=
  match gen_kick_calls with
  | [c] => existsb (String.eqb c) gen_conn_closing_methods
  | _ => false
  end.

Lemma gen_kick_forces_close : gen_kick_forces = true.
Proof. vm_compute. reflexivity. Qed.

Lemma gen_kick_calls_Close :
  gen_kick_calls = ["old.Close"] /\ gen_conn_closing_methods = ["old.Close"].
Proof. vm_compute. split; reflexivity. Qed.

(** ** The registry is written by upgrade and by the connection's own unmap only

    The functions that assign to or delete from the endpoints map are
    [upgrade] and [unmap]; [unmap] is called in exactly one place, the
    deferred clean-up of [ServeBackName] -- i.e. by the connection's own
    thread after its [serve()] has returned, which is the [AUnmap] step of
    the model.  No other path (the front path in particular: [Server.dial],
    the proxy) changes what a name resolves to. *)
Lemma gen_registry_writers_ok :
  gen_registry_writers = ["Server.unmap"; "Server.upgrade"] /\
  gen_unmap_callers = [("Server.ServeBackName", "deferred")].
Proof. vm_compute. split; reflexivity. Qed.

(** ** The registration bracket of ServeBackName (Sni/RegistryBracket.v)

    The only function that calls [upgrade] is [ServeBackName], and between
    that call (with the error check of the failed upgrade) and the [defer]
    that calls [unmap] there is NO statement: no way out of the function lies
    between storing the client in the registry and installing what takes it
    out again.  ([gen_register_bracket]: per calling function, the top-level
    statements between the two, each with whether a return / panic / goto
    occurs inside.) *)
Lemma gen_register_unmap_adjacent :
  gen_register_bracket = [("Server.ServeBackName", [])].
Proof. vm_compute. reflexivity. Qed.

(** The weaker form, which is what the bracket theorem needs: statements may
    stand between the two as long as none of them can leave the function. *)
Definition gen_register_unmap_no_exitb : bool :=
  match gen_register_bracket with
  | [] => false
  | l => forallb (fun fb => forallb (fun p => negb (snd p)) (snd fb)) l
  end.

Lemma gen_register_unmap_no_exit : gen_register_unmap_no_exitb = true.
Proof. vm_compute. reflexivity. Qed.

Lemma gen_ServeBackName_bracket : forall post,
  match gen_register_bracket with
  | [(_, between)] => bracket_ok (bracket_of between post) = true
  | _ => False
  end.
Proof. intros post. rewrite gen_register_unmap_adjacent. apply adjacent_bracket_ok. Qed.

(** ** The disconnect notification is installed whenever OnDisconnect is configured
    (Sni/RegistryCallbacks.v)

    The one call of [onDisconnect] in ServeBackName is deferred, and the only
    condition between the function's top level and the call is
    [s.onDisconnect != nil] -- in particular the defer is not nested in the
    OnConnect condition. *)
Lemma gen_disconnect_defer_guard_ok :
  gen_disconnect_defer_guard = [("deferred", ["s.onDisconnect != nil"])].
Proof. vm_compute. reflexivity. Qed.

(** ** One key for every access of the registry

    Every index expression on the endpoints map and every key argument of a
    delete on it is the method's [name] parameter itself: no operation looks
    a name up under a derived key (folded, trimmed, ...) while another uses
    the raw one.  (Sni/RegistryKey.v: the key is the name; names that differ
    are independent.) *)
Definition gen_registry_key_uniformb : bool :=
  match gen_registry_keys with
  | [] => false
  | l => forallb (fun fk => String.eqb (snd fk) "name") l
  end.

Lemma gen_registry_key_uniform : gen_registry_key_uniformb = true.
Proof. vm_compute. reflexivity. Qed.

Lemma gen_registry_key_sites :
  map fst gen_registry_keys =
    ["Server.endpoint"; "Server.unmap"; "Server.unmap"; "Server.upgrade"; "Server.upgrade"; "Server.upgrade"].
Proof. vm_compute. reflexivity. Qed.
