(** Proofs about the endpoint's serve loop, connection set and dial handlers
    (Sni/ShutdownDial.v). *)
From Coq Require Import List NArith Bool String Lia Arith.
From Verif Require Import Sni.SchedSkel Sni.ShutdownEndpoint Sni.DialSkel Sni.ShutdownDial.
Import ListNotations.
Local Open Scope N_scope.

(** ** Association lists *)

Lemma getn_setn_same {A} t (x : A) l : getn t (setn t x l) = Some x.
Proof.
  induction l as [|[t' y] r IH]; cbn [setn getn].
  - now rewrite N.eqb_refl.
  - destruct (t =? t') eqn:E; cbn [getn]; rewrite ?N.eqb_refl, ?E; auto.
Qed.

Lemma getn_setn_other {A} t t' (x : A) l : t <> t' -> getn t' (setn t x l) = getn t' l.
Proof.
  intros H. induction l as [|[k y] r IH]; cbn [setn getn].
  - destruct (t' =? t) eqn:E; [apply N.eqb_eq in E; congruence|reflexivity].
  - destruct (t =? k) eqn:E; cbn [getn].
    + apply N.eqb_eq in E. subst k.
      destruct (t' =? t) eqn:E2; [apply N.eqb_eq in E2; congruence|reflexivity].
    + destruct (t' =? k); [reflexivity|exact IH].
Qed.

Lemma getn_In {A} t (x : A) l : getn t l = Some x -> In (t, x) l.
Proof.
  induction l as [|[k y] r IH]; cbn [getn]; [discriminate|].
  destruct (t =? k) eqn:E.
  - apply N.eqb_eq in E. subst k. intros H. injection H as <-. now left.
  - intros H. right. now apply IH.
Qed.

Lemma In_getn {A} t (x : A) l : In (t, x) l -> exists y, getn t l = Some y.
Proof.
  induction l as [|[k y] r IH]; cbn [getn In]; [contradiction|].
  intros [H|H].
  - injection H as -> ->. rewrite N.eqb_refl. now eexists.
  - destruct (t =? k); [now eexists|now apply IH].
Qed.

Lemma memn_In h l : memn h l = true <-> In h l.
Proof.
  unfold memn. rewrite existsb_exists. split.
  - intros (x & Hx & E). apply N.eqb_eq in E. now subst.
  - intros H. exists h. split; [assumption|apply N.eqb_refl].
Qed.

Lemma all_done_get {A} (done : A -> bool) l t x :
  all_done done l = true -> getn t l = Some x -> done x = true.
Proof.
  unfold all_done. intros H Hx. rewrite forallb_forall in H.
  specialize (H (t, x) (getn_In _ _ _ Hx)). cbn [fst] in H. now rewrite Hx in H.
Qed.

Lemma forallb_false_exists {A} (f : A -> bool) l :
  forallb f l = false -> exists x, In x l /\ f x = false.
Proof.
  induction l as [|p r IH]; cbn [forallb]; [discriminate|].
  destruct (f p) eqn:E; cbn [andb].
  - intros H. destruct (IH H) as (x & Hx & Fx). exists x. split; [now right|assumption].
  - intros _. exists p. split; [now left|assumption].
Qed.

Lemma all_done_false {A} (done : A -> bool) l :
  all_done done l = false -> exists t x, getn t l = Some x /\ done x = false.
Proof.
  unfold all_done. intros H. apply forallb_false_exists in H.
  destruct H as ([t y] & Hin & G). cbn [fst] in G.
  destruct (getn t l) as [x|] eqn:E; [|discriminate].
  exists t, x. split; [exact E|assumption].
Qed.

Lemma sum_by_setn {A} (m : A -> nat) t x y l :
  getn t l = Some x -> (sum_by m (setn t y l) + m x = sum_by m l + m y)%nat.
Proof.
  induction l as [|[k z] r IH]; cbn [getn setn sum_by]; [discriminate|].
  destruct (t =? k) eqn:E.
  - intros H. injection H as ->. cbn [sum_by]. lia.
  - intros H. cbn [sum_by]. specialize (IH H). lia.
Qed.

Lemma sum_by_setn_new {A} (m : A -> nat) t y l :
  getn t l = None -> sum_by m (setn t y l) = (sum_by m l + m y)%nat.
Proof.
  induction l as [|[k z] r IH]; cbn [getn setn sum_by]; [lia|].
  destruct (t =? k) eqn:E; [discriminate|].
  intros H. cbn [sum_by]. rewrite (IH H). lia.
Qed.

Ltac break_step H :=
  repeat match type of H with
  | context [match ?e with _ => _ end] => let E := fresh "E" in destruct e eqn:E
  end; try discriminate; try (injection H as H; subst).

Ltac fields :=
  cbn [d_serve d_set_closed d_set d_snap d_incoming d_handed d_closed d_eclosed d_handlers d_ops
       w_serve w_handlers w_ops w_closed w_set w_incoming close_if] in *.

Ltac norm :=
  fields; repeat match goal with E : d_serve ?s = _ |- context [d_serve ?s] => rewrite E end;
  repeat match goal with E : d_snap ?s = _ |- context [d_snap ?s] => rewrite E end;
  repeat match goal with
         | E : d_set_closed ?s = true |- context [d_set_closed ?s] => rewrite E
         | E : d_set_closed ?s = false |- context [d_set_closed ?s] => rewrite E
         end.

(** Look a handler (or op thread) up after a [setn]. *)
Ltac lookup H t t' :=
  destruct (N.eq_dec t t') as [?|?];
  [ subst; rewrite getn_setn_same in H; injection H as H; subst
  | rewrite getn_setn_other in H by congruence ].

Section Proofs.
Variable g : ecfg.
Variable sh : dshape.
Notation dstep := (dstep g sh).
Notation dexec := (dexec g sh).

Definition past_shutdown (p : spc) : bool :=
  match p with LShut | LWait | LDone => true | _ => false end.

(** ** The ownership invariant

    A connection that has passed sendAccept (it is in the backlog or with
    the application) is closed, or is in the connection set -- which the
    serve loop's cleanup closes as a whole --, or its handler is still on its
    way to one of the two. *)
Record dinv (s : dstate) : Prop := mkInv {
  inv_flag : d_set_closed s = past_shutdown (d_serve s);
  inv_snap : d_serve s <> LShut -> d_snap s = [];
  inv_set : d_set_closed s = true ->
            forall h, In h (d_set s) -> In h (d_snap s) \/ In h (d_closed s);
  inv_own : forall h x, getn h (d_handlers s) = Some x -> h_pc x = HAdded \/ h_pc x = HDone ->
            In h (d_set s) \/ In h (d_closed s);
  inv_vis : forall h, In h (d_incoming s) \/ In h (d_handed s) ->
            exists x, getn h (d_handlers s) = Some x /\ h_pc x <> HSend /\ h_pc x <> HAcceptFailed;
  inv_ops : forall t x, getn t (d_ops s) = Some x -> o_pc x = PBlocked \/ o_pc x = PClosing ->
            In (o_sess x) (d_set s) \/ In (o_sess x) (d_closed s);
  inv_join : d_serve s = LDone ->
             all_done hdone (d_handlers s) = true /\ all_done odone (d_ops s) = true
}.

Lemma dinv_init : dinv dinit.
Proof.
  constructor; cbn; try tauto; try discriminate.
Qed.

Hypothesis Hsh : shape_closes sh = true.

Lemma sh_parts : sh_accept_fail_closes sh = true /\ sh_add_fail_closes sh = true.
Proof. unfold shape_closes in Hsh. now apply andb_prop in Hsh. Qed.


(** A thread that was not finished moved: serve cannot have returned. *)
Ltac not_joined Ijoin E E0 :=
  let Hd := fresh "Hd" in let J1 := fresh "J" in let J2 := fresh "J" in let D := fresh "D" in
  intros Hd; destruct (Ijoin Hd) as [J1 J2];
  first [ pose proof (all_done_get _ _ _ _ J1 E) as D; unfold hdone in D; rewrite E0 in D; discriminate
        | pose proof (all_done_get _ _ _ _ J2 E) as D; unfold odone in D; rewrite E0 in D; discriminate ].

(** Handler [h] moved to a pc that is neither HAdded nor HDone. *)
Ltac own_mid Iown h :=
  let h' := fresh "h'" in let x := fresh "x" in let Hx := fresh "Hx" in let Hp := fresh "Hp" in
  intros h' x Hx Hp; lookup Hx h h'; [cbn in Hp; destruct Hp; discriminate|eauto].

(** Handler [h] moved, it was not visible before and nothing became visible. *)
Ltac vis_hidden Ivis h :=
  let h' := fresh "h'" in let Hv := fresh "Hv" in let x := fresh "x" in
  intros h' Hv; destruct (Ivis h' Hv) as (x & ? & ? & ?);
  exists x; rewrite getn_setn_other; [auto|intros ->; congruence].

(** Handler [h] moved to a pc that may be visible. *)
Ltac vis_shown Ivis h :=
  let h' := fresh "h'" in let Hv := fresh "Hv" in let x := fresh "x" in
  intros h' Hv; destruct (N.eq_dec h h') as [->|?];
  [ eexists; rewrite getn_setn_same; cbn; repeat split; discriminate
  | destruct (Ivis h' Hv) as (x & ? & ? & ?); exists x; rewrite getn_setn_other by congruence; auto ].

(** One more connection is closed. *)
Ltac set_grow Iset :=
  let Hc := fresh "Hc" in let h' := fresh "h'" in let Hin := fresh "Hin" in
  intros Hc h' Hin; destruct (Iset Hc h' Hin); [now left|right; now right].
Ltac ops_grow Iops :=
  let t' := fresh "t'" in let x := fresh "x" in let Hx := fresh "Hx" in let Hp := fresh "Hp" in
  intros t' x Hx Hp; destruct (Iops t' x Hx Hp); [now left|right; now right].

Lemma dinv_step s a s' : dinv s -> dstep s a = Some s' -> dinv s'.
Proof.
  intros I H. destruct sh_parts as [Sa Sb].
  destruct I as [Iflag Isnap Iset Iown Ivis Iops Ijoin].
  destruct a as [h|h|h i|h|h|h|h|t h k|t|t data|t| | | | | | | ]; cbn [ShutdownDial.dstep] in H.
  - (* DDial *)
    break_step H. constructor; norm;
      [ exact Iflag | exact Isnap | exact Iset | own_mid Iown h | vis_hidden Ivis h | exact Iops | discriminate ].
  - (* DTimer *)
    break_step H. constructor; norm;
      [ exact Iflag | exact Isnap | exact Iset | own_mid Iown h | vis_hidden Ivis h | exact Iops
      | not_joined Ijoin E E0 ].
  - (* DArm *)
    break_step H.
    + (* into the backlog *)
      constructor; norm;
        [ exact Iflag | exact Isnap | exact Iset | own_mid Iown h | | exact Iops | not_joined Ijoin E E0 ].
      intros h' Hv. destruct (N.eq_dec h h') as [->|Hne].
      * eexists. rewrite getn_setn_same. cbn. repeat split; discriminate.
      * assert (Hv' : In h' (d_incoming s) \/ In h' (d_handed s)).
        { destruct Hv as [Hv|Hv]; [|now right]. apply in_app_or in Hv.
          destruct Hv as [Hv|[Hv|[]]]; [now left|congruence]. }
        destruct (Ivis h' Hv') as (x & G1 & G2 & G3).
        exists x. rewrite getn_setn_other by congruence. auto.
    + (* gives up *)
      constructor; norm;
        [ exact Iflag | exact Isnap | exact Iset | own_mid Iown h | vis_hidden Ivis h | exact Iops
        | not_joined Ijoin E E0 ].
  - (* DExitFail *)
    rewrite Sa in H. break_step H. constructor; norm;
      [ exact Iflag | exact Isnap | set_grow Iset | | vis_hidden Ivis h | ops_grow Iops
      | not_joined Ijoin E E0 ].
    intros h' x Hx Hp. lookup Hx h h'; [right; now left|].
    destruct (Iown h' x Hx Hp); [now left|right; now right].
  - (* DAddStep *)
    break_step H.
    + (* the set is shut down *)
      constructor; norm;
        [ exact Iflag | exact Isnap | exact Iset | own_mid Iown h | vis_shown Ivis h | exact Iops
        | not_joined Ijoin E E0 ].
    + (* registered *)
      constructor; norm;
        [ exact Iflag | exact Isnap | congruence | | vis_shown Ivis h | | not_joined Ijoin E E0 ].
      * intros h' x Hx Hp. lookup Hx h h'; [left; now left|].
        destruct (Iown h' x Hx Hp); [left; now right|now right].
      * intros t x Hx Hp. destruct (Iops t x Hx Hp); [left; now right|now right].
  - (* DExitAddFail *)
    rewrite Sb in H. break_step H. constructor; norm;
      [ exact Iflag | exact Isnap | set_grow Iset | | vis_shown Ivis h | ops_grow Iops
      | not_joined Ijoin E E0 ].
    intros h' x Hx Hp. lookup Hx h h'; [right; now left|].
    destruct (Iown h' x Hx Hp); [now left|right; now right].
  - (* DExitOK *)
    assert (Hreg : In h (d_set s) \/ In h (d_closed s)).
    { destruct (getn h (d_handlers s)) as [x|] eqn:E; [|discriminate].
      destruct (h_pc x) eqn:Ep; try discriminate. apply (Iown h x E). now left. }
    break_step H. destruct (sh_success_closes sh); fields.
    + constructor; norm;
        [ exact Iflag | exact Isnap | set_grow Iset | | vis_shown Ivis h | ops_grow Iops
        | not_joined Ijoin E E0 ].
      intros h' x Hx Hp. lookup Hx h h'; [right; now left|].
      destruct (Iown h' x Hx Hp); [now left|right; now right].
    + constructor; norm;
        [ exact Iflag | exact Isnap | exact Iset | | vis_shown Ivis h | exact Iops
        | not_joined Ijoin E E0 ].
      intros h' x Hx Hp. lookup Hx h h'; [exact Hreg|eauto].
  - (* DOp *)
    break_step H. constructor; norm;
      [ exact Iflag | exact Isnap | exact Iset | exact Iown | exact Ivis | | discriminate ].
    intros t' x Hx Hp. lookup Hx t t'; [cbn in Hp; destruct Hp; discriminate|eauto].
  - (* DFind *)
    destruct (getn t (d_ops s)) as [x0|] eqn:E; [|discriminate].
    destruct (o_pc x0) eqn:E0; try discriminate.
    destruct (negb (d_set_closed s) && memn (o_sess x0) (d_set s)) eqn:E1; injection H as <-.
    + (* found *)
      apply andb_prop in E1. destruct E1 as [_ Hm]. apply memn_In in Hm.
      constructor; norm;
        [ exact Iflag | exact Isnap | exact Iset | exact Iown | exact Ivis | | not_joined Ijoin E E0 ].
      intros t' x Hx Hp. lookup Hx t t'; [cbn [o_sess]; now left|eauto].
    + constructor; norm;
        [ exact Iflag | exact Isnap | exact Iset | exact Iown | exact Ivis | | not_joined Ijoin E E0 ].
      intros t' x Hx Hp. lookup Hx t t'; [cbn in Hp; destruct Hp; discriminate|eauto].
  - (* DOpRet *)
    break_step H. constructor; norm;
      [ exact Iflag | exact Isnap | exact Iset | exact Iown | exact Ivis | | not_joined Ijoin E E0 ].
    intros t' x Hx Hp. lookup Hx t t'; [cbn in Hp; destruct Hp; discriminate|eauto].
  - (* DOpClose *)
    destruct (getn t (d_ops s)) as [x0|] eqn:E; [|discriminate].
    destruct (o_pc x0) eqn:E0; try discriminate. injection H as <-.
    destruct (d_set_closed s) eqn:Ec; fields.
    + constructor; norm;
        [ exact Iflag | exact Isnap | set_grow Iset | | exact Ivis | | not_joined Ijoin E E0 ].
      * intros h' x Hx Hp. destruct (Iown h' x Hx Hp); [now left|right; now right].
      * intros t' x Hx Hp. lookup Hx t t'; [cbn in Hp; destruct Hp; discriminate|].
        destruct (Iops t' x Hx Hp); [now left|right; now right].
    + constructor; norm;
        [ exact Iflag | exact Isnap | discriminate | | exact Ivis | | not_joined Ijoin E E0 ].
      * intros h' x Hx Hp. destruct (Iown h' x Hx Hp) as [G|G]; [|right; now right].
        destruct (N.eq_dec h' (o_sess x0)) as [->|Hne]; [right; now left|].
        left. now apply in_in_remove.
      * intros t' x Hx Hp. lookup Hx t t'; [cbn in Hp; destruct Hp; discriminate|].
        destruct (Iops t' x Hx Hp) as [G|G]; [|right; now right].
        destruct (N.eq_dec (o_sess x) (o_sess x0)) as [Heq|Hne]; [rewrite Heq; right; now left|].
        left. now apply in_in_remove.
  - (* DLoss *)
    break_step H. constructor; norm;
      [ exact Iflag | intros _; apply Isnap; discriminate | exact Iset | exact Iown | exact Ivis | exact Iops
      | discriminate ].
  - (* DShutdown *)
    break_step H. constructor; norm;
      [ reflexivity | intros Hn; now destruct Hn | intros _ h' Hin; now left | exact Iown | exact Ivis
      | exact Iops | discriminate ].
  - (* DCleanOne *)
    break_step H. constructor; norm;
      [ exact Iflag | intros Hn; now destruct Hn | | | exact Ivis | ops_grow Iops | discriminate ].
    + intros Hc h' Hin. destruct (Iset Hc h' Hin) as [G|G]; [|right; now right].
      destruct G as [->|G]; [right; now left|now left].
    + intros h' x Hx Hp. destruct (Iown h' x Hx Hp); [now left|right; now right].
  - (* DCleanDone *)
    break_step H. constructor; norm;
      [ exact Iflag | reflexivity | exact Iset | exact Iown | exact Ivis | exact Iops | discriminate ].
  - (* DJoin *)
    break_step H. apply andb_prop in E0. constructor; norm;
      [ exact Iflag | intros _; apply Isnap; discriminate | exact Iset | exact Iown | exact Ivis | exact Iops
      | intros _; exact E0 ].
  - (* DAccept *)
    break_step H. constructor; norm;
      [ exact Iflag | exact Isnap | exact Iset | exact Iown | | exact Iops | exact Ijoin ].
    intros h' Hv. apply Ivis. destruct Hv as [Hv|[->|Hv]];
      [left; now right|left; now left|now right].
  - (* DEpClose *)
    injection H as <-. constructor; norm;
      [ exact Iflag | exact Isnap | exact Iset | exact Iown | exact Ivis | exact Iops | exact Ijoin ].
Qed.

Lemma dinv_exec acts : forall s s', dinv s -> dexec s acts = Some s' -> dinv s'.
Proof.
  induction acts as [|a r IH]; intros s s' Hi He; cbn [ShutdownDial.dexec] in He.
  - now injection He as <-.
  - destruct (dstep s a) as [s1|] eqn:E; [|discriminate].
    eapply IH; [|exact He]. eapply dinv_step; eassumption.
Qed.

Lemma dinv_reachable s : dreachable g sh s -> dinv s.
Proof. intros [acts H]. eapply dinv_exec; [exact dinv_init|exact H]. Qed.

(** ** Safety: what serve's return means for the connections *)

(** Every connection the application was given -- or that waits in the
    backlog -- is closed, or is still in a connection set that has not been
    cleaned, or its handler has not finished deciding. *)
Theorem handed_owned s h :
  dreachable g sh s -> In h (d_handed s) \/ In h (d_incoming s) ->
  In h (d_closed s) \/
  (exists x, getn h (d_handlers s) = Some x /\ (h_pc x = HAdd \/ h_pc x = HAddFailed)) \/
  (In h (d_set s) /\ (d_set_closed s = false \/ In h (d_snap s))).
Proof.
  intros Hr Hv. pose proof (dinv_reachable s Hr) as I.
  destruct (inv_vis s I h) as (x & Hx & N1 & N2); [tauto|].
  destruct (h_pc x) eqn:Ep; try congruence.
  - right. left. exists x. auto.
  - right. left. exists x. auto.
  - destruct (inv_own s I h x Hx) as [G|G]; [now left| |now left].
    destruct (d_set_closed s) eqn:Ec; [|right; right; auto].
    destruct (inv_set s I Ec h G); [right; right; auto|now left].
  - destruct (inv_own s I h x Hx) as [G|G]; [now right| |now left].
    destruct (d_set_closed s) eqn:Ec; [|right; right; auto].
    destruct (inv_set s I Ec h G); [right; right; auto|now left].
Qed.

(** Once cleanup() has run, a connection whose handler has returned is closed. *)
Theorem finished_handler_closed s h x :
  dreachable g sh s -> d_serve s = LWait \/ d_serve s = LDone ->
  getn h (d_handlers s) = Some x -> h_pc x = HDone -> In h (d_closed s).
Proof.
  intros Hr Hs Hx Hp. pose proof (dinv_reachable s Hr) as I.
  destruct (inv_own s I h x Hx) as [G|G]; [now right| |assumption].
  assert (Ec : d_set_closed s = true).
  { rewrite (inv_flag s I). destruct Hs as [-> | ->]; reflexivity. }
  destruct (inv_set s I Ec h G) as [G'|G']; [|assumption].
  rewrite (inv_snap s I) in G'; [destruct G'|]. destruct Hs as [-> | ->]; discriminate.
Qed.

(** When serve has returned (serveDone is closed) every connection any dial
    handler ever created is closed ... *)
Theorem created_closed_when_done s h x :
  dreachable g sh s -> d_serve s = LDone -> getn h (d_handlers s) = Some x -> In h (d_closed s).
Proof.
  intros Hr Hs Hx. pose proof (dinv_reachable s Hr) as I.
  destruct (inv_join s I Hs) as [J _].
  pose proof (all_done_get _ _ _ _ J Hx) as D. unfold hdone in D.
  destruct (h_pc x) eqn:Ep; try discriminate.
  eapply finished_handler_closed; eauto.
Qed.

(** ... in particular every connection Accept handed to the application,
    and every one still waiting in the backlog. *)
Theorem handed_closed_when_done s h :
  dreachable g sh s -> d_serve s = LDone -> In h (d_handed s) \/ In h (d_incoming s) ->
  In h (d_closed s).
Proof.
  intros Hr Hs Hv. pose proof (dinv_reachable s Hr) as I.
  destruct (inv_vis s I h) as (x & Hx & _); [tauto|].
  eapply created_closed_when_done; eauto.
Qed.

(** ** Progress: serve returns, and nobody outside has to help *)

Lemma hm_done t : hmeasure (mkH HDone t) = 0%nat. Proof. reflexivity. Qed.

(** Internal steps use up the measure; no step of anybody adds to it once the
    loop has been left. *)
Lemma measure_step s a s' :
  dstep s a = Some s' -> d_serve s <> LRun ->
  (dmeasure s' + (if internal a then 1 else 0) <= dmeasure s)%nat /\ d_serve s' <> LRun.
Proof.
  intros H Hs. unfold dmeasure.
  destruct a as [h|h|h i|h|h|h|h|t h k|t|t data|t| | | | | | | ]; cbn [ShutdownDial.dstep internal] in *.
  - break_step H. congruence.
  - break_step H. pose proof (sum_by_setn hmeasure h h0 (mkH HSend true) _ E) as M.
    assert (hmeasure h0 = 5%nat) by (unfold hmeasure; now rewrite E0, E1).
    change (hmeasure (mkH HSend true)) with 4%nat in M.
    unfold smeasure; norm. split; [lia|assumption].
  - break_step H.
    + pose proof (sum_by_setn hmeasure h h0 (mkH HAdd (h_timer h0)) _ E) as M.
      assert (4 <= hmeasure h0)%nat by (unfold hmeasure; rewrite E0; destruct (h_timer h0); lia).
      change (hmeasure (mkH HAdd (h_timer h0))) with 3%nat in M.
      unfold smeasure; norm. split; [lia|assumption].
    + pose proof (sum_by_setn hmeasure h h0 (mkH HAcceptFailed (h_timer h0)) _ E) as M.
      assert (4 <= hmeasure h0)%nat by (unfold hmeasure; rewrite E0; destruct (h_timer h0); lia).
      change (hmeasure (mkH HAcceptFailed (h_timer h0))) with 1%nat in M.
      unfold smeasure; norm. split; [lia|assumption].
  - break_step H. pose proof (sum_by_setn hmeasure h h0 (mkH HDone (h_timer h0)) _ E) as M.
    assert (hmeasure h0 = 1%nat) by (unfold hmeasure; now rewrite E0).
    rewrite hm_done in M.
    destruct (sh_accept_fail_closes sh); unfold smeasure; norm; (split; [lia|assumption]).
  - break_step H.
    + pose proof (sum_by_setn hmeasure h h0 (mkH HAddFailed (h_timer h0)) _ E) as M.
      assert (hmeasure h0 = 3%nat) by (unfold hmeasure; now rewrite E0).
      change (hmeasure (mkH HAddFailed (h_timer h0))) with 1%nat in M.
      unfold smeasure; norm. split; [lia|assumption].
    + pose proof (sum_by_setn hmeasure h h0 (mkH HAdded (h_timer h0)) _ E) as M.
      assert (hmeasure h0 = 3%nat) by (unfold hmeasure; now rewrite E0).
      change (hmeasure (mkH HAdded (h_timer h0))) with 1%nat in M.
      unfold smeasure; norm. split; [|assumption].
      destruct (d_serve s); cbn [List.length]; lia.
  - break_step H. pose proof (sum_by_setn hmeasure h h0 (mkH HDone (h_timer h0)) _ E) as M.
    assert (hmeasure h0 = 1%nat) by (unfold hmeasure; now rewrite E0).
    rewrite hm_done in M.
    destruct (sh_add_fail_closes sh); unfold smeasure; norm; (split; [lia|assumption]).
  - break_step H. pose proof (sum_by_setn hmeasure h h0 (mkH HDone (h_timer h0)) _ E) as M.
    assert (hmeasure h0 = 1%nat) by (unfold hmeasure; now rewrite E0).
    rewrite hm_done in M.
    destruct (sh_success_closes sh); unfold smeasure; norm; (split; [lia|assumption]).
  - break_step H. congruence.
  - destruct (getn t (d_ops s)) as [x0|] eqn:E; [|discriminate].
    destruct (o_pc x0) eqn:E0; try discriminate.
    assert (omeasure x0 = 2%nat) by (unfold omeasure; now rewrite E0).
    destruct (negb (d_set_closed s) && memn (o_sess x0) (d_set s)); injection H as <-.
    + pose proof (sum_by_setn omeasure t x0
                    (mkO (o_sess x0) (o_kind x0) (match o_kind x0 with KRead => PBlocked | KCloseOp => PClosing end))
                    _ E) as M.
      assert (omeasure (mkO (o_sess x0) (o_kind x0)
                (match o_kind x0 with KRead => PBlocked | KCloseOp => PClosing end)) = 1%nat)
        by (unfold omeasure; cbn [o_pc]; now destruct (o_kind x0)).
      unfold smeasure; norm. split; [lia|assumption].
    + pose proof (sum_by_setn omeasure t x0 (mkO (o_sess x0) (o_kind x0) PDone) _ E) as M.
      change (omeasure (mkO (o_sess x0) (o_kind x0) PDone)) with 0%nat in M.
      unfold smeasure; norm. split; [lia|assumption].
  - break_step H. pose proof (sum_by_setn omeasure t o (mkO (o_sess o) (o_kind o) PDone) _ E) as M.
    assert (omeasure o = 1%nat) by (unfold omeasure; now rewrite E0).
    change (omeasure (mkO (o_sess o) (o_kind o) PDone)) with 0%nat in M.
    unfold smeasure; norm. split; [destruct data; cbn [negb]; lia|assumption].
  - destruct (getn t (d_ops s)) as [x0|] eqn:E; [|discriminate].
    destruct (o_pc x0) eqn:E0; try discriminate. injection H as <-.
    pose proof (sum_by_setn omeasure t x0 (mkO (o_sess x0) (o_kind x0) PDone) _ E) as M.
    assert (omeasure x0 = 1%nat) by (unfold omeasure; now rewrite E0).
    change (omeasure (mkO (o_sess x0) (o_kind x0) PDone)) with 0%nat in M.
    pose proof (remove_length_le N.eq_dec (d_set s) (o_sess x0)) as R.
    destruct (d_set_closed s); unfold smeasure; norm; (split; [|assumption]).
    + lia.
    + destruct (d_serve s); lia.
  - break_step H. congruence.
  - break_step H. unfold smeasure; norm. split; [lia|discriminate].
  - break_step H. unfold smeasure; norm. cbn [List.length]. split; [lia|discriminate].
  - break_step H. unfold smeasure; norm. cbn [List.length]. split; [lia|discriminate].
  - break_step H. unfold smeasure; norm. split; [lia|discriminate].
  - break_step H. unfold smeasure; norm. split; [lia|assumption].
  - injection H as <-. unfold smeasure; norm. split; [lia|assumption].
Qed.

(** Along ANY execution that starts after the loop was left -- whatever the
    application and the other threads do in between -- the endpoint's own
    goroutines take at most [dmeasure] steps altogether. *)
Theorem internal_steps_bounded acts : forall s s',
  d_serve s <> LRun -> dexec s acts = Some s' ->
  (dmeasure s' + count_internal acts <= dmeasure s)%nat /\ d_serve s' <> LRun.
Proof.
  induction acts as [|a r IH]; intros s s' Hs He; cbn [ShutdownDial.dexec count_internal] in *.
  - injection He as <-. split; [lia|assumption].
  - destruct (dstep s a) as [s1|] eqn:E; [|discriminate].
    destruct (measure_step s a s1 E Hs) as [M1 M2].
    destruct (IH s1 s' M2 He) as [M3 M4]. split; [|assumption].
    destruct (internal a); lia.
Qed.

(** sendAccept waits behind a timer. *)
Hypothesis Hg : has_arm (ARecv "timer.C") (send_arms g) = true.

(** As long as serve has not returned, one of the endpoint's own goroutines
    can take a step: there is no state in which they all wait for each other
    or for somebody outside. *)
Theorem no_deadlock s :
  dinv s -> d_serve s <> LRun -> d_serve s <> LDone ->
  exists a s', internal a = true /\ dstep s a = Some s'.
Proof.
  intros I H1 H2. destruct (d_serve s) eqn:Es; try congruence.
  - exists DShutdown. eexists. split; [reflexivity|]. cbn [ShutdownDial.dstep]. now rewrite Es.
  - destruct (d_snap s) as [|h r] eqn:En.
    + exists DCleanDone. eexists. split; [reflexivity|]. cbn [ShutdownDial.dstep]. now rewrite Es, En.
    + exists DCleanOne. eexists. split; [reflexivity|]. cbn [ShutdownDial.dstep]. now rewrite Es, En.
  - destruct (all_done hdone (d_handlers s)) eqn:Eh.
    + destruct (all_done odone (d_ops s)) eqn:Eo.
      * exists DJoin. eexists. split; [reflexivity|]. cbn [ShutdownDial.dstep]. now rewrite Es, Eh, Eo.
      * apply all_done_false in Eo. destruct Eo as (t & x & Hx & Hd). unfold odone in Hd.
        destruct (o_pc x) eqn:Ep; try discriminate.
        -- exists (DFind t). cbn [ShutdownDial.dstep]. rewrite Hx, Ep.
           destruct (negb (d_set_closed s) && memn (o_sess x) (d_set s)); eexists; (split; reflexivity).
        -- exists (DOpRet t false). cbn [ShutdownDial.dstep internal negb]. rewrite Hx, Ep.
           assert (Hm : memn (o_sess x) (d_closed s) = true).
           { apply memn_In. destruct (inv_ops s I t x Hx) as [G|G]; [now left| |assumption].
             assert (Ec : d_set_closed s = true) by (rewrite (inv_flag s I), Es; reflexivity).
             destruct (inv_set s I Ec _ G) as [G'|G']; [|assumption].
             rewrite (inv_snap s I) in G'; [destruct G'|]. rewrite Es. discriminate. }
           rewrite Hm. cbn [orb]. eexists. split; reflexivity.
        -- exists (DOpClose t). cbn [ShutdownDial.dstep]. rewrite Hx, Ep.
           eexists. split; reflexivity.
    + apply all_done_false in Eh. destruct Eh as (h & x & Hx & Hd). unfold hdone in Hd.
      destruct (h_pc x) eqn:Ep; try discriminate.
      * destruct (h_timer x) eqn:Et.
        -- apply has_arm_In in Hg. apply In_nth_error in Hg. destruct Hg as [i Hi].
           exists (DArm h i). cbn [ShutdownDial.dstep]. rewrite Hx, Ep, Hi.
           cbn [send_outcome]. cbn [String.eqb Ascii.eqb Bool.eqb andb]. rewrite Et.
           eexists. split; reflexivity.
        -- exists (DTimer h). cbn [ShutdownDial.dstep]. rewrite Hx, Ep, Et.
           eexists. split; reflexivity.
      * exists (DExitFail h). cbn [ShutdownDial.dstep]. rewrite Hx, Ep. eexists. split; reflexivity.
      * exists (DAddStep h). cbn [ShutdownDial.dstep]. rewrite Hx, Ep.
        destruct (d_set_closed s); eexists; (split; reflexivity).
      * exists (DExitAddFail h). cbn [ShutdownDial.dstep]. rewrite Hx, Ep. eexists. split; reflexivity.
      * exists (DExitOK h). cbn [ShutdownDial.dstep]. rewrite Hx, Ep. eexists. split; reflexivity.
Qed.

Corollary no_deadlock_reachable s :
  dreachable g sh s -> d_serve s <> LRun -> d_serve s <> LDone ->
  exists a s', internal a = true /\ dstep s a = Some s'.
Proof. intros Hr. apply no_deadlock. now apply dinv_reachable. Qed.

(** Hence serve returns: from every state in which the loop has been left
    there is a continuation made of internal steps only that ends with
    serve returned -- and every maximal run of internal steps is such a
    continuation, because none can go on for more than [dmeasure] steps. *)
Theorem can_terminate : forall n s,
  dinv s -> d_serve s <> LRun -> (dmeasure s <= n)%nat ->
  exists acts s', forallb internal acts = true /\ dexec s acts = Some s' /\ d_serve s' = LDone.
Proof.
  induction n as [|n IH]; intros s I Hs Hm.
  - destruct (d_serve s) eqn:Es; try congruence;
      try (destruct (no_deadlock s I) as (a & s1 & Ia & Ha); [congruence|congruence|];
           assert (Hs' : d_serve s <> LRun) by congruence;
           destruct (measure_step s a s1 Ha Hs') as [M _]; rewrite Ia in M; lia).
    exists [], s. repeat split; auto.
  - destruct (d_serve s) eqn:Es; try congruence;
      try (destruct (no_deadlock s I) as (a & s1 & Ia & Ha); [congruence|congruence|];
           assert (Hs' : d_serve s <> LRun) by congruence;
           destruct (measure_step s a s1 Ha Hs') as [M M2]; rewrite Ia in M;
           destruct (IH s1 (dinv_step s a s1 I Ha) M2) as (acts & s2 & F & E & D); [lia|];
           exists (a :: acts), s2; cbn [forallb ShutdownDial.dexec]; rewrite Ia, Ha; auto).
    exists [], s. repeat split; auto.
Qed.

Corollary serve_returns s :
  dreachable g sh s -> d_serve s <> LRun ->
  exists acts s', forallb internal acts = true /\ dexec s acts = Some s' /\ d_serve s' = LDone /\
                  forall h, In h (d_handed s') \/ In h (d_incoming s') -> In h (d_closed s').
Proof.
  intros Hr Hs. destruct (can_terminate (dmeasure s) s (dinv_reachable s Hr) Hs (le_n _))
    as (acts & s' & F & E & D).
  exists acts, s'. repeat split; auto.
  intros h Hv. eapply handed_closed_when_done; eauto.
  destruct Hr as [a0 H0]. exists (a0 ++ acts)%list.
  clear -H0 E. revert H0. generalize dinit. induction a0 as [|a r IH]; intros s0 H0; cbn in *.
  - now injection H0 as ->.
  - destruct (dstep s0 a); [eauto|discriminate].
Qed.

End Proofs.

(** ** After serve has returned nothing closes anything any more *)

Section Frozen.
Variable g : ecfg.
Variable sh : dshape.

Definition quiescent (s : dstate) : Prop :=
  d_serve s = LDone /\ all_done hdone (d_handlers s) = true /\ all_done odone (d_ops s) = true.

Lemma quiescent_step s a s' :
  quiescent s -> dstep g sh s a = Some s' -> quiescent s' /\ d_closed s' = d_closed s.
Proof.
  intros (Q1 & Q2 & Q3) H.
  assert (Hh : forall h x, getn h (d_handlers s) = Some x -> h_pc x = HDone).
  { intros h x Hx. pose proof (all_done_get _ _ _ _ Q2 Hx) as D. unfold hdone in D.
    now destruct (h_pc x). }
  assert (Ho : forall t x, getn t (d_ops s) = Some x -> o_pc x = PDone).
  { intros t x Hx. pose proof (all_done_get _ _ _ _ Q3 Hx) as D. unfold odone in D.
    now destruct (o_pc x). }
  assert (HH : forall h (k : hthread -> option dstate),
             (forall x, h_pc x = HDone -> k x = None) ->
             match getn h (d_handlers s) with Some x => k x | None => None end = Some s' -> False).
  { intros h k Hk Hm. destruct (getn h (d_handlers s)) as [x|] eqn:E; [|discriminate].
    rewrite (Hk x (Hh h x E)) in Hm. discriminate. }
  assert (HO : forall t (k : othread -> option dstate),
             (forall x, o_pc x = PDone -> k x = None) ->
             match getn t (d_ops s) with Some x => k x | None => None end = Some s' -> False).
  { intros t k Hk Hm. destruct (getn t (d_ops s)) as [x|] eqn:E; [|discriminate].
    rewrite (Hk x (Ho t x E)) in Hm. discriminate. }
  destruct a as [h|h|h i|h|h|h|h|t h k|t|t data|t| | | | | | | ]; cbn [dstep] in H.
  - rewrite Q1 in H. discriminate.
  - exfalso. refine (HH h _ _ H). intros x Hp. cbn beta. rewrite Hp. reflexivity.
  - exfalso. refine (HH h _ _ H). intros x Hp. cbn beta. rewrite Hp. reflexivity.
  - exfalso. refine (HH h _ _ H). intros x Hp. cbn beta. rewrite Hp. reflexivity.
  - exfalso. refine (HH h _ _ H). intros x Hp. cbn beta. rewrite Hp. reflexivity.
  - exfalso. refine (HH h _ _ H). intros x Hp. cbn beta. rewrite Hp. reflexivity.
  - exfalso. refine (HH h _ _ H). intros x Hp. cbn beta. rewrite Hp. reflexivity.
  - rewrite Q1 in H. discriminate.
  - exfalso. refine (HO t _ _ H). intros x Hp. cbn beta. rewrite Hp. reflexivity.
  - exfalso. refine (HO t _ _ H). intros x Hp. cbn beta. rewrite Hp. reflexivity.
  - exfalso. refine (HO t _ _ H). intros x Hp. cbn beta. rewrite Hp. reflexivity.
  - rewrite Q1 in H. discriminate.
  - rewrite Q1 in H. discriminate.
  - rewrite Q1 in H. discriminate.
  - rewrite Q1 in H. discriminate.
  - rewrite Q1 in H. discriminate.
  - break_step H. unfold quiescent. fields. auto.
  - injection H as <-. unfold quiescent. fields. auto.
Qed.

Lemma quiescent_exec acts : forall s s',
  quiescent s -> dexec g sh s acts = Some s' -> quiescent s' /\ d_closed s' = d_closed s.
Proof.
  induction acts as [|a r IH]; intros s s' Q He; cbn [dexec] in He.
  - injection He as <-. auto.
  - destruct (dstep g sh s a) as [s1|] eqn:E; [|discriminate].
    destruct (quiescent_step s a s1 Q E) as [Q1 C1].
    destruct (IH s1 s' Q1 He) as [Q2 C2]. split; [assumption|congruence].
Qed.

End Frozen.
