(** Candidate inputs for the counterexample search of the sniproxy code
    refinement (Sni/CodeRefine.v).  Requires only the generated file and the
    model. *)
From Coq Require Import List NArith ZArith Bool String.
From Verif Require Import Lib.Bytes Lib.Path Lib.GoLib Sni.Wire Sni.Route Gen.CodeSni.
Import ListNotations.
Local Open Scope N_scope.

(** Names: the empty name, short names, every deployed suffix bare, with a
    label in front, with a character missing at either end and with one
    appended; each once with [net.ParseIP] saying "an address" and once not. *)
Definition cand_names : list bytes :=
  [] :: bs "a" :: bs "example.com" :: bs "10.0.0.1" :: bs "." ::
  flat_map (fun s => let b := bytes_of_string s in
                     [b; bs "x" ++ b; tl b; removelast b; b ++ bs "x"; bs "a.b" ++ b])
           deployed_suffixes.

Definition cands_isRejectedDomain : list (bool * bytes) := pairs [false; true] cand_names.

Definition cex_isRejectedDomain :=
  cex_search Bool.eqb
             (fun x => gen_sniproxy_isRejectedDomain (fun _ => fst x) (snd x))
             (fun x => is_rejected (fun _ => fst x) deployed_suffixes (snd x)) cands_isRejectedDomain.
