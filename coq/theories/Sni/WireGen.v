(** Obligations on the objects regenerated from /repo's source
    (Gen/WireSchema.v).  Each is decided by computation; when the source
    changes shape, the corresponding [Lemma] stops checking. *)
From Coq Require Import List NArith ZArith Bool String Lia.
From Verif Require Import Lib.Bytes Sni.Wire Sni.WireProofs Gen.WireSchema.
From Verif Require Export Sni.WireGenDefs.
From Verif Require Import Sni.WireFrozen.
Import ListNotations.
Local Open Scope N_scope.

Lemma gen_enc_dec_agree : gen_schemas_opt <> None.
Proof. vm_compute. discriminate. Qed.

(** ** Frozen: the deployed protocol is a sub-table of the current one. *)

Definition codes_frozenb (deployed gen : list (string * N)) : bool :=
  list_eqb (fun a b => String.eqb (fst a) (fst b) && (snd a =? snd b))
    deployed (firstn (List.length deployed) gen).

Lemma gen_msg_codes_frozen : codes_frozenb deployed_msg_codes gen_msg_codes = true.
Proof. vm_compute. reflexivity. Qed.

Lemma gen_err_codes_frozen : codes_frozenb deployed_err_codes gen_err_codes = true.
Proof. vm_compute. reflexivity. Qed.

Definition opt_schema_eqb (a : option schema) (b : schema) : bool :=
  match a with Some a' => schema_eqb a' b | None => false end.

Definition opt_names_eqb (a : option (list string)) (b : list string) : bool :=
  match a with Some a' => list_eqb String.eqb a' b | None => false end.

Definition layout_frozenb : bool :=
  forallb (fun ns => opt_schema_eqb (assoc_str (fst ns) gen_schemas) (snd ns))
    deployed_schemas &&
  forallb (fun ns => opt_names_eqb (assoc_str (fst ns) gen_field_names) (snd ns))
    deployed_field_names.

Lemma gen_layout_frozen : layout_frozenb = true.
Proof. vm_compute. reflexivity. Qed.

Definition opt_str_eqb (a b : option string) : bool :=
  match a, b with
  | None, None => true
  | Some x, Some y => String.eqb x y
  | _, _ => false
  end.

Definition requests_frozenb : bool :=
  forallb (fun te =>
    match assoc_N (fst te) gen_requests with
    | Some e => opt_str_eqb e (snd te)
    | None => false
    end) deployed_requests
  && gen_requests_default_unknown.

Lemma gen_requests_frozen : requests_frozenb = true.
Proof. vm_compute. reflexivity. Qed.

(** ** Pairing: both ends of every call agree on both body layouts. *)

Definition schema_of_name (n : string) : option schema :=
  if String.eqb n "" then Some [] else assoc_str n gen_schemas.

Definition opt_schema_eqb2 (a b : option schema) : bool :=
  match a, b with
  | Some x, Some y => schema_eqb x y
  | _, _ => false
  end.

(** server side: request struct for a type code, response struct *)
Definition server_req (t : N) : option string :=
  match assoc_N t gen_requests with
  | Some (Some n) => Some n
  | Some None => Some EmptyString
  | None => None
  end.

Definition dispatch_consistentb : bool :=
  forallb (fun d =>
    match server_req (fst d) with
    | Some n => String.eqb n (fst (snd d))
    | None => false
    end) gen_server_dispatch.

Definition call_compatibleb (c : N * (string * string)) : bool :=
  let '(t, (rq, rs)) := c in
  match server_req t with
  | None => false
  | Some srq =>
      opt_schema_eqb2 (schema_of_name rq) (schema_of_name srq) &&
      match assoc_N t gen_server_dispatch with
      | Some (_, srs) => opt_schema_eqb2 (schema_of_name rs) (schema_of_name srs)
      | None => String.eqb rs ""     (* msgShutdown: no reply body *)
      end
  end.

Definition pairing_okb : bool :=
  dispatch_consistentb && forallb call_compatibleb gen_client_calls.

Lemma gen_pairing_ok : pairing_okb = true.
Proof. vm_compute. reflexivity. Qed.

(** The deployed call sites are still present with the same layouts. *)
Definition deployed_pairing_frozenb : bool :=
  forallb (fun d =>
    let '(t, (rq, rs)) := d in
    match assoc_N t gen_server_dispatch with
    | Some (srq, srs) =>
        opt_schema_eqb2 (assoc_str rq deployed_schemas) (schema_of_name srq) &&
        opt_schema_eqb2 (assoc_str rs deployed_schemas) (schema_of_name srs)
    | None => false
    end) deployed_pairing.

Lemma gen_deployed_pairing_frozen : deployed_pairing_frozenb = true.
Proof. vm_compute. reflexivity. Qed.

(** ** The primitive layer is the code the model was written against. *)

Definition src_eqb (a b : list (string * string)) : bool :=
  list_eqb (fun x y => String.eqb (fst x) (fst y) && String.eqb (snd x) (snd y)) a b.

(** Names of the functions whose text differs (for the report). *)
Fixpoint src_diff (a b : list (string * string)) : list string :=
  match a, b with
  | (n, x) :: a', (_, y) :: b' =>
      if String.eqb x y then src_diff a' b' else n :: src_diff a' b'
  | [], [] => []
  | (n, _) :: _, [] => [n]
  | [], (n, _) :: _ => [n]
  end.

Lemma gen_codec_src_frozen : src_diff gen_codec_src frozen_codec_src = [].
Proof. vm_compute. reflexivity. Qed.

(** ** Size constants *)

Lemma gen_alloc_max_ok : gen_alloc_max <= go_max_alloc.
Proof. vm_compute. discriminate. Qed.

Lemma gen_max_read_size_ok : gen_max_read_size <= go_max_alloc.
Proof. vm_compute. discriminate. Qed.

(** Upper bound on the fields of any request body. *)
Definition gen_max_fields : N :=
  fold_right (fun ns m => N.max (N.of_nat (List.length (snd ns))) m) 0 gen_schemas.

Lemma assoc_str_bound name sch (l : list (string * schema)) :
  assoc_str name l = Some sch ->
  N.of_nat (List.length sch) <=
  fold_right (fun ns m => N.max (N.of_nat (List.length (snd ns))) m) 0 l.
Proof.
  induction l as [|[n s] l IH]; cbn [assoc_str fold_right snd]; [discriminate|].
  destruct (String.eqb name n).
  - intros [= ->]. lia.
  - intros H. specialize (IH H). lia.
Qed.

Lemma gen_table_bounded : table_bounded gen_table gen_max_fields.
Proof.
  intros t name sch. unfold gen_table, mk_request_table.
  destruct (assoc_N t gen_requests) as [[n|]|]; try discriminate.
  destruct (assoc_str n gen_schemas) as [s|] eqn:E; [|discriminate].
  intros [= <- <-]. eapply assoc_str_bound; eauto.
Qed.

(** ** Round 3 (seeded change C13-g): every decoded request owns its bytes.
    Neither [startCall] nor [newRequestMessage] hands a request object a
    buffer before it is decoded, so [decoder.bytes] allocates per call. *)
Lemma gen_write_buf_fresh : gen_write_buf = BufFresh /\ gen_request_buffer_presets = [].
Proof. vm_compute. split; reflexivity. Qed.

(** ** Round 3 (seeded change C13-i): how the package configures its websockets.
    The known settings are the 64 KiB read and write buffers of the server's
    upgrader and the endpoint's dialer - and NO read limit, compression
    setting or anything else: a frame is handed to the decoder whatever its
    size ("no field of a frame, however large, ..."). *)
Definition deployed_ws_config : list (string * string) :=
  [ ("ReadBufferSize", "65536"); ("ReadBufferSize", "65536");
    ("WriteBufferSize", "65536"); ("WriteBufferSize", "65536") ]%string.

Definition ws_no_read_limit (l : list (string * string)) : bool :=
  forallb (fun kv => negb (String.eqb (fst kv) "SetReadLimit"%string)) l.

Lemma gen_ws_no_read_limit : ws_no_read_limit gen_ws_config = true.
Proof. vm_compute. reflexivity. Qed.

Lemma gen_ws_config_frozen : src_eqb gen_ws_config deployed_ws_config = true.
Proof. vm_compute. reflexivity. Qed.
