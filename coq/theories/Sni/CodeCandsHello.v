(** Candidate inputs for the counterexample search of the TLS-hello code
    refinement (Sni/CodeRefineHello.v, C14), and the model's reading of the
    record header as a function of its own.  Requires only the generated file
    and the model. *)
From Coq Require Import List NArith ZArith Bool.
From Verif Require Import Lib.Bytes Lib.Path Lib.GoLib Sni.Hello Gen.CodeSni.
Import ListNotations.
Local Open Scope N_scope.

(** What [sniff] (Sni/Hello.v) does with the five peeked header bytes:
    [None] = the index panic on a short header, [Some None] = "not TLS",
    [Some (Some n)] = the record length whose bytes are peeked next. *)
Definition rec_len_of (hdr : bytes) : option (option N) :=
  match hdr with
  | t :: _ :: _ :: l1 :: l2 :: _ =>
      if negb (t =? rec_handshake) then Some None else Some (Some (l1 * 256 + l2))
  | _ => None
  end.

Definition rec_len_res (r : option (option Z)) : option (option N) :=
  match r with
  | None => None
  | Some None => Some None
  | Some (Some z) => Some (Some (Z.to_N z))
  end.

(** Headers as a successful Peek(5) returns them (five bytes; a longer slice
    is read the same way).  On a shorter header the code answers "not TLS"
    when the first byte already differs and panics otherwise, while the model
    calls both a panic: that case is outside the refinement lemma. *)
Definition cands_HelloInfo_recLen : list bytes :=
  flat_map (fun t => flat_map (fun l1 => flat_map (fun l2 => [[t; 3; 1; l1; l2]; [t; 3; 3; l1; l2; 9]])
    [0; 1; 5; 64; 128; 255]) [0; 1; 16; 63; 64; 255]) [22; 21; 23; 0; 150].

Definition cex_HelloInfo_recLen :=
  cex_search (opt_eqb (opt_eqb N.eqb))
             (fun h => rec_len_res (gen_sniproxy_HelloInfo_recLen (h, None))) rec_len_of cands_HelloInfo_recLen.
