(** Proofs about Sni/ReadHold.v. *)
From Coq Require Import List NArith Bool Arith Lia.
From Verif Require Import Sni.ReadHold.
Import ListNotations.

Lemma nth_error_set_nth_same {A} : forall (l : list A) i v x,
  nth_error l i = Some x -> nth_error (set_nth l i v) i = Some v.
Proof.
  induction l as [|y l IH]; intros [|i] v x; cbn; try discriminate; auto.
  intros H. eapply IH. exact H.
Qed.

(** Nothing shared is held: whatever the other sessions do - any number of
    them, all silent - a session whose application has written gets its read
    answered by its own two steps. *)
Theorem read_with_data_completes st i pc :
  nth_error st i = Some (mkHS pc true) -> pc <= 1 ->
  exists st', (st' = hstep HoldNone st i \/ st' = hstep HoldNone (hstep HoldNone st i) i) /\
              nth_error st' i = Some (mkHS 2 true).
Proof.
  intros Hn Hpc. destruct pc as [|[|pc]]; [| |lia].
  - exists (hstep HoldNone (hstep HoldNone st i) i). split; [right; reflexivity|].
    assert (H1 : nth_error (hstep HoldNone st i) i = Some (mkHS 1 true)).
    { unfold hstep, h_enabled. rewrite Hn. cbn. eapply nth_error_set_nth_same. exact Hn. }
    unfold hstep at 1. unfold h_enabled. rewrite H1. cbn. eapply nth_error_set_nth_same. exact H1.
  - exists (hstep HoldNone st i). split; [left; reflexivity|].
    unfold hstep, h_enabled. rewrite Hn. cbn. eapply nth_error_set_nth_same. exact Hn.
Qed.

(** every handler can always start (acquire nothing) under HoldNone *)
Lemma none_never_waits st i s : nth_error st i = Some s -> hs_pc s = 0 -> h_enabled HoldNone st i = true.
Proof. intros Hn Hp. unfold h_enabled. rewrite Hn, Hp. reflexivity. Qed.

(** A semaphore of [cap] slots held across the blocking read: [cap] silent
    sessions and one more whose application has written.  No handler can take
    a step - the silent ones wait for their applications, the active one for a
    slot - so the bytes the application wrote never leave, although every
    connection stays open. *)
Definition starved (cap : nat) : list hsess := repeat (mkHS 1 false) cap ++ [mkHS 0 true].

Lemma slots_used_repeat cap : slots_used (repeat (mkHS 1 false) cap ++ [mkHS 0 true]) = cap.
Proof.
  unfold slots_used. induction cap as [|c IH]; [reflexivity|]. cbn. rewrite IH. reflexivity.
Qed.

Theorem semaphore_starves cap i :
  h_enabled (HoldSem cap) (starved cap) i = false /\
  nth_error (starved cap) cap = Some (mkHS 0 true).
Proof.
  split.
  - unfold h_enabled, starved. destruct (nth_error _ i) as [s|] eqn:E; [|reflexivity].
    destruct (Nat.lt_ge_cases i cap) as [Hlt|Hge].
    + rewrite nth_error_app1 in E by (rewrite repeat_length; exact Hlt).
      apply nth_error_In, repeat_spec in E. subst s. reflexivity.
    + rewrite nth_error_app2 in E by (rewrite repeat_length; exact Hge). rewrite repeat_length in E.
      destruct (i - cap) as [|k] eqn:Ek; cbn in E.
      * injection E as <-. cbn. rewrite slots_used_repeat. apply Nat.ltb_irrefl.
      * destruct k; discriminate.
  - unfold starved. rewrite nth_error_app2 by (rewrite repeat_length; lia).
    rewrite repeat_length, Nat.sub_diag. reflexivity.
Qed.

(** ... while one slot less is enough for the active session to start. *)
Lemma one_slot_free cap :
  h_enabled (HoldSem (S cap)) (repeat (mkHS 1 false) cap ++ [mkHS 0 true]) cap = true.
Proof.
  unfold h_enabled. rewrite nth_error_app2 by (rewrite repeat_length; lia).
  rewrite repeat_length, Nat.sub_diag. cbn [hs_pc]. rewrite slots_used_repeat. apply Nat.ltb_lt. lia.
Qed.
