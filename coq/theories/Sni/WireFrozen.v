(** The source text of the wire codec's primitive layer that Sni/Wire.v was
    written against (normalised by the translator).  Regenerate this file
    ONLY after re-reading the changed function and updating the model:
    it is a copy of [gen_codec_src] of Gen/WireSchema.v at that moment. *)
From Coq Require Import List String.
Import ListNotations.
Local Open Scope string_scope.

Definition frozen_codec_src : list (string * string) :=
  [ ("decoder.read", "{ if d.err != nil { return } n, err := io.ReadFull(d.r, buf) d.n += int64(n) if err == io.EOF { d.err = io.ErrUnexpectedEOF } else if err != nil { d.err = err } }");
    ("decoder.rest", "{ if d.err != nil { return nil } bs, err := io.ReadAll(d.r) d.n += int64(len(bs)) d.err = err return bs }");
    ("decoder.u8", "{ var buf [1]byte d.read(buf[:]) return buf[0] }");
    ("decoder.u64", "{ if d.hasErr() { return 0 } var buf [8]byte d.read(buf[:]) v := endian.Uint64(buf[:]) return v }");
    ("decoder.bytes", "{ n64 := d.u64() if n64 == 0 { return nil } if d.hasErr() { return nil } if n64 > math.MaxInt64 { d.err = errLengthOverflow return nil } n := int64(n64) if int64(len(buf)) >= n { buf = buf[:n] d.read(buf) return buf } if n <= decodeAllocMax { buf = make([]byte, n) d.read(buf) return buf } var bb bytes.Buffer m, err := io.CopyN(&bb, d.r, n) d.n += m if err == io.EOF { d.err = io.ErrUnexpectedEOF } else if err != nil { d.err = err } return bb.Bytes() }");
    ("decoder.str", "{ return string(d.bytes(nil)) }");
    ("decoder.end", "{ if d.hasErr() { return } var buf1 [1]byte buf := buf1[:] for { n, err := d.r.Read(buf) d.tail += int64(n) if err == io.EOF { break } if err != nil { d.err = err return } if len(buf) <= 1 { buf = make([]byte, 1024) } } d.err = d.tailError() return }");
    ("decoder.tailError", "{ if d.tail == 0 { return nil } return &tailError{n: d.tail} }");
    ("encoder.write", "{ if e.hasErr() { return } n, err := e.w.Write(bs) if err != nil { e.err = err return } e.n += int64(n) }");
    ("encoder.u64", "{ if e.hasErr() { return } var bs [8]byte endian.PutUint64(bs[:], v) e.write(bs[:]) }");
    ("encoder.u8", "{ if e.hasErr() { return } e.write([]byte{v}) }");
    ("encoder.bytes", "{ e.u64(uint64(len(bs))) e.write(bs) }");
    ("encoder.str", "{ bs := []byte(s) e.bytes(bs) }");
    ("remoteErr.encodeTo", "{ if e.code == 0 { enc.u64(0) return } enc.u64(uint64(e.code)) enc.str(e.message) }");
    ("remoteErr.decodeFrom", "{ e.code = int(dec.u64()) if e.code != 0 { e.message = dec.str() } }");
    (".encodeRemoteErr", "{ if err == nil { var empty remoteErr empty.encodeTo(enc) return } err.encodeTo(enc) }");
    (".decodeRemoteErr", "{ err := new(remoteErr) err.decodeFrom(dec) if err.code == 0 { return nil } return err }");
    ("endpointExchange.encodeTo", "{ enc.u64(x.id) enc.u8(x.t) enc.u8(x.errcode) if x.resp != nil { x.resp.encodeTo(enc) } }");
    (".sendExchangeReq", "{ w, err := conn.NextWriter(websocket.BinaryMessage) if err != nil { return err } defer w.Close() enc := newEncoder(w) enc.u64(c.id) enc.u8(c.typ) if c.req != nil { c.req.encodeTo(enc) } if enc.hasErr() { return enc.Err() } return w.Close() }");
    ("endpointServer.startCall", "{ dec := newDecoder(r) id := dec.u64() t := dec.u8() if dec.hasErr() { return nil, dec.Err() } x := &endpointExchange{id: id, t: t} if req, ok := newRequestMessage(t); ok { x.req = req } else { dec.end() return x, nil } if x.req != nil { x.req.decodeFrom(dec) } dec.end() if dec.hasErr() { return nil, dec.Err() } return x, nil }");
    ("endpointServer.handleRead", "{ if s.options.Siding { return &readResponse{err: remoteErrSiding} } conn, rerr := s.findSession(req.session) if rerr != nil { return &readResponse{err: rerr} } size := req.maxRead if size < 0 { return &readResponse{ err: newRemoteErrString(errRead, ""negative read size""), } } if size > maxReadSize { size = maxReadSize } buf := make([]byte, size) n, err := conn.Read(buf) resp := &readResponse{bytes: buf[:n]} if err != nil { if err == io.EOF { resp.err = newRemoteErrString(errEOF, ""eof"") } else { resp.err = newRemoteErr(errRead, err) } } return resp }");
    ("tunnel.Read", "{ req := &readRequest{ session: t.session, maxRead: len(buf), } resp := &readResponse{bytes: buf} if err := t.tr.call(t.ctx, msgRead, req, resp); err != nil { return 0, err } if len(resp.bytes) > len(buf) { return 0, fmt.Errorf( ""read reply of %d bytes exceeds the %d requested"", len(resp.bytes), len(buf), ) } return len(resp.bytes), resp.err.toError() }") ].

