(** Round 3 (seeded change C13-g): ownership of decoded byte fields.

    [serve()] hands every decoded request to a goroutine and goes on to
    decode the next frame: a decoded request is HELD while later frames are
    decoded on the same endpoint.  [held_view pol frames] is what the holder
    of each request sees AFTER all of [frames] have gone through [startCall]
    on one endpointServer, for the buffer policy [pol] of the source.
    Definitions only; proofs in WireOwnProofs.v. *)
From Coq Require Import List NArith ZArith Bool String.
From Verif Require Import Lib.Bytes Sni.Wire.
Import ListNotations.
Local Open Scope N_scope.

Section Own.
Variable alloc_max : N.
Variable tbl : request_table.

Definition decode1 (f : bytes) : call_result := fst (start_call alloc_max tbl f).

(** the payload of a decoded write request *)
Definition write_payload (r : call_result) : option bytes :=
  match r with
  | CReq _ _ name [VU64 _; VBytes b] => if String.eqb name "writeRequest" then Some b else None
  | _ => None
  end.

(** [int64(len(buf)) >= n] with n > 0: decoded into the buffer it was handed *)
Definition in_place (size : N) (b : bytes) : bool := (0 <? lenN b) && (lenN b <=? size).

Definition overlay (buf p : bytes) : bytes := p ++ skipn (List.length p) buf.

Fixpoint zeros (n : nat) : bytes := match n with O => [] | S k => 0 :: zeros k end.

(** the shared buffer after all the decodes *)
Definition final_buf (size : N) (rs : list call_result) : bytes :=
  fold_left (fun buf r => match write_payload r with
                          | Some p => if in_place size p then overlay buf p else buf
                          | None => buf
                          end) rs (zeros (N.to_nat size)).

(** a held request read again: a payload decoded in place shows what the
    shared buffer holds now *)
Definition reread (size : N) (fin : bytes) (r : call_result) : call_result :=
  match r with
  | CReq id t name [VU64 s; VBytes b] =>
      if String.eqb name "writeRequest" && in_place size b
      then CReq id t name [VU64 s; VBytes (firstn (List.length b) fin)]
      else r
  | _ => r
  end.

Definition held_view (pol : buf_policy) (frames : list bytes) : list call_result :=
  let rs := map decode1 frames in
  match pol with
  | BufFresh => rs
  | BufShared size => map (reread size (final_buf size rs)) rs
  | BufUnknown _ => []
  end.
End Own.
