(** Model of sniproxy/tls_hello_conn.go: a bufio.Reader around the front
    connection, [HelloInfo] (Peek(5), Peek(5+recLen), throw-away
    [tls.Server(..).Handshake()] with GetConfigForClient as a sink) and
    [TLSHelloConn.Read].

    Three layers, each written the way the Go code is written:
    - [conn]: the underlying net.Conn, a byte stream delivered in segments
      chosen by an arbitrary schedule;
    - [br]: bufio.Reader ([fill], [Peek], [Read]) with its capacity as a
      parameter (regenerated from the source into Gen/HelloConsts.v);
    - [tls_sink]: what crypto/tls (go1.23) does with the first record up to
      the GetConfigForClient callback: record header checks, handshake header,
      clientHelloMsg.unmarshal with the validity rule of every extension it
      knows.

    Definitions only; proofs are in HelloProofs.v. *)
From Coq Require Import List NArith Bool.
From Verif Require Import Lib.Bytes Sni.Wire.
Import ListNotations.
Local Open Scope N_scope.

(** [rep b n]: n copies of b (used to write padding compactly). *)
Fixpoint repN (b : N) (n : nat) : bytes :=
  match n with O => [] | S n' => b :: repN b n' end.
Definition rep (b n : N) : bytes := repN b (N.to_nat n).

(** * The underlying connection *)

Inductive rerr :=
| REof          (* io.EOF from the connection *)
| RFull         (* bufio.ErrBufferFull *)
| RNotTLS.      (* "not TLS: first byte is not 0x16" *)

(** [c_rest]: bytes the peer has sent and the proxy has not read yet, the
    stream ends after them (the peer closed).  [c_sched]: sizes of the next
    segments the kernel hands out; an empty schedule hands out everything
    that is left, a 0 entry counts as 1 (a Read on a net.Conn with a non-empty
    buffer returns at least one byte or an error). *)
Record conn := mkConn {
  c_rest : bytes;
  c_sched : list N;
  c_late : bool   (* the Read that takes the last bytes reports io.EOF together with them
                     (allowed by io.Reader; TCP and net.Pipe report it separately) *)
}.

(** net.Conn.Read(p) with len(p) = [space] > 0. *)
Definition conn_read (space : N) (c : conn) : bytes * option rerr * conn :=
  match c_rest c with
  | [] => ([], Some REof, c)
  | _ =>
      let seg := match c_sched c with
                 | [] => lenN (c_rest c)
                 | s :: _ => N.max 1 s
                 end in
      let k := N.to_nat (N.min space (N.min seg (lenN (c_rest c)))) in
      let rest := skipn k (c_rest c) in
      (firstn k (c_rest c),
       match rest with [] => if c_late c then Some REof else None | _ => None end,
       mkConn rest (tl (c_sched c)) (c_late c))
  end.

(** * bufio.Reader *)

(** [b_buf] is b.buf[b.r:b.w]; [b_err] the sticky b.err; [b_pulled] is a
    ghost counter of the bytes read from the connection so far. *)
Record br := mkBr { b_buf : bytes; b_err : option rerr; b_conn : conn; b_pulled : N }.

Definition br_new (c : conn) : br := mkBr [] None c 0.

Inductive outcome (A : Type) :=
| Ok (a : A)
| Panic            (* "bufio: tried to fill full buffer" *)
| OutOfFuel.
Arguments Ok {A}. Arguments Panic {A}. Arguments OutOfFuel {A}.

(** b.fill(): slide, then one Read into the free space.  (The retry loop for
    empty reads is not reachable: [conn_read] returns data or an error.) *)
Definition fill (cap : N) (b : br) : outcome br :=
  if cap <=? lenN (b_buf b) then Panic
  else
    let '(got, e, c') := conn_read (cap - lenN (b_buf b)) (b_conn b) in
    Ok (mkBr (b_buf b ++ got) e c' (b_pulled b + lenN got)).

Definition is_none {A} (o : option A) : bool :=
  match o with None => true | Some _ => false end.

(** The loop of Peek: for b.w-b.r < n && b.w-b.r < len(b.buf) && b.err == nil *)
Fixpoint peek_loop (fuel : nat) (cap n : N) (b : br) : outcome br :=
  if (lenN (b_buf b) <? n) && (lenN (b_buf b) <? cap) && is_none (b_err b) then
    match fuel with
    | O => OutOfFuel
    | S f =>
        match fill cap b with
        | Ok b' => peek_loop f cap n b'
        | Panic => Panic
        | OutOfFuel => OutOfFuel
        end
    end
  else Ok b.

(** b.readErr() *)
Definition clear_err (b : br) : br := mkBr (b_buf b) None (b_conn b) (b_pulled b).

(** b.Peek(n), n >= 0.  The fuel handed in by callers is the number of bytes
    the connection still holds plus one: every fill consumes at least one byte
    or sets b.err. *)
Definition peek (cap n : N) (b : br) : outcome (bytes * option rerr * br) :=
  match peek_loop (S (length (c_rest (b_conn b)))) cap n b with
  | Ok b' =>
      if cap <? n then Ok (b_buf b', Some RFull, b')
      else if lenN (b_buf b') <? n then
        Ok (b_buf b',
            Some (match b_err b' with Some e => e | None => RFull end),
            clear_err b')
      else Ok (firstn (N.to_nat n) (b_buf b'), None, b')
  | Panic => Panic
  | OutOfFuel => OutOfFuel
  end.

(** b.Read(p) with len(p) = m. *)
Definition bread (cap m : N) (b : br) : bytes * option rerr * br :=
  if m =? 0 then
    match b_buf b with
    | [] => ([], b_err b, clear_err b)
    | _ => ([], None, b)
    end
  else
    match b_buf b with
    | [] =>
        match b_err b with
        | Some e => ([], Some e, clear_err b)
        | None =>
            if cap <=? m then
              (* large read, empty buffer: read directly into p *)
              let '(got, e, c') := conn_read m (b_conn b) in
              (got, e, mkBr [] None c' (b_pulled b + lenN got))
            else
              (* one read into the buffer, then copy *)
              let '(got, e, c') := conn_read cap (b_conn b) in
              match got with
              | [] => ([], e, mkBr [] None c' (b_pulled b))
              | _ =>
                  let k := N.to_nat m in
                  (firstn k got, None,
                   mkBr (skipn k got) e c' (b_pulled b + lenN got))
              end
        end
    | buf =>
        let k := N.to_nat m in
        (firstn k buf, None, mkBr (skipn k buf) (b_err b) (b_conn b) (b_pulled b))
    end.

(** A sequence of Reads with the given buffer sizes; stops at the first
    error.  Returns the chunks, whether an error ended it, and the reader. *)
Fixpoint breads (cap : N) (ms : list N) (b : br) : list bytes * option rerr * br :=
  match ms with
  | [] => ([], None, b)
  | m :: ms' =>
      let '(got, e, b') := bread cap m b in
      match e with
      | Some _ => ([got], e, b')
      | None => let '(l, e', b'') := breads cap ms' b' in (got :: l, e', b'')
      end
  end.

(** What the proxy still owes the reader of the TLSHelloConn. *)
Definition remaining (b : br) : bytes := b_buf b ++ c_rest (b_conn b).

(** * cryptobyte-style readers (big endian) *)

Definition be16 (v : N) : bytes := [v / 256 mod 256; v mod 256].
Definition be24 (v : N) : bytes := [v / 65536 mod 256; v / 256 mod 256; v mod 256].
Definition be32 (v : N) : bytes :=
  [v / 16777216 mod 256; v / 65536 mod 256; v / 256 mod 256; v mod 256].

Definition take (k : N) (s : bytes) : option (bytes * bytes) :=
  if k <=? lenN s then Some (firstn (N.to_nat k) s, skipn (N.to_nat k) s) else None.

Definition rd_u8 (s : bytes) : option (N * bytes) :=
  match s with b :: r => Some (b, r) | [] => None end.
Definition rd_u16 (s : bytes) : option (N * bytes) :=
  match s with a :: b :: r => Some (a * 256 + b, r) | _ => None end.
Definition rd_u24 (s : bytes) : option (N * bytes) :=
  match s with a :: b :: c :: r => Some (a * 65536 + b * 256 + c, r) | _ => None end.
Definition rd_u32 (s : bytes) : option (N * bytes) :=
  match s with
  | a :: b :: c :: d :: r => Some (a * 16777216 + b * 65536 + c * 256 + d, r)
  | _ => None
  end.

Definition rd_lp8 (s : bytes) : option (bytes * bytes) :=
  match rd_u8 s with Some (n, r) => take n r | None => None end.
Definition rd_lp16 (s : bytes) : option (bytes * bytes) :=
  match rd_u16 s with Some (n, r) => take n r | None => None end.

Definition lp8 (b : bytes) : bytes := lenN b :: b.
Definition lp16 (b : bytes) : bytes := be16 (lenN b) ++ b.

Definition nonempty {A} (b : list A) : bool := match b with [] => false | _ => true end.

(** Results of parsing: a value, "unmarshal returned false", or fuel ran out
    (excluded by a theorem). *)
Inductive pres (A : Type) :=
| POk (a : A)
| PFail
| PFuel.
Arguments POk {A}. Arguments PFail {A}. Arguments PFuel {A}.

(** [for !s.Empty() { item }] *)
Fixpoint parse_many {A} (item : bytes -> option (A * bytes)) (fuel : nat) (s : bytes)
  : pres (list A) :=
  match s with
  | [] => POk []
  | _ =>
      match fuel with
      | O => PFuel
      | S f =>
          match item s with
          | None => PFail
          | Some (x, r) =>
              match parse_many item f r with
              | POk l => POk (x :: l)
              | PFail => PFail
              | PFuel => PFuel
              end
          end
      end
  end.

Definition many {A} (item : bytes -> option (A * bytes)) (s : bytes) : pres (list A) :=
  parse_many item (length s) s.

(** a loop of ReadUint16 until empty: succeeds iff the length is even *)
Fixpoint all_u16 (s : bytes) : bool :=
  match s with
  | [] => true
  | [_] => false
  | _ :: _ :: r => all_u16 r
  end.

(** * clientHelloMsg.unmarshal: extensions *)

Definition ext_server_name : N := 0.
Definition ext_status_request : N := 5.
Definition ext_supported_curves : N := 10.
Definition ext_supported_points : N := 11.
Definition ext_signature_algorithms : N := 13.
Definition ext_alpn : N := 16.
Definition ext_sct : N := 18.
Definition ext_extended_master_secret : N := 23.
Definition ext_session_ticket : N := 35.
Definition ext_pre_shared_key : N := 41.
Definition ext_early_data : N := 42.
Definition ext_supported_versions : N := 43.
Definition ext_cookie : N := 44.
Definition ext_psk_modes : N := 45.
Definition ext_signature_algorithms_cert : N := 50.
Definition ext_key_share : N := 51.
Definition ext_quic_transport_parameters : N := 57.
Definition ext_renegotiation_info : N := 65281.

(** one raw extension: type and data *)
Definition rd_ext (s : bytes) : option ((N * bytes) * bytes) :=
  match rd_u16 s with
  | Some (t, r) =>
      match rd_lp16 r with
      | Some (d, r') => Some ((t, d), r')
      | None => None
      end
  | None => None
  end.

(** one entry of the server name list: (name_type, name), name non-empty *)
Definition rd_name (s : bytes) : option ((N * bytes) * bytes) :=
  match rd_u8 s with
  | Some (t, r) =>
      match rd_lp16 r with
      | Some (n, r') => if nonempty n then Some ((t, n), r') else None
      | None => None
      end
  | None => None
  end.

(** one ALPN protocol: non-empty *)
Definition rd_proto (s : bytes) : option (bytes * bytes) :=
  match rd_lp8 s with
  | Some (p, r) => if nonempty p then Some (p, r) else None
  | None => None
  end.

Definition rd_key_share (s : bytes) : option (unit * bytes) :=
  match rd_u16 s with
  | Some (_, r) =>
      match rd_lp16 r with
      | Some (d, r') => if nonempty d then Some (tt, r') else None
      | None => None
      end
  | None => None
  end.

Definition rd_psk_identity (s : bytes) : option (unit * bytes) :=
  match rd_lp16 s with
  | Some (l, r) =>
      match rd_u32 r with
      | Some (_, r') => if nonempty l then Some (tt, r') else None
      | None => None
      end
  | None => None
  end.

Definition rd_binder (s : bytes) : option (unit * bytes) :=
  match rd_lp8 s with
  | Some (b, r) => if nonempty b then Some (tt, r) else None
  | None => None
  end.

Definition dot : N := 46.

Fixpoint ends_with_dot (s : bytes) : bool :=
  match s with
  | [] => false
  | [c] => c =? dot
  | _ :: r => ends_with_dot r
  end.

(** The loop over the server name list; [cur] is m.serverName. *)
Fixpoint pick_name (cur : bytes) (l : list (N * bytes)) : option bytes :=
  match l with
  | [] => Some cur
  | (t, n) :: r =>
      if t =? 0 then
        if nonempty cur then None            (* two names of type host_name *)
        else if ends_with_dot n then None
        else pick_name n r
      else pick_name cur r                   (* other name types are skipped *)
  end.

Definition pres_ok {A} (p : pres A) : pres unit :=
  match p with POk _ => POk tt | PFail => PFail | PFuel => PFuel end.

Definition of_bool (b : bool) : pres unit := if b then POk tt else PFail.

Definition pand (a b : pres unit) : pres unit :=
  match a with POk _ => b | PFail => PFail | PFuel => PFuel end.

(** lp16 list, non-empty, of u16 values, nothing after *)
Definition u16_list16 (d : bytes) : pres unit :=
  match rd_lp16 d with
  | Some (l, r) => of_bool (nonempty l && all_u16 l && negb (nonempty r))
  | None => PFail
  end.

(** The validity rule of every extension other than server_name and ALPN;
    [last] says whether it is the last extension of the block. *)
Definition other_ext_ok (t : N) (d : bytes) (last : bool) : pres unit :=
  if t =? ext_status_request then
    match rd_u8 d with
    | Some (_, r) =>
        match rd_lp16 r with
        | Some (_, r1) =>
            match rd_lp16 r1 with
            | Some (_, r2) => of_bool (negb (nonempty r2))
            | None => PFail
            end
        | None => PFail
        end
    | None => PFail
    end
  else if t =? ext_supported_curves then u16_list16 d
  else if t =? ext_supported_points then
    match rd_lp8 d with
    | Some (l, r) => of_bool (nonempty l && negb (nonempty r))
    | None => PFail
    end
  else if t =? ext_session_ticket then POk tt
  else if t =? ext_signature_algorithms then u16_list16 d
  else if t =? ext_signature_algorithms_cert then u16_list16 d
  else if t =? ext_renegotiation_info then
    match rd_lp8 d with
    | Some (_, r) => of_bool (negb (nonempty r))
    | None => PFail
    end
  else if t =? ext_extended_master_secret then of_bool (negb (nonempty d))
  else if t =? ext_sct then of_bool (negb (nonempty d))
  else if t =? ext_supported_versions then
    match rd_lp8 d with
    | Some (l, r) => of_bool (nonempty l && all_u16 l && negb (nonempty r))
    | None => PFail
    end
  else if t =? ext_cookie then
    match rd_lp16 d with
    | Some (l, r) => of_bool (nonempty l && negb (nonempty r))
    | None => PFail
    end
  else if t =? ext_key_share then
    match rd_lp16 d with
    | Some (l, r) => pand (pres_ok (many rd_key_share l)) (of_bool (negb (nonempty r)))
    | None => PFail
    end
  else if t =? ext_early_data then of_bool (negb (nonempty d))
  else if t =? ext_psk_modes then
    match rd_lp8 d with
    | Some (_, r) => of_bool (negb (nonempty r))
    | None => PFail
    end
  else if t =? ext_quic_transport_parameters then POk tt
  else if t =? ext_pre_shared_key then
    if negb last then PFail
    else
      match rd_lp16 d with
      | Some (ids, r) =>
          if negb (nonempty ids) then PFail
          else
            pand (pres_ok (many rd_psk_identity ids))
              match rd_lp16 r with
              | Some (bs, r') =>
                  if negb (nonempty bs) then PFail
                  else pand (pres_ok (many rd_binder bs)) (of_bool (negb (nonempty r')))
              | None => PFail
              end
      | None => PFail
      end
  else POk tt.    (* unknown extensions are ignored *)

(** The loop over the extensions; [seen] = seenExts, [name] = m.serverName,
    [protos] = m.alpnProtocols. *)
Fixpoint proc_exts (seen : list N) (name : bytes) (protos : list bytes)
  (l : list (N * bytes)) : pres (bytes * list bytes) :=
  match l with
  | [] => POk (name, protos)
  | (t, d) :: rest =>
      if existsb (N.eqb t) seen then PFail
      else
        let seen' := t :: seen in
        if t =? ext_server_name then
          match rd_lp16 d with
          | Some (nl, r) =>
              if negb (nonempty nl) then PFail
              else
                match many rd_name nl with
                | POk names =>
                    match pick_name name names with
                    | Some name' =>
                        if nonempty r then PFail
                        else proc_exts seen' name' protos rest
                    | None => PFail
                    end
                | PFail => PFail
                | PFuel => PFuel
                end
          | None => PFail
          end
        else if t =? ext_alpn then
          match rd_lp16 d with
          | Some (pl, r) =>
              if negb (nonempty pl) then PFail
              else
                match many rd_proto pl with
                | POk ps =>
                    if nonempty r then PFail
                    else proc_exts seen' name (protos ++ ps) rest
                | PFail => PFail
                | PFuel => PFuel
                end
          | None => PFail
          end
        else
          match other_ext_ok t d (negb (nonempty rest)) with
          | POk _ => proc_exts seen' name protos rest
          | PFail => PFail
          | PFuel => PFuel
          end
  end.

(** clientHelloMsg.unmarshal(data): data is the whole handshake message,
    header included. *)
Definition unmarshal_hello (msg : bytes) : pres (bytes * list bytes) :=
  match take 4 msg with
  | Some (_, s0) =>
  match rd_u16 s0 with
  | Some (_, s1) =>
  match take 32 s1 with
  | Some (_, s2) =>
  match rd_lp8 s2 with
  | Some (_, s3) =>
  match rd_lp16 s3 with
  | Some (suites, s4) =>
      if negb (all_u16 suites) then PFail
      else
  match rd_lp8 s4 with
  | Some (_, s5) =>
      match s5 with
      | [] => POk ([], [])          (* no extension block *)
      | _ =>
          match rd_lp16 s5 with
          | Some (exts, s6) =>
              if nonempty s6 then PFail
              else
                match many rd_ext exts with
                | POk l => proc_exts [] [] [] l
                | PFail => PFail
                | PFuel => PFuel
                end
          | None => PFail
          end
      end
  | None => PFail end
  | None => PFail end
  | None => PFail end
  | None => PFail end
  | None => PFail end
  | None => PFail end.

(** * The record layer and readHandshake, for the first record *)

Definition rec_handshake : N := 22.          (* 0x16 *)
Definition typ_client_hello : N := 1.
Definition max_plaintext : N := 16384.
Definition max_ciphertext : N := 18432.
Definition max_handshake : N := 65536.

(** [rec] is exactly one record, header included (what HelloInfo hands to the
    throw-away server).  Any further record the handshake asks for is an EOF.
    PFail = the callback is never reached. *)
Definition tls_sink (rec : bytes) : pres (bytes * list bytes) :=
  match rec with
  | t :: v1 :: v2 :: l1 :: l2 :: payload =>
      let vers := v1 * 256 + v2 in
      let n := l1 * 256 + l2 in
      if negb (t =? rec_handshake) then PFail
      else if 4096 <=? vers then PFail                 (* vers >= 0x1000 *)
      else if max_ciphertext <? n then PFail
      else if lenN payload <? n then PFail             (* EOF inside the record *)
      else
        let data := firstn (N.to_nat n) payload in
        if max_plaintext <? n then PFail
        else if n =? 0 then PFail
        else
          match data with
          | ht :: h1 :: h2 :: h3 :: _ =>
              let hl := h1 * 65536 + h2 * 256 + h3 in
              if max_handshake <? hl then PFail
              else if n <? 4 + hl then PFail           (* needs another record *)
              else if negb (ht =? typ_client_hello) then PFail
              else unmarshal_hello (firstn (N.to_nat (4 + hl)) data)
          | _ => PFail                                 (* needs another record *)
          end
  | _ => PFail
  end.

(** * HelloInfo *)

Inductive sres :=
| SErr (e : rerr)
| SInfo (name : bytes) (protos : list bytes)
| SFuel.

Definition header_len : N := 5.

Definition sniff (cap : N) (b : br) : outcome (sres * br) :=
  match peek cap header_len b with
  | Ok (hdr, Some e, b1) => Ok (SErr e, b1)
  | Ok (hdr, None, b1) =>
      match hdr with
      | t :: _ :: _ :: l1 :: l2 :: _ =>
          if negb (t =? rec_handshake) then Ok (SErr RNotTLS, b1)
          else
            let rec_len := l1 * 256 + l2 in
            match peek cap (header_len + rec_len) b1 with
            | Ok (_, Some e, b2) => Ok (SErr e, b2)
            | Ok (hello, None, b2) =>
                match tls_sink hello with
                | POk (name, protos) => Ok (SInfo name protos, b2)
                | PFail => Ok (SInfo [] [], b2)
                | PFuel => Ok (SFuel, b2)
                end
            | Panic => Panic
            | OutOfFuel => OutOfFuel
            end
      | _ => Panic     (* index out of range on hdr: excluded by a theorem *)
      end
  | Panic => Panic
  | OutOfFuel => OutOfFuel
  end.

(** The same result computed from the byte stream alone: what HelloInfo must
    return however the stream is segmented. *)
Definition sniff_pure (cap : N) (s : bytes) : sres :=
  if lenN s <? header_len then SErr REof
  else
    match s with
    | t :: _ :: _ :: l1 :: l2 :: _ =>
        if negb (t =? rec_handshake) then SErr RNotTLS
        else
          let n := header_len + (l1 * 256 + l2) in
          if cap <? n then SErr RFull
          else if lenN s <? n then SErr REof
          else
            match tls_sink (firstn (N.to_nat n) s) with
            | POk (name, protos) => SInfo name protos
            | PFail => SInfo [] []
            | PFuel => SFuel
            end
    | _ => SErr REof
    end.

(** * Building a ClientHello *)

Inductive ext :=
| ESni (names : list (N * bytes))      (* (name_type, name) *)
| EAlpn (protos : list bytes)
| EOther (typ : N) (data : bytes).

Record hello_spec := mkHello {
  h_rec_vers : N;            (* record layer version *)
  h_vers : N;                (* legacy_version *)
  h_random : bytes;          (* 32 bytes *)
  h_session : bytes;
  h_suites : list N;         (* u16 each *)
  h_compression : bytes;
  h_exts : option (list ext) (* None: no extension block at all *)
}.

Definition enc_name (tn : N * bytes) : bytes := fst tn :: lp16 (snd tn).

Definition ext_type (e : ext) : N :=
  match e with
  | ESni _ => ext_server_name
  | EAlpn _ => ext_alpn
  | EOther t _ => t
  end.

Definition ext_data (e : ext) : bytes :=
  match e with
  | ESni names => lp16 (concat (map enc_name names))
  | EAlpn protos => lp16 (concat (map lp8 protos))
  | EOther _ d => d
  end.

Definition enc_ext (e : ext) : bytes := be16 (ext_type e) ++ lp16 (ext_data e).

Definition hello_body (h : hello_spec) : bytes :=
  be16 (h_vers h) ++ h_random h ++ lp8 (h_session h)
  ++ lp16 (concat (map be16 (h_suites h))) ++ lp8 (h_compression h)
  ++ match h_exts h with
     | None => []
     | Some es => lp16 (concat (map enc_ext es))
     end.

Definition hello_msg (h : hello_spec) : bytes :=
  typ_client_hello :: be24 (lenN (hello_body h)) ++ hello_body h.

(** [extra]: bytes of a following handshake message in the same record
    (crypto/tls leaves them in its buffer). *)
Definition build_hello (h : hello_spec) (extra : bytes) : bytes :=
  let payload := hello_msg h ++ extra in
  rec_handshake :: be16 (h_rec_vers h) ++ be16 (lenN payload) ++ payload.

(** ** What the hello says *)

Fixpoint host_name_of (l : list (N * bytes)) : bytes :=
  match l with
  | [] => []
  | (t, n) :: r => if t =? 0 then n else host_name_of r
  end.

Fixpoint spec_name_exts (es : list ext) : bytes :=
  match es with
  | [] => []
  | ESni names :: _ => host_name_of names
  | _ :: r => spec_name_exts r
  end.

Fixpoint spec_protos_exts (es : list ext) : list bytes :=
  match es with
  | [] => []
  | EAlpn ps :: _ => ps
  | _ :: r => spec_protos_exts r
  end.

Definition spec_name (h : hello_spec) : bytes :=
  match h_exts h with Some es => spec_name_exts es | None => [] end.
Definition spec_protos (h : hello_spec) : list bytes :=
  match h_exts h with Some es => spec_protos_exts es | None => [] end.

(** ** Well-formed hellos (decidable) *)

Definition count_host_names (l : list (N * bytes)) : nat :=
  length (filter (fun tn => fst tn =? 0) l).

Definition name_okb (tn : N * bytes) : bool :=
  nonempty (snd tn) && (lenN (snd tn) <? 65536)
  && ((negb (fst tn =? 0)) || negb (ends_with_dot (snd tn))).

Definition proto_okb (p : bytes) : bool :=
  nonempty p && (lenN p <? 256).

Definition ext_okb (e : ext) (last : bool) : bool :=
  (lenN (ext_data e) <? 65536) && (ext_type e <? 65536) &&
  match e with
  | ESni names =>
      nonempty (concat (map enc_name names)) && forallb name_okb names
      && Nat.leb (count_host_names names) 1
      && (lenN (concat (map enc_name names)) <? 65536)
  | EAlpn protos =>
      nonempty (concat (map lp8 protos)) && forallb proto_okb protos
      && (lenN (concat (map lp8 protos)) <? 65536)
  | EOther t d =>
      negb (t =? ext_server_name) && negb (t =? ext_alpn) &&
      match other_ext_ok t d last with POk _ => true | _ => false end
  end.

Fixpoint exts_okb (seen : list N) (es : list ext) : bool :=
  match es with
  | [] => true
  | e :: r =>
      negb (existsb (N.eqb (ext_type e)) seen)
      && ext_okb e (negb (nonempty r))
      && exts_okb (ext_type e :: seen) r
  end.

Definition wf_hellob (h : hello_spec) : bool :=
  (h_rec_vers h <? 4096) && (h_vers h <? 65536)
  && (lenN (h_random h) =? 32)
  && (lenN (h_session h) <? 256)
  && forallb (fun s => s <? 65536) (h_suites h)
  && (lenN (concat (map be16 (h_suites h))) <? 65536)
  && (lenN (h_compression h) <? 256)
  && match h_exts h with
     | None => true
     | Some es =>
         (lenN (concat (map enc_ext es)) <? 65536) && exts_okb [] es
     end.
