(** How long [endpointClient.Close] can take (sniproxy/endpoint_client.go,
    transport.go [shutdown]): Close = [tr.shutdown(ctx)] under a context with
    a time-out, followed -- always -- by [c.conn.Close()], the one step that
    makes the serve loop of an unresponsive endpoint return.

    [tr.shutdown] is [tr.call(ctx, msgShutdown)] followed by blocking points
    (select statements / bare channel receives) that are READ OFF THE SOURCE
    ([points_of "transport.shutdown"]).  The call itself returns when it is
    refused (a shutdown hint from the endpoint has closed shutdownSignal
    already: errAlreadyShutdown), when the peer has answered, when the
    context has expired or when serve has exited (Props/C04.v,
    [C04_no_stranded_caller]).  Which of the blocking points a particular
    run passes through depends on branches of the code; the model lets a run
    skip any of them, so a statement about all runs covers every path.

    The peer may answer or stay silent for ever; the hint may or may not
    have come first.

    Definitions only; proofs in ShutdownCloseProofs.v. *)
From Coq Require Import List NArith Bool String.
From Verif Require Import Sni.SchedSkel.
Import ListNotations.
Local Open Scope string_scope.

Inductive clpc :=
| QCall              (* inside tr.call(ctx, msgShutdown) *)
| QPoint (i : nat)   (* at blocking point i of tr.shutdown *)
| QConn              (* tr.shutdown has returned; before c.conn.Close() *)
| QDone.             (* Close has returned *)

Record clstate := mkCl {
  l_pc : clpc;
  l_ctx : bool;          (* the context's time-out has expired *)
  l_sdone : bool;        (* tr.serveDone is closed *)
  l_hint : bool;         (* shutdownSignal was closed before this Close (the endpoint's hint came first) *)
  l_answered : bool;     (* the peer has answered the msgShutdown request *)
  l_silent : bool;       (* the peer never answers anything any more *)
  l_conn_closed : bool   (* c.conn.Close() has been called *)
}.

Definition clinit (hint silent : bool) : clstate := mkCl QCall false false hint false silent false.

Inductive claction :=
| QTimer            (* the time-out expires *)
| QPeerAnswer       (* the peer answers msgShutdown: the reader returns, serve exits *)
| QCallRet          (* tr.call returns *)
| QArm (i j : nat)  (* arm j of blocking point i fires *)
| QSkip (i : nat)   (* blocking point i is not on the path this run takes *)
| QConnClose        (* c.conn.Close() *)
| QServeExit.       (* the websocket is closed: the reader fails, serve exits *)

Section WithPoints.
Variable points : list (list arm).

Definition cl_arm_ready (s : clstate) (a : arm) : bool :=
  match a with
  | ARecv ch =>
      if String.eqb ch "ctx.Done()" then l_ctx s
      else if String.eqb ch "tr.serveDone" then l_sdone s
      else false
  | ADefault => true
  | _ => false
  end.

Definition after_point (i : nat) : clpc :=
  if Nat.ltb (S i) (List.length points) then QPoint (S i) else QConn.

Definition with_lpc (p : clpc) (s : clstate) : clstate :=
  mkCl p (l_ctx s) (l_sdone s) (l_hint s) (l_answered s) (l_silent s) (l_conn_closed s).

Definition clstep (s : clstate) (a : claction) : option clstate :=
  match a with
  | QTimer => Some (mkCl (l_pc s) true (l_sdone s) (l_hint s) (l_answered s) (l_silent s) (l_conn_closed s))
  | QPeerAnswer =>
      if l_silent s then None
      else Some (mkCl (l_pc s) (l_ctx s) true (l_hint s) true (l_silent s) (l_conn_closed s))
  | QCallRet =>
      match l_pc s with
      | QCall =>
          if l_hint s || l_answered s || l_ctx s || l_sdone s
          then Some (with_lpc (match points with [] => QConn | _ => QPoint 0 end) s)
          else None
      | _ => None
      end
  | QArm i j =>
      match l_pc s with
      | QPoint i' =>
          if Nat.eqb i i' then
            match nth_error points i with
            | Some arms =>
                match nth_error arms j with
                | Some a => if cl_arm_ready s a then Some (with_lpc (after_point i) s) else None
                | None => None
                end
            | None => None
            end
          else None
      | _ => None
      end
  | QSkip i =>
      match l_pc s with
      | QPoint i' => if Nat.eqb i i' then Some (with_lpc (after_point i) s) else None
      | _ => None
      end
  | QConnClose =>
      match l_pc s with
      | QConn => Some (mkCl QDone (l_ctx s) (l_sdone s) (l_hint s) (l_answered s) (l_silent s) true)
      | _ => None
      end
  | QServeExit =>
      if l_conn_closed s
      then Some (mkCl (l_pc s) (l_ctx s) true (l_hint s) (l_answered s) (l_silent s) true)
      else None
  end.

Fixpoint clexec (s : clstate) (acts : list claction) : option clstate :=
  match acts with
  | [] => Some s
  | a :: r => match clstep s a with Some s' => clexec s' r | None => None end
  end.

(** Steps of the closing goroutine itself (a skip is control flow, not a step). *)
Definition cl_own (a : claction) : bool :=
  match a with QCallRet | QArm _ _ | QConnClose => true | _ => false end.

Definition cl_measure (s : clstate) : nat :=
  match l_pc s with
  | QCall => List.length points + 2
  | QPoint i => (List.length points - i) + 1
  | QConn => 1
  | QDone => 0
  end.

End WithPoints.

(** Every blocking point can be left through the context. *)
Definition points_timed (points : list (list arm)) : bool :=
  forallb (has_arm (ARecv "ctx.Done()")) points.
