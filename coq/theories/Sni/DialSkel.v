(** Who closes the connection on which exit of a dial handler.

    The translator (gen/sni_rpc.go, genDialSkel) turns the bodies of
    [endpointServer.handleDial] and [endpointServer.handleDialSide2] into
    lists of [hstmt], statement by statement, with respect to the one
    variable that holds the connection the handler creates.  This file
    executes such a list symbolically -- over the outcomes "acceptConn
    fails / succeeds", "conns.add fails / succeeds", every branch of every
    other condition -- and reads off, per class of exit, whether the
    connection has been closed when the handler returns (explicit close, a
    deferred close, or the deferred close "unless ownership was given away":
    [defer func() { if conn != nil { conn.cleanup() } }()] ... [conn = nil]).

    Definitions only.  What must come out for the current source is stated
    in Sni/ShutdownDialGen.v; the blocking model that is parameterised by the
    result is Sni/ShutdownDial.v. *)
From Coq Require Import List Bool String.
Import ListNotations.
Local Open Scope string_scope.

Inductive hcall :=
| CAccept                      (* s.acceptConn(<the connection>) *)
| CAdd                         (* s.conns.add(<the connection>) *)
| COtherCall (text : string).

Inductive hstmt :=
| HNew                                     (* conn := newConnection(id) *)
| HNewOrFail (onfail : list hstmt)         (* conn, err := s.sideConn(..); if err != nil { onfail } *)
| HDeferCloseIfSet                         (* defer func() { if conn != nil { conn.cleanup() } }() *)
| HDeferClose                              (* defer conn.cleanup() *)
| HClose                                   (* conn.cleanup() / conn.Close() *)
| HDisown                                  (* conn = nil *)
| HIfFails (c : hcall) (body : list hstmt) (* if err := c; err != nil { body } *)
| HIf (cond : string) (body : list hstmt)  (* any other if without else *)
| HReturn
| HSkip (text : string)                    (* does not mention the connection *)
| HUnknown (text : string).                (* mentions it in a way not listed above *)

(** What the environment decides on one run of the handler. *)
Record houtcome := mkHO { ho_create : bool; ho_accept : bool; ho_add : bool }.

(** The state of one symbolic run. *)
Record pst := mkP {
  p_created : bool;       (* the connection exists *)
  p_owned : bool;         (* the variable still refers to it (not set to nil) *)
  p_closed : bool;        (* it has been closed *)
  p_accepted : bool;      (* acceptConn took it: the application has it (or will have it) *)
  p_added : bool;         (* conns.add took it: it is in the connection set *)
  p_defer_ifset : bool;   (* a deferred "close unless given away" is pending *)
  p_defer_always : bool;  (* a deferred unconditional close is pending *)
  p_unknown : bool        (* something was not understood on this path *)
}.

Definition p0 : pst := mkP false false false false false false false false.

Definition set_unknown (st : pst) : pst :=
  mkP (p_created st) (p_owned st) (p_closed st) (p_accepted st) (p_added st)
      (p_defer_ifset st) (p_defer_always st) true.

(** The function returns: the deferred calls run. *)
Definition finish (st : pst) : pst :=
  mkP (p_created st) (p_owned st)
      (p_closed st || p_defer_always st || (p_defer_ifset st && p_owned st))
      (p_accepted st) (p_added st) false false (p_unknown st).

(** One statement: the list of (state, returned?) it can lead to. *)
Fixpoint exec_stmt (oc : houtcome) (s : hstmt) (st : pst) {struct s} : list (pst * bool) :=
  let exec_body :=
    fix exec_body (l : list hstmt) (st : pst) {struct l} : list (pst * bool) :=
      match l with
      | [] => [(st, false)]
      | x :: r =>
          flat_map (fun sr : pst * bool => if snd sr then [sr] else exec_body r (fst sr))
                   (exec_stmt oc x st)
      end in
  match s with
  | HNew =>
      if p_created st then [(set_unknown st, false)]
      else [(mkP true true false false false (p_defer_ifset st) (p_defer_always st) (p_unknown st), false)]
  | HNewOrFail onfail =>
      if p_created st then [(set_unknown st, false)]
      else if ho_create oc
      then [(mkP true true false false false (p_defer_ifset st) (p_defer_always st) (p_unknown st), false)]
      else (* no connection: the failure branch must leave the function *)
        map (fun sr : pst * bool => if snd sr then sr else (set_unknown (fst sr), false))
            (exec_body onfail st)
  | HDeferCloseIfSet =>
      [(mkP (p_created st) (p_owned st) (p_closed st) (p_accepted st) (p_added st) true
            (p_defer_always st) (p_unknown st || negb (p_created st)), false)]
  | HDeferClose =>
      [(mkP (p_created st) (p_owned st) (p_closed st) (p_accepted st) (p_added st) (p_defer_ifset st)
            true (p_unknown st || negb (p_created st)), false)]
  | HClose =>
      (* closing through a nil variable would panic *)
      [(mkP (p_created st) (p_owned st) true (p_accepted st) (p_added st) (p_defer_ifset st)
            (p_defer_always st) (p_unknown st || negb (p_created st && p_owned st)), false)]
  | HDisown =>
      [(mkP (p_created st) false (p_closed st) (p_accepted st) (p_added st) (p_defer_ifset st)
            (p_defer_always st) (p_unknown st), false)]
  | HIfFails CAccept body =>
      if ho_accept oc
      then [(mkP (p_created st) (p_owned st) (p_closed st) true (p_added st) (p_defer_ifset st)
                 (p_defer_always st) (p_unknown st || negb (p_created st && p_owned st)), false)]
      else exec_body body st
  | HIfFails CAdd body =>
      if ho_add oc
      then [(mkP (p_created st) (p_owned st) (p_closed st) (p_accepted st) true (p_defer_ifset st)
                 (p_defer_always st) (p_unknown st || negb (p_created st && p_owned st)), false)]
      else exec_body body st
  | HIfFails (COtherCall _) body => (st, false) :: exec_body body st
  | HIf _ body => (st, false) :: exec_body body st
  | HReturn => [(st, true)]
  | HSkip _ => [(st, false)]
  | HUnknown _ => [(set_unknown st, false)]
  end.

Fixpoint exec_list (oc : houtcome) (l : list hstmt) (st : pst) : list (pst * bool) :=
  match l with
  | [] => [(st, false)]
  | x :: r =>
      flat_map (fun sr : pst * bool => if snd sr then [sr] else exec_list oc r (fst sr))
               (exec_stmt oc x st)
  end.

(** Every way through the handler under outcome [oc], after the deferred
    calls; only the runs on which the connection came to exist. *)
Definition runs (oc : houtcome) (l : list hstmt) : list pst :=
  filter p_created (map (fun sr : pst * bool => finish (fst sr)) (exec_list oc l p0)).

(** Every way through it, including those without a connection: is there
    anything that was not understood? *)
Definition understood (l : list hstmt) : bool :=
  forallb (fun oc => forallb (fun sr : pst * bool => negb (p_unknown (fst sr))) (exec_list oc l p0))
          [mkHO true true true; mkHO true true false; mkHO true false true; mkHO true false false;
           mkHO false true true].

(** The shape of a handler, as far as the shutdown model cares. *)
Record dshape := mkDShape {
  sh_accept_fail_closes : bool;   (* every exit after a failed acceptConn leaves the connection closed *)
  sh_add_fail_closes : bool;      (* every exit after a failed conns.add leaves it closed *)
  sh_success_closes : bool;       (* some exit after both succeeded leaves it closed *)
  sh_success_registers : bool     (* every exit after both succeeded has it in the connection set *)
}.

Definition nonempty {A} (l : list A) : bool := match l with [] => false | _ => true end.

(** [None]: something in the body was not understood, or one of the three
    classes of exit does not occur at all. *)
Definition dshape_of (l : list hstmt) : option dshape :=
  let r1 := (runs (mkHO true false true) l ++ runs (mkHO true false false) l)%list in
  let r2 := runs (mkHO true true false) l in
  let r3 := runs (mkHO true true true) l in
  if understood l && nonempty r1 && nonempty r2 && nonempty r3
  then Some (mkDShape (forallb p_closed r1) (forallb p_closed r2) (existsb p_closed r3) (forallb p_added r3))
  else None.

(** The current source must have this one: it closes on every exit that does
    not register, and only there. *)
Definition good_shape : dshape := mkDShape true true false true.

Definition shape_closes (sh : dshape) : bool :=
  sh_accept_fail_closes sh && sh_add_fail_closes sh.

(** A handler without a connection set (the side dial): the connection is
    either closed by the handler or has been taken by acceptConn. *)
Record sshape := mkSShape {
  ss_accept_fail_closes : bool;   (* every exit after a failed acceptConn leaves it closed *)
  ss_success_closes : bool;       (* some exit after a successful one leaves it closed *)
  ss_success_accepted : bool      (* every exit after a successful one has handed it over *)
}.

Definition sshape_of (l : list hstmt) : option sshape :=
  let r1 := runs (mkHO true false true) l in
  let r3 := runs (mkHO true true true) l in
  if understood l && nonempty r1 && nonempty r3
  then Some (mkSShape (forallb p_closed r1) (existsb p_closed r3) (forallb p_accepted r3))
  else None.
