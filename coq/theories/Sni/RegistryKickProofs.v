(** Proofs about the kick path (Sni/RegistryKick.v). *)
From Coq Require Import List NArith ZArith Bool Lia.
From Verif Require Import Sni.Registry Sni.RegistryProofs Sni.RegistryKick.
Import ListNotations.
Local Open Scope N_scope.

Lemma memN_In t l : memN t l = true <-> In t l.
Proof.
  unfold memN. rewrite existsb_exists. split.
  - intros (x & Hx & E). apply N.eqb_eq in E. now subst.
  - intros H. exists t. split; [assumption|apply N.eqb_refl].
Qed.

Section Proofs.
Variable forces : bool.
Notation kstep := (kstep forces).
Notation kexec := (kexec forces).

(** The registry component of a history is a history of the registry model:
    every theorem of Sni/RegistryProofs.v applies to it. *)
Lemma kstep_reg s a s' :
  kstep s a = Some s' ->
  match a with
  | KAct b => step (k_reg s) b = Some (k_reg s')
  | _ => k_reg s' = k_reg s
  end.
Proof.
  destruct a as [b|t|t|t]; cbn [RegistryKick.kstep].
  - destruct b; intros H;
      repeat match type of H with
      | context [match ?e with _ => _ end] => destruct e eqn:?
      end; try discriminate; injection H as <-; cbn [k_reg]; congruence.
  - intros [= <-]. reflexivity.
  - destruct (get t (k_kick s)) as [[| |]|]; try discriminate. intros [= <-]. reflexivity.
  - destruct (get t (k_kick s)) as [[| |]|]; try discriminate. intros [= <-]. reflexivity.
Qed.

Lemma kexec_reg acts : forall s s',
  kexec s acts = Some s' -> exec (k_reg s) (reg_actions acts) = Some (k_reg s').
Proof.
  induction acts as [|a r IH]; intros s s' H; cbn [RegistryKick.kexec] in H.
  - injection H as <-. reflexivity.
  - destruct (kstep s a) as [s1|] eqn:E; [|discriminate].
    pose proof (kstep_reg s a s1 E) as G. specialize (IH s1 s' H).
    destruct a; cbn [reg_actions exec]; [now rewrite G|rewrite <- G; exact IH ..].
Qed.

Theorem kreachable_reg s : kreachable forces s -> reachable (k_reg s).
Proof. intros [acts H]. exists (reg_actions acts). exact (kexec_reg acts kinit s H). Qed.

(** ** With the forced close: a kicked connection ends, whatever its peer does *)

Hypothesis Hforces : forces = true.

(** A kicker that has finished has closed the websocket. *)
Definition kinv (s : kstate) : Prop :=
  forall t, get t (k_kick s) = Some KFinished -> In t (k_closed s).

Lemma kinv_step s a s' : kinv s -> kstep s a = Some s' -> kinv s'.
Proof.
  intros I H. destruct a as [b|t|t|t]; cbn [RegistryKick.kstep] in H.
  - destruct b; repeat match type of H with
      | context [match ?e with _ => _ end] => destruct e eqn:?
      end; try discriminate; injection H as <-; intros t' Ht'; cbn [k_kick k_closed] in *;
      try (now apply I);
      try (right; now apply I).
    (* an upgrade restarts the kicker of the displaced connection *)
    destruct (N.eq_dec n0 t') as [->|Hne];
      [rewrite get_set_same in Ht'; discriminate|rewrite get_set_other in Ht' by assumption; now apply I].
  - injection H as <-. exact I.
  - destruct (get t (k_kick s)) as [[| |]|] eqn:E; try discriminate. injection H as <-.
    intros t' Ht'. cbn [k_kick k_closed] in *. destruct (N.eq_dec t t') as [->|Hne];
      [rewrite get_set_same in Ht'; discriminate|rewrite get_set_other in Ht' by assumption; now apply I].
  - destruct (get t (k_kick s)) as [[| |]|] eqn:E; try discriminate. injection H as <-.
    rewrite Hforces. intros t' Ht'. cbn [k_kick k_closed] in *. destruct (N.eq_dec t t') as [->|Hne];
      [now left|rewrite get_set_other in Ht' by assumption; right; now apply I].
Qed.

Lemma kinv_reachable s : kreachable forces s -> kinv s.
Proof.
  intros [acts H]. assert (G : forall acts s0 s1, kinv s0 -> kexec s0 acts = Some s1 -> kinv s1).
  { clear -Hforces. intros l. induction l as [|a r IH]; intros s0 s1 I0 He; cbn [RegistryKick.kexec] in He.
    - now injection He as <-.
    - destruct (kstep s0 a) as [s2|] eqn:E; [|discriminate]. eapply IH; [|exact He].
      eapply kinv_step; eassumption. }
  eapply G; [|exact H]. intros t Ht. cbn in Ht. discriminate.
Qed.

(** A connection that has been kicked and is still serving: after at most
    two steps of its kicker (the graceful part ends; the forced close) its
    [serve()] can return -- also when its peer is silent for ever. *)
Theorem kicked_serving_can_end s t th k :
  kreachable forces s -> get t (threads (k_reg s)) = Some th ->
  th_pc th = P2 -> th_crashed th = false -> get t (k_kick s) = Some k ->
  exists acts s1 s2, (List.length acts <= 2)%nat /\ kexec s acts = Some s1 /\
    k_reg s1 = k_reg s /\ kstep s1 (KAct (AServeEnd t)) = Some s2.
Proof.
  intros Hr Ht Hp Hc Hk. pose proof (kinv_reachable s Hr) as I.
  assert (Hend : forall s1, k_reg s1 = k_reg s -> In t (k_closed s1) ->
                   exists s2, kstep s1 (KAct (AServeEnd t)) = Some s2).
  { intros s1 Hreg Hin. cbn [RegistryKick.kstep]. apply memN_In in Hin. rewrite Hin, orb_true_r.
    rewrite Hreg. cbn [step]. rewrite Ht, Hp, Hc. cbn. eexists. reflexivity. }
  destruct k.
  - (* waiting: the graceful part ends, then the forced close *)
    set (s1 := mkK (k_reg s) (k_silent s) (k_closed s) (set t KTimedOut (k_kick s))).
    set (s2 := mkK (k_reg s) (k_silent s) (t :: k_closed s) (set t KFinished (k_kick s1))).
    destruct (Hend s2 eq_refl) as [s3 H3]; [now left|].
    exists [KGrace t; KForce t], s2, s3. split; [cbn; lia|]. split; [|split; [reflexivity|exact H3]].
    cbn [RegistryKick.kexec RegistryKick.kstep]. rewrite Hk. fold s1.
    cbn [k_kick s1]. rewrite get_set_same, Hforces. reflexivity.
  - set (s2 := mkK (k_reg s) (k_silent s) (t :: k_closed s) (set t KFinished (k_kick s))).
    destruct (Hend s2 eq_refl) as [s3 H3]; [now left|].
    exists [KForce t], s2, s3. split; [cbn; lia|]. split; [|split; [reflexivity|exact H3]].
    cbn [RegistryKick.kexec RegistryKick.kstep]. rewrite Hk, Hforces. reflexivity.
  - destruct (Hend s eq_refl (I t Hk)) as [s3 H3].
    exists [], s, s3. split; [cbn; lia|]. split; [reflexivity|split; [reflexivity|exact H3]].
Qed.

(** Every displaced connection has a kicker. *)
Theorem upgrade_starts_kicker s t n old s' :
  get n (reg (k_reg s)) = Some old -> kstep s (KAct (AUpgrade t n)) = Some s' ->
  get old (k_kick s') = Some KWaiting.
Proof.
  intros Ho H. cbn [RegistryKick.kstep] in H. destruct (step (k_reg s) (AUpgrade t n)); [|discriminate].
  injection H as <-. cbn [k_kick]. rewrite Ho. apply get_set_same.
Qed.

End Proofs.

(** ** Without the forced close (the seeded change C15-f)

    Connection 1 under name 7 with a silent peer is kicked by connection 2;
    the kicker's graceful part times out and the kicker finishes without
    closing anything.  From then on, whatever happens, connection 1 is still
    serving: it has had its connect notification and never gets the
    disconnect. *)
Definition kick_history : list kaction :=
  [ KAct (AUpgrade 1 7); KAct (AConnect 1 5); KSilent 1;
    KAct (AUpgrade 2 7); KAct (AConnect 2 6); KGrace 1; KForce 1 ].

Definition never_ends (s : kstate) : Prop :=
  (exists th, get 1 (threads (k_reg s)) = Some th /\ th_pc th = P2 /\ th_crashed th = false) /\
  In 1 (k_silent s) /\ ~ In 1 (k_closed s) /\
  proj 1 (log (k_reg s)) = [Connect 7 5 1].

Lemma never_ends_step s a s' : never_ends s -> kstep false s a = Some s' -> never_ends s'.
Proof.
  intros ((th & Ht & Hp & Hc) & Hs & Hn & Hl) H.
  destruct a as [b|t|t|t]; cbn [kstep] in H.
  - assert (Hreg : forall r, step (k_reg s) b = Some r ->
               (exists th', get 1 (threads r) = Some th' /\ th_pc th' = P2 /\ th_crashed th' = false) /\
               proj 1 (log r) = [Connect 7 5 1] \/ b = AServeEnd 1).
    { intros r Hb. destruct b as [t n|t sv|t|t|t|t|n|t n|t]; cbn [step] in Hb.
      - destruct (get t (threads (k_reg s))) eqn:E; [discriminate|]. injection Hb as <-. left.
        cbn [threads log]. split; [|exact Hl]. exists th. rewrite get_set_other; [auto|]. intros ->. congruence.
      - destruct (get t (threads (k_reg s))) as [th0|] eqn:E; [|discriminate].
        destruct (pc_eqb (th_pc th0) P1 && negb (th_crashed th0)) eqn:Eb; [|discriminate]. injection Hb as <-. left.
        assert (t <> 1). { intros ->. rewrite Ht in E. injection E as <-. rewrite Hp in Eb. discriminate. }
        cbn [threads log]. split; [exists th; rewrite get_set_other by assumption; auto|].
        rewrite proj_snoc. cbn [entry_thread]. destruct (t =? 1) eqn:E1; [apply N.eqb_eq in E1; congruence|rewrite app_nil_r; exact Hl].
      - destruct (N.eq_dec t 1) as [->|Hne]; [now right|]. left.
        destruct (get t (threads (k_reg s))) as [th0|] eqn:E; [|discriminate].
        destruct (pc_eqb (th_pc th0) P2 && negb (th_crashed th0)); [|discriminate]. injection Hb as <-.
        unfold set_pc. cbn [threads log]. split; [exists th; rewrite get_set_other by assumption; auto|exact Hl].
      - destruct (get t (threads (k_reg s))) as [th0|] eqn:E; [|discriminate].
        destruct (pc_eqb (th_pc th0) P3 && negb (th_crashed th0)) eqn:Eb; [|discriminate]. injection Hb as <-. left.
        assert (t <> 1). { intros ->. rewrite Ht in E. injection E as <-. rewrite Hp in Eb. discriminate. }
        cbn [threads log]. split; [exists th; rewrite get_set_other by assumption; auto|].
        rewrite proj_snoc. cbn [entry_thread]. destruct (t =? 1) eqn:E1; [apply N.eqb_eq in E1; congruence|rewrite app_nil_r; exact Hl].
      - destruct (get t (threads (k_reg s))) as [th0|] eqn:E; [|discriminate].
        destruct (pc_eqb (th_pc th0) P4) eqn:Eb; [|discriminate]. injection Hb as <-. left.
        assert (t <> 1). { intros ->. rewrite Ht in E. injection E as <-. rewrite Hp in Eb. discriminate. }
        cbn [threads log]. split; [exists th; rewrite get_set_other by assumption; auto|exact Hl].
      - destruct (get t (threads (k_reg s))) as [th0|] eqn:E; [|discriminate].
        destruct (pc_eqb (th_pc th0) P5) eqn:Eb; [|discriminate]. injection Hb as <-. left.
        assert (t <> 1). { intros ->. rewrite Ht in E. injection E as <-. rewrite Hp in Eb. discriminate. }
        unfold set_pc. cbn [threads log]. split; [exists th; rewrite get_set_other by assumption; auto|exact Hl].
      - injection Hb as <-. left. split; [exists th; auto|exact Hl].
      - injection Hb as <-. left. split; [exists th; auto|exact Hl].
      - destruct (get t (threads (k_reg s))) as [th0|] eqn:E; [|discriminate].
        destruct (pc_eqb (th_pc th0) P1) eqn:Eb; [|discriminate]. injection Hb as <-. left.
        assert (t <> 1). { intros ->. rewrite Ht in E. injection E as <-. rewrite Hp in Eb. discriminate. }
        cbn [threads log]. split; [exists th; rewrite get_set_other by assumption; auto|exact Hl]. }
    destruct b as [t n|t sv|t|t|t|t|n|t n|t];
      try solve [destruct (step (k_reg s) _) as [r|] eqn:Er; [|discriminate]; injection H as <-;
                 destruct (Hreg r eq_refl) as [[G1 G2]|G]; [|discriminate];
                 unfold never_ends; cbn [k_reg k_silent k_closed]; auto].
    + (* AServeEnd t *)
      destruct (negb (memN t (k_silent s)) || memN t (k_closed s)) eqn:Eg; [|discriminate].
      destruct (step (k_reg s) (AServeEnd t)) as [r|] eqn:Er; [|discriminate]. injection H as <-.
      destruct (Hreg r eq_refl) as [[G1 G2]|G].
      * unfold never_ends; cbn [k_reg k_silent k_closed]; auto.
      * injection G as ->. exfalso. apply orb_prop in Eg. destruct Eg as [Eg|Eg].
        -- apply negb_true_iff in Eg. apply (proj2 (memN_In 1 _)) in Hs. congruence.
        -- apply memN_In in Eg. contradiction.
    + (* AClose t: closes t's websocket, and t <> 1 *)
      destruct (step (k_reg s) (AClose t)) as [r|] eqn:Er; [|discriminate]. injection H as <-.
      destruct (Hreg r eq_refl) as [[G1 G2]|G]; [|discriminate].
      unfold never_ends; cbn [k_reg k_silent k_closed]. repeat split; auto.
      intros [->|Hin]; [|contradiction].
      cbn [step] in Er. rewrite Ht, Hp in Er. discriminate.
  - injection H as <-. unfold never_ends; cbn [k_reg k_silent k_closed]. repeat split; auto.
    + exists th. auto.
    + now right.
  - destruct (get t (k_kick s)) as [[| |]|]; try discriminate. injection H as <-.
    unfold never_ends; cbn [k_reg k_silent k_closed]. repeat split; auto. exists th. auto.
  - destruct (get t (k_kick s)) as [[| |]|]; try discriminate. injection H as <-.
    unfold never_ends; cbn [k_reg k_silent k_closed]. repeat split; auto. exists th. auto.
Qed.

Theorem kick_without_force_refuted :
  exists s, kexec false kinit kick_history = Some s /\ never_ends s /\
    lookup_name (k_reg s) 7 = Some 2 /\ get 1 (k_kick s) = Some KFinished /\
    forall acts s', kexec false s acts = Some s' -> never_ends s'.
Proof.
  destruct (kexec false kinit kick_history) as [s|] eqn:E; [|vm_compute in E; discriminate].
  exists s. split; [reflexivity|].
  assert (N0 : never_ends s).
  { vm_compute in E. injection E as <-. unfold never_ends. cbn.
    repeat split; try (eexists; repeat split; reflexivity); auto. }
  split; [exact N0|].
  split; [vm_compute in E; injection E as <-; reflexivity|].
  split; [vm_compute in E; injection E as <-; reflexivity|].
  clear E. intros acts. revert s N0. induction acts as [|a r IH]; intros s N0 s' He; cbn [kexec] in He.
  - now injection He as <-.
  - destruct (kstep false s a) as [s1|] eqn:E1; [|discriminate].
    apply (IH s1); [eapply never_ends_step; eassumption|exact He].
Qed.

(** ** The front path must not write the registry (C15-g) *)

(** Connection 1 connects under name 7 and is serving; a front connection's
    dial is answered with an error and the front path unmaps it: the name
    resolves to nothing although the most recently connected connection
    under it has not ended -- [newest_live_is_registered] fails in that
    state, so it is not a state of the registry model. *)
Theorem front_unmap_refuted :
  match exec init [AUpgrade 1 7; AConnect 1 5] with
  | Some s =>
      lookup_name s 7 = Some 1 /\
      let s' := front_unmap s 1 in
      lookup_name s' 7 = None /\ newest s' 7 = Some 1 /\
      (exists th, get 1 (threads s') = Some th /\ th_pc th = P2 /\ live (th_pc th) = true) /\
      proj 1 (log s') = [Connect 7 5 1] /\ ~ reachable s'
  | None => False
  end.
Proof.
  cbn [exec step]. cbn. split; [reflexivity|]. split; [reflexivity|]. split; [reflexivity|].
  split; [eexists; repeat split; reflexivity|]. split; [reflexivity|].
  intros Hr.
  pose proof (newest_live_is_registered _ 7 1 (mkThread 7 P2 5 false) Hr
                eq_refl eq_refl eq_refl eq_refl) as G.
  vm_compute in G. discriminate.
Qed.
