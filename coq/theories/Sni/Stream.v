(** Model of the byte-stream stages between a front connection and the
    connection an endpoint accepts:

    - sniproxy/side_conn.go   sideConn.Write (the n/end loop cutting a buffer
                              into binary frames), sideConn.Read (the curReader
                              machine), CloseWrite (text frame = EOF);
    - sniproxy/connection.go  net.Pipe between handleRead/handleWrite and the
                              endpoint application (legacy mode);
    - sniproxy/tunnel.go + msg_read.go + decoder.go
                              tunnel.Read and where decoder.bytes puts the
                              reply (the caller's buffer or a fresh one);
    - io.Copy in netutil/join_conn.go: Read into a 32 KiB buffer, Write all.

    Each stage turns a list of written chunks into a list of read chunks under
    schedule parameters (segment sizes, reader buffer sizes) that are
    arbitrary.  The stateful loops are written the way the Go code is written.
    The peeking stage in front (TLSHelloConn) is Sni/Hello.v.

    Definitions only; proofs are in StreamProofs.v. *)
From Coq Require Import List NArith Bool.
From Verif Require Import Lib.Bytes Sni.Wire Sni.Hello.
Import ListNotations.
Local Open Scope N_scope.

(** * sideConn.Write *)

Inductive wres :=
| WDone (n : N) (frames : list bytes)   (* returned n, nil; the binary messages sent *)
| WFuel.

(** for n < len(buf) { end := n + chunk; if end > len(buf) { end = len(buf) };
      toSend := buf[n:end]; NextWriter; Write(toSend); n += len(toSend); Close } *)
Fixpoint side_write_loop (fuel : nat) (chunk : N) (buf : bytes) (n : N) (frames : list bytes)
  : wres :=
  if n <? lenN buf then
    match fuel with
    | O => WFuel
    | S f =>
        let e0 := n + chunk in
        let e := if lenN buf <? e0 then lenN buf else e0 in
        let to_send := firstn (N.to_nat (e - n)) (skipn (N.to_nat n) buf) in
        side_write_loop f chunk buf (n + lenN to_send) (frames ++ [to_send])
    end
  else WDone n frames.

Definition side_write (chunk : N) (buf : bytes) : wres :=
  side_write_loop (S (length buf)) chunk buf 0 [].

(** ** A Write that fails part-way

    [fail_at]: the index of the frame at which something fails, [how]: which
    of the three calls: NextWriter (`return n, err`), the message writer's
    Write after accepting [w] bytes (`n += written; return n, err`), or its
    Close (`n += len(toSend)` has already been done: `return n, err`). *)
Inductive wfail := FNext | FWrite (w : N) | FClose.

Inductive wres_f :=
| WOkF (n : N) (frames : list bytes)
| WErrF (n : N) (frames : list bytes) (part : bytes)
    (* returned n with a non-nil error; the messages completed before the failure; the bytes of the
       failing message that were accepted before it failed *)
| WFuelF.

Fixpoint side_write_loop_f (fuel : nat) (chunk : N) (buf : bytes) (n : N) (frames : list bytes)
  (fail_at : option nat) (how : wfail) : wres_f :=
  if n <? lenN buf then
    match fuel with
    | O => WFuelF
    | S f =>
        let e0 := n + chunk in
        let e := if lenN buf <? e0 then lenN buf else e0 in
        let to_send := firstn (N.to_nat (e - n)) (skipn (N.to_nat n) buf) in
        match fail_at with
        | Some O =>
            match how with
            | FNext => WErrF n frames []
            | FWrite w =>
                let k := N.to_nat (N.min w (lenN to_send)) in
                WErrF (n + lenN (firstn k to_send)) frames (firstn k to_send)
            | FClose => WErrF (n + lenN to_send) frames to_send
            end
        | Some (S k) =>
            side_write_loop_f f chunk buf (n + lenN to_send) (frames ++ [to_send]) (Some k) how
        | None =>
            side_write_loop_f f chunk buf (n + lenN to_send) (frames ++ [to_send]) None how
        end
    end
  else WOkF n frames.

Definition side_write_f (chunk : N) (buf : bytes) (fail_at : option nat) (how : wfail) : wres_f :=
  side_write_loop_f (S (length buf)) chunk buf 0 [] fail_at how.

(** * Websocket messages as the reader sees them *)

Inductive msg :=
| MBin (b : bytes)      (* binary message *)
| MText                 (* text message: the peer's CloseWrite *)
| MClose (code : N)     (* close frame: NextReader fails with a CloseError, sticky *)
| MErr.                 (* any other failure of NextReader (connection lost), sticky *)

(** nextReader tests [websocket.IsCloseError(err)] - without any code.
    gorilla's IsCloseError(err, codes...) is true when err is a CloseError
    whose code is one of [codes]; the list passed here is empty. *)
Definition close_codes_tested : list N := [].
Definition close_normal : N := 1000.

Inductive rerrs :=
| SNil                  (* nil *)
| SEof                  (* io.EOF *)
| SErr                  (* another error *)
| SBlock                (* no message has arrived yet: the call would block *)
| SFuel.                (* the model's loop ran out of fuel: excluded by a theorem *)

(** [s_cur]: c.curReader (None = nil) as the bytes it still holds;
    [s_in]: messages that have arrived and not been opened. *)
Record sstate := mkS { s_cur : option bytes; s_in : list msg }.

(** c.nextReader() *)
Definition next_reader (s : sstate) : rerrs * sstate :=
  match s_in s with
  | [] => (SBlock, s)
  | MBin b :: r => (SNil, mkS (Some b) r)
  | MText :: r => (SEof, mkS (s_cur s) r)
  | MClose code :: _ =>
      if existsb (N.eqb code) close_codes_tested then
        (if code =? close_normal then (SEof, s) else (SErr, s))
      else (SErr, s)
  | MErr :: _ => (SErr, s)
  end.

(** One call curReader.Read(buf) with len(buf) = m > 0 on a message reader
    holding [r].  The io.Reader contract leaves two choices to the reader,
    given here by the schedule entry [(k, with_eof)]: how many bytes (at least
    one, at most m and what is left), and whether the end of the message is
    reported together with the last bytes or by a separate (0, EOF). *)
Definition msg_read (m : N) (k : N) (with_eof : bool) (r : bytes) : bytes * bool * bytes :=
  match r with
  | [] => ([], true, [])
  | _ =>
      let n := N.to_nat (N.min (N.max 1 k) (N.min m (lenN r))) in
      let rest := skipn n r in
      (firstn n r, match rest with [] => with_eof | _ => false end, rest)
  end.

(** The for-loop of sideConn.Read; [ks]: one schedule entry per curReader.Read. *)
Fixpoint side_read_loop (fuel : nat) (m : N) (ks : list (N * bool)) (r : bytes) (s : sstate)
  : bytes * rerrs * sstate * list (N * bool) :=
  let '(k, we) := match ks with [] => (m, false) | x :: _ => x end in
  let '(got, eof, rest) := msg_read m k we r in
  if negb eof then (got, SNil, mkS (Some rest) (s_in s), tl ks)      (* err != io.EOF *)
  else
    (* err is EOF: c.curReader = nil *)
    match got with
    | _ :: _ => (got, SNil, mkS None (s_in s), tl ks)                (* n > 0 *)
    | [] =>
        match next_reader (mkS None (s_in s)) with
        | (SNil, s') =>
            match fuel with
            | O => ([], SFuel, s', tl ks)
            | S f =>
                match s_cur s' with
                | Some r' => side_read_loop f m (tl ks) r' s'
                | None => ([], SErr, s', tl ks) (* not reachable: nextReader set it *)
                end
            end
        | (e, s') => ([], e, s', tl ks)
        end
    end.

(** sideConn.Read(buf), len(buf) = m > 0 *)
Definition side_read (m : N) (ks : list (N * bool)) (s : sstate)
  : bytes * rerrs * sstate * list (N * bool) :=
  match s_cur s with
  | Some r => side_read_loop (length (s_in s)) m ks r s
  | None =>
      match next_reader s with
      | (SNil, s') =>
          match s_cur s' with
          | Some r => side_read_loop (length (s_in s')) m ks r s'
          | None => ([], SErr, s', ks)
          end
      | (e, s') => ([], e, s', ks)
      end
  end.

(** A sequence of Reads with the given buffer sizes; stops at the first
    result that is not nil. *)
Fixpoint side_reads (ms : list N) (ks : list (N * bool)) (s : sstate)
  : list bytes * rerrs * sstate :=
  match ms with
  | [] => ([], SNil, s)
  | m :: ms' =>
      let '(got, e, s', ks') := side_read m ks s in
      match e with
      | SNil => let '(l, e', s'') := side_reads ms' ks' s' in (got :: l, e', s'')
      | _ => ([got], e, s')
      end
  end.

(** The binary bytes a reader is still owed before the stream's end marker. *)
Fixpoint bin_prefix (l : list msg) : bytes :=
  match l with
  | MBin b :: r => b ++ bin_prefix r
  | _ => []
  end.

Definition owed (s : sstate) : bytes :=
  match s_cur s with Some r => r | None => [] end ++ bin_prefix (s_in s).

(** What the reader is still owed after a call that returned [e]: once the
    end marker (or an error) has been reported the stream is over. *)
Definition owed_after (e : rerrs) (s : sstate) : bytes :=
  match e with SNil => owed s | _ => [] end.

(** The messages one Write produces; CloseWrite adds the text message. *)
Definition frames_of (chunk : N) (buf : bytes) : list bytes :=
  match side_write chunk buf with WDone _ fs => fs | WFuel => [] end.

Definition side_writes (chunk : N) (ws : list bytes) : list msg :=
  flat_map (fun w => map MBin (frames_of chunk w)) ws.

(** * net.Pipe (legacy mode) *)

(** Pending Write calls of the peer, oldest first.  A Read takes from the
    oldest only; a Write stays pending until all its bytes are taken. *)
Definition pipe := list bytes.

(** conn.Read(buf) on the pipe with len(buf) = m *)
Definition pipe_read (m : N) (p : pipe) : option (bytes * pipe) :=
  match p with
  | [] => None                                  (* would block *)
  | w :: r =>
      let k := N.to_nat (N.min m (lenN w)) in
      match skipn k w with
      | [] => Some (firstn k w, r)
      | rest => Some (firstn k w, rest :: r)
      end
  end.

Fixpoint pipe_reads (ms : list N) (p : pipe) : list bytes * pipe :=
  match ms with
  | [] => ([], p)
  | m :: ms' =>
      match pipe_read m p with
      | None => ([], p)
      | Some (got, p') => let '(l, p'') := pipe_reads ms' p' in (got :: l, p'')
      end
  end.

(** * tunnel.Read: where the reply lands *)

Inductive place :=
| PNil          (* n == 0: returns nil *)
| PInPlace      (* len(buf) >= n: buf[:n] is filled and returned *)
| PAlloc        (* make([]byte, n) *)
| PGrow.        (* bytes.Buffer *)

(** decoder.bytes(buf) for a length prefix n, len(buf) = cap *)
Definition dec_place (alloc_max cap n : N) : place :=
  if n =? 0 then PNil
  else if n <=? cap then PInPlace
  else if n <=? alloc_max then PAlloc
  else PGrow.

(** The caller's buffer after tunnel.Read, [old] before it. *)
Definition buffer_after (old data : bytes) (p : place) : bytes :=
  match p with
  | PInPlace => data ++ skipn (length data) old
  | _ => old
  end.

(** tunnel.Read(buf): handleRead caps the size, reads the pipe once, the
    reply is decoded; the caller gets n and looks at buf[:n].  [None]: would
    block; [Some (None, _)]: the error for an over-long reply. *)
Definition tunnel_read (alloc_max max_read : N) (old : bytes) (p : pipe)
  : option (option bytes * pipe) :=
  let size := N.min (lenN old) max_read in
  match pipe_read size p with
  | None => None
  | Some (data, p') =>
      if lenN old <? lenN data then Some (None, p')
      else
        let after := buffer_after old data (dec_place alloc_max (lenN old) (lenN data)) in
        Some (Some (firstn (length data) after), p')
  end.

Fixpoint tunnel_reads (alloc_max max_read : N) (olds : list bytes) (p : pipe)
  : list bytes * pipe :=
  match olds with
  | [] => ([], p)
  | old :: r =>
      match tunnel_read alloc_max max_read old p with
      | Some (Some view, p') =>
          let '(l, p'') := tunnel_reads alloc_max max_read r p' in (view :: l, p'')
      | _ => ([], p)
      end
  end.

(** * TCP: the reader gets the written bytes in order, cut anywhere *)

Fixpoint rechunk (sizes : list N) (s : bytes) : list bytes :=
  match sizes with
  | [] => match s with [] => [] | _ => [s] end
  | k :: r =>
      match s with
      | [] => []
      | _ => let n := N.to_nat (N.max 1 k) in firstn n s :: rechunk r (skipn n s)
      end
  end.

(** * Whole directions *)

Inductive tmode := TLegacy | TSide.   (* Siding and Siding+DialWithAddr share every stream stage *)

(** Schedule parameters of one direction; all arbitrary. *)
Record sched := mkSched {
  sc_tcp : list N;            (* segmentation of the front connection *)
  sc_late : bool;             (* the front connection reports its end together with the last bytes *)
  sc_copy : list N;           (* buffer sizes of the proxy's copy loop (io.Copy: 32768 each) *)
  sc_ws : list (N * bool);    (* choices of the websocket message reader *)
  sc_app : list N;            (* buffer sizes of the final reader *)
  sc_bufs : list bytes        (* legacy, towards the client: contents of the copy buffer before each Read *)
}.

(** Client to endpoint application.  [stream]: everything the client wrote
    (ClientHello first); the proxy peeks the hello, then copies from the
    TLSHelloConn into the dialled connection. *)
Definition to_app (m : tmode) (cap chunk : N) (sc : sched) (stream : bytes)
  : list bytes * bytes :=
  match sniff cap (br_new (mkConn stream (sc_tcp sc) (sc_late sc))) with
  | Ok (_, b1) =>
      let '(copied, _, b2) := breads cap (sc_copy sc) b1 in
      match m with
      | TSide =>
          let '(outs, e, s') := side_reads (sc_app sc) (sc_ws sc)
                                  (mkS None (side_writes chunk copied)) in
          (outs, owed_after e s' ++ remaining b2)
      | TLegacy =>
          (* tunnel.Write(c) -> handleWrite -> pipe Write(c); empty chunks are
             not written (io.Copy writes only when nr > 0) *)
          let '(outs, p') := pipe_reads (sc_app sc) (filter nonempty copied) in
          (outs, concat p' ++ remaining b2)
      end
  | _ => ([], stream)
  end.

(** Endpoint application to client.  [ws]: the application's Write calls. *)
Definition to_client (m : tmode) (alloc_max max_read chunk : N) (sc : sched) (ws : list bytes)
  : list bytes * bytes :=
  match m with
  | TSide =>
      let '(copied, e, s') := side_reads (sc_copy sc) (sc_ws sc) (mkS None (side_writes chunk ws)) in
      (rechunk (sc_tcp sc) (concat copied), owed_after e s')
  | TLegacy =>
      (* a zero-length Write stays in the pipe until a Read takes it (and returns no bytes) *)
      let '(copied, p') := tunnel_reads alloc_max max_read (sc_bufs sc) ws in
      (rechunk (sc_tcp sc) (concat copied), concat p')
  end.
