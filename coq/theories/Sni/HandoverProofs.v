(** Proofs about Sni/Handover.v. *)
From Coq Require Import List NArith ZArith Bool Lia.
From Coq Require Import ZifyN ZifyNat ZifyBool.
From Verif Require Import Lib.Bytes Sni.Wire Sni.Hello Sni.HelloProofs Sni.Handover.
Import ListNotations.
Local Open Scope N_scope.

Lemma direct_read_spec cap m b got e b' :
  binv cap b -> b_buf b = [] ->
  direct_read m b = (got, e, b') ->
  got ++ remaining b' = remaining b /\ binv cap b' /\ b_buf b' = [] /\ lenN got <= m /\
  (e = None \/ (e = Some REof /\ remaining b' = [])) /\
  (0 < m -> remaining b <> [] -> got <> []).
Proof.
  intros [Hcap Herr] Hbuf. unfold direct_read, remaining. rewrite Hbuf.
  destruct (m =? 0) eqn:Em.
  - intros H. injection H as <- <- Hb. subst b'. rewrite ?Hbuf. cbn [app].
    apply N.eqb_eq in Em. repeat split; auto; try (cbn; lia).

  - apply N.eqb_neq in Em. assert (Hm : 0 < m) by lia.
    destruct (conn_read m (b_conn b)) as [[g e1] c'] eqn:E.
    intros [= <- <- <-]. cbn [b_buf b_conn b_err app].
    destruct (conn_read_spec m (b_conn b) g e1 c' Hm E) as (Hrest & Hlen & Hcases).
    split; [assumption|]. split.
    { split; [cbn; lia|]. cbn [b_err b_conn].
      destruct Herr as [He|[He Hr]]; [left; assumption|]. right. split; [assumption|].
      rewrite Hr in Hrest. destruct g; [cbn in Hrest; assumption|discriminate]. }
    split; [reflexivity|]. split; [assumption|]. split.
    + destruct Hcases as [(-> & _)|[(-> & _ & Hr & _)|(-> & _ & Hr & ->)]]; auto.
    + intros _ Hne. destruct Hcases as [(_ & Hg & _)|[(_ & Hg & _)|(_ & _ & Hr & _)]]; auto; try contradiction.
Qed.

(** One Read under a transparent policy: what is returned plus what is still
    owed is what was owed; the reader stays in its invariant and never goes
    direct with bytes in the buffer; at most m bytes; an error is the end of
    the stream; with a non-empty buffer and bytes owed at least one byte. *)
Lemma hc_read_spec pol cap m h got e h' :
  handover_transparentb pol = true ->
  0 < cap -> binv cap (hc_br h) -> hc_direct h = false ->
  hc_read pol cap m h = Some (got, e, h') ->
  got ++ hc_owed h' = hc_owed h /\ binv cap (hc_br h') /\ hc_direct h' = false /\
  lenN got <= m /\
  (e = None \/ (e = Some REof /\ hc_owed h' = [])) /\
  (0 < m -> hc_owed h <> [] -> got <> []).
Proof.
  intros Hpol Hcap Hinv Hd. unfold hc_owed. rewrite Hd.
  destruct pol; try discriminate; cbn [hc_read].
  - destruct (bread cap m (hc_br h)) as [[g e1] b'] eqn:E. intros [= <- <- <-]. cbn [hc_direct hc_br].
    destruct (bread_spec cap m (hc_br h) g e1 b' Hcap Hinv E) as (H1 & H2 & H3 & H4 & H5). auto 10.
  - destruct (b_buf (hc_br h)) as [|x buf] eqn:Eb.
    + destruct (direct_read m (hc_br h)) as [[g e1] b'] eqn:E. intros [= <- <- <-]. cbn [hc_direct hc_br].
      destruct (direct_read_spec cap m (hc_br h) g e1 b' Hinv Eb E) as (H1 & H2 & _ & H3 & H4 & H5). auto 10.
    + destruct (bread cap m (hc_br h)) as [[g e1] b'] eqn:E. intros [= <- <- <-]. cbn [hc_direct hc_br].
      destruct (bread_spec cap m (hc_br h) g e1 b' Hcap Hinv E) as (H1 & H2 & H3 & H4 & H5). auto 10.
Qed.

(** Every sequence of caller buffer sizes. *)
Lemma hc_reads_spec pol cap : forall ms h chunks e h',
  handover_transparentb pol = true ->
  0 < cap -> binv cap (hc_br h) -> hc_direct h = false ->
  hc_reads pol cap ms h = Some (chunks, e, h') ->
  concat chunks ++ hc_owed h' = hc_owed h /\ binv cap (hc_br h') /\ hc_direct h' = false /\
  (e <> None -> hc_owed h' = [] /\ e = Some REof).
Proof.
  induction ms as [|m ms IH]; intros h chunks e h' Hpol Hcap Hinv Hd.
  - intros [= <- <- <-]. cbn [concat app]. repeat split; auto; try apply Hinv; congruence.
  - cbn [hc_reads]. destruct (hc_read pol cap m h) as [[[got e1] h1]|] eqn:E1; [|discriminate].
    destruct (hc_read_spec pol cap m h got e1 h1 Hpol Hcap Hinv Hd E1) as (Hrem & Hinv1 & Hd1 & _ & He1 & _).
    destruct e1 as [e1|].
    + intros [= <- <- <-]. cbn [concat]. rewrite app_nil_r. repeat split; auto; try apply Hinv1.
      * destruct He1 as [|[_ Hr]]; [discriminate|assumption].
      * destruct He1 as [|[-> _]]; [discriminate|reflexivity].
    + destruct (hc_reads pol cap ms h1) as [[[l e2] h2]|] eqn:E2; [|discriminate].
      intros [= <- <- <-].
      destruct (IH h1 l e2 h2 Hpol Hcap Hinv1 Hd1 E2) as (Hrem2 & Hinv2 & Hd2 & He2).
      cbn [concat]. rewrite <- app_assoc, Hrem2. auto.
Qed.

(** A transparent policy never gets stuck. *)
Lemma hc_reads_defined pol cap : forall ms h,
  handover_transparentb pol = true -> exists r, hc_reads pol cap ms h = Some r.
Proof.
  induction ms as [|m ms IH]; intros h Hpol; [eexists; reflexivity|].
  cbn [hc_reads].
  assert (exists g e h1, hc_read pol cap m h = Some (g, e, h1)) as (g & e & h1 & ->).
  { destruct pol; try discriminate; cbn [hc_read].
    - destruct (bread cap m (hc_br h)) as [[g e] b']. eauto.
    - destruct (b_buf (hc_br h)); [destruct (direct_read m (hc_br h)) as [[g e] b']|
                                    destruct (bread cap m (hc_br h)) as [[g e] b']]; eauto. }
  destruct e; [eexists; reflexivity|].
  destruct (IH h1 Hpol) as [[[l e'] h2] ->]. eexists; reflexivity.
Qed.

Lemma hc_read_progress pol cap m h got e h' :
  handover_transparentb pol = true ->
  0 < cap -> binv cap (hc_br h) -> hc_direct h = false -> 0 < m -> hc_owed h <> [] ->
  hc_read pol cap m h = Some (got, e, h') ->
  (length (hc_owed h') < length (hc_owed h))%nat /\ got <> [].
Proof.
  intros Hpol Hcap Hinv Hd Hm Hne E.
  destruct (hc_read_spec pol cap m h got e h' Hpol Hcap Hinv Hd E) as (Hrem & _ & _ & _ & _ & Hp).
  pose proof (Hp Hm Hne) as Hg. split; [|assumption].
  rewrite <- Hrem, app_length. destruct got; [contradiction|cbn [length]; lia].
Qed.

(** Sniffing, then any sequence of Reads under a transparent policy: the
    stream from its first byte. *)
Theorem sniff_then_handover pol cap stream sched late ms peeked :
  handover_transparentb pol = true -> 5 <= cap ->
  exists b1,
    sniff cap (br_new (mkConn stream sched late)) = Ok (sniff_pure cap stream, b1) /\
    remaining b1 = stream /\
    exists chunks e h2,
      hc_reads pol cap ms (hc_start peeked b1) = Some (chunks, e, h2) /\
      concat chunks ++ hc_owed h2 = stream /\
      (e <> None -> concat chunks = stream /\ e = Some REof).
Proof.
  intros Hpol Hcap.
  destruct (sniff_then_reads cap stream sched late [] Hcap) as (b1 & Hs & _ & Hinv & Hrem & _).
  exists b1. split; [assumption|]. split; [assumption|].
  destruct (hc_reads_defined pol cap ms (hc_start peeked b1) Hpol) as [[[chunks e] h2] E].
  exists chunks, e, h2. split; [assumption|].
  assert (Hc : 0 < cap) by lia.
  destruct (hc_reads_spec pol cap ms (hc_start peeked b1) chunks e h2 Hpol Hc Hinv eq_refl E)
    as (H1 & _ & _ & H2).
  unfold hc_owed at 2 in H1. cbn [hc_start hc_direct hc_br] in H1. rewrite Hrem in H1.
  split; [assumption|]. intros He. destruct (H2 He) as [Ho ->]. rewrite Ho, app_nil_r in H1. auto.
Qed.

(** Handing over by count is not transparent: when the peek buffer holds
    more than the hello and the caller's Read ends exactly with (or inside
    the byte that completes) the hello, the rest of the buffer is gone. *)
Lemma handover_by_count_drops cap b hello extra :
  0 < cap -> hello <> [] -> extra <> [] -> b_buf b = hello ++ extra ->
  exists h',
    hc_read HoAfterCount cap (lenN hello) (hc_start (lenN hello) b) = Some (hello, None, h') /\
    hc_direct h' = true /\
    hc_owed h' = c_rest (b_conn b) /\
    hello ++ hc_owed h' <> remaining b.
Proof.
  intros Hcap Hh Hx Hbuf. unfold hc_start, hc_read. cbn [hc_direct hc_br hc_left].
  assert (Hm : (lenN hello =? 0) = false).
  { apply N.eqb_neq. intros H0. apply lenN_0 in H0. contradiction. }
  assert (Hb : bread cap (lenN hello) b
               = (hello, None, mkBr extra (b_err b) (b_conn b) (b_pulled b))).
  { unfold bread. rewrite Hm, Hbuf.
    destruct (hello ++ extra) eqn:Ebuf; [destruct hello; [contradiction|discriminate]|].
    rewrite <- Ebuf. unfold lenN. rewrite Nat2N.id.
    rewrite firstn_app, Nat.sub_diag, firstn_all, firstn_O, app_nil_r.
    rewrite skipn_app, Nat.sub_diag, skipn_all, skipn_O. reflexivity. }
  rewrite Hb.
  assert (H1 : (0 <? lenN hello) = true).
  { apply N.ltb_lt. apply N.eqb_neq in Hm. lia. }
  rewrite H1, N.leb_refl. eexists. split; [reflexivity|]. split; [reflexivity|].
  unfold hc_owed. cbn [hc_direct hc_br b_conn]. split; [reflexivity|].
  unfold remaining. rewrite Hbuf. rewrite <- app_assoc. intros H. apply app_inv_head in H.
  apply (f_equal (@length N)) in H. rewrite app_length in H. destruct extra; [contradiction|cbn in H; lia].
Qed.
